"""EXTCFG driver: one REAL IpPairing (IpPairing / ZeroconfPairing / AbstractPairing code unchanged) created by a real
IpController.load_pairing over a real characteristic cache (memory or file), on one virtual-time loop.  Only the
transport is a stand-in: `StubConnection` takes the place of SecureHomeKitConnection and offers exactly what
IpPairing uses of it (is_connected, ensure_connection, get_json, reconnect_soon, close, hosts / port /
connected_host / last_connector_error), with the semantics of the real class that matter here: requests are FIFO,
a request on a connection that is lost fails with AccessoryDisconnectedError, ensure_connection returns when the
connector (which awaits owner.connection_made(True) first) is done.  The driver decides when the connection comes
and goes, when the accessory answers (with its database as of that moment) and when the answer arrives.

The driver applies one stimulus at a time, lets the loop run until nothing is ready and logs one event per stimulus
for spec/cfgcache/CfgCache_Trace.tla: the stimulus, `out` (what became visible meanwhile, with multiplicities),
`saves` (what a restart would have read from the cache after every write) and `obs` (what is visible afterwards).
Nothing here decides a verdict.

Abstract values (CfgCache.tla) <-> concrete ones:
  database version v -> accessory database whose serial-number characteristic reads str(v), with v - 1 extra services;
  configuration number c >= 1 -> c# = cbase + c (0 = legacy cache entry without config_num, -1 = no state);
  listener i of registry cfg / avail / ev -> a callable registered with dispatcher_connect_config_changed /
  dispatcher_availability_changed / dispatcher_connect; listeners in ONESHOT call their stop_listening closure
  from inside the callback.
"""
from __future__ import annotations

import asyncio
import copy
import hashlib
import json
import logging
import pathlib
from unittest.mock import MagicMock

from harness.vloop import close_loop, new_loop

logging.getLogger("aiohomekit").addHandler(logging.NullHandler())
logging.getLogger("aiohomekit").propagate = False
logging.getLogger("asyncio").addHandler(logging.NullHandler())
logging.getLogger("asyncio").propagate = False

ONESHOT = (3, 4)
LISTENERS = (1, 2, 3, 4)
REGS = ("cfg", "avail", "ev")
MAXV = 6
MAXFLIGHT = 12       # calls in flight the trace configurations allow for (MaxTasks / MaxOps = 16)
ALIAS = "alias-cfg"
SERIAL = "00000030-0000-1000-8000-0026BB765291"
BAD = -9

_CUR = None          # the world whose loop is running (the class-level hooks below report to it)

_BASE = [
    {"aid": 1, "services": [
        {"iid": 1, "type": "0000003E-0000-1000-8000-0026BB765291", "characteristics": [
            {"iid": 2, "type": "00000014-0000-1000-8000-0026BB765291", "perms": ["pw"], "format": "bool"},
            {"iid": 3, "type": "00000023-0000-1000-8000-0026BB765291", "perms": ["pr"], "format": "string", "value": "Sim"},
            {"iid": 4, "type": "00000020-0000-1000-8000-0026BB765291", "perms": ["pr"], "format": "string", "value": "verif"},
            {"iid": 5, "type": "00000021-0000-1000-8000-0026BB765291", "perms": ["pr"], "format": "string", "value": "m"},
            {"iid": 6, "type": SERIAL, "perms": ["pr"], "format": "string", "value": "1"},
            {"iid": 7, "type": "00000052-0000-1000-8000-0026BB765291", "perms": ["pr"], "format": "string", "value": "1.0"},
        ]},
        {"iid": 8, "type": "00000043-0000-1000-8000-0026BB765291", "characteristics": [
            {"iid": 9, "type": "00000025-0000-1000-8000-0026BB765291", "perms": ["pr", "pw", "ev"], "format": "bool", "value": False},
        ]},
    ]},
]


def database(v: int):
    """accessory database, version v (as the accessory sends it: long upper-case types)"""
    acc = copy.deepcopy(_BASE)
    for ch in acc[0]["services"][0]["characteristics"]:
        if ch["type"] == SERIAL:
            ch["value"] = str(v)
    for k in range(2, v + 1):          # structural change, not only a value
        acc[0]["services"].append({"iid": 20 + 3 * k, "type": "00000049-0000-1000-8000-0026BB765291", "characteristics": [
            {"iid": 21 + 3 * k, "type": "00000025-0000-1000-8000-0026BB765291", "perms": ["pr", "pw", "ev"], "format": "bool", "value": False}]})
    return acc


def version_of_list(lst) -> int:
    """database version of a serialised accessory list (BAD: not one of ours)"""
    try:
        for a in lst:
            for s in a["services"]:
                for ch in s["characteristics"]:
                    if str(ch.get("type", "")).upper() in (SERIAL, "30"):
                        v = int(ch["value"])
                        return v if len(lst[0]["services"]) == 2 + max(0, v - 1) else BAD
    except Exception:  # noqa: BLE001
        return BAD
    return BAD


# ---------------------------------------------------------------------------------------- the transport stand-in
class _Req:
    def __init__(self, fut):
        self.fut, self.replied, self.payload = fut, False, None


class StubConnection:
    """what IpPairing uses of SecureHomeKitConnection; the driver moves it"""

    def __init__(self, owner, pairing_data):
        self.owner = owner
        self.pairing_data = pairing_data
        self.hosts = [pairing_data.get("AccessoryIP", "10.9.9.9")]
        self.port = pairing_data.get("AccessoryPort", 51826)
        self.connected_host = None
        self.up = False
        self.pending: list[_Req] = []
        self.waiting = 0
        self._up_fut = None
        self._last_connector_error = None
        self.world = _CUR

    @property
    def is_connected(self):
        return self.up

    @property
    def last_connector_error(self):
        return self._last_connector_error

    @property
    def name(self):
        return f"stub:{self.hosts}:{self.port}"

    def reconnect_soon(self):
        self.world.emit("rsoon")

    async def ensure_connection(self):
        if self.up:
            return
        loop = asyncio.get_running_loop()
        if self._up_fut is None or self._up_fut.done():
            self._up_fut = loop.create_future()
        self.waiting += 1
        try:
            await asyncio.shield(self._up_fut)
        finally:
            self.waiting -= 1

    async def get_json(self, target):
        from aiohomekit.exceptions import AccessoryDisconnectedError
        if not self.up:
            raise AccessoryDisconnectedError("Connection lost before request could be sent")
        if target != "/accessories":
            self.world.emit("badreq")
        r = _Req(asyncio.get_running_loop().create_future())
        self.pending.append(r)
        self.world.emit("req")
        try:
            return await r.fut
        finally:
            if r in self.pending:          # the caller was cancelled
                self.pending.remove(r)

    async def close(self):
        self.link_down()

    # ---- moved by the driver
    async def link_up(self):
        self.up = True
        self.connected_host = self.hosts[0]
        await self.owner.connection_made(True)
        fut, self._up_fut = self._up_fut, None
        if fut is not None and not fut.done():
            fut.set_result(None)

    def link_down(self):
        from aiohomekit.exceptions import AccessoryDisconnectedError
        self.up = False
        self.connected_host = None
        pend, self.pending = self.pending, []
        for r in pend:
            if not r.fut.done():
                r.fut.set_exception(AccessoryDisconnectedError("Connection closed (simulated)"))


def _install():
    """the transport stand-in and the class-level observation hook on _process_config_changed (idempotent)"""
    import aiohomekit.controller.ip.pairing as IPP
    if getattr(IPP, "_extcfg", False):
        return
    IPP.SecureHomeKitConnection = StubConnection
    orig = IPP.IpPairing._process_config_changed

    async def observed(self, config_num):
        w = _CUR
        mine = w is not None and self is w.pairing_or_loading()
        if mine:
            w.emit("cfgtask", w.abs_c(config_num))
        try:
            r = await orig(self, config_num)
        except asyncio.CancelledError:
            raise
        except BaseException as ex:
            if mine and _CUR is w and self is w.pairing:
                w.emit("cfgend", w.abs_c(config_num), 0)
                w.note_err(ex)
            raise
        if mine and _CUR is w and self is w.pairing:
            w.emit("cfgend", w.abs_c(config_num), 1)
        return r
    IPP.IpPairing._process_config_changed = observed
    IPP._extcfg = True


class Lsn:
    """a listener; hash fixed so that the iteration order of the registry does not depend on addresses"""

    def __init__(self, world, reg, i, gen):
        self.world, self.reg, self.i, self.gen = world, reg, i, gen
        self.stop = None

    def __hash__(self):
        return REGS.index(self.reg) * 16 + self.i

    def __eq__(self, other):
        return self is other

    def __call__(self, arg):
        w = self.world
        if w.gen != self.gen or w.handles[self.reg].get(self.i) is not self:
            w.emit("ghost", self.i, REGS.index(self.reg))          # called although not registered (any more)
        elif self.reg == "cfg":
            w.emit("notify", self.i, w.abs_c(arg) if isinstance(arg, int) and not isinstance(arg, bool) else BAD)
            w.emit("nview", self.i, w.view())
        elif self.reg == "avail":
            w.emit("avail", self.i, 1 if arg is True else 0)
        else:
            w.emit("event", self.i, 0 if arg == {} else 1)
        if self.i in ONESHOT and w.handles[self.reg].get(self.i) is self:
            del w.handles[self.reg][self.i]
            self.stop()


class World:
    def __init__(self, cache0=0, accv0=1, tag="", cache_kind="mem", tmpdir=None, cbase=0):
        global _CUR
        _install()
        self.params = {"cache0": int(cache0), "accv0": int(accv0), "tag": tag, "cache_kind": cache_kind, "cbase": int(cbase)}
        self.cbase = int(cbase)
        h = hashlib.sha256(("extcfg" + tag).encode()).hexdigest()
        self.acc_id = ("C4:7D:" + ":".join(h[i:i + 2] for i in (0, 2, 4, 6))).upper()
        if int(h[8], 16) % 2:
            self.acc_id = self.acc_id.lower()
        self.pdata = {"AccessoryPairingID": self.acc_id, "AccessoryLTPK": "00" * 32, "iOSPairingId": "decc6fa3-de3e-41c9-adba-ef7409821bfc",
                      "iOSDeviceLTSK": "11" * 32, "iOSDeviceLTPK": "22" * 32, "AccessoryIP": "10.9.9.9", "AccessoryIPs": ["10.9.9.9"],
                      "AccessoryPort": 51826, "Connection": "IP"}
        self.loop = new_loop()
        self.loop_errors = []
        self.loop.set_exception_handler(lambda loop, c: self.loop_errors.append((c.get("message"), repr(c.get("exception")))))
        _CUR = self
        self.events, self.steps, self.cur, self.errs = [], [], None, []
        self.accv = int(accv0)
        self.gen = 0
        self.ndesc = 0
        self.tasks = []
        self.pairing = self._loading = None
        self.handles = {r: {} for r in REGS}
        self.cache_kind = cache_kind
        self.cache_path = pathlib.Path(tmpdir) / f"cache-{h[:10]}.json" if cache_kind == "file" else None
        self.cache = None
        self._seed_cache(int(cache0))
        self._new_pairing()

    # ------------------------------------------------------------------ plumbing
    def abs_c(self, c):
        try:
            c = int(c)
        except Exception:  # noqa: BLE001
            return BAD
        if c <= 0:
            return c if c >= -1 else BAD
        a = c - self.cbase
        return a if 1 <= a <= 9 else BAD

    def real_c(self, c):
        return c if c <= 0 else self.cbase + c

    def pairing_or_loading(self):
        return self.pairing if self._loading is None else self._loading

    def emit(self, k, x=0, y=0):
        if self.cur is not None:
            self.cur["raw"].append((k, int(x), int(y)))

    def note_err(self, ex):
        if self.cur is not None:
            self.cur.setdefault("errs", []).append(f"{type(ex).__name__}: {ex}"[:160])

    def in_loop(self, fn):
        asyncio.events._set_running_loop(self.loop)
        try:
            return fn(), None
        except Exception as ex:  # noqa: BLE001
            return None, f"{type(ex).__name__}: {ex}"
        finally:
            asyncio.events._set_running_loop(None)

    def _seed_cache(self, cache0):
        """the cache a previous run left behind: 10 * config_num + version; config_num 0 = entry without the key"""
        from aiohomekit.characteristic_cache import CharacteristicCacheFile, CharacteristicCacheMemory
        entry = None
        if cache0:
            c, a = cache0 // 10, cache0 % 10
            entry = {"accessories": database(a), "broadcast_key": None, "state_num": None}
            if c:
                entry["config_num"] = self.cbase + c
        if self.cache_kind == "file":
            if entry is not None:
                self.cache_path.write_text(json.dumps({"pairings": {self.acc_id: entry}}))
            self.cache = CharacteristicCacheFile(self.cache_path)
        else:
            self.cache = CharacteristicCacheMemory()
            if entry is not None:
                self.cache.storage_data[self.acc_id] = entry

    def _watch_cache(self):
        cache, world = self.cache, self
        if getattr(cache, "_extcfg_watched", False):
            return
        cache._extcfg_watched = True
        orig = cache.async_create_or_update_map

        def create_or_update(*a, **kw):
            r = orig(*a, **kw)
            if world.cur is not None and world.cache is cache:
                world.cur["saves"].append(world._cache_entry())
            return r
        cache.async_create_or_update_map = create_or_update

    def _new_pairing(self):
        from aiohomekit.characteristic_cache import CharacteristicCacheFile
        from aiohomekit.controller.ip.controller import IpController
        import aiohomekit.controller.ip.pairing as IPP
        if self.gen and self.cache_kind == "file":
            self.cache = CharacteristicCacheFile(self.cache_path)        # what a new process reads
        self._watch_cache()
        self.gen += 1
        self.handles = {r: {} for r in REGS}
        world = self
        orig_init = IPP.IpPairing.__init__

        def init(obj, *a, **kw):
            world._loading = obj
            return orig_init(obj, *a, **kw)

        async def mk():
            ctl = IpController(char_cache=self.cache, zeroconf_instance=MagicMock(name="asynczeroconf"))
            IPP.IpPairing.__init__ = init
            try:
                return ctl, ctl.load_pairing(ALIAS, dict(self.pdata))
            finally:
                IPP.IpPairing.__init__ = orig_init
                world._loading = None
        self.ctl, self.pairing = self.loop.run_until_complete(mk())
        self.conn = self.pairing.connection
        if not isinstance(self.conn, StubConnection):
            raise RuntimeError("the pairing was not built over the transport stand-in")
        self.loop.settle()

    # ------------------------------------------------------------------ observation
    def _cache_entry(self):
        """[c, a] of the entry a restart would read, [] if none"""
        from aiohomekit.characteristic_cache import CharacteristicCacheFile
        if self.cache_path is not None:
            data = CharacteristicCacheFile(self.cache_path).storage_data if self.cache_path.exists() else {}
        else:
            data = self.cache.storage_data
        ent = [(k, v) for k, v in data.items() if k.lower() == self.acc_id.lower()]
        if not ent:
            return []
        if len(ent) > 1 or len(data) > 1:
            return [BAD, BAD]
        e = ent[0][1]
        try:
            return [self.abs_c(e.get("config_num", 0)), version_of_list(e["accessories"])]
        except Exception:  # noqa: BLE001
            return [BAD, BAD]

    def _pstate(self):
        p = self.pairing
        pcfg = self.abs_c(p.config_num)
        pacc = 0
        if p.accessories is not None:
            try:
                pacc = version_of_list(p.accessories.serialize())
            except Exception:  # noqa: BLE001
                pacc = BAD
        return pcfg, pacc

    def view(self):
        pcfg, pacc = self._pstate()
        return 10 * (pcfg + 1) + pacc if pcfg >= -1 and pacc >= 0 else BAD

    def _registered(self, reg):
        p = self.pairing
        s = {"cfg": p.config_changed_listeners, "avail": p.availability_listeners, "ev": p.listeners}[reg]
        return sorted(x.i if isinstance(x, Lsn) and x.reg == reg and x.gen == self.gen else BAD for x in s)

    def obs(self):
        p = self.pairing
        pcfg, pacc = self._pstate()
        ce = self._cache_entry()
        head = self.conn.pending[0] if self.conn.pending else None
        return {"gen": self.gen, "up": bool(self.conn.up), "pdesc": self.abs_c(p.description.config_num) if p.description is not None else 0,
                "pcfg": pcfg, "pacc": pacc, "cache": [{"c": ce[0], "a": ce[1]}] if ce else [],
                "nw": self.conn.waiting, "nq": len(self.conn.pending), "replied": 1 if head is not None and head.replied else 0,
                "lst": {r: self._registered(r) for r in REGS}}

    # ------------------------------------------------------------------ stimuli
    def _begin(self, ev, **kw):
        self.cur = {"ev": ev, **kw, "raw": [], "saves": []}

    def _end(self):
        self.loop.settle()
        e, self.cur = self.cur, None
        raw = e.pop("raw")
        if e["saves"]:
            raw.append(("saved", 0, 0))
        cnt = {}
        for r in raw:
            cnt[r] = cnt.get(r, 0) + 1
        e["out"] = sorted([k, x, y, 1 if k == "saved" else n] for (k, x, y), n in cnt.items())
        e["saves"] = [{"c": s[0], "a": s[1]} if s else {"c": BAD, "a": 0} for s in e["saves"]]
        e["obs"] = self.obs()
        self.events.append(e)
        return e

    def _spawn(self, coro, name):
        async def go():
            try:
                await coro
                self.emit(name, 1)
            except asyncio.CancelledError:
                raise
            except Exception as ex:  # noqa: BLE001
                self.emit(name, 0)
                self.note_err(ex)
        self.tasks.append(self.loop.create_task(go()))

    def db(self):
        if self.accv >= MAXV:
            return None
        self._begin("db")
        self.accv += 1
        return self._end()

    def desc(self, c):
        from aiohomekit.model.categories import Categories
        from aiohomekit.model.feature_flags import FeatureFlags
        from aiohomekit.model.status_flags import StatusFlags
        from aiohomekit.zeroconf import HomeKitService
        c = int(c)
        if not 1 <= c <= self.accv or self._inflight() >= MAXFLIGHT:
            return None
        self._begin("desc", c=c)
        self.ndesc += 1
        n = self.ndesc
        addr = f"10.0.{1 + (n // 3) % 2}.5"                      # endpoint and s# change now and then: irrelevant
        d = HomeKitService(name="dev", id=self.acc_id.lower(), model="unit", feature_flags=FeatureFlags(0), status_flags=StatusFlags(0),
                           config_num=self.cbase + c, state_num=1 + (n // 2) % 3, category=Categories(5), protocol_version="1.1",
                           type="_hap._tcp.local.", address=addr, addresses=[addr], port=5001)
        _, exc = self.in_loop(lambda: self.pairing._async_description_update(d))
        if exc:
            self.emit("raised")
            self.cur.setdefault("errs", []).append(exc)
        return self._end()

    def linkup(self):
        if self.conn.up:
            return None
        self._begin("linkup")
        self.tasks.append(self.loop.create_task(self.conn.link_up()))
        return self._end()

    def linkdown(self):
        if not self.conn.up:
            return None
        self._begin("linkdown")
        self.conn.link_down()
        return self._end()

    def tick(self):
        self._begin("tick")
        self.loop.advance(10.5)
        return self._end()

    def reply(self, kind):
        if not self.conn.pending or self.conn.pending[0].replied:
            return None
        self._begin("reply", kind=kind)
        r = self.conn.pending[0]
        r.replied = True
        if kind == "ok":
            r.payload = {"accessories": database(self.accv)}
        else:
            r.payload = [{"status": -70402}, {"accessories": [{"aid": 1}]}, {"accessories": [{"aid": 1, "services": [{"iid": 1}]}]}][len(self.events) % 3]
        return self._end()

    def deliver(self):
        if not self.conn.pending or not self.conn.pending[0].replied:
            return None
        self._begin("deliver")
        r = self.conn.pending.pop(0)
        if not r.fut.done():
            r.fut.set_result(r.payload)
        return self._end()

    def _inflight(self):
        return self.conn.waiting + len(self.conn.pending)

    def list(self):
        if self._inflight() >= MAXFLIGHT:
            return None
        self._begin("list")
        self._spawn(self.pairing.list_accessories_and_characteristics(), "ret_list")
        return self._end()

    def pop(self, force):
        if self._inflight() >= MAXFLIGHT:
            return None
        self._begin("pop", force=bool(force))
        self._spawn(self.pairing.async_populate_accessories_state(force_update=bool(force)), "ret_pop")
        return self._end()

    def restore(self, v):
        # only where the specification considers it (see UserRestore): nothing in flight, nothing older than what the
        # pairing holds or has been shown
        o = self.obs()
        if o["nw"] + o["nq"] or min(o["pcfg"], o["pacc"]) < -1 or not max(o["pdesc"], o["pcfg"], o["pacc"], 1) <= int(v) <= self.accv:
            return None
        self._begin("restore", v=int(v))
        _, exc = self.in_loop(lambda: self.pairing.restore_accessories_state(database(int(v)), self.cbase + int(v), None, None))
        if exc:
            self.emit("raised")
            self.cur.setdefault("errs", []).append(exc)
        return self._end()

    def reg(self, reg, i):
        i = int(i)
        if i in self.handles[reg]:
            return None
        self._begin("reg", reg=reg, i=i)
        p = self.pairing
        ls = Lsn(self, reg, i, self.gen)
        connect = {"cfg": p.dispatcher_connect_config_changed, "avail": p.dispatcher_availability_changed, "ev": p.dispatcher_connect}[reg]
        ls.stop = connect(ls)
        self.handles[reg][i] = ls
        return self._end()

    def unreg(self, reg, i):
        i = int(i)
        if i not in self.handles[reg]:
            return None
        self._begin("unreg", reg=reg, i=i)
        ls = self.handles[reg].pop(i)
        ls.stop()
        return self._end()

    def restart(self):
        """the process ends: whatever is in flight is gone; a new pairing object over what the cache kept"""
        if self.gen >= 4:
            return None
        self._begin("restart")
        cur, self.cur = self.cur, None                   # nothing of the dying process is an observation
        pend = [t for t in asyncio.all_tasks(self.loop) if not t.done()]
        for t in pend:
            t.cancel()
        if pend:
            self.loop.run_until_complete(asyncio.gather(*pend, return_exceptions=True))
        self.loop.settle()
        self.tasks = []
        self.cur = cur
        self._new_pairing()
        return self._end()

    def end(self):
        self._begin("end")
        return self._end()

    # ------------------------------------------------------------------ scripts
    def apply(self, step):
        """returns the logged event, or None when the step is not applicable in this execution"""
        op = step[0]
        fn = getattr(self, op, None) if op in ("db", "desc", "linkup", "linkdown", "tick", "reply", "deliver", "list", "pop", "restore",
                                               "reg", "unreg", "restart", "end") else None
        if fn is None:
            raise ValueError(f"unknown step {step!r}")
        e = fn(*step[1:])
        if e is not None:
            self.steps.append(list(step))
        return e

    def drain(self, limit=40):
        """fair ending: the connection is there, the accessory answers everything"""
        if not self.conn.up:
            self.apply(("linkup",))
        for _ in range(limit):
            if not self.conn.pending:
                break
            if not self.conn.pending[0].replied:
                self.apply(("reply", "ok"))
            self.apply(("deliver",))
        self.apply(("tick",))
        self.apply(("end",))

    def record(self, rid, src):
        return {"id": rid, "src": src, **self.params, "events": self.events, "steps": self.steps, "loop_errors": self.loop_errors[:5]}

    def close(self):
        global _CUR
        try:
            close_loop(self.loop)
        finally:
            _CUR = None


def run_steps(params, steps, rid="replay", src="replay", tmpdir=None, drain=False):
    """execute a list of steps on a fresh world; returns the record"""
    w = World(cache0=params["cache0"], accv0=params["accv0"], tag=params.get("tag", rid), cache_kind=params.get("cache_kind", "mem"),
              tmpdir=tmpdir, cbase=params.get("cbase", 0))
    try:
        for st in steps:
            w.apply(tuple(st))
        if drain:
            w.drain()
        return w.record(rid, src)
    finally:
        w.close()


# ========================================================================================= the BLE flavour
# The real BlePairing (created by the real BleController.load_pairing, fed by BleController._device_detected with real
# advertisement bytes) with the Bluetooth side cut off below the configuration logic: the subclass replaces the
# connection, pair-verify, the GATT database fetch (ONE suspension the driver resolves), reading values and
# re-subscribing.  _async_description_update, _update_cached_state_num, the operation lock, the retry / disconnect
# decorators, _process_config_changed, async_populate_accessories_state, list_accessories_and_characteristics,
# _populate_accessories_and_characteristics, the cache and the listener code are the tree's.  Events for
# spec/cfgcache/BleCfg_Trace.tla.
BLE_CBASES = (0, 0, 100, 200)          # the advertised c# is one byte


def _ble_class():
    from aiohomekit.controller.ble.pairing import BlePairing
    from aiohomekit.model import Accessories
    if getattr(_ble_class, "cls", None) is not None:
        return _ble_class.cls

    class StubbedBlePairing(BlePairing):
        _w_connected = False
        _w_fetch = None

        async def _ensure_connected(self, attempts=None):
            assert self._config_lock.locked(), "_config_lock Should be locked"
            made, self._w_connected = not self._w_connected, True
            return made

        async def _async_fetch_gatt_database(self):
            w = _CUR
            w.emit("fetch")
            self._w_fetch = _Req(asyncio.get_running_loop().create_future())
            try:
                payload = await self._w_fetch.fut
            finally:
                self._w_fetch = None
            return Accessories.from_list(payload)

        async def _async_pair_verify(self):
            self._encryption_key = object()

        async def _populate_char_values(self, config_changed):
            return None

        async def _async_restore_subscriptions(self):
            self._restore_pending = False

        def _process_disconnected_events(self):
            _CUR.emit("dpoll")

        async def _process_config_changed(self, config_num):
            w = _CUR
            mine = w is not None and self is w.pairing_or_loading()
            if mine:
                w.emit("cfgtask", w.abs_c(config_num))
            try:
                r = await BlePairing._process_config_changed(self, config_num)
            except asyncio.CancelledError:
                raise
            except BaseException as ex:
                if mine and _CUR is w and self is w.pairing:
                    w.emit("cfgend", w.abs_c(config_num), 0)
                    w.note_err(ex)
                raise
            if mine and _CUR is w and self is w.pairing:
                w.emit("cfgend", w.abs_c(config_num), 1)
            return r
    _ble_class.cls = StubbedBlePairing
    return StubbedBlePairing


def ble_database(v: int):
    """BLE accessory database (aid 1), version v"""
    acc = database(v)
    for s in acc[0]["services"]:
        for ch in s["characteristics"]:
            ch.setdefault("value", None)
    return acc


class BleWorld(World):
    def __init__(self, cache0=0, accv0=1, tag="", cache_kind="mem", tmpdir=None, cbase=0):
        global _CUR
        self.params = {"cache0": int(cache0), "accv0": int(accv0), "tag": tag, "cache_kind": cache_kind, "cbase": int(cbase)}
        self.cbase = int(cbase)
        h = hashlib.sha256(("extcfg-ble" + tag).encode()).hexdigest()
        self.acc_id = "aa:bb:" + ":".join(h[i:i + 2] for i in (0, 2, 4, 6))
        self.pdata = {"AccessoryPairingID": self.acc_id.upper() if int(h[8], 16) % 2 else self.acc_id, "AccessoryLTPK": "00" * 32,
                      "iOSPairingId": "decc6fa3-de3e-41c9-adba-ef7409821bfc", "iOSDeviceLTSK": "11" * 32, "iOSDeviceLTPK": "22" * 32,
                      "AccessoryAddress": self.acc_id.upper(), "Connection": "BLE"}
        self.acc_id = self.pdata["AccessoryPairingID"]
        self.loop = new_loop()
        self.loop_errors = []
        self.loop.set_exception_handler(lambda loop, c: self.loop_errors.append((c.get("message"), repr(c.get("exception")))))
        _CUR = self
        self.events, self.steps, self.cur, self.errs = [], [], None, []
        self.accv = int(accv0)
        self.gen = 0
        self.tasks = []
        self.pairing = self._loading = None
        self.handles = {r: {} for r in REGS}
        self.cache_kind = cache_kind
        self.cache_path = pathlib.Path(tmpdir) / f"cache-{h[:10]}.json" if cache_kind == "file" else None
        self.cache = None
        self._seed_cache(int(cache0))
        self._new_pairing()

    def abs_c(self, c):
        try:
            c = int(c)
        except Exception:  # noqa: BLE001
            return BAD
        if c <= 0:
            return c if c >= -1 else BAD
        a = c - self.cbase
        return a if 1 <= a <= 9 else BAD

    def _new_pairing(self):
        from aiohomekit.characteristic_cache import CharacteristicCacheFile
        import aiohomekit.controller.ble.controller as BC
        if self.gen and self.cache_kind == "file":
            self.cache = CharacteristicCacheFile(self.cache_path)
        self._watch_cache()
        self.gen += 1
        cls = _ble_class()
        orig = BC.BlePairing
        BC.BlePairing = cls

        async def mk():
            ctl = BC.BleController(char_cache=self.cache)
            try:
                return ctl, ctl.load_pairing(ALIAS, dict(self.pdata))
            finally:
                BC.BlePairing = orig
        self.ctl, self.pairing = self.loop.run_until_complete(mk())
        if type(self.pairing) is not cls:
            raise RuntimeError("the BLE pairing was not built from the stubbed subclass")
        ls = Lsn(self, "cfg", 1, self.gen)
        ls.stop = self.pairing.dispatcher_connect_config_changed(ls)
        self.handles = {r: {} for r in REGS}
        self.handles["cfg"][1] = ls
        self.loop.settle()

    def _cache_entry(self):
        from aiohomekit.characteristic_cache import CharacteristicCacheFile
        if self.cache_path is not None:
            data = CharacteristicCacheFile(self.cache_path).storage_data if self.cache_path.exists() else {}
        else:
            data = self.cache.storage_data
        ent = [(k, v) for k, v in data.items() if k.lower() == self.acc_id.lower()]
        if not ent:
            return []
        if len(ent) > 1 or len(data) > 1:
            return [BAD, BAD, BAD]
        e = ent[0][1]
        try:
            s = e.get("state_num")
            return [self.abs_c(e.get("config_num", 0)), version_of_list(e["accessories"]), 0 if s is None else int(s)]
        except Exception:  # noqa: BLE001
            return [BAD, BAD, BAD]

    def obs(self):
        p = self.pairing
        pcfg, pacc = self._pstate()
        ce = self._cache_entry()
        d = p.description
        f = p._w_fetch
        lock = p._operation_lock
        waiters = len([x for x in (getattr(lock, "_waiters", None) or ()) if not x.cancelled()])
        return {"gen": self.gen, "pdesc": self.abs_c(d.config_num) if d is not None else 0, "ds": int(d.state_num) if d is not None else 0,
                "pcfg": pcfg, "pacc": pacc, "psn": 0 if p.state_num is None else int(p.state_num),
                "cache": [{"c": ce[0], "a": ce[1], "s": ce[2]}] if ce else [],
                "nops": waiters + (1 if lock.locked() else 0), "fetching": 1 if f is not None else 0, "replied": 1 if f is not None and f.replied else 0}

    def _end(self):
        e = super()._end()
        e["saves"] = [{"c": s["c"], "a": s["a"]} for s in e["saves"]]
        return e

    # ---- stimuli
    def desc(self, c, s):
        import struct
        from bleak.backends.device import BLEDevice
        from bleak.backends.scanner import AdvertisementData
        c, s = int(c), int(s)
        if not 1 <= c <= self.accv or self._inflight() >= MAXFLIGHT:
            return None
        self._begin("desc", c=c, s=s)
        idb = bytes.fromhex(self.acc_id.lower().replace(":", ""))
        blob = bytes([0x06, 0x31, 0x00]) + idb + struct.pack("<HHBB", 5, s, self.cbase + c, 2) + b"\x01\x02\x03\x04"
        adv = AdvertisementData(local_name="dev", manufacturer_data={76: blob}, service_data={}, service_uuids=[], tx_power=-127, rssi=-60,
                                platform_data=((),))
        dev = BLEDevice(self.acc_id.upper(), "dev", None)
        _, exc = self.in_loop(lambda: self.ctl._device_detected(dev, adv))
        if exc:
            self.emit("raised")
            self.cur.setdefault("errs", []).append(exc)
        return self._end()

    def freply(self):
        f = self.pairing._w_fetch
        if f is None or f.replied:
            return None
        self._begin("freply")
        f.replied, f.payload = True, ble_database(self.accv)
        return self._end()

    def fdone(self):
        f = self.pairing._w_fetch
        if f is None or not f.replied:
            return None
        self._begin("fdone")
        if not f.fut.done():
            f.fut.set_result(f.payload)
        return self._end()

    def _inflight(self):
        return self.obs()["nops"]

    def list(self):
        if self.pairing.description is None:
            return None
        return super().list()

    def pop(self, force):
        if self.pairing.description is None:
            return None
        return super().pop(force)

    def apply(self, step):
        op = step[0]
        if op not in ("db", "desc", "freply", "fdone", "list", "pop", "restart", "end"):
            raise ValueError(f"unknown BLE step {step!r}")
        e = getattr(self, op)(*step[1:])
        if e is not None:
            self.steps.append(list(step))
        return e

    def drain(self, limit=40):
        for _ in range(limit):
            f = self.pairing._w_fetch
            if f is None:
                break
            if not f.replied:
                self.apply(("freply",))
            self.apply(("fdone",))
        self.apply(("end",))


def run_ble_steps(params, steps, rid="replay", src="replay", tmpdir=None, drain=False):
    w = BleWorld(cache0=params["cache0"], accv0=params["accv0"], tag=params.get("tag", rid), cache_kind=params.get("cache_kind", "mem"),
                 tmpdir=tmpdir, cbase=params.get("cbase", 0))
    try:
        for st in steps:
            w.apply(tuple(st))
        if drain:
            w.drain()
        r = w.record(rid, src)
        r["flavour"] = "ble"
        return r
    finally:
        w.close()


# ========================================================================================= the CoAP flavour
# The real CoAPPairing (CoAPController.load_pairing) - the same AbstractPairing / ZeroconfPairing code and the same
# _process_config_changed / list_accessories_and_characteristics algorithm as IP, but its own _ensure_connected: the
# first call that finds no connection becomes the "primary" and awaits connection.connect(); later calls wait on a
# condition; the primary alone runs the availability listeners, then everybody proceeds; a failed connect fails them
# all.  Only the transport (CoAPHomeKitConnection) is a stand-in.  Events for CfgCache_Trace with Flavour = "coap".
class StubCoapConnection:
    def __init__(self, owner, host, port):
        self.owner = owner
        self.address = f"[{host}]:{port}"
        self.up = False
        self.pending: list[_Req] = []
        self.connecting = None
        self.world = _CUR

    @property
    def is_connected(self):
        return self.up

    async def connect(self, pairing_data):
        self.world.emit("connect")
        self.connecting = asyncio.get_running_loop().create_future()
        try:
            await self.connecting
        finally:
            self.connecting = None

    async def reconnect_soon(self):
        self.world.emit("rsoon")

    async def subscribe_to(self, ids):
        return {}

    async def unsubscribe_from(self, ids):
        return {}

    async def get_accessory_info(self):
        from aiohomekit.exceptions import AccessoryDisconnectedError
        if not self.up:
            raise AccessoryDisconnectedError("Not connected (simulated)")
        r = _Req(asyncio.get_running_loop().create_future())
        self.pending.append(r)
        self.world.emit("req")
        try:
            return await r.fut
        finally:
            if r in self.pending:
                self.pending.remove(r)

    def link_down(self):
        from aiohomekit.exceptions import AccessoryDisconnectedError
        self.up = False
        pend, self.pending = self.pending, []
        for r in pend:
            if not r.fut.done():
                r.fut.set_exception(AccessoryDisconnectedError("Session ended (simulated)"))

    @property
    def waiting(self):
        cond = self.owner.connection_lock
        return (1 if self.connecting is not None else 0) + len([f for f in getattr(cond, "_waiters", ()) if not f.done()])


def _install_coap():
    import aiohomekit.controller.coap.pairing as CP
    if getattr(CP, "_extcfg", False):
        return
    CP.CoAPHomeKitConnection = StubCoapConnection
    orig = CP.CoAPPairing._process_config_changed

    async def observed(self, config_num):
        w = _CUR
        mine = w is not None and self is w.pairing_or_loading()
        if mine:
            w.emit("cfgtask", w.abs_c(config_num))
        try:
            r = await orig(self, config_num)
        except asyncio.CancelledError:
            raise
        except BaseException as ex:
            if mine and _CUR is w and self is w.pairing:
                w.emit("cfgend", w.abs_c(config_num), 0)
                w.note_err(ex)
            raise
        if mine and _CUR is w and self is w.pairing:
            w.emit("cfgend", w.abs_c(config_num), 1)
        return r
    CP.CoAPPairing._process_config_changed = observed
    CP._extcfg = True


class CoapWorld(World):
    def __init__(self, cache0=0, accv0=1, tag="", cache_kind="mem", tmpdir=None, cbase=0):
        _install_coap()
        super().__init__(cache0=cache0, accv0=accv0, tag="coap" + tag, cache_kind=cache_kind, tmpdir=tmpdir, cbase=cbase)
        self.params["tag"] = tag

    def _new_pairing(self):
        from aiohomekit.characteristic_cache import CharacteristicCacheFile
        from aiohomekit.controller.coap.controller import CoAPController
        if self.gen and self.cache_kind == "file":
            self.cache = CharacteristicCacheFile(self.cache_path)
        self._watch_cache()
        self.gen += 1
        self.handles = {r: {} for r in REGS}
        pdata = dict(self.pdata, Connection="CoAP")

        async def mk():
            ctl = CoAPController(char_cache=self.cache, zeroconf_instance=MagicMock(name="asynczeroconf"))
            return ctl, ctl.load_pairing(ALIAS, pdata)
        self.ctl, self.pairing = self.loop.run_until_complete(mk())
        self.conn = self.pairing.connection
        if not isinstance(self.conn, StubCoapConnection):
            raise RuntimeError("the CoAP pairing was not built over the transport stand-in")
        self.loop.settle()

    def desc(self, c):
        from aiohomekit.model.categories import Categories
        from aiohomekit.model.feature_flags import FeatureFlags
        from aiohomekit.model.status_flags import StatusFlags
        from aiohomekit.zeroconf import HomeKitService
        c = int(c)
        if not 1 <= c <= self.accv or self._inflight() >= MAXFLIGHT:
            return None
        self._begin("desc", c=c)
        self.ndesc += 1
        d = HomeKitService(name="dev", id=self.acc_id.lower(), model="unit", feature_flags=FeatureFlags(0), status_flags=StatusFlags(0),
                           config_num=self.cbase + c, state_num=1 + (self.ndesc // 2) % 3, category=Categories(5), protocol_version="1.1",
                           type="_hap._udp.local.", address="fd00::5", addresses=["fd00::5"], port=5683)      # the endpoint stays
        _, exc = self.in_loop(lambda: self.pairing._async_description_update(d))
        if exc:
            self.emit("raised")
            self.cur.setdefault("errs", []).append(exc)
        return self._end()

    def linkup(self):
        """the connect the primary call is waiting for succeeds"""
        f = self.conn.connecting
        if self.conn.up or f is None or f.done():
            return None
        self._begin("linkup")
        self.conn.up = True
        f.set_result(None)
        return self._end()

    def tick(self):
        """the connect the primary call is waiting for fails"""
        self._begin("tick")
        f = self.conn.connecting
        if f is not None and not f.done():
            f.set_exception(OSError("no route to host (simulated)"))
        return self._end()

    def reply(self, kind):
        e = super().reply(kind)
        if e is not None and kind == "ok":
            # CoAP hands the pairing the accessory list itself
            for r in self.conn.pending[:1]:
                r.payload = r.payload["accessories"]
        elif e is not None:
            for r in self.conn.pending[:1]:
                r.payload = [[{"aid": 1}], [{"aid": 1, "services": [{"iid": 1}]}], 7][len(self.events) % 3]
        return e

    def drain(self, limit=40):
        for _ in range(limit):
            if not self.conn.up and self.conn.connecting is not None:
                self.apply(("linkup",))
            elif self.conn.pending:
                if not self.conn.pending[0].replied:
                    self.apply(("reply", "ok"))
                self.apply(("deliver",))
            else:
                break
        self.apply(("end",))


def run_coap_steps(params, steps, rid="replay", src="replay", tmpdir=None, drain=False):
    w = CoapWorld(cache0=params["cache0"], accv0=params["accv0"], tag=params.get("tag", rid), cache_kind=params.get("cache_kind", "mem"),
                  tmpdir=tmpdir, cbase=params.get("cbase", 0))
    try:
        for st in steps:
            w.apply(tuple(st))
        if drain:
            w.drain()
        r = w.record(rid, src)
        r["flavour"] = "coap"
        return r
    finally:
        w.close()
