"""C17 driver: a simulated GATT characteristic / CoAP endpoint with an independent HAP-PDU reader and
writer (shares no code with aiohomekit.pdu / controller.coap.pdu), used to run the real
ble_request / _write_pdu / _read_pdu and the real CoAP batch path.

The accessory side is deliberately dumb: it records what it sees and plays the scripted answer.  All
verdicts are taken from the specification (spec/codec/Pdu*.tla) by harness/props/c17.py.
"""
from __future__ import annotations

import asyncio
import struct

from harness.refacc import crypto as rc

NOT_OPENED = 999999


class Blocked(Exception):
    """The controller asked for a fragment the accessory does not have (the real read would hang)."""


class Handle:
    """Duck-typed BleakGATTCharacteristic."""

    def __init__(self, mwwr, props):
        self.max_write_without_response_size = mwwr
        self.properties = props
        self.uuid = "00000000-0000-0000-0000-00000000c017"
        self.handle = 17


class Gatt:
    """Duck-typed AIOHomeKitBleakClient + scripted accessory.

    size: negotiated size (ATT payload).  key_w / key_r: accessory-side AEAD keys (None = plain) for what the
    controller writes / reads; ctr0: both counters at the start.
    script: dict(m, st, short, split, fault, fpos) - how the accessory answers.
    """

    def __init__(self, size, via_mtu, key_w=None, key_r=None, ctr0=0, script=None, body=b""):
        self.address = "AA:BB:CC:DD:EE:17"
        self.size = size
        # the library negotiates max(max_write_without_response_size, mtu - 3)
        self.mtu_size = size + 3 if via_mtu else min(23, size + 3)
        self.handle = Handle(None if via_mtu else size, ["write", "read"] if via_mtu else ["write-without-response", "read"])
        self.key_w, self.key_r = key_w, key_r
        self.ctr_w = self.ctr_r = ctr0
        self.writes = []           # raw values written
        self.write_modes = []
        self.script = script
        self.body = body           # the accessory's response body
        self.out = None            # prepared response fragments (plaintext)
        self.reads = 0
        self.first_tid = None

    # the real size computation of the library (MTU / max_write_without_response_size -> fragment size)
    def determine_fragment_size(self, additional_overhead_size, handle):
        from aiohomekit.controller.ble.bleak import AIOHomeKitBleakClient
        return AIOHomeKitBleakClient.determine_fragment_size(self, additional_overhead_size, handle)

    async def write_gatt_char(self, handle, data, response=None):
        assert handle is self.handle
        self.writes.append(bytes(data))
        self.write_modes.append(response)
        await asyncio.sleep(0)

    def _prepare(self):
        """Response fragments for the transaction id of the request."""
        s = self.script
        tid = self.first_tid if self.first_tid is not None else 0
        wrong = (tid + 1) % 256
        frs = []
        pos = 0
        for k, cnt in enumerate(s["split"], start=1):
            chunk = self.body[pos:pos + cnt]
            pos += cnt
            t = wrong if ((s["fault"] == "tid_first" and k == 1) or (s["fault"] == "tid_cont" and k == s["fpos"])) else tid
            if k == 1:
                hdr = bytes([0x02, t, s["st"]])
                if not s["short"]:
                    hdr += struct.pack("<H", s["m"])
                frs.append(hdr + chunk)
            else:
                ctl = 0x02 if (s["fault"] == "flag_cont" and k == s["fpos"]) else 0x82
                frs.append(bytes([ctl, t]) + chunk)
        self.out = frs

    async def read_gatt_char(self, handle):
        assert handle is self.handle
        if self.out is None:
            self.observe_request()
            self._prepare()
        await asyncio.sleep(0)
        if self.reads >= len(self.out):
            raise Blocked()
        data = self.out[self.reads]
        self.reads += 1
        if self.key_r is not None:
            data = rc.seal(self.key_r, rc.counter_nonce(self.ctr_r), data)
            self.ctr_r += 1
        return bytearray(data)

    # ---- independent reader of what was written
    def observe_request(self, opcode=None, iid=None, body=None, tid=None):
        """-> list of [hdr, ctl, lo, len, declared, ctr, tidok, idok, alen] per write (see Pdu_Trace)."""
        out = []
        off = 0
        first_tid = None
        ctr = self.ctr_w
        for k, raw in enumerate(self.writes):
            alen = len(raw)
            used = 0
            if self.key_w is not None:
                plain = rc.open_(self.key_w, rc.counter_nonce(ctr), raw)
                used = ctr if plain is not None else NOT_OPENED
                ctr += 1
                if plain is None:
                    out.append([0, 0, NOT_OPENED, 0, 0, used, 0, 0, alen])
                    continue
            else:
                plain = raw
            if k == 0:
                if len(plain) < 5:
                    out.append([len(plain), plain[0] if plain else 0, NOT_OPENED, 0, 0, used, 0, 0, alen])
                    continue
                ctl, op, t, i = struct.unpack("<BBBH", plain[:5])
                first_tid = t
                idok = int((opcode is None or op == opcode) and (iid is None or i == iid) and (tid is None or t == tid))
                if len(plain) == 5:
                    out.append([5, ctl, 0, 0, 0, used, 1, idok, alen])
                    continue
                if len(plain) < 7:
                    out.append([len(plain), ctl, NOT_OPENED, 0, 0, used, 1, idok, alen])
                    continue
                declared = struct.unpack("<H", plain[5:7])[0]
                chunk = plain[7:]
                hdr = 7
            else:
                if len(plain) < 2:
                    out.append([len(plain), 0, NOT_OPENED, 0, 0, used, 0, 1, alen])
                    continue
                ctl, t = plain[0], plain[1]
                chunk = plain[2:]
                hdr = 2
                declared = 0
                idok = 1
            lo = off if body is None or bytes(body[off:off + len(chunk)]) == bytes(chunk) else NOT_OPENED
            out.append([hdr, ctl, lo, len(chunk), declared, used, int(first_tid is not None and t == first_tid), idok, alen])
            off += len(chunk)
        self.first_tid = first_tid
        self.ctr_w_after = ctr
        return out


# ------------------------------------------------------------------ CoAP
def coap_nonce(ctr):
    return b"\x00\x00\x00\x00" + struct.pack("<Q", ctr)


class CoapResponse:
    def __init__(self, code, payload):
        self.code = code
        self.payload = payload


class _Req:
    def __init__(self, fut):
        self.response = fut


class CoapAccessory:
    """Stands in for aiocoap.Context: decrypts the POSTed batch with its own keys, parses it with an
    independent reader and answers according to the per-item script."""

    def __init__(self, key_c2a, key_a2c):
        self.key_c2a, self.key_a2c = key_c2a, key_a2c
        self.rctr = self.sctr = 0
        self.requests = []          # parsed request batches: list of [(ctl, opcode, tid, iid, data)]
        self.script = None          # list of (oc, status, body bytes), answered by position ...
        self.by_iid = None          # ... or {iid: [(oc, status, body), ...]}: the k-th request item for an iid gets its k-th outcome
        self.bad_ctl = 0x00

    def request(self, msg):
        from aiocoap.numbers.codes import Code
        loop = asyncio.get_event_loop()
        fut = loop.create_future()
        plain = rc.open_(self.key_c2a, coap_nonce(self.rctr), bytes(msg.payload))
        self.rctr += 1
        if plain is None:
            fut.set_exception(RuntimeError("harness: request does not decrypt under the accessory's counter"))
            return _Req(fut)
        items, p = [], 0
        while p < len(plain):
            ctl, op, tid, iid, n = struct.unpack("<BBBHH", plain[p:p + 7])
            items.append((ctl, op, tid, iid, bytes(plain[p + 7:p + 7 + n])))
            p += 7 + n
        self.requests.append(items)
        if self.by_iid is not None:                 # a conformant accessory answers every item it RECEIVED
            seen = {}
            script = []
            for it in items:
                outs = self.by_iid.get(it[3]) or [("err", 4, b"")]          # unknown instance id
                script.append(outs[min(seen.get(it[3], 0), len(outs) - 1)])
                seen[it[3]] = seen.get(it[3], 0) + 1
        else:
            script = self.script
        out = bytearray()
        for k, (oc, status, body) in enumerate(script):
            tid = items[k][2] if k < len(items) else k
            if oc == "tid":
                tid = (tid + 1) % 256
            ctl = self.bad_ctl if oc == "ctl" else 0x02
            out += struct.pack("<BBBH", ctl, tid, status if oc == "err" else 0, len(body)) + body
        payload = rc.seal(self.key_a2c, coap_nonce(self.sctr), bytes(out))
        self.sctr += 1
        fut.set_result(CoapResponse(Code.CHANGED, payload))
        return _Req(fut)

    async def shutdown(self):
        pass


def value_tlv(value: bytes) -> bytes:
    """Body of a successful read: TLV item 01 (value), 255-byte fragments - written here, not by aiohomekit."""
    out = bytearray()
    if not value:
        return bytes([1, 0])
    for p in range(0, len(value), 255):
        ch = value[p:p + 255]
        out += bytes([1, len(ch)]) + ch
    return bytes(out)


def body_of_len(rng, n):
    """A well-formed read body (value TLV) of exactly n bytes, n in {0} u {3..}; returns (body, value)."""
    if n == 0:
        return b"", b""
    # n = v + 2 * ceil(v / 255)
    v = n - 2
    while v > 0 and v + 2 * ((v + 254) // 255) > n:
        v -= 1
    value = bytes(rng.randrange(256) for _ in range(v))
    body = value_tlv(value)
    if len(body) != n:
        raise ValueError(f"no value TLV of {n} bytes")
    return body, value
