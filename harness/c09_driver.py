"""C09 driver: issues requests through the REAL HomeKitConnection / IpPairing on SimNet sessions
(insecure and secure, IPv4 / IPv6 / scoped IPv6 peers) and observes
  * the exact request bytes at the accessory end (after decryption on secure sessions),
  * every transport.write / transport.writelines call of the controller's asyncio transport.

Nothing here decides whether a request is canonical: the expected bytes come from the exported
cases of spec/http/HttpRequestFormat_Cases.tla and every observation is validated by TLC against
HttpRequestFormat_Trace.tla.
"""
from __future__ import annotations

import json
import logging

from . import simnet, vloop
from .refacc import accessory as A
from .refacc import http as H
from .refacc import tlv as T

logging.disable(logging.CRITICAL)

JSONT = "application/hap+json"
TLVT = "application/pairing+tlv8"


# ----------------------------------------------------------------------------------------------
# transport tap
# ----------------------------------------------------------------------------------------------
class Tap:
    """Logs the buffer lengths of every write()/writelines() call on asyncio socket transports.
    Only the controller uses asyncio transports in these sessions (the accessory end is a raw
    socket), so every logged call is the library handing bytes to its transport."""

    def __init__(self):
        self.log: list = []
        self._orig = None

    def install(self):
        from asyncio import selector_events as se
        cls = se._SelectorSocketTransport
        self._orig = (cls, cls.write, cls.writelines)
        tap = self
        depth = [0]
        o_write, o_writelines = cls.write, cls.writelines

        def write(tr, data):
            if depth[0] == 0:
                tap.log.append(("write", [len(data)]))
            depth[0] += 1
            try:
                return o_write(tr, data)
            finally:
                depth[0] -= 1

        def writelines(tr, list_of_data):
            lod = list(list_of_data)
            if depth[0] == 0:
                tap.log.append(("writelines", [len(x) for x in lod]))
            depth[0] += 1
            try:
                return o_writelines(tr, lod)
            finally:
                depth[0] -= 1

        cls.write, cls.writelines = write, writelines

    def uninstall(self):
        if self._orig:
            cls, w, wl = self._orig
            cls.write, cls.writelines = w, wl
            self._orig = None


# ----------------------------------------------------------------------------------------------
# accessory behaviour: answer everything, remember what was seen
# ----------------------------------------------------------------------------------------------
class Beh(simnet.Behaviour):
    def __init__(self, ident, sess):
        super().__init__(ident)
        self.sess = sess

    def on_request(self, conn, req):
        req.mark = len(self.sess.tap.log)
        self.sess.seen.append(req)
        if req.target == "/pair-verify" and req.method == "POST" and self.sess.secure and not req.secure:
            return self.on_pair_verify(conn, req)
        m, t = req.method, req.target
        if m == "GET" and t == "/accessories":
            return conn.respond(req, 200, A.hap_json({"accessories": self.accessories}))
        if m == "GET" and t.startswith("/characteristics?id=") and req.secure:
            try:
                return self.answer(conn, req)
            except Exception:  # noqa: BLE001  (odd id syntax: the check is about the request, answer anything)
                return conn.respond(req, 200, b'{"characteristics":[]}')
        if m == "GET":
            return conn.respond(req, 200, b"{}")
        if m == "POST" and t == "/pairings":
            return conn.respond(req, 200, T.enc([(T.STATE, b"\x02"), (T.IDENTIFIER, b"other-controller"),
                                                 (T.PUBLIC_KEY, bytes(32)), (T.PERMISSIONS, b"\x01")]), H.TLV8)
        if m == "POST" and t == "/resource" and b'"resource-type"' in req.body:
            return conn.respond(req, 200, b"\xff\xd8jpeg", "image/jpeg")
        return conn.respond(req, 204, b"", None)


class SetupFailed(Exception):
    def __init__(self, cause, stray):
        super().__init__(cause)
        self.cause, self.stray = cause, stray


class Session:
    """One connection (secure: an IpPairing with pair-verify done; insecure: a bare HomeKitConnection)."""

    def __init__(self, host: str, secure: bool, hosts=None):
        """host: the address the (first) connection lands on; hosts: every advertised address
        (default: just `host`).  `self.pick` steers which advertised address the next TCP connection
        reaches (SimNet tcp_script)."""
        from aiohomekit.controller.ip.connection import HomeKitConnection
        self.host, self.secure = host, secure
        self.hosts = list(hosts) if hosts else [host]
        self.pick = host
        self.seen: list = []
        self.tap = Tap()
        self.loop = vloop.new_loop()
        self.tap.install()
        ident = A.Identity()
        self.beh = Beh(ident, self)
        self.pairing = None

        def tcp_script(offered):
            return ("ok", self.pick if self.pick in offered else offered[0])
        try:
            if secure:
                self.net, self.pairing = simnet.make_pairing(self.loop, hosts=tuple(self.hosts), behaviour=self.beh,
                                                             ident=ident)
                self.net.tcp_script = tcp_script
                self.conn = self.pairing.connection
                self.run(self.pairing._ensure_connected())
            else:
                self.net = simnet.SimNet(self.loop, self.beh)
                self.net.tcp_script = tcp_script
                self.net.install()

                async def mk():
                    c = HomeKitConnection(None, list(self.hosts), 51826)
                    await c.ensure_connection()
                    return c
                self.conn = self.run(mk())
        except Exception as ex:  # noqa: BLE001
            stray = self.stray()
            self.close()
            raise SetupFailed(f"{type(ex).__name__}: {ex}", stray) from ex
        except BaseException:
            self.close()
            raise
        self.cursor = 0            # index into self.seen of the first request not yet attributed
        self.tap_cursor = 0

    def current_acc(self):
        """The accessory end of the connection that is open now (None if none)."""
        live = [c for c in self.net.conns if c.open]
        return live[-1] if live else None

    def lose_and_reconnect(self, host: str, reset: bool = False):
        """The accessory drops the open connection; the library reconnects by itself and the TCP
        connection lands on `host` (one of the advertised addresses). Returns the new accessory end."""
        import asyncio
        old = self.current_acc()
        self.pick = host
        nconn = len(self.net.conns)

        async def go():
            if old is not None:
                old.close(reset=reset)
            for _ in range(400):                       # virtual time; the first retry is immediate
                await asyncio.sleep(0.05)
                if len(self.net.conns) > nconn and self.conn.is_connected:
                    return True
            return False
        ok = self.run(go())
        acc = self.current_acc()
        if not ok or acc is None or acc.host != host:
            raise SetupFailed(f"automatic reconnect to {host} did not happen "
                              f"(connected={bool(self.conn.is_connected)}, accessory end={acc.host if acc else None})",
                              self.stray())
        return acc

    def run(self, coro):
        return self.loop.run_until_complete(coro)

    def take(self):
        """Requests seen since the last take(), each with the transport calls made for it."""
        out = []
        for req in self.seen[self.cursor:]:
            calls = self.tap.log[self.tap_cursor:req.mark]
            self.tap_cursor = req.mark
            out.append((req, [c[1] for c in calls], [c[0] for c in calls]))
        self.cursor = len(self.seen)
        return out

    def stray(self) -> bytes:
        """Bytes the accessory received that are not part of a complete request (must be none)."""
        net = getattr(self, "net", None)
        return b"".join(bytes(c.parser.buf) for c in net.conns) if net is not None else b""

    def stray_bytes(self):
        return len(self.stray())

    def close(self):
        try:
            if self.pairing is not None:
                self.run(self.pairing.close())
            elif getattr(self, "conn", None) is not None:
                self.run(self.conn.close())
        except Exception:  # noqa: BLE001
            pass
        try:
            if getattr(self, "net", None) is not None:
                self.net.uninstall()
        finally:
            self.tap.uninstall()
            vloop.close_loop(self.loop)


# ----------------------------------------------------------------------------------------------
# JSON: tagged trees <-> python values, independent tokenizer
# ----------------------------------------------------------------------------------------------
def from_tree(t):
    if t["t"] == "lit":
        return json.loads(t["s"])
    if t["t"] == "arr":
        return [from_tree(x) for x in (t.get("v") or [])]
    return {json.loads(k): from_tree(v) for k, v in (t.get("v") or [])}


def lit_of(v):
    """Tagged literal of a bool / int / plain ASCII string (the spec's JBool / JInt / JStr)."""
    if v is True:
        return {"t": "lit", "s": "true"}
    if v is False:
        return {"t": "lit", "s": "false"}
    if isinstance(v, int):
        return {"t": "lit", "s": str(v)}
    if isinstance(v, str) and all(32 <= ord(c) < 127 and c not in '"\\' for c in v):
        return {"t": "lit", "s": '"' + v + '"'}
    raise ValueError(f"no canonical literal for {v!r}")


class NotJson(Exception):
    pass


_WS = " \t\r\n"
_DELIM = ",]}" + _WS


def tokenize_tree(s: str, with_tokens: bool = False):
    """Independent JSON reader: returns the tagged tree with every scalar (and object key) as the
    literal text found in `s` (and, on request, the flat sequence of tokens in scan order). White
    space between tokens is skipped (and therefore missing from the tree / token list:
    Compact(tree) differs from `s` exactly when `s` has insignificant white space)."""
    pos = 0
    n = len(s)
    toks: list = []

    def ws():
        nonlocal pos
        while pos < n and s[pos] in _WS:
            pos += 1

    def punct(c):
        nonlocal pos
        toks.append(c)
        pos += 1

    def string():
        nonlocal pos
        st = pos
        if pos >= n or s[pos] != '"':
            raise NotJson(f"string expected at {pos}")
        pos += 1
        while pos < n and s[pos] != '"':
            pos += 2 if s[pos] == "\\" else 1
        if pos >= n:
            raise NotJson("unterminated string")
        pos += 1
        toks.append(s[st:pos])
        return s[st:pos]

    def value():
        nonlocal pos
        ws()
        if pos >= n:
            raise NotJson("value expected")
        c = s[pos]
        if c == '"':
            return {"t": "lit", "s": string()}
        if c == "[":
            punct("[")
            items = []
            ws()
            if pos < n and s[pos] == "]":
                punct("]")
                return {"t": "arr", "v": items}
            while True:
                items.append(value())
                ws()
                if pos < n and s[pos] == ",":
                    punct(",")
                    continue
                if pos < n and s[pos] == "]":
                    punct("]")
                    return {"t": "arr", "v": items}
                raise NotJson(f"',' or ']' expected at {pos}")
        if c == "{":
            punct("{")
            items = []
            ws()
            if pos < n and s[pos] == "}":
                punct("}")
                return {"t": "obj", "v": items}
            while True:
                ws()
                k = string()
                ws()
                if pos >= n or s[pos] != ":":
                    raise NotJson(f"':' expected at {pos}")
                punct(":")
                items.append([k, value()])
                ws()
                if pos < n and s[pos] == ",":
                    punct(",")
                    continue
                if pos < n and s[pos] == "}":
                    punct("}")
                    return {"t": "obj", "v": items}
                raise NotJson(f"',' or '}}' expected at {pos}")
        st = pos
        while pos < n and s[pos] not in _DELIM:
            pos += 1
        if st == pos:
            raise NotJson(f"unexpected character at {pos}")
        toks.append(s[st:pos])
        return {"t": "lit", "s": s[st:pos]}

    tree = value()
    ws()
    if pos != n:
        raise NotJson(f"trailing data at {pos}")
    return (tree, toks) if with_tokens else tree


NULL_TREE = {"t": "lit", "s": "null"}


def depth_of(tree) -> int:
    d, stack = 0, [(tree, 1)]
    while stack:
        t, n = stack.pop()
        d = max(d, n)
        if t["t"] == "arr":
            stack += [(x, n + 1) for x in t["v"]]
        elif t["t"] == "obj":
            stack += [(x, n + 1) for _, x in t["v"]]
    return d


def observe(sess: Session, want_json: bool, want_order: bool):
    """Turn the requests seen since the last take() into the `reqs` list of a trace record.
    Returns (reqs, problems)."""
    reqs, problems = [], []
    for req, sizes, kinds in sess.take():
        raw = req.raw.decode("latin-1")
        text = req.body.decode("latin-1")
        tree = NULL_TREE
        if want_json:
            try:
                tree, toks = tokenize_tree(text, True)
                if depth_of(tree) > 40:
                    tree = {"t": "toks", "v": toks}       # too deep to ship as a nested record: flat token form
            except NotJson as ex:
                problems.append(f"body of {req.method} {req.target} is not JSON ({ex}): {req.body[:80]!r}")
        order = []
        if want_order and req.target.startswith("/characteristics?id="):
            try:
                order = [[int(x) for x in part.split(".")] for part in req.target.split("=", 1)[1].split(",")]
                if any(len(o) != 2 for o in order):
                    order = []
            except ValueError:
                order = []
        reqs.append({"raw": raw, "text": text, "json": tree, "order": order, "tcalls": sizes,
                     "_kinds": kinds, "_method": req.method, "_target": req.target,
                     "_host": sess.net.conns[req.conn].host})
    return reqs, problems
