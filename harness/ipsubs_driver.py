"""Drives subscriptions / listeners / events of the real IpPairing (C12) and records the alphabet of
spec/ip/IpSubs_Trace.tla."""
from __future__ import annotations

import asyncio
import json
import logging
import random
import types

from . import ipconn_driver as D
from . import simnet, vloop
from .refacc import accessory as A
from .refacc import http as H
from .refacc import tlv as T

logging.disable(logging.CRITICAL)
CHARS = [(1, 9), (1, 10), (2, 9)]


def enc(c):
    return c[0] * 100 + c[1]


class SubBehaviour(D.ScriptedBehaviour):
    def __init__(self, ident, run):
        super().__init__(ident, run)
        self.hold_put = False

    def on_request(self, conn, req):
        kind = self.kind_of(req)
        req.kind = kind
        if kind == "m1":
            conn.pv = A.PairVerify(self.ident)
            return conn.respond(req, 200, T.enc(conn.pv.on_m1(T.dec(req.body))), H.TLV8)
        if kind == "m3":
            out = conn.pv.on_m3(T.dec(req.body))
            assert conn.pv.verified, conn.pv.error
            k = conn.pv.keys()
            conn.pending_session = A.SecureSession(k["a2c"], k["c2a"])
            conn.respond(req, 200, T.enc(out), H.TLV8)
            self.run.cur = conn
            self.run.log("session", s=conn.id + 1)
            return None
        if kind == "sub":
            body = json.loads(req.body)["characteristics"]
            aid = body[0]["aid"]
            on = bool(body[0]["ev"])
            chars = sorted(enc((c["aid"], c["iid"])) for c in body)
            # the accessory may refuse some of the characteristics of a subscribe request (unknown instance id, no event
            # permission, out of resources): HTTP 207 with one row per characteristic (or only the refused ones); what it
            # was ASKED for is what the property talks about, what it registered decides which events it can send
            rng = self.run.rng
            refused = set()
            if on and not self.hold_put and rng.random() < 0.25:
                ids = [(c["aid"], c["iid"]) for c in body]
                refused = set(rng.sample(ids, rng.randrange(1, len(ids) + 1)))
            for c in body:
                if (c["aid"], c["iid"]) not in refused:
                    conn.registrations[(c["aid"], c["iid"])] = bool(c["ev"])
            self.run.log("acc_reg", s=conn.id + 1, aid=aid, chars=chars, on=on)
            if not self.hold_put:
                self.run.log("acc_put_reply", s=conn.id + 1)
                if refused:
                    rows = [{"aid": c["aid"], "iid": c["iid"], "status": -70406 if (c["aid"], c["iid"]) in refused else 0}
                            for c in body if (c["aid"], c["iid"]) in refused or rng.random() < 0.7]
                    conn.respond(req, 207, A.hap_json({"characteristics": rows}), H.JSON)
                else:
                    conn.respond(req, 204, b"", None)
            return None
        return self.answer(conn, req)


class SubRun:
    def __init__(self, rng):
        self.rng = rng
        self.events = []
        self.dropped = set()
        self.loop = vloop.new_loop()
        self.ident = A.Identity()
        self.beh = SubBehaviour(self.ident, self)
        ctrl = A.ControllerIdentity()
        pdata = self.ident.pairing_data(ctrl, hosts=[D.HOSTS["h1"]])
        self.net = D.DeferredNet(self.loop, self.beh, self)
        self.net.auto = True
        self.net.down = False
        self.net.install()
        self.down = False
        self.net.tcp_script = None
        from aiohomekit.characteristic_cache import CharacteristicCacheMemory
        from aiohomekit.controller.ip.pairing import IpPairing
        controller = types.SimpleNamespace(_char_cache=CharacteristicCacheMemory(), pairings={}, aliases={})

        async def mk():
            p = IpPairing(controller, pdata)
            # what the pairing knows about the accessory when events arrive: the whole database, a stale one that lacks a
            # bridged accessory (events for an accessory id it has never seen), or nothing yet
            known = rng.choice(["all", "all", "stale", "none"])
            if known == "all":
                p.restore_accessories_state(simnet.DEFAULT_ACCESSORIES, 1, None)
            elif known == "stale":
                p.restore_accessories_state([a for a in simnet.DEFAULT_ACCESSORIES if a.get("aid") == 1], 1, None)
            return p
        self.pairing = self.loop.run_until_complete(mk())
        self.cur = None
        self.removers = {}
        self.fired = set()
        self.ops = {}
        self.free_ops = [1, 2]
        self.ev_n = {}
        self.loop_exceptions = []
        def on_loop_exception(l, c):
            # an exception that escapes from the library into the event loop (asyncio then tears the transport down) is an
            # event of the execution: the specification has no step that explains it
            what = str(c.get("exception") or c.get("message"))
            self.loop_exceptions.append(what)
            if c.get("exception") is not None and not (self.events and self.events[-1].get("ev") == "end"):
                self.log("loop_exc", what=f"{type(c.get('exception')).__name__}: {what}"[:160])
        self.loop.set_exception_handler(on_loop_exception)

    def log(self, ev, **kw):
        if ev in ("tcp_call", "tcp_res", "tcp_ok", "acc_rx", "acc_tx"):
            return
        if ev == "acc_eof":
            # the controller itself abandoned the session (request time-out ...): a drop as far as IpSubs is concerned
            if kw["conn"] in self.dropped:
                return
            ev, kw = "drop", {"s": kw["conn"]}
        if ev == "peer_close":
            ev, kw = "drop", {"s": kw["conn"]}
        if ev == "drop":
            if kw["s"] in self.dropped:
                return
            self.dropped.add(kw["s"])
        rec = {"ev": ev}
        rec.update(kw)
        self.events.append(rec)

    def step(self, n=1):
        for _ in range(n):
            self.loop.call_soon(self.loop.stop)
            self.loop.run_forever()

    def settle(self):
        self.loop.settle()

    # ---- listeners: 1 plain, 2 raises, 3 removes itself from inside its callback
    def add_listener(self, lid):
        def cb(ev, lid=lid):
            if not ev:
                self.log("listener", l=lid, kind="up", s=(self.cur.id + 1 if self.cur else 0), n=0)
            else:
                for (aid, iid), v in ev.items():
                    val = v.get("value")
                    self.log("listener", l=lid, kind="ev", s=val // 1000, n=val % 1000)
                    break
            if lid == 3:
                rem = self.removers.pop(3, None)
                if rem:
                    rem()
            if lid == 2:
                raise ValueError("listener 2 always raises")

        # callers register all kinds of callables: a functools.partial (1), a callable object (2), a plain function (3)
        import functools

        class _Callable:
            def __call__(self, ev):
                return cb(ev)
        target = {1: functools.partial(cb), 2: _Callable()}.get(lid, cb)

        def f():
            self.log("add_listener", l=lid)
            self.removers[lid] = self.pairing.dispatcher_connect(target)
        self.loop.call_soon(f)
        self.step(1)

    def remove_listener(self, lid):
        def f():
            self.log("remove_listener", l=lid)
            self.removers.pop(lid)()
        self.loop.call_soon(f)
        self.step(1)

    # ---- operations
    def op(self, kind, chars):
        o = self.free_ops.pop(0)
        p = self.pairing

        async def w():
            self.log(f"{kind}_call", o=o, chars=sorted(enc(c) for c in chars))
            try:
                if kind == "sub":
                    await p.subscribe(list(chars))
                else:
                    await p.unsubscribe(list(chars))
                res = "returned"
            except asyncio.CancelledError:
                res = "cancelled"
            except BaseException as ex:  # noqa: BLE001
                from aiohomekit import exceptions as X
                res = "disconnected" if isinstance(ex, X.AccessoryDisconnectedError) else f"error:{type(ex).__name__}"
            self.log("op_ret", o=o, res=res)
            self.ops.pop(o, None)
            self.free_ops.append(o)
            self.free_ops.sort()
        self.ops[o] = self.loop.create_task(w())
        self.step(1)

    # ---- accessory
    def release_puts(self, conn):
        for req in list(conn.unanswered):
            if getattr(req, "kind", None) == "sub":
                self.log("acc_put_reply", s=conn.id + 1)
                conn.respond(req, 204, b"", None)

    def event(self, conn, n_events=1, split=False, bad=None):
        regs = sorted(c for c, on in conn.registrations.items() if on)
        out = b""
        msgs = []
        s = conn.id + 1
        for _ in range(n_events):
            if bad:
                self.log("acc_bad", s=s)
                body = b"" if bad == "empty" else b"{not json"
            else:
                if not regs:
                    return
                n = self.ev_n.get(conn.id, 0) + 1
                self.ev_n[conn.id] = n
                self.log("acc_ev", s=s, n=n)
                c = self.rng.choice(regs)
                body = A.hap_json({"characteristics": [{"aid": c[0], "iid": c[1], "value": s * 1000 + n}]})
            out += H.event(body)
            msgs.append(len(H.event(body)))
        # how the accessory frames the burst: one frame, one frame per EVENT message, or small frames - a read that ends
        # inside a frame may then hold complete frames in front of the partial one
        framing = self.rng.choice(["one", "per_event", "small"]) if (n_events > 1 or split) else "one"
        if framing == "per_event":
            sizes = msgs
        elif framing == "small":
            k = self.rng.choice([16, 40, 100])
            sizes = [k] * (len(out) // k) + ([len(out) % k] if len(out) % k else [])
        else:
            sizes = None
        wire = conn.session.seal(out, sizes)
        if split and len(wire) > 2:
            cut = self.rng.randrange(1, len(wire))
            conn.send_raw(wire[:cut])
            self.step(1)
            conn.send_raw(wire[cut:])
        else:
            conn.send_raw(wire)

    def drop(self, conn, how):
        conn.close(reset=(how == "rst"))

    def finish(self):
        self.beh.hold_put = False
        self.net.down = False
        for conn in self.net.conns:
            if conn.open:
                self.release_puts(conn)
        self.settle()
        self.loop.advance(45)
        self.settle()
        self.log("end")

    def close(self):
        self.net.uninstall()
        vloop.close_loop(self.loop)

    def record(self, rid):
        return {"id": rid, "events": self.events}


def random_run(rng, rid, nsteps=30):
    r = SubRun(rng)
    try:
        # connect first (ensure_connection), with or without listeners / subscriptions already present
        for lid in (1, 2, 3):
            if rng.random() < 0.6:
                r.add_listener(lid)

        async def go():
            try:
                await r.pairing.connection.ensure_connection()
            except Exception:  # noqa: BLE001
                pass
        r.loop.create_task(go())
        r.settle()
        for _ in range(nsteps):
            stim(r, rng)
            r.settle()
        r.finish()
        return r
    except BaseException:
        r.close()
        raise


def stim(r: SubRun, rng):
    opts = []
    conn = r.cur if (r.cur is not None and r.cur.open) else None
    for lid in (1, 2, 3):
        opts.append(("add", lid) if lid not in r.removers else ("remove", lid))
    if r.free_ops:
        opts += [("sub",)] * 4 + [("unsub",)] * 2
    if conn is not None:
        held = [q for q in conn.unanswered if getattr(q, "kind", None) == "sub"]
        if held:
            opts += [("release", conn)] * 6 + [("timeout", conn)] * 2
        opts += [("event", conn)] * 6 + [("burst", conn)] * 2 + [("split", conn)] * 2 + [("bad", conn)] * 2
        opts += [("drop", conn, "fin"), ("drop", conn, "rst")]
    opts += [("hold",)]
    if not r.ops:
        opts += [("net",)] * (3 if r.net.down else 1)
    o = rng.choice(opts)
    if o[0] == "net":
        # the accessory becomes unreachable (TCP refused) / reachable again
        r.net.down = not r.net.down
        if not r.net.down:
            r.settle()
            r.loop.advance(61)          # the next back-off retry reconnects
        return
    if o[0] == "add":
        r.add_listener(o[1])
    elif o[0] == "remove":
        r.remove_listener(o[1])
    elif o[0] in ("sub", "unsub"):
        k = rng.randrange(1, 4)
        r.op(o[0], rng.sample(CHARS, k))
        r.settle()
        if r.ops and (conn is None or r.net.down):
            r.loop.advance(11)          # not connected: the 10 s wait for the connection runs out
    elif o[0] == "release":
        r.release_puts(o[1])
    elif o[0] == "timeout":
        # the accessory stays silent: the 30 s request timer abandons the connection
        r.settle()
        r.loop.advance(31)
    elif o[0] == "event":
        r.event(o[1])
    elif o[0] == "burst":
        r.event(o[1], n_events=rng.randrange(2, 4))
    elif o[0] == "split":
        r.event(o[1], n_events=rng.randrange(1, 3), split=True)
    elif o[0] == "bad":
        r.event(o[1], bad=rng.choice(["empty", "garbage"]))
    elif o[0] == "drop":
        r.drop(o[1], o[2])
    elif o[0] == "hold":
        r.beh.hold_put = not r.beh.hold_put
        if not r.beh.hold_put and conn is not None:
            r.release_puts(conn)
