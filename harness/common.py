"""Check context: evidence accounting, violations, known findings, replay files."""
from __future__ import annotations

import json
import os
import random
import time

from . import tlc as _tlc

VERIF = os.path.dirname(os.path.dirname(os.path.abspath(__file__)))
SPEC = os.path.join(VERIF, "spec")
# Trial runs against another tree (VERIF_REPO=/scratch/worktree: seeded changes, candidate fixes, refactorings) must not
# overwrite the evidence of /repo itself: their evidence and replay files go under /verif/.trial/ (not committed).
_TRIAL = os.path.realpath(os.environ.get("VERIF_REPO", "/repo")) != os.path.realpath("/repo")
_OUT = os.path.join(VERIF, ".trial") if _TRIAL else VERIF
EVID = os.path.join(_OUT, "evidence")
REPLAYS = os.path.join(_OUT, "replays")
KNOWN = os.path.join(VERIF, "known_findings.json")

MachineryError = _tlc.MachineryError


def _jsonable(o):
    if isinstance(o, (bytes, bytearray)):
        return {"hex": bytes(o).hex()}
    if isinstance(o, (set, frozenset)):
        return sorted((_jsonable(x) for x in o), key=repr)
    if isinstance(o, tuple):
        return [_jsonable(x) for x in o]
    if isinstance(o, list):
        return [_jsonable(x) for x in o]
    if isinstance(o, dict):
        return {str(k): _jsonable(v) for k, v in o.items()}
    if isinstance(o, (str, int, float, bool)) or o is None:
        return o
    return repr(o)


class Ctx:
    def __init__(self, pid: str, tier: str, seed: int, replay: str | None = None):
        self.pid = pid
        self.tier = tier
        self.seed = seed
        self.replay = replay
        self.rng = random.Random(seed)
        self.t0 = time.time()
        self.states = 0
        self.transitions = 0
        self.traces = 0              # executions of the real code validated against the spec
        self.evaluations = 0
        self.distinct = set()
        self.samples: list = []
        self.violations: list = []
        self.known_hits: dict = {}
        self.tlc_runs: list = []
        self.notes: dict = {}
        self.assumptions: list = []
        self.exhaustive = None
        self.rule = ""
        self._known = self._load_known()

    # ---- tier helpers
    @property
    def thorough(self) -> bool:
        return self.tier == "thorough"

    def pick(self, quick, thorough):
        return thorough if self.thorough else quick

    # ---- known findings
    def _load_known(self):
        try:
            data = json.load(open(KNOWN))
        except FileNotFoundError:
            return {}
        out = {}
        for f in data.get("findings", []):
            if f.get("property") == self.pid:
                out[f["signature"]] = f
        return out

    # ---- TLC
    def tlc(self, module: str, cfg: str | None = None, *, require_cover=True, ignore_cover=(),
            label: str | None = None, expect_violation: bool = False, **kw) -> _tlc.TLCResult:
        """Run TLC on spec/<module>.tla. A violation of the design-level property is reported as a
        VIOLATION (the spec models the code as it is bound by the conformance checks)."""
        path = module if os.path.isabs(module) else os.path.join(SPEC, module)
        if not path.endswith(".tla"):
            path += ".tla"
        cfgp = None
        if cfg:
            cfgp = cfg if os.path.isabs(cfg) else os.path.join(os.path.dirname(path), cfg)
        res = _tlc.run(path, cfgp, **kw)
        self.states += res.distinct
        self.transitions += res.generated
        entry = {"module": os.path.relpath(path, VERIF), "cfg": os.path.basename(cfgp) if cfgp else None,
                 "label": label, "generated": res.generated, "distinct": res.distinct, "depth": res.depth,
                 "wall_s": round(res.wall_s, 2), "ok": res.ok,
                 "actions": {a: t for a, (d, t) in sorted(res.coverage.items())}}
        self.tlc_runs.append(entry)
        if not res.ok and not expect_violation:
            self.violation(f"TLC: {res.violation['kind']} {res.violation['name']} violated in "
                           f"{entry['module']} ({entry['cfg']})",
                           {"kind": "tlc", "module": entry["module"], "cfg": entry["cfg"],
                            "violation": {**res.violation, "trace": res.violation["trace"][:300000]}})
        if res.ok and require_cover and kw.get("coverage", True):
            dead = res.never_fired(ignore=tuple(ignore_cover))
            # definitions that are not actions (invariants, constraints, helpers) show up with counts too;
            # only names with a 0 total are suspicious.
            if dead:
                raise MachineryError(f"vacuity guard: actions never fired in {entry['module']} "
                                     f"({entry['cfg']}): {dead}")
        return res

    # ---- accounting
    def case(self, key=None, n: int = 1):
        self.evaluations += n
        if key is not None:
            self.distinct.add(key)

    def trace_ok(self, n: int = 1):
        self.traces += n

    def sample(self, obj, limit: int = 6):
        if len(self.samples) < limit:
            self.samples.append(_jsonable(obj))

    def assume(self, *texts):
        for t in texts:
            if t not in self.assumptions:
                self.assumptions.append(t)

    # ---- verdicts
    def violation(self, what: str, replay_obj=None, signature: str | None = None):
        """Report a violation. If `signature` matches a listed known finding it is reported as
        KNOWN-FINDING instead (once per signature)."""
        if signature is not None and signature in self._known:
            if signature not in self.known_hits:
                self.known_hits[signature] = what
            return
        n = len(self.violations) + 1
        os.makedirs(REPLAYS, exist_ok=True)
        path = os.path.join(REPLAYS, f"{self.pid}-{self.tier}-{n}.json")
        if len(self.violations) < 25:
            with open(path, "w") as f:
                json.dump({"property": self.pid, "seed": self.seed, "tier": self.tier, "what": what,
                           "signature": signature, "replay": _jsonable(replay_obj)}, f, indent=1)
        self.violations.append((what, path))

    # ---- finish
    def finish(self) -> int:
        wall = time.time() - self.t0
        cov = {
            "states": int(self.states),
            "transitions": int(self.transitions),
            "traces_validated_against_impl": int(self.traces),
            "evaluations": int(self.evaluations),
            "distinct_nontrivial": len(self.distinct),
            "rule": self.rule,
            "samples": self.samples or [{"note": "no sample recorded"}],
            "tlc_runs": self.tlc_runs,
            "known_findings_hit": sorted(self.known_hits),
        }
        if self.exhaustive is not None:
            cov["exhaustive"] = bool(self.exhaustive)
        cov.update(_jsonable(self.notes))
        ev = {
            "property_id": self.pid,
            "tier": self.tier,
            "seed": int(self.seed),
            "level": "model_checking",
            "coverage": cov,
            "assumptions": self.assumptions,
            "wall_s": round(wall, 2),
            "violations": len(self.violations),
        }
        os.makedirs(EVID, exist_ok=True)
        tmp = os.path.join(EVID, f".{self.pid}.json.tmp")
        with open(tmp, "w") as f:
            json.dump(ev, f, indent=1, sort_keys=False)
            f.write("\n")
        os.replace(tmp, os.path.join(EVID, f"{self.pid}.json"))
        for sig, what in sorted(self.known_hits.items()):
            print(f"KNOWN-FINDING: property={self.pid} {sig}: {what}")
        # a listed finding that no longer reproduces is reported (informational, not an alarm)
        for sig, f in sorted(self._known.items()):
            if sig not in self.known_hits and f.get("expect_on_tiers", ["quick", "thorough"]).count(self.tier):
                print(f"NOTE: known finding {sig} of {self.pid} did not reproduce in this run")
        for what, path in self.violations[:25]:
            print(f"VIOLATION property={self.pid} replay={path}")
            print(f"  {what}")
        if len(self.violations) > 25:
            print(f"  ... and {len(self.violations) - 25} more violations")
        print(f"{self.pid} [{self.tier}] states={self.states} transitions={self.transitions} "
              f"impl_executions={self.traces} evaluations={self.evaluations} "
              f"violations={len(self.violations)} wall={wall:.1f}s")
        return 1 if self.violations else 0
