"""Regenerates /verif/MANIFEST.json from the table below (kept here so the file is always valid)."""
import json
import os

VERIF = os.path.dirname(os.path.dirname(os.path.abspath(__file__)))

CHECKS = {
    "C15": dict(
        technique="TLA+ spec (spec/codec/Tlv8*.tla) model-checked by TLC; TLC-exported cases replayed on TLV.encode_list/decode_*; recorded runs validated by Tlv8_Trace",
        text="TLC checks RoundTrip/Canonical/WireLenExact on the encode->wire->decode pipeline exhaustively for FRAG=3 and on the property's boundary lengths for FRAG=255, and Conservation/NoShortValue/Total on the byte-level decoder over every string of <=5 (quick) / <=6 (thorough) bytes of a 7-symbol alphabet; every enumerated case is replayed on the real codec and compared with the spec's layout/verdict; seeded random lists (values <=2000 bytes, all types) are recorded from the real codec and accepted/rejected by TLC against Tlv8_Trace.",
        note="BLE pairing-reply fragment reassembly is driven through drive_pairing_state_machine with varying and constant-fill content. Content-independent model: value bytes are filled in by the concretiser. Trusted: TLC, the 15-line independent TLV reader.",
        ref="5/C15"),
}

CHECKS.update({
    "C10": dict(
        technique="TLA+ spec of the connection life-cycle (spec/ip/IpConn.tla) model-checked by TLC; TLC -simulate behaviours replayed as stimuli into the real IpPairing on a virtual-time asyncio loop; recorded socket/API traces validated against IpConn_Trace (real-time, back-off table exact)",
        text="TLC checks SingleConnector/SingleAttempt/HostsNeverEmpty/ExclusionEnds/BackoffBeforeRetry/NextAddressOnce/NotStuck/NoAttemptAfterShutdown/NoSpontaneousAttemptAfterClose/WaiterAttached/ShieldRespected exhaustively on IpConn for small constants (every interleaving of connector steps, transport callbacks, timers, accessory replies, FIN/reset, API callers). Every execution of the real code (TLC behaviours replayed, seeded random stimulus sequences, hours-long failing runs) is recorded at the socket boundary and the public API and must be a behaviour of the timed specification: attempt times must equal the back-off table min(60,0.5*1.5^k) exactly, waiters return within 10 s, no attempt after shutdown, and after an honest tail the pairing must be connected (safety form of 'keeps trying').",
        note="Directed families: long failing runs over the whole back-off table, address-exclusion histories, triggers landing inside a running close()/shutdown(), connector in its last step, listener-scheduled close. A rejected execution gets a second opinion under the loose timing reading (any wait positive and <= 60 s, back-off growing): timing constants other than the documented ones are a NOTE, not a violation. Trusted: TLC, the virtual-time loop (harness/vloop.py), the socketpair network and reference accessory (harness/simnet.py, harness/refacc). Readings of ambiguous clauses: DESIGN.md section 4.2.",
        ref="5/C10"),
    "C11": dict(
        technique="TLA+ spec of the connection life-cycle (spec/ip/IpConn.tla) model-checked by TLC; recorded executions of the real code validated against IpConn_Trace with the set of sockets open on the accessory side compared after every settled step",
        text="TLC checks AtMostOneOpen/AtMostOneHeld/HeldIsCurrent/AfterCloseNothingHeld/StaleLossHarmless exhaustively on IpConn for small constants, with every way a secure-session setup can end, FIN and reset of old and new sockets in every order, and close()/shutdown() from every state. Trace validation binds it to the code: after every settled step the accessory-side set of open sockets must equal the specification's, every EOF seen by the accessory must be explained by a controller close, close()/shutdown() must return normally.",
        note="Same directed families and loose timing second opinion as C10; a rejected execution that shows an attempt or an open connection after a returned close() is reported under C11 whatever its first unexplained event. The simulated network is made of AF_UNIX socket pairs: TCP-only error behaviour of the socket layer (shutdown() failing with ENOTCONN after a peer reset) is not reproduced. Trusted: TLC, harness/vloop.py, harness/simnet.py, harness/refacc. Histories where a trigger races with an unfinished close() are accepted either way (DESIGN.md 4.2).",
        ref="5/C11"),
})

CHECKS.update({
    "C08": dict(
        technique="TLA+ spec of the request plane (spec/ip/IpReq.tla) model-checked by TLC (safety exhaustively, NoHang as liveness under fairness); recorded executions of the real SecureHomeKitConnection on a virtual-time loop validated against IpReq_Trace (timed)",
        text="TLC checks OwnResponse, EventsInOrder, NoWriteAfterFault, NoStaleCompletion, SemConsistent, NoOrphan on every interleaving of {issue, response whole / in two pieces, EVENT, unsolicited response, FIN, reset, 30 s timer, caller cancel, reconnect} for 2-3 callers and 2 sockets, and NoHang under weak fairness. Seeded random stimulus sequences (with partial settling of the loop so that stimuli land between callbacks) drive the real connection; every recorded trace must be a behaviour of the timed spec: each API outcome, the request a delivered body was written for, listener calls, and completion exactly at the loss or at write time + 30 s.",
        note="Besides the random stimulus mix, directed families pin the interleavings single clauses need: cancellation inside the delivering loop iteration (capacity 2), tail of a split response coalesced with EVENTs, chunked responses cut at chunk boundaries, a hung accessory with an unflushed request (EOF, owner close, late reset). An exception escaping from the library into the event loop is an event (loop_exc) no step of the specification explains (the IndexError of an unsolicited response is modelled). Trusted: TLC, harness/vloop.py, harness/simnet.py, harness/refacc. Assumptions listed in the evidence (write to a peer-closed socket may fail at once; unsolicited response only while nothing is outstanding).",
        ref="5/C08"),
})

CHECKS.update({
    "C12": dict(
        technique="TLA+ spec of subscriptions, listeners and event delivery (spec/ip/IpSubs.tla) model-checked by TLC (depth-bounded exhaustive + simulation); recorded histories of the real IpPairing validated against IpSubs_Trace with the invariants evaluated in every state",
        text="TLC checks ResubscribedAfterReconnect, ToldUp, ExactlyOnce, NeverTwice, InOrder, ListenersDoNotDrop over subscribe/unsubscribe operations cut at any point by a disconnection, reconnects, listener add/remove, raising and self-removing listeners, events and ignored bodies. Seeded random histories drive the real IpPairing over the simulated accessory (registrations recorded per session, events in bursts / split across reads / empty / non-JSON); every recorded trace must be a behaviour of the spec and keep the invariants.",
        note="The simulated accessory may refuse part of a subscribe request (HTTP 207), frames bursts per event / in small frames, and the pairing starts with the whole, a stale or no accessory database. Trusted: TLC, harness/vloop.py, harness/simnet.py, harness/refacc. Events still unread when the connection is lost are not claimed.",
        ref="5/C12"),
    "C07": dict(
        technique="TLC model checking of a byte-class state machine of the HTTP/EVENT parser's algorithm over all segmentations of small message sequences (spec/http/HttpParser.tla); exported streams replayed on the real feed loop under all <=2-cut sets and random multi-cuts; recorded runs validated by TLC (HttpParser_Trace)",
        text="For every stream of <=3 messages from the shape universe and every way of cutting it into reads, the algorithm delivers exactly the messages whose last byte was fed, unaltered and in order, never early, with leftovers carried over (SegmentationInvariant, NeverEarly, NoLossNoDup, NoParserError, CleanAtEnd). The real data_received/parse agrees with this on every exported stream under all <=2-cut sets and under random multi-cuts on long random streams (validated by TLC against the spec's parser).",
        note="Well-formed messages only (single length mechanism, lower-case 'chunked', no chunk extensions or trailers). Header names compared case-insensitively, values modulo surrounding whitespace; line content and body bytes are chosen by the concretiser.",
        ref="5/C07"),
    "C09": dict(
        technique="TLC-checked specification of the canonical request form and of request()/send_bytes as a state machine over an enumerated request universe (spec/http/HttpRequestFormat.tla); every exported case issued through the real connection on insecure and secure simulated sessions; every observed request validated by TLC against a trace module",
        text="Every request produced by HomeKitConnection.get/request/put/post/put_json/post_json and by the IpPairing API is byte-for-byte the spec's canonical string and is handed to the transport in exactly one write/writelines call, for IPv4, IPv6 and scoped IPv6 peers, bodies crossing the 1024-byte frame boundaries, ~1.6e3 nested JSON values plus random ones, and the characteristics/pairings/image calls (CanonicalForm, HeaderDiscipline, SingleCall, CompactNoWhitespace; FormatConforms/TransportConforms/CallConforms on traces).",
        note="Peer name from SimNet's PeerSock; request bytes are those read by the reference accessory after its own decryption. An empty explicit body may appear with or without the two headers; key order and id order are free. Floats/escapes are taken verbatim from orjson.",
        ref="5/C09"),
})

CHECKS.update({
    "C05": dict(
        technique="TLA+ byte-count model of the secure-session framing (spec/session/SecureFraming.tla) model-checked by TLC (every segmentation for tiny constants, boundary cut classes for the real ones); TLC -simulate behaviours replayed on the real SecureHomeKitProtocol; recorded runs (all single/double cuts, all corruption sites and bits, outbound layouts) validated by TLC against SecureFraming_Trace",
        text="TLC checks InboundExact, NeverEarly, CounterIsFrameIndex, CorruptNeverDelivered, DeadOnlyByCorruption, AuthFailureEndsSession, AlignedInvariant, OutboundExact for all frame-size lists of <=3 frames, all read sequences and every single corruption (length prefix / ciphertext / tag). On the real code the reference accessory's encrypted EVENT stream, cut into the chosen frame sizes and reads, must produce exactly the specification's number of decrypted frames after every read (observed at the AEAD boundary), consecutive counters from 0, the EVENT messages contained in the decrypted prefix, a RuntimeError exactly when the spec's session dies; every request of the boundary lengths must leave in one writelines call that the reference accessory decrypts to the request with the spec's frame layout.",
        note="Outbound sessions include pipelined requests (2-3 written before the first answer) and long sessions (300-1500 frames in each direction, frame counters beyond one byte). AEAD assumed ideal. Decrypts observed by substituting a logging subclass of the decryptor class in the connection module. Trusted: TLC, harness/refacc (independent ChaCha20-Poly1305 framing).",
        ref="5/C05"),
    "C13": dict(
        technique="TLA+ spec of per-characteristic read/write reporting on IP, CoAP and BLE (spec/chars/CharIO.tla) model-checked by TLC over all replies of a bounded domain; TLC-exported cases concretised as scripted accessory replies and run on the real IpPairing (in-process secure session), format_characteristic_list, CoAPPairing (real encryption context and PDU codec) and BlePairing.put_characteristics (scripted GATT); every observation (plus seeded random replies) validated by TLC against CharIO_Trace",
        text="TLC checks Faithful/NotifySubsetAccepted/RejectedReported/ReadTotal for every status vector (0, all defined codes in both signs, unknown), 204 vs 207, request-wide status with partial lists, and missing/duplicated/non-dict/id-less entries over 1..4 characteristics on two accessory ids. Every real execution (48k quick, 234k+ thorough) must satisfy WriteOK/ReadOK: rejected items reported with the accessory's status and never notified, accepted readable items notified exactly once with the written value, no accepted item with a non-zero status, a request-wide error applied exactly to unmentioned items, malformed entries skipped, and the call failing only if something was rejected.",
        note="Trusted: TLC, harness/vloop.py, harness/simnet.py and harness/refacc (IP), the replaced aiocoap Context, and the scripted GATT client with stubbed connection set-up and no session keys (BLE). BLE reads are out of scope. CoAP/BLE statuses are compared by magnitude and limited to PDU statuses 0..6. Write replies with a request-wide status or unrequested items, and id-ful status-less entries, are outside the claim. Contradictory duplicates are accepted either way.",
        ref="5/C13"),
    "C14": dict(
        technique="TLA+ spec of value preparation (spec/chars/ValuePrep.tla, integer fixed point) model-checked by TLC over every small tuple and a real-magnitude domain; TLC-exported cases run through check_convert_value and Service.build_update in int/float/string/garbage presentations, and every observation (plus seeded random cases) validated by TLC against ValuePrep_Trace",
        text="TLC checks OnGrid/Nearest/TiesUp/InRangeIfBoundsOnGrid/IntegerFormatsInteger/BoolIs01/ErrorIffUnconvertible on all enumerated (format, scale, min, max, step, input) tuples, and ShiftLemma/ScaleLemma. Every execution of the real code (~0.9 M quick, ~19 M thorough) must lie in the relation Accept: exact nearest grid point with ties up for integer formats with integer inputs at any magnitude up to 2^64-1 and minima down to -2^31; exact grid-point choice plus a six-significant-digit allowance for fractional/float cases; FormatError and no other exception for unconvertible input.",
        note="Trusted: TLC; floats are read by their repr (decimal reading); the allowance floor(M/25000) units (M/25 + 1 thousandths of a unit below 25,000 units) is derived from four half-ulp roundings at 6 digits; magnitudes above 5e8 units are reached only for the exact class via TLC-checked translation/scaling lemmas; ties below the grid origin, integer formats without a step and nan/inf are accepted either way; uint width is not enforced.",
        ref="5/C14"),
})

CHECKS.update({
    "C06": dict(
        technique="TLA+ spec of the counter discipline of the IP, BLE and CoAP session layers (spec/session/SessionCounters.tla) model-checked by TLC; TLC behaviours and seeded histories driven on the real layers with AEAD-boundary observations validated against SessionCounters_Trace; CoAP resynchronisation heuristics modelled as named deviation actions (known findings)",
        text="TLC checks NoNonceReuse, AcceptOnceInOrder, AcceptPrefix, ClosedEpochUnused over all sequences of {request of n frames, accessory message, deliver next / replay / future, corrupted, abandon, re-key, CoAP events} to a depth bound for IP, BLE and CoAP (without the rewind/reset heuristics). The same alphabet is driven on SecureHomeKitProtocol, EncryptionKey/DecryptionKey and EncryptionContext/EventResource; every recorded execution must be a behaviour of the spec. With the CoAP deviations enabled TLC finds the two recorded counterexamples and the check replays them on the real EncryptionContext each run (KNOWN-FINDING); CoAP traces are accepted only if explained without a deviation or by a listed one. Counters and epochs unbounded: Apalache discharges the inductive invariant IndInv (initiation, consecution, IndInv => both properties) and refutes it with the deviations on. BLE additionally at pairing level: seeded executions of the real BlePairing (calls, faults, link loss, cancellation, close) recorded at the AEAD boundary are validated against the BLE session model (spec/ble/BleSession.tla) with NoNonceReuse, AcceptOnceInOrder, FreshKeys, DeadEpochUnused.",
        note="BLE is bound at three levels: key objects, the real ble_request (refused writes, lost / replayed / corrupted fragments) and the pairing (through the BLE session model). Re-key freshness: the first flight of every real pair-verify must carry a controller ephemeral key no earlier one used (trace step rekey{fresh}). AEAD assumed ideal. IP driven at the protocol object over a stub transport (the full-stack request plane is C08's), BLE at the key objects and at the pairing over a simulated GATT client, CoAP with a stub aiocoap context. Known findings: known_findings.json (coap-resync-rewind, coap-resync-reset).",
        ref="5/C06"),
})

CHECKS.update({
    "C18": dict(
        technique="TLA+ spec of the broadcast-notification acceptance algorithm and of the per-step requirement (spec/ble/BleBroadcast.tla) model-checked by TLC as action properties; TLC-exported histories and -simulate behaviours sealed by an independent ChaCha20-Poly1305 and fed to the real BleController._device_detected; every recorded execution validated by TLC against BleBroadcast_Trace",
        text="TLC checks OnlyAuthenticFresh / AcceptedDelivered / MonotoneLast / ReplayNeverAccepted / StepAllowed on every history <=3 (two pairings + foreign key) and <=6 (one pairing) for window 3, and for the real window 99 over offsets {-1000..+1000}. Every history of <=2 (thorough <=3) advertisement classes, simulated behaviours including key installation through the real derivation path, seeded random histories over all ten characteristic formats and boundary values, truncations, bit-for-bit replays and all 128 single-bit corruptions are executed on the real controller; after each advertisement the listener calls and description.state_num must be a step the specification allows.",
        note="Ideal AEAD in the model (4-byte-tag forgery probability 2^-32 per candidate on the real code). Trusted: TLC, harness/vloop.py, the sealer and value tables in harness/c18_driver.py, harness/refacc pair-verify. Beyond-window advertisements may be accepted or ignored (weaker reading). Wrap-around at 65535 is outside the histories; the GATT write of the key-generation request is stubbed.",
        ref="5/C18"),
    "C19": dict(
        technique="TLA+ spec of the per-id future lists of the mDNS and BLE finders and of the aggregate finder (spec/discovery/Discovery.tla) model-checked by TLC over all interleavings, plus DiscoveryParse.tla for abstract advertisement classes; TLC-exported parse classes and -simulate behaviours executed on the real IpController / CoAPController / BleController / Controller on a virtual-time loop; recorded timed event traces validated by TLC against Discovery_Trace",
        text="TLC checks NoLostWakeup / AlreadyKnownReturnsAtOnce / TimeoutGivesNotFound / CallbackNeverRaises / OtherWaitersUndisturbed / AggFirstSuccessWins / AggNoSubtaskLeft for 3 waiters x 2 ids per flavour and for one aggregate call over three transports, and must refute them when the repair switches are off. All 15.5k (thorough 81.6k) TXT / address-list / manufacturer-data classes are processed by the real callbacks with no, cached or uncached pairing loaded and compared with the specified outcome; TLC behaviours and seeded schedules with cancel / time-out races placed between loop iterations are traced in virtual time: a call the specification completes must return at that very instant with the right result.",
        note="Trusted: TLC, harness/vloop.py, the in-process stubs (zeroconf browser and cache as in the repo's tests, refused TCP, no CoAP context), CPython 3.12 Task / time-out semantics as modelled. BLE and aggregate callers use lower-case ids. The outcome of a cancelled aggregate call is left open.",
        ref="5/C19"),
})

CHECKS.update({
    "C04": dict(
        technique="TLA+ spec of pairing-reply handling (transport type filter, step-number check, error mapping; spec/pairing/HapErrors.tla) model-checked by TLC over every (step, transport, reply) cell; every cell replayed on the real generators, the IP/CoAP/BLE drivers and add/remove pairing; observations validated by HapErrors_Trace",
        text="TLC checks ErrorNeverSuccess / WrongStateNeverSuccess / OutcomeAllowed / SuccessOnlyClean exhaustively over 30,120 cells in the thorough tier (10 steps x transports x State values {0..6, 255, absent, zero-length item, right number with a trailing byte} x 12 Error values x every subset of the step's fields x RetryDelay absent, last or before the Error) and 18,720 in the quick tier (the wrong step numbers 1, 3, 5 are left to thorough). Each cell runs on the real code and the observed exception class or return must lie in the specification's Allowed set. The space is enumerated completely in the thorough tier.",
        note="Trusted: TLC, harness/refacc, SimNet and the virtual-time loop, the fake CoAP context and GATT client. Items of types HAP does not define for the reply, placed before the Error item, are outside the claim. BLE add/remove pairing is exercised with _async_request scripted.",
        ref="5/C04"),
    "C01": dict(
        technique="symbolic Dolev-Yao TLA+ model of pair-verify and pair-resume (spec/pairing/PairVerify.tla) model-checked by TLC; TLC-exported reply descriptions with the spec's verdict concretised with real keys by an independent reference accessory/attacker and run on get_session_keys and the IP/CoAP/BLE drivers; executions validated by PairVerify_Trace",
        text="TLC checks AuthOnlyAuthentic / ResumeOnlyWithSecret / FailureYieldsNoKeys / NoForgeryAccepted / KeysAgree / ProofAccepted over 85,872 full-exchange and 1,296 resumption reply descriptions. Every case in thorough (near misses plus a 1/20 sample in quick), including all single-bit and single-byte corruptions and truncations of the honest reply, is run on the real code: a reply the spec rejects must raise, yield no keys and must not trigger the controller's proof M3; accepted exchanges must yield read/write/event keys equal to the reference accessory's, and the reference accessory must accept the controller's proof.",
        note="Ideal cryptography in the model; bit-level coverage comes from the concretiser. Any Exception counts as failure, the class is left to C04. Replies whose used values are authentic although the wire differs may be accepted. Trusted: TLC, harness/refacc, simulated transports.",
        ref="5/C01"),
    "C03": dict(
        technique="symbolic TLA+ model of pair-setup with SRP abstracted (spec/pairing/PairSetup.tla) model-checked by TLC; exported M2/M4/M6 reply sequences concretised by an independent SRP-6a server and real Ed25519/AEAD and run on perform_pair_setup_part1/part2 and the IP/CoAP/BLE drivers; executions validated by PairSetup_Trace",
        text="TLC checks SetupOnlyAuthenticated / RecordConsistent / M5Accepted / FailureReturnsNothing / NoCodeNoPairing over all modelled reply sequences (15,173 M6 variants). Every sequence in thorough (near misses plus a sample in quick), with bit/byte corruptions of salt, server key, proof and every M6 field, is run on the real code: rejected sequences must raise, return nothing and send no M3/M5 after a bad M2/proof; returned records must be self-consistent and the reference accessory must accept M5.",
        note="SRP numerics are not claimed (C02); honest runs are cross-checked against the independent SRP server. Ideal cryptography. BleDiscovery connection handling is not exercised. Trusted: TLC, harness/refacc, simulated transports.",
        ref="5/C03"),
    "C20": dict(
        technique="TLA+ spec of a save as the sequence of file-system calls with Crash between any two calls and Restart as a fresh loader (spec/persist/Persistence.tla), model-checked by TLC; the calls of the real save_data / CharacteristicCacheFile are recorded at the open/write/flush/close/fsync/replace boundary and checked by TLC against Persistence_Trace; every crash image and cache corruption TLC exports is materialised and loaded by a fresh Controller / CharacteristicCacheFile",
        text="TLC checks RoundTrip, CrashSafePairings and CacheCorruptionIsCold exhaustively for three successive saves with restarts in between and must find the loss for in-place and rename-before-flush procedures. The same invariants are checked on the call sequences recorded from the real code for seeded worlds (IP/BLE/CoAP pairings, unicode aliases, optional fields, random and fixture accessory databases, recovery after a crash). Every enumerated disk image (every byte up to 4 KiB, boundary classes above, 8 junk classes) must load to an outcome the specification allows, and the controller projection after restart must equal the one before (TLC structural equality).",
        note="Trusted: TLC, the call recorder (self-checked by comparing the model's final image with the real directory), stdlib json as the independent reader. Assumes in-order application of file-system calls (process-crash model); a first-ever interrupted save is unconstrained.",
        ref="5/C20"),
})

CHECKS.update({
    "C16": dict(
        technique="TLA+ byte-level spec of TLVStruct encode/decode (spec/codec/TlvStruct*.tla) model-checked by TLC on generic schemas (FRAG=3 exhaustive, FRAG=255 boundary sizes) and on the schemas of all real classes derived by reflection; TLC-exported cases replayed on the real classes, recorded runs validated by TlvStruct_Trace",
        text="TLC checks StructRoundTrip/Canonical/OnBoundary for every field kind, 3 nesting levels, lists and packed id lists. For all 26 reflected message classes a covering family (each field alone over 1/254/255/256/510/511 and every enum member, neighbour pairs, all-set, nested encodings swept across the 255/510 boundaries, lists crossing a fragment, ids 0..6) is replayed: encode() must equal the prescribed bytes, decode() must return the value, for library-made and accessory-made messages. Random values, every byte value in linked-service lists and 1..3x1..3x1..3 accessory databases are recorded and accepted by TLC. TLC also checks DecodeIsFunctionOfBytes on a heap model of decode histories (spec/codec/TlvStructHist.tla) and refutes memoised decode; every exported case is decoded again after the first result was overwritten, with a per-node write/read-back; get_accessory_info on bridge databases with byte-identical accessories and Characteristic.value read-edit-read are validated against TlvStructHist_Trace. Known finding (listed): packed Sequence[u16] id lists.",
        note="Schemas come from the code's own annotations, so a wrong tag is not detected. Float fields are not encodable and are left unset. Empty encode-side values are excluded (DESIGN 4.2). Trusted: TLC, the independent encoder in harness/c16_schema.py plus refacc/tlv.py. Little-endian host.",
        ref="5/C16"),
    "C17": dict(
        technique="TLA+ spec of the BLE request cutter with a conformant accessory, the BLE response reader with faults, and the CoAP batch decoder (spec/codec/Pdu*.tla), model-checked by TLC; exported cases replayed on ble_request/_write_pdu/_read_pdu over a simulated GATT characteristic (plain and ChaCha20-Poly1305) and on the CoAP connection API over a simulated endpoint; all recorded executions validated by Pdu_Trace",
        text="TLC checks BleFragmentSize, BleReassembly, BleResponse, CoapAttribution exhaustively (fragment sizes 8..64 x bodies 0..200 plus 20/155/244/496/512 x boundary lengths to 5000; every fragmentation of small bodies x every fault position; all batches up to 4 items x 15 variants and 5..6 items x 5 variants). Every case runs on the real code: request writes are judged by the spec's accessory (size bound, counters, reassembly), responses must end as specified, batch results and the read/write/subscribe/unsubscribe mappings must attribute item i to characteristic i with errors not shifting others.",
        note="Content-independent model; bytes are compared by the harness's independent reader. 'Rejected' means any exception; a per-item error means any non-success status. Trusted: TLC, harness/c17_driver.py, cryptography AEAD. Pairing-level BLE write/read fragmentation is not driven.",
        ref="5/C17"),
})

NOT_APPLICABLE = {
    "C02": "Byte-for-byte numeric equality of SRP-6a over a 3072-bit group with SHA-512: no state, schedule or history to model, TLC integers are 32-bit; a TLA+ transcription over a toy group would say nothing about the hard-coded constants. See DESIGN.md section 5/C02.",
}

PENDING = "check not built yet in this phase of the work (see DESIGN.md section 5); will be claimed when its specification and conformance harness are committed"


def main():
    props = [json.loads(l)["id"] for l in open(os.path.join(VERIF, "properties.jsonl"))]
    checks = []
    for pid in props:
        c = CHECKS.get(pid)
        if not c:
            continue
        checks.append({
            "property_id": pid,
            "quick_cmd": f"./check {pid} --tier quick",
            "thorough_cmd": f"./check {pid} --tier thorough",
            "evidence_file": f"/verif/evidence/{pid}.json",
            "replay_cmd_template": f"./check {pid} --replay {{path}}",
            "engine": "tlc",
            "level_claimed": {"category": "model_checking", "text": c["text"], "design_ref": f"DESIGN.md section {c['ref']}"},
            "level_note": c["note"],
            "technique": c["technique"],
        })
    na = []
    for pid in props:
        if pid in CHECKS:
            continue
        na.append({"property_id": pid, "reason": NOT_APPLICABLE.get(pid, PENDING)})
    man = {
        "version": 1,
        "setup_cmd": "./setup.sh",
        "hooks": {
            "guard": "AIOHOMEKIT_VERIF",
            "enable": "no source hooks: all observation points are reached by wrapping from the harness (./check sets AIOHOMEKIT_VERIF=1 for symmetry; the library does not read it)",
            "baseline_off_cmd": "cd /repo && env -u AIOHOMEKIT_VERIF /venv/bin/python -m pytest -ra -q -p no:cacheprovider --timeout=900",
            "source_commits": [],
            "add_only": True,
        },
        "engines": [{"name": "tlc", "path": "/verif/check", "serves_properties": sorted(CHECKS),
                     "kind_free_text": "explicit TLA+ specifications under /verif/spec checked by TLC 1.8; spec->code case/behaviour replay and code->spec trace validation drivers under /verif/harness"}],
        "checks": checks,
        "not_applicable": na,
        "notes": ("See DESIGN.md (section 10 = as built). known_findings.json lists repaired ('fixed:') and recorded defects. "
                  "Beyond the listed properties the specification also covers the CoAP connection life-cycle, the zeroconf controller "
                  "life-cycle, the BLE session life-cycle, config-number / accessory-database / cache coherence, the BLE global state "
                  "number and BLE subscriptions / connected events (spec/coap, spec/discovery/ZcLifecycle, spec/ble/BleSession, spec/cfgcache, "
                  "spec/ble/BleGsn, spec/ble/BleSubs); these extensions run "
                  "through the same CLI (./check EXTCOAP | EXTZC | EXTBLE | EXTCFG | EXTGSN | EXTBLESUB [--tier thorough]) and write evidence/EXT*.json, "
                  "but are not entries of 'checks' because the property list is fixed. seeded/run.py re-runs the checks against the kept "
                  "seeded defects, seeded/run_refactorings.py against behaviour-preserving patches (no-alarm test)."),
    }
    with open(os.path.join(VERIF, "MANIFEST.json"), "w") as f:
        json.dump(man, f, indent=1)
        f.write("\n")


if __name__ == "__main__":
    main()
