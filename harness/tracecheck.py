"""Batch trace validation: records (one per execution of the real code) -> TLC -> rejections.

Conventions of every *_Trace.tla module used with this helper:
  * `Traces == ndJsonDeserialize(IOEnv.TRACE_FILE)`, one JSON object per line with an `events` list;
  * variables `tid` (which trace) and `l` (next event to consume);
  * `POSTCONDITION Accepted` printing `<<"REJECTED", tid, furthest_l>>` for every trace that was not
    consumed completely (registers updated from a CONSTRAINT, -workers 1);
  * `DebugNotReached == l < IOEnv.DBG_L` so that a rejected trace can be re-run alone to obtain the
    last state of its longest matched prefix.
"""
from __future__ import annotations

import json
import os
import re
import shutil
import tempfile

from . import tlc as T
from .common import SPEC, MachineryError


def validate(ctx, module: str, cfg: str, records: list, *, label=None, timeout=1800, chunk=4000,
             settled_inv=None):
    """Validate `records` (dicts with 'events') against spec/<module>.tla + cfg.
    Returns a list of rejections: dict(index, maxl, event, last_state, prefix_len, invariant)."""
    rejections = []
    path = os.path.join(SPEC, module + ".tla")
    cfgp = os.path.join(os.path.dirname(path), cfg)
    for off in range(0, len(records), chunk):
        part = records[off:off + chunk]
        tmp = tempfile.mkdtemp(prefix="tv_")
        try:
            tf = os.path.join(tmp, "batch.ndjson")
            with open(tf, "w") as f:
                for r in part:
                    f.write(json.dumps(r) + "\n")
            res = ctx.tlc(path, cfgp, env={"TRACE_FILE": tf, "DBG_L": "0"}, workers=1, dfs_queue=True, coverage=False,
                          require_cover=False, expect_violation=True, timeout=timeout,
                          label=label or f"trace validation {module}")
            rej = [(int(a), int(b)) for a, b in re.findall(r'<<"REJECTED", (\d+), (\d+)>>', res.stdout)]
            if not res.ok and res.violation["kind"] in ("invariant", "action_property"):
                # a recorded execution drove the specification into a state that violates a checked
                # property: find which trace
                ce = T.parse_counterexample(res.violation["trace"])
                tid = ce[-1][1].get("tid") if ce else None
                li = ce[-1][1].get("l") if ce else None
                rec = part[tid - 1] if isinstance(tid, int) else None
                rejections.append({"index": off + (tid - 1) if isinstance(tid, int) else None, "maxl": li,
                                   "event": None, "invariant": res.violation["name"], "record": rec,
                                   "last_state": ce[-1][1] if ce else None})
                # the run stopped at the violation: validate the remaining traces without that one
                rest = [r for i, r in enumerate(part) if i != (tid - 1)] if isinstance(tid, int) else []
                if rest and len(rest) < len(part):
                    sub = validate(ctx, module, cfg, rest, label=label, timeout=timeout, chunk=chunk)
                    for s in sub:
                        # indices in `rest` skip the removed one
                        if s["index"] is not None:
                            s["index"] = off + (s["index"] if s["index"] < (tid - 1) else s["index"] + 1)
                    rejections += sub
                continue
            if not res.ok and res.violation["kind"] not in ("postcondition",):
                raise MachineryError(f"trace validation of {module} failed: {res.violation['kind']}\n"
                                     + res.stdout[-2000:])
            for tid, maxl in rej:
                rec = part[tid - 1]
                ev = rec["events"][maxl - 1] if 0 < maxl <= len(rec["events"]) else None
                detail = len(rejections) < 12          # the explanation is computed for the first few only
                last = _last_state(path, cfgp, rec, maxl) if detail else None
                settled = _last_state(path, cfgp, rec, maxl, settled_inv) if (settled_inv and detail) else None
                rejections.append({"index": off + tid - 1, "maxl": maxl, "event": ev, "invariant": None,
                                   "record": rec, "last_state": last, "settled_state": settled})
            ctx.trace_ok(len(part) - len(rej))
        finally:
            shutil.rmtree(tmp, ignore_errors=True)
    return rejections


def _last_state(path, cfgp, rec, maxl, inv="DebugNotReached"):
    """Re-run one rejected trace to get the last state of the longest matched prefix."""
    tmp = tempfile.mkdtemp(prefix="tvd_")
    try:
        one = os.path.join(tmp, "one.ndjson")
        open(one, "w").write(json.dumps(rec) + "\n")
        c = open(cfgp).read()
        c = re.sub(r"POSTCONDITION \w+\n", "", c) + f"\nINVARIANT {inv}\n"
        dbg = os.path.join(tmp, "dbg.cfg")
        open(dbg, "w").write(c)
        try:
            res = T.run(path, dbg, workers=1, dfs_queue=True, coverage=False, timeout=300,
                        env={"TRACE_FILE": one, "DBG_L": str(maxl)}, allow_error=True)
        except MachineryError:
            return None
        if res.ok or not res.violation or not res.violation.get("trace"):
            return None
        ce = T.parse_counterexample(res.violation["trace"])
        return ce[-1][1] if ce else None
    finally:
        shutil.rmtree(tmp, ignore_errors=True)
