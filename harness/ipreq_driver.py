"""Drives the request plane of the real SecureHomeKitConnection (C08) and records the alphabet of
spec/ip/IpReq_Trace.tla.  The network always lets the connector reconnect (honest pair-verify);
application requests are held until the driver answers them."""
from __future__ import annotations

import asyncio
import json
import logging
import random

from . import ipconn_driver as D
from .refacc import accessory as A
from .refacc import http as H

logging.disable(logging.CRITICAL)
TPS = 4096


class ReqBehaviour(D.ScriptedBehaviour):
    def on_request(self, conn, req):
        req.kind = self.kind_of(req)
        if req.kind in ("m1", "m3"):
            self.reply_verify(conn, req)
            return
        rid = None
        if req.target.startswith("/r/"):
            rid = int(req.target.split("/")[2])
        req.rid = rid
        self.run.log("acc_rx", s=conn.id + 1, r=rid)

    def reply_verify(self, conn, req):
        from .refacc import tlv as T
        if req.kind == "m1":
            conn.pv = A.PairVerify(self.ident)
            out = conn.pv.on_m1(T.dec(req.body))
            conn.respond(req, 200, T.enc(out), H.TLV8)
        else:
            out = conn.pv.on_m3(T.dec(req.body))
            assert conn.pv.verified, conn.pv.error
            k = conn.pv.keys()
            conn.pending_session = A.SecureSession(k["a2c"], k["c2a"])
            conn.verified = True
            conn.respond(req, 200, T.enc(out), H.TLV8)
            self.run.log("session", s=conn.id + 1)


class _PlainOwner:
    """Owner stub for a plain HomeKitConnection (the class accepts concurrency_limit > 1)."""
    name = "sim-plain"

    def __init__(self, run):
        self.run = run

    async def connection_made(self, secure):
        return None

    def event_received(self, parsed):
        for c in parsed.get("characteristics", []):
            self.run.log("listener", s=c["aid"], n=c["iid"])


class ReqRun:
    def __init__(self, nreq=12, limit=1):
        self.limit = limit
        self.events = []
        from . import simnet, vloop
        import types
        self.loop = vloop.new_loop()
        self.ident = A.Identity()
        self.beh = ReqBehaviour(self.ident, self)
        ctrl = A.ControllerIdentity()
        pdata = self.ident.pairing_data(ctrl, hosts=[D.HOSTS["h1"]])
        self.net = D.DeferredNet(self.loop, self.beh, self)
        self.net.auto = True
        self.net.install()
        from aiohomekit.characteristic_cache import CharacteristicCacheMemory
        from aiohomekit.controller.ip.pairing import IpPairing
        controller = types.SimpleNamespace(_char_cache=CharacteristicCacheMemory(), pairings={}, aliases={})

        async def mk():
            p = IpPairing(controller, pdata)
            p.restore_accessories_state(simnet.DEFAULT_ACCESSORIES, 1, None)
            return p
        if limit == 1:
            self.pairing = self.loop.run_until_complete(mk())
            self.pairing.dispatcher_connect(self._listener)
        else:
            from aiohomekit.controller.ip.connection import HomeKitConnection

            async def mkc():
                return HomeKitConnection(_PlainOwner(self), [D.HOSTS["h1"]], 51826, concurrency_limit=limit)
            self.pairing = types.SimpleNamespace(connection=self.loop.run_until_complete(mkc()))
        self.tasks = {}
        self.next_r = 1
        self.nreq = nreq
        self.ev_n = {}
        self.half = {}           # conn id -> remaining bytes of a split response
        self.loop_exceptions = []
        def on_loop_exception(l, c):
            ex = c.get("exception")
            self.loop_exceptions.append(str(ex or c.get("message")))
            if ex is not None and not isinstance(ex, IndexError) and not (self.events and self.events[-1].get("ev") == "end"):
                # (an unsolicited response finds no waiting request: IndexError out of data_received, the loop tears the
                # transport down - that is how the connection is abandoned and it is in the specification.)  Any other
                # exception escaping from the library into the event loop is an event no step of the specification explains.
                self.log("loop_exc", what=f"{type(ex).__name__}: {ex or c.get('message')}"[:160])
        self.loop.set_exception_handler(on_loop_exception)

    # ---- logging (tcp-level events of the connector are not part of this alphabet)
    def log(self, ev, **kw):
        if ev == "tcp_ok" and self.limit > 1:
            ev, kw = "session", {"s": kw["conn"]}         # a plain connection is usable as soon as it exists
        if ev in ("tcp_call", "tcp_res", "tcp_ok", "acc_eof"):
            return
        if ev == "peer_close":
            kw = {"s": kw["conn"], "how": kw["how"]}
            done = self.__dict__.setdefault("_close_logged", {})
            if done.get(kw["s"]) == "rst" or done.get(kw["s"]) == kw["how"]:
                return                                    # (only the reset that follows a half close is a second event)
            done[kw["s"]] = kw["how"]
        if "s" in kw:
            # sessions are numbered in the order they were established: a TCP connection that the owner dropped before
            # its pair-verify finished never was a session of the request plane (and nothing is logged about it)
            sid = self.__dict__.setdefault("_sid", {})
            raw = kw["s"]
            if ev == "session":
                sid[raw] = len(sid) + 1
            if raw not in sid:
                return
            kw = dict(kw, s=sid[raw])
        rec = {"ev": ev, "t": int(round(self.loop.time() * TPS))}
        rec.update(kw)
        self.events.append(rec)

    def _listener(self, ev):
        for (aid, iid), v in ev.items():
            self.log("listener", s=aid, n=iid)

    def step(self, n=1):
        for _ in range(n):
            self.loop.call_soon(self.loop.stop)
            self.loop.run_forever()

    def settle(self):
        self.loop.settle()

    def advance(self, dt):
        self.settle()
        self.loop.advance(dt)

    # ---- stimuli
    def connect(self):
        async def go():
            try:
                await self.pairing.connection.ensure_connection()
            except Exception:  # noqa: BLE001
                pass
        self.loop.create_task(go())
        self.settle()

    def pause(self, conn):
        """The accessory hangs: it stops reading this socket (and never answers on it again)."""
        try:
            self.loop.remove_reader(conn.sock.fileno())
        except Exception:  # noqa: BLE001
            return
        conn.paused = True
        self.log("acc_pause", s=conn.id + 1)

    def issue(self, method="GET", big=False):
        if self.next_r > self.nreq:
            return None
        r = self.next_r
        self.next_r += 1
        conn = self.pairing.connection

        async def w():
            self.log("issue", r=r, big=bool(big))
            frm = None
            try:
                if big:
                    # far larger than the socket buffers: what the hung accessory does not read stays in the transport
                    resp = await conn.put(f"/r/{r}", b"x" * (4 << 20))
                elif method == "GET":
                    resp = await conn.get(f"/r/{r}")
                elif method == "PUT":
                    resp = await conn.put(f"/r/{r}", b'{"x":1}')
                else:
                    resp = await conn.post(f"/r/{r}", b'{"x":1}')
                res = "resp"
                frm = json.loads(bytes(resp.body))["r"]
            except asyncio.CancelledError:
                res = "cancelled"
            except BaseException as ex:  # noqa: BLE001
                from aiohomekit import exceptions as X
                if isinstance(ex, X.HttpErrorResponse):
                    res = "resp"
                    frm = json.loads(bytes(ex.response.body))["r"]
                elif isinstance(ex, X.AccessoryDisconnectedError):
                    res = "disconnected"
                else:
                    res = f"error:{type(ex).__name__}"
            rec = {"r": r, "res": res}
            if frm is not None:
                rec["from"] = frm
            self.log("ret", **rec)
            self.tasks.pop(r, None)
        self.tasks[r] = self.loop.create_task(w())
        self.step(1)
        return r

    def user_close(self):
        async def w():
            self.log("close")
            await self.pairing.connection.close()
        self.loop.create_task(w())
        self.closed_by_user = True
        self.settle()

    def user_open(self):
        async def w():
            self.log("open")
            try:
                await self.pairing.connection.ensure_connection()
            except Exception:  # noqa: BLE001
                pass
        self.loop.create_task(w())
        self.closed_by_user = False
        self.settle()

    def cancel(self, r, in_loop=False):
        if not in_loop:
            self.log("cancel", r=r)
            self.tasks[r].cancel()
            return
        # cancel from inside the loop iteration that also collects pending socket readiness: bytes that were
        # already readable are then processed AFTER the cancellation but BEFORE the cancelled task runs
        def f():
            if r in self.tasks and not self.tasks[r].done():
                self.log("cancel", r=r)
                self.tasks[r].cancel()
        self.loop.call_soon(f)
        self.step(1)

    def respond(self, conn, how="resp", status=200, pad=0, frame=None, chunked=False):
        """pad: extra body bytes (a body much longer than what follows it); frame: plaintext bytes per encrypted frame
        (small frames let the controller decrypt - and its HTTP layer see - the first piece of a split response)."""
        req = conn.unanswered[0]
        body = A.hap_json({"r": req.rid, "pad": "x" * pad} if pad else {"r": req.rid})
        marks = []
        if chunked and body:
            # Transfer-Encoding: chunked in 1..3 chunks; `marks` = offsets in the message where a chunk's data ends, where
            # its CRLF ends, and right after the final "0\r\n" - the cut points a piecewise delivery is most sensitive to
            k = self._rng.randrange(1, 4)
            cs = sorted(self._rng.sample(range(1, len(body)), min(k - 1, len(body) - 1))) if len(body) > 1 else []
            chunks = [b - a for a, b in zip([0, *cs], [*cs, len(body)])]
            raw = H.response(status, body, chunked=True, chunks=chunks)
            pos = raw.index(b"\r\n\r\n") + 4
            for n in chunks:
                pos += len(f"{n:x}\r\n") + n
                marks += [pos, pos + 2]
                pos += 2
            marks += [pos + 3]
        else:
            raw = H.response(status, body)
        self.log("acc_tx", s=conn.id + 1, kind=how, r=req.rid)
        conn.unanswered.remove(req)
        sizes = None
        if conn.session and marks and how != "resp":
            m = min(max(self._rng.choice(marks), 1), len(raw) - 1)           # one frame ends exactly at a chunk boundary
            sizes = [n for n in (min(m, 1024), m - min(m, 1024), len(raw) - m) if n > 0]
            sizes = [x for n in sizes for x in ([1024] * (n // 1024) + ([n % 1024] if n % 1024 else []))]
        elif conn.session and frame:
            sizes = [frame] * (len(raw) // frame) + ([len(raw) % frame] if len(raw) % frame else [])
        wire = conn.session.seal(raw, sizes) if conn.session else raw
        if how == "resp":
            conn.send_raw(wire)
        else:
            if sizes and marks:
                cut = sizes[0] + 18                       # exactly the frame that ends at the chunk boundary
                cut = min(max(cut, 1), len(wire) - 1)
            elif sizes:
                k = self._rng.randrange(1, len(sizes)) if len(sizes) > 1 else 0      # cut on a frame boundary (+ a few bytes)
                cut = sum(n + 18 for n in sizes[:k]) + self._rng.choice([0, 0, 1, 5]) if k else self._rng.randrange(1, len(wire))
                cut = min(max(cut, 1), len(wire) - 1)
            elif marks and not conn.session and self._rng.random() < 0.8:
                cut = min(max(self._rng.choice(marks), 1), len(wire) - 1)
            else:
                cut = self._rng.randrange(1, len(wire))
            conn.send_raw(wire[:cut])
            self.half[conn.id] = wire[cut:]

    def respond_rest(self, conn, events_behind=0):
        """The remaining bytes of a split response; with events_behind = k the accessory writes k EVENT messages right
        behind them in the same segment (one read on the controller delivers the tail and the events together)."""
        rest = self.half.pop(conn.id)
        self.log("acc_tx", s=conn.id + 1, kind="rest", r=0)
        for _ in range(events_behind):
            n = self.ev_n.get(conn.id, 0) + 1
            self.ev_n[conn.id] = n
            self.log("acc_tx", s=conn.id + 1, kind="event", n=n)
            raw = H.event(A.hap_json({"characteristics": [{"aid": conn.id + 1, "iid": n, "value": 1}]}))
            rest += conn.session.seal(raw) if conn.session else raw
        conn.send_raw(rest)

    def event(self, conn, kind="ok"):
        if getattr(conn, "half_closed", False):
            return                                        # the accessory has shut down its sending side
        n = self.ev_n.get(conn.id, 0) + 1
        self.ev_n[conn.id] = n
        self.log("acc_tx", s=conn.id + 1, kind="event", n=n)
        body = A.hap_json({"characteristics": [{"aid": conn.id + 1, "iid": n, "value": 1}]})
        conn.send_plain(H.event(body))

    def unsolicited(self, conn):
        self.log("acc_tx", s=conn.id + 1, kind="unsol")
        conn.send_plain(H.response(200, A.hap_json({"r": 0})))
        self.settle()

    def peer_close(self, conn, how):
        self.half.pop(conn.id, None)
        if getattr(conn, "paused", False):
            if how == "fin" and not getattr(conn, "half_closed", False):
                # the hung accessory shuts down its sending side (FIN) while it still does not read: the controller sees
                # EOF with its own data unflushed
                import socket as _socket
                try:
                    conn.sock.shutdown(_socket.SHUT_WR)
                except OSError:
                    pass
                conn.half_closed = True
                self.log("peer_close", conn=conn.id + 1, how="fin")
                return
            # a hung accessory has unread data: its close is a reset (logged as such)
            conn.close(reset=True)
            return
        conn.close(reset=(how == "rst"))

    def finish(self):
        self.settle()
        for conn in self.net.conns:
            if getattr(conn, "paused", False) and not conn.closed:
                self.peer_close(conn, "rst")
        self.settle()
        # answer everything still answerable, then let every timer run out
        for conn in self.net.conns:
            if conn.open and conn.id in self.half:
                self.respond_rest(conn)
        self.settle()
        for _ in range(8):
            self.advance(10)
        self.log("end")

    def close(self):
        self.net.uninstall()
        from . import vloop
        vloop.close_loop(self.loop)

    def record(self, rid):
        return {"id": rid, "events": self.events}


def random_run(rng: random.Random, rid, nsteps=30, limit=1):
    r = ReqRun(limit=limit)
    r._rng = rng
    try:
        r.connect()
        for _ in range(nsteps):
            full = stimulus(r, rng)
            if full or rng.random() < 0.6:
                r.settle()
            else:
                r.step(rng.randrange(0, 3))
        r.finish()
        return r
    except BaseException:
        r.close()
        raise


def stimulus(r: ReqRun, rng):
    """Returns True when the loop must be settled completely afterwards."""
    opts = []
    paused = [c for c in r.net.conns if c.open and getattr(c, "paused", False)]
    live = [c for c in r.net.conns if c.open and (c.session is not None or r.limit > 1) and not getattr(c, "paused", False)]
    # requests are issued on an established or fully lost connection, never in the middle of a (possibly stalled)
    # secure-session setup (assumption of IpReq; the set-up phase is IpConn's)
    mid_setup = r.limit == 1 and any(c.open and not c.verified for c in r.net.conns)
    if r.next_r <= r.nreq and not mid_setup:
        opts += [("issue",)] * 6
        if paused and r.pairing.connection.is_connected:
            opts += [("issue_big",)] * 4
    for c in live:
        if not c.unanswered and c.id not in r.half and rng.random() < 0.15:
            opts += [("pause", c)] * 2
    for c in paused:
        opts += [("close", c, "rst")] + ([("close", c, "fin")] * 2 if not getattr(c, "half_closed", False) else [])
    for c in live:
        if c.id in r.half:
            opts += [("rest", c)] * 4
        else:
            if c.unanswered:
                opts += [("resp", c)] * 6 + [("half", c)] * 2
            opts += [("event", c)] * 2
            if not c.unanswered and not r.tasks:
                opts += [("unsol", c)]
        opts += [("close", c, "fin"), ("close", c, "rst")]
    for q, t in r.tasks.items():
        if not t.done():
            opts += [("cancel", q)]
    opts += [("advance",)] * 3
    if getattr(r, "closed_by_user", False):
        opts += [("open",)] * 4
    else:
        opts += [("uclose",)]
    o = rng.choice(opts)
    if o[0] == "uclose":
        r.user_close()
        return True
    if o[0] == "open":
        r.user_open()
        return True
    if o[0] == "issue":
        r.issue(rng.choice(["GET", "GET", "PUT", "POST"]))
        return False
    if o[0] == "issue_big":
        r.issue("PUT", big=True)
        return True
    if o[0] == "pause":
        r.settle()
        if o[1].open and not o[1].unanswered:
            r.pause(o[1])
        return True
    if o[0] == "resp":
        r.respond(o[1], "resp", rng.choice([200, 200, 207, 404, 470]), chunked=rng.random() < 0.2)
        return False
    if o[0] == "half":
        big = rng.random() < 0.3
        r.respond(o[1], "half", pad=rng.choice([300, 900]) if big else 0, frame=rng.choice([None, 64, 150]),
                  chunked=rng.random() < 0.3)
        return False
    if o[0] == "rest":
        r.respond_rest(o[1], events_behind=rng.choice([0, 0, 1, 2]))
        return False
    if o[0] == "event":
        r.event(o[1])
        return False
    if o[0] == "unsol":
        r.settle()
        if o[1].open and not o[1].unanswered and not r.tasks:
            r.unsolicited(o[1])
        return True
    if o[0] == "close":
        r.peer_close(o[1], o[2])
        return True
    if o[0] == "cancel":
        r.cancel(o[1], in_loop=rng.random() < 0.5)
        return True
    if o[0] == "advance":
        r.settle()
        nt = r.loop.next_timer()
        ch = [1 / 64, 1.0, 5.0, 29.0, 30.0]
        if nt is not None and nt > r.loop.time():
            ch += [nt - r.loop.time()] * 3
        r.advance(rng.choice(ch))
        return True
    return True


def hung_run(rng: random.Random, rid):
    """Directed history for the stale-loss clause (C11): the accessory hangs on the first connection while a large
    request is unflushed, the owner closes and re-opens the connection, traffic flows on the successor, and only
    then does the abandoned socket die - its (late) loss must not disturb the connection in use."""
    r = ReqRun()
    r._rng = rng
    try:
        r.connect()
        first = r.net.conns[-1]
        if rng.random() < 0.5:
            r.issue()
            r.settle()
            r.respond(first, "resp")
            r.settle()
        r.pause(first)
        r.issue("PUT", big=True)
        r.settle()
        if rng.random() < 0.35:
            r.peer_close(first, "fin")                # EOF from the hung accessory while the big request is unflushed
            r.settle()
        elif rng.random() < 0.7:
            r.user_close()
            r.user_open()
        r.advance(31)                      # the hung request times out; the successor finishes its set-up
        r.settle()
        cur = r.net.conns[-1]
        for _ in range(rng.randrange(0, 3)):
            if cur.open and cur.verified and not getattr(cur, 'half_closed', False) and r.next_r <= r.nreq:
                r.issue()
                r.settle()
                if cur.unanswered:
                    r.respond(cur, "resp")
                r.settle()
        if rng.random() < 0.5 and cur.open and cur.verified and not getattr(cur, 'half_closed', False):
            r.event(cur)
            r.settle()
        r.peer_close(first, "rst")         # the abandoned socket finally dies
        r.settle()
        cur2 = r.net.conns[-1]
        for _ in range(rng.randrange(1, 3)):
            if cur2.open and cur2.verified and not getattr(cur2, 'half_closed', False) and r.next_r <= r.nreq:
                r.issue()
                r.settle()
                if cur2.unanswered:
                    r.respond(cur2, "resp")
                r.settle()
        r.finish()
        return r
    except BaseException:
        r.close()
        raise


def cancel_race_run(rng: random.Random, rid, variant: int, limit: int = 2):
    """Directed histories for 'no later request can receive a stale response' (C08): a response is already readable
    on the socket when its caller is cancelled inside the very loop iteration that then delivers the bytes, i.e. the
    cancelled future is still at the head of the queue when data_received runs and its task has not yet run.
    variant: 0 = A answered, A cancelled; 1 = A half answered, A cancelled, rest follows; 2 = A and B answered,
    A cancelled; 3 = A answered, B cancelled; 4 = as 0 with a third request issued behind; 5 = A answered and an
    EVENT behind it, A cancelled."""
    r = ReqRun(limit=limit)
    r._rng = rng
    try:
        r.connect()
        conn = r.net.conns[-1]
        if rng.random() < 0.5:                       # some ordinary traffic first
            r.issue()
            r.settle()
            if conn.unanswered:
                r.respond(conn, "resp")
            r.settle()
        a = r.issue(rng.choice(["GET", "PUT"]))
        b = r.issue(rng.choice(["GET", "POST"]))
        c = r.issue() if variant == 4 else None
        r.settle()
        if conn.open and conn.unanswered:
            if variant == 1:
                r.respond(conn, "half")
            else:
                r.respond(conn, "resp", rng.choice([200, 207, 404]))
            if variant == 2 and conn.unanswered:
                r.respond(conn, "resp")
            if variant == 5:
                r.event(conn)
            victim = b if variant == 3 else a
            if victim in r.tasks:
                r.cancel(victim, in_loop=True)
            r.step(rng.randrange(0, 3))
            if variant == 1 and conn.open and conn.id in r.half:
                r.respond_rest(conn)
        r.settle()
        cur = r.net.conns[-1]
        for _ in range(rng.randrange(0, 3)):
            if cur.open and cur.unanswered and cur.id not in r.half:
                r.respond(cur, "resp")
                r.settle()
        if rng.random() < 0.5 and r.next_r <= r.nreq:
            r.advance(rng.choice([1.0, 31.0]))
            r.settle()
            cur = r.net.conns[-1]
            if cur.open and (cur.session is not None or r.limit > 1):
                r.issue()
                r.settle()
                if cur.unanswered:
                    r.respond(cur, "resp")
                r.settle()
        r.finish()
        return r
    except BaseException:
        r.close()
        raise


def coalesce_run(rng: random.Random, rid, variant: int, limit: int = 1):
    """Directed histories for 'EVENTs, however interleaved, are never consumed as a response' and 'response delivered in
    pieces' (C08): the last piece of a split response arrives in the same segment as what the accessory sent next.
    variant: 0 = tail + 1 EVENT; 1 = tail + 2 EVENTs; 2 = EVENT, then (first piece), then tail + EVENT; 3 = as 0 with a
    large body so that the tail is shorter than the body; 4 = tail + EVENT, then the next request is answered whole;
    5 = whole response + EVENT in one segment."""
    r = ReqRun(limit=limit)
    r._rng = rng
    try:
        r.connect()
        conn = r.net.conns[-1]
        for round_ in range(rng.randrange(1, 3)):
            if not conn.open or r.next_r > r.nreq:
                break
            r.issue(rng.choice(["GET", "PUT"]))
            r.settle()
            if not (conn.open and conn.unanswered):
                break
            if variant == 2:
                r.event(conn)
                r.settle()
            if variant == 5:
                req = conn.unanswered[0]
                raw = H.response(200, A.hap_json({"r": req.rid}))
                r.log("acc_tx", s=conn.id + 1, kind="resp", r=req.rid)
                conn.unanswered.remove(req)
                wire = conn.session.seal(raw) if conn.session else raw
                n = r.ev_n.get(conn.id, 0) + 1
                r.ev_n[conn.id] = n
                r.log("acc_tx", s=conn.id + 1, kind="event", n=n)
                ev = H.event(A.hap_json({"characteristics": [{"aid": conn.id + 1, "iid": n, "value": 1}]}))
                conn.send_raw(wire + (conn.session.seal(ev) if conn.session else ev))
                r.settle()
                continue
            big = variant == 3 or rng.random() < 0.5
            r.respond(conn, "half", pad=rng.choice([400, 700, 1500]) if big else 0,
                      frame=rng.choice([64, 200]) if big or rng.random() < 0.5 else None,
                      chunked=rng.random() < 0.5)
            r.settle()                                  # the controller has read (and, with small frames, decrypted) the first piece
            r.respond_rest(conn, events_behind=2 if variant == 1 else 1)
            r.settle()
            if variant == 4 and conn.open and r.next_r <= r.nreq:
                r.issue()
                r.settle()
                if conn.unanswered:
                    r.respond(conn, "resp")
                r.settle()
        if rng.random() < 0.5 and conn.open:
            r.event(conn)
            r.settle()
        r.finish()
        return r
    except BaseException:
        r.close()
        raise
