"""Drivers for the pairing protocol checks (C01, C03, C04).

One scripted accessory (reference implementation in harness/refacc, every reply overridable by a
hook) is put behind each of the places where aiohomekit runs its pairing state machines:

  gen   the protocol generators themselves (get_session_keys, perform_pair_setup_part1/2), replies
        handed over as the complete item list (no "expected types" filter)
  ip    IpDiscovery.async_start_pairing / finish_pairing and SecureHomeKitConnection (via
        IpPairing.connection.ensure_connection) over harness/simnet.py on the virtual-time loop;
        IpPairing.add_pairing / remove_pairing on an established session
  coap  CoAPHomeKitConnection.do_pair_setup / do_pair_setup_finish / do_pair_verify with
        aiocoap.Context replaced by an in-process fake
  ble   aiohomekit.controller.ble.client.drive_pairing_state_machine and
        BlePairing._async_pair_verify over a duck-typed GATT client that speaks HAP-BLE PDUs
        (written from the specification, independent of aiohomekit.pdu);
        BlePairing.add_pairing / remove_pairing with the PDU request answered by the script

Nothing here decides a verdict: the functions return an `Outcome` (normal return value or the
exception) that the property checks compare with what the TLA+ specification allows.
"""
from __future__ import annotations

import asyncio
import copy
import logging
import struct
import types

from .refacc import accessory as A
from .refacc import crypto as C
from .refacc import http as H
from .refacc import tlv as T

logging.disable(logging.CRITICAL)

PS_STEPS = {1: "PS_M2", 3: "PS_M4", 5: "PS_M6"}
PV_STEPS = {1: "PV_M2", 3: "PV_M4"}
PIN = "031-45-154"


class Outcome:
    __slots__ = ("ok", "exc", "value", "extra")

    def __init__(self, ok, exc=None, value=None, extra=None):
        self.ok, self.exc, self.value, self.extra = ok, exc, value, extra or {}

    def cls(self) -> str:
        return "ok" if self.ok else classify(self.exc)

    def __repr__(self):
        return f"Outcome({self.cls()}{'' if self.ok else ': ' + repr(self.exc)})"


_PROTO_CLASSES = ("AuthenticationError", "BackoffError", "MaxPeersError", "MaxTriesError", "UnavailableError",
                  "BusyError", "InvalidError", "UnknownError")


def classify(exc: BaseException) -> str:
    """Outcome class of an exception, by isinstance against aiohomekit.exceptions."""
    from aiohomekit import exceptions as X
    for name in _PROTO_CLASSES:
        if isinstance(exc, getattr(X, name)):
            return name[:-5]                      # "Authentication", ..., "Invalid", "Unknown"
    if isinstance(exc, X.HomeKitException):
        return "OtherLib:" + type(exc).__name__
    return "NonLib:" + type(exc).__name__


# =======================================================================================
# scripted accessory
# =======================================================================================
_SRP_TEMPLATES: dict = {}


def _new_pair_setup(ident, code, fresh):
    """A.PairSetup; unless `fresh`, the SRP verifier / server key pair for a setup code are computed
    once per process and copied (two 3072-bit exponentiations saved per exchange)."""
    if fresh:
        return A.PairSetup(ident, code=code)
    key = code or ident.setup_code
    tmpl = _SRP_TEMPLATES.get(key)
    if tmpl is None:
        tmpl = _SRP_TEMPLATES[key] = A.PairSetup(ident, code=key)
    ps = copy.copy(tmpl)
    ps.ident = ident
    ps.srp = copy.copy(tmpl.srp)
    return ps


class ScriptedAccessory:
    """Reference accessory with a hook: hook(acc, step, items, honest) -> bytes | None.

    `step` names the reply being produced (PS_M2, PS_M4, PS_M6, PV_M2, PV_M4); `honest()` advances
    the honest accessory state (self.ps / self.pv) and returns the honest reply items - a hook that
    builds its reply from the honest state calls it first, one that does not need it (and wants to
    save the accessory's SRP computation) need not.
    """

    def __init__(self, ident: A.Identity | None = None, ctrl: A.ControllerIdentity | None = None, hook=None,
                 code: str | None = None, fresh_srp: bool = False, srp_params=None):
        self.fresh_srp = fresh_srp
        self.srp_params = srp_params       # (salt, b): the accessory's SRP salt and private key are given, not random
        self.ident = ident or A.Identity()
        self.ctrl = ctrl
        self.hook = hook
        self.code = code
        self.ps: A.PairSetup | None = None
        self.pv: A.PairVerify | None = None
        self.log: list = []                # (step, request items)
        self.replies: list = []            # (step, reply bytes)
        self.m3_ok = None                  # verdict of the reference accessory on pair-verify M3
        self.m3_seen = False

    # -- the honest accessory
    def _honest(self, proto, st, items):
        if proto == "setup":
            if st == 1:
                if self.srp_params is not None:
                    from .refacc.srp import SrpServer
                    salt, b = self.srp_params
                    self.ps = A.PairSetup(self.ident, code=self.code, salt=salt)
                    self.ps.srp = SrpServer("Pair-Setup", self.code or self.ident.setup_code, salt=salt, b=b)
                else:
                    self.ps = _new_pair_setup(self.ident, self.code, self.fresh_srp)
                return self.ps.on_m1(items)
            if st == 3:
                return self.ps.on_m3(items)
            if st == 5:
                if self.ps.enc_key is None:            # M5 after a failed M3: conformant accessory refuses
                    self.ps.m5_ok = False
                    return [(T.STATE, b"\x06"), (T.ERROR, b"\x02")]
                return self.ps.on_m5(items)
        else:
            if st == 1:
                self.pv = A.PairVerify(self.ident)
                return self.pv.on_m1(items)
            if st == 3:
                self.m3_seen = True
                out = self.pv.on_m3(items)
                self.m3_ok = self.pv.verified
                return out
        return [(T.STATE, bytes([(st + 1) & 0xFF])), (T.ERROR, b"\x01")]

    def handle_items(self, proto: str, items) -> bytes:
        items = [(int(t), bytes(v)) for t, v in items]
        stv = dict(items).get(T.STATE, b"\x00")
        st = stv[0] if len(stv) == 1 else 0
        step = (PS_STEPS if proto == "setup" else PV_STEPS).get(st, f"{proto}?{st}")
        self.log.append((step, items))
        memo = []

        def honest():
            if not memo:
                memo.append(self._honest(proto, st, items))
            return memo[0]
        out = None
        if self.hook is not None:
            out = self.hook(self, step, items, honest)
        if out is None:
            out = T.enc(honest())
        self.replies.append((step, out))
        return out

    def handle(self, proto: str, body: bytes) -> bytes:
        return self.handle_items(proto, T.dec(body))


def as_items(reply: bytes):
    """What a transport without a type filter hands to the state machine."""
    return [[t, bytearray(v)] for t, v in T.dec(reply)]


# =======================================================================================
# transport: generators driven directly
# =======================================================================================
def drive_generator(gen, acc: ScriptedAccessory, proto: str, real_decoder: bool = False) -> Outcome:
    """real_decoder: the reply bytes go through aiohomekit's TLV.decode_bytes without a type filter (what the
    BLE driver does) instead of the reference TLV reader - needed for replies that are not well-formed TLV."""
    try:
        req, _expected = gen.send(None)
        while True:
            reply = acc.handle_items(proto, req)
            if real_decoder:
                from aiohomekit.protocol.tlv import TLV
                items = TLV.decode_bytes(reply)
            else:
                items = as_items(reply)
            req, _expected = gen.send(items)
    except StopIteration as si:
        return Outcome(True, value=si.value)
    except Exception as ex:  # noqa: BLE001
        return Outcome(False, exc=ex)


def gen_pair_setup(acc: ScriptedAccessory, pin: str | None = PIN, ios_id: str = "c0ffee00-1111-2222-3333-444455556666",
                   with_auth: bool = False, real_decoder: bool = False) -> Outcome:
    """pin=None: only part 1 (M1/M2)."""
    from aiohomekit.protocol import perform_pair_setup_part1, perform_pair_setup_part2
    o = drive_generator(perform_pair_setup_part1(with_auth), acc, "setup", real_decoder)
    if not o.ok or pin is None:
        return o
    try:
        salt, pub = o.value
        gen = perform_pair_setup_part2(pin, ios_id, salt, pub)
    except Exception as ex:  # noqa: BLE001
        return Outcome(False, exc=ex)
    return drive_generator(gen, acc, "setup", real_decoder)


def gen_pair_verify(acc: ScriptedAccessory, pairing_data: dict, session_id=None, derive=None,
                    real_decoder: bool = False) -> Outcome:
    from aiohomekit.protocol import get_session_keys
    o = drive_generator(get_session_keys(pairing_data, session_id, derive), acc, "verify", real_decoder)
    if o.ok:
        try:
            sid, derive = o.value
            o.extra["keys"] = _keys_from_derive(derive, coap=True)
            o.extra["session_id"] = bytes(sid)
        except Exception as ex:  # noqa: BLE001
            return Outcome(False, exc=ex)
    return o


def _keys_from_derive(derive, coap=False):
    k = {"a2c": bytes(derive(b"Control-Salt", b"Control-Read-Encryption-Key")),
         "c2a": bytes(derive(b"Control-Salt", b"Control-Write-Encryption-Key"))}
    if coap:
        k["event"] = bytes(derive(b"Event-Salt", b"Event-Read-Encryption-Key"))
    return k


# =======================================================================================
# transport: IP (SimNet + virtual-time loop)
# =======================================================================================
class _PairingBehaviour:
    """simnet Behaviour whose /pair-setup, /pair-verify and /pairings are answered by the script."""

    def __new__(cls, acc: ScriptedAccessory, mgmt=None):
        from . import simnet

        class B(simnet.Behaviour):
            def __init__(self):
                super().__init__(acc.ident)
                self.secure_requests = 0
                self.mgmt_requests = []

            def on_request(self, conn, req):
                if req.method == "POST" and req.target == "/pair-setup":
                    return conn.respond(req, 200, acc.handle("setup", req.body), H.TLV8)
                if req.method == "POST" and req.target == "/pair-verify":
                    out = acc.handle("verify", req.body)
                    if acc.pv is not None and acc.pv.verified and acc.log[-1][0] == "PV_M4":
                        k = acc.pv.keys()
                        conn.pending_session = A.SecureSession(k["a2c"], k["c2a"])
                        conn.verified = True
                    return conn.respond(req, 200, out, H.TLV8)
                if not req.secure:
                    return conn.respond(req, 470, b"", None)
                self.secure_requests += 1
                if req.method == "POST" and req.target == "/pairings" and mgmt is not None:
                    self.mgmt_requests.append(T.dec(req.body))
                    return conn.respond(req, 200, mgmt(T.dec(req.body)), H.TLV8)
                return self.answer(conn, req)
        return B()


def _with_loop(fn):
    """Run fn(loop) on a fresh virtual-time loop and clean up."""
    from . import vloop
    loop = vloop.new_loop()
    try:
        return fn(loop)
    finally:
        vloop.close_loop(loop)


def _run_task(loop, coro, limit=5.0):
    """Run a coroutine as a task until it ends or nothing more can happen within `limit` virtual
    seconds (the IP connector backs off and retries for ever after a failed attempt)."""
    task = loop.create_task(coro)
    loop.run_until_idle_or(loop.time())       # settle without advancing time
    if not task.done():
        loop.settle()
    return task


def ip_pair_verify(acc: ScriptedAccessory, pairing_data: dict, then_request: bool = True) -> Outcome:
    """One connection attempt of the real IpPairing.  ok = the pairing reports connected *and* an
    encrypted request was understood by the reference accessory under its own keys and answered."""
    from . import simnet

    def body(loop):
        from aiohomekit.characteristic_cache import CharacteristicCacheMemory
        from aiohomekit.controller.ip.pairing import IpPairing
        beh = _PairingBehaviour(acc)
        net = simnet.SimNet(loop, beh)
        # exactly one connection attempt is observed: later TCP connects are refused (after an
        # AuthenticationError the library starts a new connector at once, without back-off)
        net.tcp_script = lambda hosts: ("ok", hosts[0]) if not net.conns else ("refused",)
        net.install()
        try:
            controller = types.SimpleNamespace(_char_cache=CharacteristicCacheMemory(), pairings={}, aliases={})
            pd = dict(pairing_data)
            pd.setdefault("AccessoryIP", "10.0.0.1")
            pd.setdefault("AccessoryIPs", ["10.0.0.1"])
            pd.setdefault("AccessoryPort", 51826)
            pd.setdefault("Connection", "IP")

            async def mk():
                return IpPairing(controller, pd)
            pairing = loop.run_until_complete(mk())
            task = _run_task(loop, pairing.connection.ensure_connection())
            exc = None
            if task.done():
                exc = task.exception() if not task.cancelled() else asyncio.CancelledError()
            if exc is None:
                exc = pairing.connection.last_connector_error
            connected = bool(pairing.is_connected)
            extra = {"connected": connected, "secure_requests": beh.secure_requests,
                     "protocol_errors": list(net.protocol_errors)}
            out = None
            if connected and exc is None:
                if then_request:
                    t2 = _run_task(loop, pairing.list_accessories_and_characteristics())
                    if not t2.done() or t2.exception() is not None or net.protocol_errors or beh.secure_requests < 1:
                        err = t2.exception() if t2.done() else RuntimeError("encrypted request not answered")
                        extra["protocol_errors"] = list(net.protocol_errors)
                        extra["session_unusable"] = repr(err)
                    extra["secure_requests"] = beh.secure_requests
                out = Outcome(True, value=None, extra=extra)
            else:
                if exc is None:
                    exc = RuntimeError("connector neither connected nor reported an error")
                out = Outcome(False, exc=exc, extra=extra)
            if not task.done():
                task.cancel()
            tc = loop.create_task(pairing.shutdown())
            loop.settle()
            if not tc.done():
                tc.cancel()
            return out
        finally:
            net.uninstall()
    return _with_loop(body)


def _hk_service(ident: A.Identity, addrs=("10.0.0.1",)):
    from aiohomekit.model import Categories
    from aiohomekit.model.feature_flags import FeatureFlags
    from aiohomekit.model.status_flags import StatusFlags
    from aiohomekit.zeroconf import HomeKitService
    return HomeKitService(name="Sim", id=ident.acc_id.lower(), model="m", feature_flags=FeatureFlags(0),
                          status_flags=StatusFlags(1), config_num=1, state_num=1, category=Categories(1),
                          protocol_version="1.1", type="_hap._tcp.local.", address=addrs[0], addresses=list(addrs),
                          port=51826)


def ip_pair_setup(acc: ScriptedAccessory, pin: str | None = PIN) -> Outcome:
    """IpDiscovery.async_start_pairing + finish_pairing; value = pairing data of the returned IpPairing.
    pin=None: only async_start_pairing (M1/M2)."""
    from . import simnet

    def body(loop):
        from aiohomekit.characteristic_cache import CharacteristicCacheMemory
        from aiohomekit.controller.ip.discovery import IpDiscovery
        beh = _PairingBehaviour(acc)
        net = simnet.SimNet(loop, beh)
        net.install()
        try:
            controller = types.SimpleNamespace(_char_cache=CharacteristicCacheMemory(), pairings={}, aliases={})
            desc = _hk_service(acc.ident)

            async def run():
                disc = IpDiscovery(controller, desc)
                try:
                    finish = await disc.async_start_pairing("alias")
                    if pin is None:
                        return None
                    p = await finish(pin)
                    return p
                finally:
                    await disc.close()
            task = _run_task(loop, run())
            if not task.done():
                task.cancel()
                loop.settle()
                return Outcome(False, exc=RuntimeError("pair-setup did not finish (hung request)"))
            exc = task.exception()
            if exc is not None:
                return Outcome(False, exc=exc, extra={"registered": dict(controller.pairings)})
            p = task.result()
            if p is None:
                return Outcome(True, value=None)
            val = dict(p.pairing_data)
            t2 = loop.create_task(p.shutdown())
            loop.settle()
            if not t2.done():
                t2.cancel()
            return Outcome(True, value=val, extra={"registered": "alias" in controller.pairings})
        finally:
            net.uninstall()
    return _with_loop(body)


def ip_pairing_mgmt(acc: ScriptedAccessory, pairing_data: dict, op: str, reply_fn) -> Outcome:
    """IpPairing.add_pairing / remove_pairing on an established secure session; the /pairings
    request is answered with reply_fn(request items) -> TLV bytes."""
    from . import simnet

    def body(loop):
        from aiohomekit.characteristic_cache import CharacteristicCacheMemory
        from aiohomekit.controller.ip.pairing import IpPairing
        beh = _PairingBehaviour(acc, mgmt=reply_fn)
        net = simnet.SimNet(loop, beh)
        net.install()
        try:
            controller = types.SimpleNamespace(_char_cache=CharacteristicCacheMemory(), pairings={}, aliases={})
            pd = dict(pairing_data)

            async def mk():
                return IpPairing(controller, pd)
            pairing = loop.run_until_complete(mk())

            async def run():
                if op == "add":
                    return await pairing.add_pairing("11111111-2222-3333-4444-555555555555", "ab" * 32, "User")
                return await pairing.remove_pairing("11111111-2222-3333-4444-555555555555")
            task = _run_task(loop, run())
            if not task.done():
                task.cancel()
                loop.settle()
                out = Outcome(False, exc=RuntimeError(f"{op}_pairing did not finish"), extra={"hung": True})
            elif task.exception() is not None:
                out = Outcome(False, exc=task.exception())
            else:
                out = Outcome(True, value=task.result())
            out.extra["mgmt_requests"] = len(beh.mgmt_requests)
            tc = loop.create_task(pairing.shutdown())
            loop.settle()
            if not tc.done():
                tc.cancel()
            return out
        finally:
            net.uninstall()
    return _with_loop(body)


# =======================================================================================
# transport: CoAP (aiocoap.Context replaced)
# =======================================================================================
class _FakeCoapContext:
    def __init__(self, acc: ScriptedAccessory):
        self.acc = acc
        self.shutdowns = 0
        self.requests = 0

    def request(self, msg):
        self.requests += 1
        uri = msg.get_request_uri() if hasattr(msg, "get_request_uri") else ""
        proto = "setup" if uri.rstrip("/").endswith("/1") else "verify"
        payload = self.acc.handle(proto, bytes(msg.payload))

        async def resp():
            return types.SimpleNamespace(payload=payload, code=None)
        return types.SimpleNamespace(response=resp())

    async def shutdown(self):
        self.shutdowns += 1


def _coap_patched(acc, fn):
    import aiohomekit.controller.coap.connection as cc
    ctx = _FakeCoapContext(acc)

    class FakeContextFactory:
        @staticmethod
        async def create_client_context(*a, **k):
            return ctx

        @staticmethod
        async def create_server_context(*a, **k):
            return ctx
    orig = cc.Context
    cc.Context = FakeContextFactory
    loop = asyncio.new_event_loop()
    try:
        return loop.run_until_complete(fn(cc, ctx))
    finally:
        cc.Context = orig
        loop.close()


def coap_pair_setup(acc: ScriptedAccessory, pin: str | None = PIN, with_auth: bool = False) -> Outcome:
    async def run(cc, ctx):
        conn = cc.CoAPHomeKitConnection(None, "fd00::1", 5683)
        try:
            salt, srpb = await conn.do_pair_setup(with_auth)
            if pin is None:
                return Outcome(True, value=(salt, srpb))
            pairing = await conn.do_pair_setup_finish(pin, salt, srpb)
            return Outcome(True, value=pairing)
        except Exception as ex:  # noqa: BLE001
            return Outcome(False, exc=ex)
    return _coap_patched(acc, run)


def coap_pair_verify(acc: ScriptedAccessory, pairing_data: dict) -> Outcome:
    async def run(cc, ctx):
        conn = cc.CoAPHomeKitConnection(None, "fd00::1", 5683)
        try:
            await conn.do_pair_verify(pairing_data)
        except Exception as ex:  # noqa: BLE001
            return Outcome(False, exc=ex, extra={"enc_ctx": conn.enc_ctx is not None})
        e = conn.enc_ctx
        extra = {"enc_ctx": e is not None}
        if e is not None:
            # what the controller will use: seal with its send key, and open what the reference
            # accessory would seal under its own read / event keys
            extra["probe_c2a"] = e.encrypt(b"probe")                  # nonce counter 0
            extra["recv"] = e.recv_ctx
            extra["event"] = e.event_ctx
            extra["ctx"] = e
        return Outcome(True, value=None, extra=extra)
    return _coap_patched(acc, run)


def coap_keys_agree(o: Outcome, keys: dict) -> str | None:
    """Compare the installed CoAP contexts with the reference accessory's keys (black box: by
    sealing/opening probes).  Returns a description of the disagreement or None."""
    nonce0 = struct.pack("=4xQ", 0)
    if C.open_(keys["c2a"], nonce0, o.extra["probe_c2a"]) != b"probe":
        return "accessory cannot open what the controller sealed with its send key"
    e = o.extra["ctx"]
    try:
        if e.decrypt(C.seal(keys["a2c"], nonce0, b"reply")) != b"reply":
            return "controller opened the accessory's reply to different bytes"
    except Exception as ex:  # noqa: BLE001
        return f"controller cannot open a reply sealed under the accessory's read key ({type(ex).__name__})"
    try:
        if e.decrypt_event(C.seal(keys["event"], nonce0, b"event")) != b"event":
            return "controller opened the accessory's event to different bytes"
    except Exception as ex:  # noqa: BLE001
        return f"controller cannot open an event sealed under the accessory's event key ({type(ex).__name__})"
    return None


# =======================================================================================
# transport: BLE (duck-typed GATT client speaking HAP-BLE PDUs)
# =======================================================================================
SVC_PAIRING = "00000055-0000-1000-8000-0026BB765291"
CH_PAIR_SETUP = "0000004C-0000-1000-8000-0026BB765291"
CH_PAIR_VERIFY = "0000004E-0000-1000-8000-0026BB765291"
CH_PAIR_FEATURES = "0000004F-0000-1000-8000-0026BB765291"
CH_PAIRINGS = "00000050-0000-1000-8000-0026BB765291"


class _Handle:
    def __init__(self, uuid, iid):
        self.uuid = uuid
        self.iid = iid
        self.properties = ["read", "write"]
        self.max_write_without_response_size = None
        self.handle = iid

    def __hash__(self):
        return hash(self.iid)


class FakeGattClient:
    """GATT client over which the scripted accessory speaks HAP-BLE (HAP spec 7.3.3-7.3.5):
    request  = control(0x00) opcode tid iid(le16) [len(le16) body], continuation = 0x80 tid data;
    response = control(0x02) tid status [len(le16) body], continuation = 0x82 tid data.
    Write bodies carry TLV {0x09 return-response, 0x01 value}; responses carry TLV {0x01 value}."""

    def __init__(self, acc: ScriptedAccessory, mtu: int = 100, read_chunk: int = 60, fragment_tlv: int | None = None):
        self.acc = acc
        self.address = "AA:BB:CC:DD:EE:FF"
        self.is_connected = True
        self.mtu = mtu
        self.read_chunk = read_chunk
        self.fragment_tlv = fragment_tlv       # pair-setup style FragmentData/FragmentLast reassembly
        self.handles = {CH_PAIR_SETUP.lower(): _Handle(CH_PAIR_SETUP, 0x22), CH_PAIR_VERIFY.lower(): _Handle(CH_PAIR_VERIFY, 0x23),
                        CH_PAIR_FEATURES.lower(): _Handle(CH_PAIR_FEATURES, 0x24), CH_PAIRINGS.lower(): _Handle(CH_PAIRINGS, 0x25)}
        self.inbuf = {}         # iid -> [tid, opcode, total_len, bytearray]
        self.outq = {}          # iid -> list of response PDUs to be read
        self.frag_pending = []  # remaining TLV fragments of a reply
        self.pdu_errors = []

    async def get_characteristic(self, service_uuid, characteristic_uuid, iid=None):
        return self.handles[characteristic_uuid.lower()]

    async def get_characteristic_iid(self, char):
        return char.iid

    def determine_fragment_size(self, overhead, handle):
        return self.mtu - 3 - overhead

    async def disconnect(self):
        self.is_connected = False

    async def clear_cache(self):
        return None

    async def write_gatt_char(self, handle, data, response=True):
        data = bytes(data)
        if data[0] & 0x80:
            ent = self.inbuf.get(handle.iid)
            if ent is None or ent[0] != data[1]:
                self.pdu_errors.append("continuation without a request")
                return
            ent[3] += data[2:]
        else:
            _ctl, opcode, tid, iid = struct.unpack("<BBBH", data[:5])
            if iid != handle.iid:
                self.pdu_errors.append(f"iid {iid} written to characteristic {handle.iid}")
            total = 0
            body = b""
            if len(data) > 5:
                total = struct.unpack("<H", data[5:7])[0]
                body = data[7:]
            self.inbuf[handle.iid] = [tid, opcode, total, bytearray(body)]
        ent = self.inbuf[handle.iid]
        if len(ent[3]) >= ent[2]:
            del self.inbuf[handle.iid]
            self._complete(handle, ent[0], ent[1], bytes(ent[3][:ent[2]]))

    def _respond(self, handle, tid, value: bytes | None, status=0):
        body = T.enc([(1, value)]) if value is not None else b""
        first = struct.pack("<BBB", 0x02, tid, status)
        pdus = []
        if body:
            first += struct.pack("<H", len(body))
            room = self.read_chunk
            pdus.append(first + body[:room])
            rest = body[room:]
            while rest:
                pdus.append(struct.pack("<BB", 0x82, tid) + rest[:room])
                rest = rest[room:]
        else:
            pdus.append(first)
        self.outq[handle.iid] = pdus

    def _complete(self, handle, tid, opcode, body: bytes):
        if opcode == 0x03:                           # characteristic read
            if handle.uuid == CH_PAIR_FEATURES:
                return self._respond(handle, tid, b"\x00")
            return self._respond(handle, tid, b"")
        if opcode != 0x02:
            self.pdu_errors.append(f"unexpected opcode {opcode}")
            return self._respond(handle, tid, None, status=1)
        d = dict(T.dec(body))
        value = d.get(1, b"")
        if handle.uuid in (CH_PAIR_SETUP, CH_PAIR_VERIFY):
            if self.frag_pending and value == bytes([T.FRAGMENT_DATA, 0]):
                return self._respond(handle, tid, self.frag_pending.pop(0))
            proto = "setup" if handle.uuid == CH_PAIR_SETUP else "verify"
            reply = self.acc.handle(proto, value)
            if self.fragment_tlv and len(reply) > self.fragment_tlv:
                parts = [reply[i:i + self.fragment_tlv] for i in range(0, len(reply), self.fragment_tlv)]
                frs = [T.enc([(T.FRAGMENT_DATA, p)]) for p in parts[:-1]] + [T.enc([(T.FRAGMENT_LAST, parts[-1])])]
                self.frag_pending = frs[1:]
                return self._respond(handle, tid, frs[0])
            return self._respond(handle, tid, reply)
        return self._respond(handle, tid, b"")

    async def read_gatt_char(self, handle):
        q = self.outq.get(handle.iid)
        if not q:
            raise RuntimeError("read without a pending response")
        return bytearray(q.pop(0))


def _run_plain(coro):
    loop = asyncio.new_event_loop()
    try:
        return loop.run_until_complete(coro)
    finally:
        loop.close()


def ble_pair_setup(acc: ScriptedAccessory, pin: str | None = PIN, ios_id: str = "c0ffee00-1111-2222-3333-444455556666",
                   fragment_tlv: int | None = None, with_auth: bool = False) -> Outcome:
    """perform_pair_setup_part1/2 through the BLE driver (drive_pairing_state_machine)."""
    from aiohomekit.controller.ble.client import drive_pairing_state_machine
    from aiohomekit.protocol import perform_pair_setup_part1, perform_pair_setup_part2
    client = FakeGattClient(acc, fragment_tlv=fragment_tlv)

    async def run():
        try:
            salt, pub = await drive_pairing_state_machine(client, CH_PAIR_SETUP, perform_pair_setup_part1(with_auth))
            if pin is None:
                return Outcome(True, value=(salt, pub), extra={"pdu_errors": client.pdu_errors})
            val = await drive_pairing_state_machine(client, CH_PAIR_SETUP,
                                                    perform_pair_setup_part2(pin, ios_id, salt, pub))
            return Outcome(True, value=val, extra={"pdu_errors": client.pdu_errors})
        except Exception as ex:  # noqa: BLE001
            return Outcome(False, exc=ex, extra={"pdu_errors": client.pdu_errors})
    return _run_plain(run())


def _ble_pairing(pairing_data, client):
    from aiohomekit.characteristic_cache import CharacteristicCacheMemory
    from aiohomekit.controller.ble.pairing import BlePairing
    controller = types.SimpleNamespace(_char_cache=CharacteristicCacheMemory(), pairings={}, aliases={})
    pd = dict(pairing_data)
    pd["AccessoryAddress"] = client.address
    pd["Connection"] = "BLE"
    return BlePairing(controller, pd, client=client)


def ble_pair_verify(acc: ScriptedAccessory, pairing_data: dict, resume=None) -> Outcome:
    """BlePairing._async_pair_verify (installs the keys and the resume state)."""
    client = FakeGattClient(acc)

    async def run():
        p = _ble_pairing(pairing_data, client)
        if resume is not None:
            p._session_id, p._derive = resume
        try:
            await p._async_pair_verify()
        except Exception as ex:  # noqa: BLE001
            return Outcome(False, exc=ex, extra={"installed": p._encryption_key is not None})
        return Outcome(True, value=None, extra={"enc": p._encryption_key, "dec": p._decryption_key,
                                                "session_id": p._session_id, "derive": p._derive})
    return _run_plain(run())


def ble_keys_agree(o: Outcome, keys: dict) -> str | None:
    nonce0 = struct.pack("=4xQ", 0)
    try:
        ct = o.extra["enc"].encrypt(b"probe")
    except Exception as ex:  # noqa: BLE001
        return f"controller's encryption key unusable ({type(ex).__name__})"
    if C.open_(keys["c2a"], nonce0, ct) != b"probe":
        return "accessory cannot open what the controller sealed with its write key"
    try:
        pt = o.extra["dec"].decrypt(C.seal(keys["a2c"], nonce0, b"reply"))
    except Exception as ex:  # noqa: BLE001
        return f"controller cannot open a reply sealed under the accessory's read key ({type(ex).__name__})"
    if pt != b"reply":
        return "controller cannot open a reply sealed under the accessory's read key"
    return None


def ble_pairing_mgmt(pairing_data: dict, op: str, reply_fn) -> Outcome:
    """BlePairing.add_pairing / remove_pairing; the CHAR_WRITE on the Pairings characteristic is answered with
    reply_fn(request items) -> pairing TLV bytes (wrapped in the HAP-BLE value parameter)."""
    from aiohomekit.model import Accessories, AccessoriesState

    async def run():
        client = FakeGattClient(ScriptedAccessory())
        p = _ble_pairing(pairing_data, client)
        accs = Accessories.from_list([{"aid": 1, "services": [
            {"iid": 1, "type": "0000003E-0000-1000-8000-0026BB765291", "characteristics": [
                {"iid": 3, "type": "00000023-0000-1000-8000-0026BB765291", "perms": ["pr"], "format": "string", "value": "x"}]},
            {"iid": 0x20, "type": SVC_PAIRING, "characteristics": [
                {"iid": 0x25, "type": CH_PAIRINGS, "perms": ["pr", "pw"], "format": "tlv8"}]}]}])
        p._accessories_state = AccessoriesState(accs, 1, None, 1)
        seen = []

        async def populate():
            return None

        async def request(opcode, char, data=None, iid=None):
            outer = dict(T.dec(bytes(data)))
            items = T.dec(outer.get(1, b""))
            seen.append(items)
            return T.enc([(1, reply_fn(items))])
        p._populate_accessories_and_characteristics = populate
        p._async_request = request
        try:
            if op == "add":
                r = await p.add_pairing("11111111-2222-3333-4444-555555555555", "ab" * 32, "User")
            else:
                r = await p.remove_pairing("11111111-2222-3333-4444-555555555555")
            return Outcome(True, value=r, extra={"mgmt_requests": len(seen)})
        except Exception as ex:  # noqa: BLE001
            return Outcome(False, exc=ex, extra={"mgmt_requests": len(seen)})
    return _run_plain(run())
