#!/bin/sh
# usage: tl.sh <Module.tla> <cfg> [extra tlc args]  -- run TLC and print a compact result
m=$1; c=$2; shift 2
d=$(mktemp -d /tmp/tlcm.XXXXXX)
timeout ${TLTIMEOUT:-900} java -XX:+UseParallelGC -Xmx12g -Djava.io.tmpdir=$d -cp /opt/veriftools/tla/tla2tools.jar:/opt/veriftools/tla/CommunityModules-deps.jar tlc2.TLC -workers ${TLW:-16} -metadir $d -noGenerateSpecTE -config $c "$@" $m > $d/out.txt 2>&1
if grep -q "Error:" $d/out.txt; then /venv/bin/python /verif/harness/tlcshow.py < $d/out.txt; grep -E "^Error|evaluat|line [0-9]+, col" $d/out.txt | grep -v "^State\|State [0-9]" | head -20; else grep -E "states generated|depth of|No error|Finished in" $d/out.txt | tail -4; fi
rm -rf $d
