"""EXTZC driver: one device id on a real IpController + aggregate Controller (the repository tests'
AsyncServiceBrowserStub pattern, as harness/c19_driver.py), a real IpPairing over the in-process accessory of
harness/simnet.py, a real characteristic cache (memory or file), all on one virtual-time loop.

The driver applies one stimulus at a time, lets the loop run until nothing is ready and logs one event per
stimulus for spec/discovery/ZcLifecycle_Trace.tla: the stimulus, `out` (what became visible meanwhile) and
`obs` (what is visible afterwards).  Nothing here decides a verdict.

Abstract values (ZcLifecycle.tla) <-> concrete ones:
  record [a, p, c, s] -> AsyncServiceInfo with addresses ADDRS[a] (a = 3 also carries a link-local address that
  must be skipped), port PORTS[p], c# = cbase + c, s# = s, sf = (a + s) % 2; endpoint (0, 0) is the pairing data's.
  database version v -> accessory database whose serial-number characteristic reads str(v) (v >= 2 adds services).
"""
from __future__ import annotations

import asyncio
import copy
import hashlib
import ipaddress
import json
import logging
import os
from unittest.mock import MagicMock

from harness import c19_driver as C19
from harness import simnet as SN
from harness.refacc import accessory as A
from harness.refacc import http as H
from harness.refacc import tlv as T
from harness.vloop import close_loop, new_loop

logging.getLogger("aiohomekit").addHandler(logging.NullHandler())
logging.getLogger("aiohomekit").propagate = False
logging.getLogger("asyncio").addHandler(logging.NullHandler())
logging.getLogger("asyncio").propagate = False

HAP = "_hap._tcp.local."
ADDRS = {1: ["10.0.1.5"], 2: ["10.0.2.5", "2001:db8::2:5"], 3: ["10.0.3.5", "169.254.3.5"]}
VALID = {a: [x for x in v if not ipaddress.ip_address(x).is_link_local] for a, v in ADDRS.items()}
PORTS = {1: 5001, 2: 5002}
PD_HOST, PD_PORT = "10.9.9.9", 51826
ALIAS = "alias-zc"
SERIAL = "00000030-0000-1000-8000-0026BB765291"

_CUR = None          # the world whose loop is running (hooks below are class-level)


def database(v: int):
    """accessory database, version v"""
    acc = copy.deepcopy(SN.DEFAULT_ACCESSORIES)
    for ch in acc[0]["services"][0]["characteristics"]:
        if ch["type"] == SERIAL:
            ch["value"] = str(v)
    for k in range(2, v + 1):          # structural change, not only a value
        acc[0]["services"].append({"iid": 20 + 3 * k, "type": "00000049-0000-1000-8000-0026BB765291", "characteristics": [
            {"iid": 21 + 3 * k, "type": "00000025-0000-1000-8000-0026BB765291", "perms": ["pr", "pw", "ev"], "format": "bool", "value": False}]})
    return acc


def version_of_list(lst) -> int:
    """database version of a serialised accessory list (0: none, -1: not one of ours)"""
    try:
        for a in lst:
            for s in a["services"]:
                for ch in s["characteristics"]:
                    if str(ch.get("type", "")).upper() in (SERIAL, "30"):
                        v = int(ch["value"])
                        nsvc = len(lst[0]["services"])
                        return v if nsvc == 2 + max(0, v - 1) else -1
    except Exception:  # noqa: BLE001
        return -1
    return -1


def _install_hooks():
    """class-level observation hooks on the documented extension points of the pairing (idempotent)"""
    from aiohomekit.controller.ip.pairing import IpPairing
    if getattr(IpPairing, "_extzc_hooked", False):
        return
    orig_poll = IpPairing._process_disconnected_events
    orig_endp = IpPairing._async_endpoint_changed

    def poll(self):
        if _CUR is not None and self is _CUR.pairing_or_loading():
            _CUR.emit("dpoll")
        return orig_poll(self)

    def endp(self):
        if _CUR is not None and self is _CUR.pairing_or_loading():
            _CUR.emit("endp")
        return orig_endp(self)
    IpPairing._process_disconnected_events = poll
    IpPairing._async_endpoint_changed = endp
    IpPairing._extzc_hooked = True


def _install_service_info():
    import aiohomekit.zeroconf as AZ
    base = AZ.AsyncServiceInfo
    if getattr(base, "_extzc", False):
        return

    class GatedServiceInfo(base):
        """async_request = the network round trips of zeroconf: returns when the driver says so, with
        whatever is in the cache by then"""
        _extzc = True

        async def async_request(self, zc, timeout, question_type=None, addr=None, port=None):
            w = _CUR
            if w is None:
                return self.load_from_cache(zc)
            w.emit("resolve")
            fut = w.loop.create_future()
            w.gates.append(fut)
            await fut
            return self.load_from_cache(zc)
    AZ.AsyncServiceInfo = GatedServiceInfo


class World:
    def __init__(self, idcase="lower", honest=True, cache0=0, accv0=1, tag="", cache_kind="mem", tmpdir=None, cbase=0):
        global _CUR
        from zeroconf import DNSCache
        from aiohomekit.characteristic_cache import CharacteristicCacheFile, CharacteristicCacheMemory
        from aiohomekit.controller import Controller
        from aiohomekit.controller.abstract import TransportType
        from aiohomekit.controller.ip.controller import IpController

        C19._patch_library()
        _install_service_info()
        _install_hooks()
        self.params = {"idcase": idcase, "honest": bool(honest), "cache0": int(cache0), "accv0": int(accv0),
                       "tag": tag, "cache_kind": cache_kind, "cbase": int(cbase)}
        self.cbase = int(cbase)
        h = hashlib.sha256(("extzc" + tag).encode()).hexdigest()
        self.id_lower = "c2:9b:" + ":".join(h[i:i + 2] for i in (0, 2, 4, 6))
        self.acc_id = self.id_lower.upper() if idcase == "upper" else self.id_lower
        self.name = f"dev{h[8:12]}.{HAP}"
        self.id2 = "c2:9c:" + ":".join(h[i:i + 2] for i in (12, 14, 16, 18))     # a second device (stimulus "other")
        self.name2 = f"oth{h[20:24]}.{HAP}"
        self.records2, self.known2 = [], False
        self.loop = new_loop()
        self.loop.set_exception_handler(self._loop_exc)
        _CUR = self
        self.events, self.steps, self.cur = [], [], None
        self.gates, self.loop_errors = [], []
        self.pairing = self._loading = None
        self.held = None
        self.accv = int(accv0)
        self.known = False
        self.records = []
        self.tasks = []
        self.ident = A.Identity(acc_id=self.acc_id, seed=hashlib.sha256(b"acc" + tag.encode()).digest())
        self.cident = A.ControllerIdentity(seed=hashlib.sha256(b"ctl" + tag.encode()).digest())
        self.pdata = self.ident.pairing_data(self.cident, hosts=(PD_HOST,), port=PD_PORT)
        self.beh = SN.Behaviour(self.ident, accessories=database(self.accv))
        self.beh.request_script = self._on_request
        self.net = SN.SimNet(self.loop, self.beh)
        self.net.install()
        orig_start = self.net.start_connection

        async def start_connection(addr_infos, **kw):
            hosts = [ai[3] for ai in addr_infos]
            ports = {ai[4][1] for ai in addr_infos}
            self.emit("tcp", self._abs_hosts(hosts), self._abs_port(ports))
            return await orig_start(addr_infos, **kw)
        import aiohomekit.controller.ip.connection as ipc
        ipc.aiohappyeyeballs.start_connection = start_connection

        zc = MagicMock(name="zeroconf")
        zc.cache = DNSCache()
        zc.listeners = [C19._BrowserStub()]
        self.zc = zc
        azc = MagicMock(name="asynczeroconf")
        azc.zeroconf = zc
        self.cache_path = None
        if cache_kind == "file":
            import pathlib
            self.cache_path = pathlib.Path(tmpdir) / f"cache-{h[:10]}.json"
            self.cache = CharacteristicCacheFile(self.cache_path)
        else:
            self.cache = CharacteristicCacheMemory()
        if cache0:
            self.cache.async_create_or_update_map(self.acc_id, self.cbase + cache0 // 10, database(cache0 % 10), None, None)

        async def mk():
            ip = IpController(char_cache=self.cache, zeroconf_instance=azc)
            await ip.async_start()
            agg = Controller(async_zeroconf_instance=azc, char_cache=self.cache)
            agg.transports[TransportType.IP] = ip
            return ip, agg
        self.ip, self.agg = self.loop.run_until_complete(mk())
        self.loop.settle()

    # ------------------------------------------------------------------ plumbing
    def pairing_or_loading(self):
        return self.pairing if self._loading is None else self._loading

    def _loop_exc(self, loop, context):
        txt = repr(context.get("handle") or context.get("future") or context.get("task") or "")
        self.loop_errors.append((context.get("message"), repr(context.get("exception")), txt[:200]))
        if context.get("handle") is not None and ("Zeroconf" in txt or "_async_resolve_later" in txt or "_handle_service" in txt):
            self.emit("raised")

    def emit(self, k, x=0, y=0):
        if self.cur is not None:
            self.cur["out"].append([k, int(x), int(y)])

    def in_loop(self, fn):
        asyncio.events._set_running_loop(self.loop)
        try:
            return fn(), None
        except Exception as ex:  # noqa: BLE001
            return None, f"{type(ex).__name__}: {ex}"
        finally:
            asyncio.events._set_running_loop(None)

    def _abs_hosts(self, hosts):
        hs = set(hosts)
        if hs == {PD_HOST}:
            return 0
        for a, v in VALID.items():
            if hs == set(v):
                return a
        return -1

    def _abs_port(self, ports):
        if ports == {PD_PORT}:
            return 0
        for p, v in PORTS.items():
            if ports == {v}:
                return p
        return -1

    def _abs_desc(self, d):
        if d is None:
            return []
        try:
            a = self._abs_hosts(d.addresses)
            p = self._abs_port({d.port})
            c, s = int(d.config_num) - self.cbase, int(d.state_num)
            ok = (d.id == self.id_lower and a > 0 and d.address == VALID[a][0] and int(d.status_flags) == (a + s) % 2
                  and f"{d.name}.{HAP}" == self.name)
            if not ok or not (-1000 < c < 1000 and -1000 < s < 1000):
                return [{"a": -1, "p": p, "c": -1, "s": -1}]
            return [{"a": a, "p": p, "c": c, "s": s}]
        except Exception:  # noqa: BLE001
            return [{"a": -1, "p": -1, "c": -1, "s": -1}]

    def _on_request(self, conn, req):
        if not req.secure:
            return False
        if req.method == "GET" and req.target == "/accessories":
            self.held = (conn, req, 1)
            self.emit("req", 1)
            return True
        if req.method == "POST" and req.target == "/pairings":
            self.held = (conn, req, 2)
            self.emit("req", 2)
            return True
        return False

    def _held(self):
        if self.held is None:
            return None
        conn, req, kind = self.held
        if conn.open and req in conn.unanswered:
            return self.held
        return None

    # ------------------------------------------------------------------ observation
    def _cache_view(self):
        from aiohomekit.characteristic_cache import CharacteristicCacheFile
        if self.cache_path is not None:
            if not self.cache_path.exists():
                return {}
            return CharacteristicCacheFile(self.cache_path).storage_data      # what a restart would read
        return self.cache.storage_data

    def obs(self):
        p = self.pairing
        d = self.ip.discoveries.get(self.id_lower)
        disc = self._abs_desc(d.description) if d is not None else []
        if any(k not in (self.id_lower, self.id2) for k in self.ip.discoveries):
            disc = [{"a": -1, "p": -1, "c": -1, "s": -1}]          # a discovery nobody announced
        ent = [(k, v) for k, v in self._cache_view().items() if k.lower() == self.id_lower]
        if not ent:
            cache = []
        elif len(ent) > 1:
            cache = [{"c": -9, "a": -9}]
        else:
            e = ent[0][1]
            try:
                c = int(e["config_num"])
                cache = [{"c": c - self.cbase if c >= 0 else c, "a": version_of_list(e["accessories"])}]
            except Exception:  # noqa: BLE001
                cache = [{"c": -9, "a": -9}]
        pcfg, pacc = -1, 0
        if p is not None:
            pcfg = int(p.config_num)
            pcfg = pcfg - self.cbase if pcfg >= 0 else pcfg
            if p.accessories is not None:
                try:
                    pacc = version_of_list(p.accessories.serialize())
                except Exception:  # noqa: BLE001
                    pacc = -1
        h = self._held()
        return {
            "disc": disc,
            "inctl": p is not None and (any(x is p for x in self.ip.pairings.values()) or any(x is p for x in self.agg.pairings.values())),
            "alias": ALIAS in self.ip.aliases or ALIAS in self.agg.aliases,
            "pdesc": self._abs_desc(p.description) if p is not None and p.description is not None else [],
            "pcfg": pcfg, "pacc": pacc, "cache": cache, "held": h[2] if h else 0,
        }

    # ------------------------------------------------------------------ stimuli
    def _begin(self, ev, **kw):
        self.cur = {"ev": ev, **kw, "out": []}

    def _end(self):
        self.loop.settle()
        e, self.cur = self.cur, None
        e["obs"] = self.obs()
        e["t"] = int(round(self.loop.time() * 1000))
        self.events.append(e)
        return e

    def _info(self, r):
        import aiohomekit.zeroconf as AZ
        c, s = self.cbase + r["c"], r["s"]
        up = (r["a"] + r["c"]) % 2 == 1          # key / id casing varies; parsing normalises (C19)
        props = {(b"ID" if up else b"id"): (self.id_lower.upper() if (r["s"] % 2) else self.id_lower).encode(),
                 b"md": b"unit", (b"C#" if up else b"c#"): str(c).encode(), b"s#": str(s).encode(),
                 b"sf": str((r["a"] + s) % 2).encode(), b"ci": b"5", b"ff": b"0", b"pv": b"1.1"}
        packed = [ipaddress.ip_address(x).packed for x in ADDRS[r["a"]]]
        return AZ.AsyncServiceInfo(HAP, self.name, addresses=packed, port=PORTS[r["p"]], properties=props, weight=0, priority=0)

    def _set_records(self, recs):
        if self.records:
            self.zc.cache.async_remove_records(self.records)
        self.records = list(recs)
        if recs:
            self.zc.cache.async_add_records(self.records)

    def _callback(self, change):
        from zeroconf import ServiceStateChange
        _, exc = self.in_loop(lambda: self.ip._handle_service(self.zc, HAP, self.name, getattr(ServiceStateChange, change)))
        if exc:
            self.emit("raised")
            self.cur["exc"] = exc

    def announce(self, r):
        self._begin("announce", r=dict(r))
        info = self._info(r)
        self._set_records([*info.dns_addresses(), info.dns_pointer(), info.dns_service(), info.dns_text()])
        self._callback("Updated" if self.known else "Added")
        self.known = True
        return self._end()

    def ptr(self):
        self._begin("ptr")
        import aiohomekit.zeroconf as AZ
        info = AZ.AsyncServiceInfo(HAP, self.name)
        self._set_records([info.dns_pointer()])
        self._callback("Added")
        self.known = True
        return self._end()

    def remove(self):
        self._begin("remove")
        self._set_records([])
        self._callback("Removed")
        self.known = False
        return self._end()

    def tick(self):
        self._begin("tick")
        self.loop.advance(1.0)
        return self._end()

    def resolved(self):
        if not self.gates:
            return None              # not applicable in this execution (no slow resolution in flight): no event
        self._begin("resolved")
        g = self.gates.pop(0)
        if not g.done():
            g.set_result(None)
        return self._end()

    def load(self):
        self._begin("load")
        cell = {}
        import aiohomekit.controller.ip.pairing as IPP
        orig_init = IPP.IpPairing.__init__
        world = self

        def init(obj, *a, **kw):            # so the hooks know which object is being loaded
            world._loading = obj
            return orig_init(obj, *a, **kw)
        IPP.IpPairing.__init__ = init
        try:
            p, exc = self.in_loop(lambda: self.agg.load_pairing(ALIAS, dict(self.pdata)))
        finally:
            IPP.IpPairing.__init__ = orig_init
            self._loading = None
        if exc:
            self.emit("raised")
            self.cur["exc"] = exc
        if p is not None:
            self.pairing = p
            self.held = None
            p.dispatcher_connect_config_changed(lambda n, _p=p: self.emit("notify", (n - self.cbase) if n >= 0 else n) if _p is self.pairing else None)
        return self._end()

    def _spawn(self, coro, name):
        async def go():
            try:
                await coro
                self.emit(name, 1)
            except asyncio.CancelledError:
                self.emit(name, 0)
                raise
            except Exception as ex:  # noqa: BLE001
                self.emit(name, 0)
                if self.cur is not None:
                    self.cur.setdefault("errs", []).append(f"{type(ex).__name__}: {ex}"[:200])
        self.tasks.append(self.loop.create_task(go()))

    def list(self):
        self._begin("list")
        if self.pairing is not None:
            self._spawn(self.pairing.list_accessories_and_characteristics(), "ret_list")
        return self._end()

    def rmv(self):
        self._begin("rmv")
        self._spawn(self.agg.remove_pairing(ALIAS), "ret_rm")
        return self._end()

    def shutdown(self):
        self._begin("shutdown")
        if self.pairing is not None:
            self.tasks.append(self.loop.create_task(self.pairing.shutdown()))
        return self._end()

    def answer(self, kind):
        h = self._held()
        if h is None:
            return None              # the accessory holds no request (the schedule came from a behaviour in which
                                     # the specification chose an optional re-read): nothing to do, no event
        self._begin("answer", kind=kind)
        if True:
            conn, req, what = h
            self.held = None
            if kind == "close":
                conn.close()
            elif what == 1:
                if kind == "ok":
                    conn.respond(req, 200, A.hap_json({"accessories": self.beh.accessories}))
                elif kind == "err":
                    conn.respond(req, 470, b"", None)
                else:
                    conn.respond(req, 200, b"<html>not json</html>")
            else:
                if kind == "ok":
                    conn.respond(req, 200, T.enc([(T.STATE, b"\x02")]), H.TLV8)
                elif kind == "err":
                    conn.respond(req, 200, T.enc([(T.STATE, b"\x02"), (T.ERROR, b"\x02")]), H.TLV8)
                else:
                    conn.respond(req, 200, b"\x06", H.TLV8)
        return self._end()

    def restore(self, c, v):
        self._begin("restore", c=int(c), v=int(v))
        if self.pairing is not None:
            _, exc = self.in_loop(lambda: self.pairing.restore_accessories_state(database(int(v)), self.cbase + int(c), None, None))
            if exc:
                self.cur["exc"] = exc
        return self._end()

    def other(self, what):
        """a second device on the same controller: announce / update (what = 1..3: address class) or remove (0)"""
        import aiohomekit.zeroconf as AZ
        from zeroconf import ServiceStateChange
        self._begin("other", what=int(what))
        if self.records2:
            self.zc.cache.async_remove_records(self.records2)
            self.records2 = []
        if what:
            props = {b"id": self.id2.upper().encode(), b"md": b"other", b"c#": str(self.cbase + 7).encode(), b"s#": str(what).encode(),
                     b"sf": b"1", b"ci": b"2", b"ff": b"0"}
            info = AZ.AsyncServiceInfo(HAP, self.name2, addresses=[ipaddress.ip_address(f"10.7.{what}.9").packed], port=6000 + what,
                                       properties=props, weight=0, priority=0)
            self.records2 = [*info.dns_addresses(), info.dns_pointer(), info.dns_service(), info.dns_text()]
            self.zc.cache.async_add_records(self.records2)
            change = "Updated" if self.known2 else "Added"
            self.known2 = True
        else:
            change = "Removed"
            self.known2 = False
        _, exc = self.in_loop(lambda: self.ip._handle_service(self.zc, HAP, self.name2, getattr(ServiceStateChange, change)))
        if exc:
            self.emit("raised")
            self.cur["exc"] = exc
        return self._end()

    def db(self, v):
        self._begin("db", v=int(v))
        self.accv = int(v)
        self.beh.accessories = database(self.accv)
        return self._end()

    def end(self):
        self._begin("end")
        return self._end()

    # ------------------------------------------------------------------ scripts
    def apply(self, step):
        """returns the logged event, or None when the step is not applicable in this execution"""
        op = step[0]
        self.steps.append(list(step))
        if op == "announce":
            return self.announce(step[1])
        if op == "answer":
            return self.answer(step[1])
        if op == "db":
            return self.db(step[1])
        if op == "restore":
            return self.restore(step[1], step[2])
        if op == "other":
            return self.other(step[1])
        if op in ("ptr", "remove", "tick", "resolved", "load", "list", "rmv", "shutdown", "end"):
            return getattr(self, op)()
        raise ValueError(f"unknown step {step!r}")

    def drain(self, limit=40):
        """fair ending: let time pass, finish slow resolutions, let the accessory answer everything"""
        for _ in range(limit):
            if self._held() is not None:
                self.apply(("answer", "ok"))
            elif self.gates:
                self.apply(("resolved",))
            else:
                break
        self.apply(("tick",))
        for _ in range(limit):
            if self._held() is not None:
                self.apply(("answer", "ok"))
            elif self.gates:
                self.apply(("resolved",))
            else:
                break
        self.apply(("end",))

    def record(self, rid, src):
        return {"id": rid, "src": src, **self.params, "events": self.events, "steps": self.steps,
                "loop_errors": self.loop_errors[:5]}

    def close(self):
        global _CUR
        try:
            for g in self.gates:
                if not g.done():
                    g.cancel()
            self.net.uninstall()
        finally:
            close_loop(self.loop)
            _CUR = None


def run_steps(params, steps, rid="replay", src="replay", tmpdir=None, drain=False):
    """execute a list of steps on a fresh world; returns the record"""
    w = World(idcase=params["idcase"], honest=params["honest"], cache0=params["cache0"], accv0=params["accv0"],
              tag=params.get("tag", rid), cache_kind=params.get("cache_kind", "mem"), tmpdir=tmpdir, cbase=params.get("cbase", 0))
    try:
        for st in steps:
            w.apply(tuple(st))
        if drain:
            w.drain()
        return w.record(rid, src)
    finally:
        w.close()
