"""C07 driver: concretises the classified-byte streams of spec/http/HttpParser.tla, feeds the REAL
feed loop (InsecureHomeKitProtocol.data_received -> HttpResponse.parse) one chunk per read and
records what it delivered after every read.

Nothing here decides what *should* be delivered: expectations come from the specification
(exported cases: layout, `ends`, sent content; recorded runs: validated by TLC against
HttpParser_Trace).  The only comparison done here is equality of delivered content with the
bytes the concretiser itself chose.
"""
from __future__ import annotations

import asyncio
import itertools
import logging
import random

logging.disable(logging.CRITICAL)

REASON = {200: "OK", 204: "No Content", 207: "Multi-Status", 400: "Bad Request", 404: "Not Found",
          422: "Unprocessable Entity", 470: "Connection Authorization Required", 500: "Internal Server Error"}
CL_NAMES = ["Content-Length", "content-length", "CONTENT-LENGTH", "Content-length", "cOnTeNt-LeNgTh"]
TE_NAMES = ["Transfer-Encoding", "transfer-encoding", "TRANSFER-ENCODING", "Transfer-encoding"]
X_HEADERS = [("Content-Type", "application/hap+json"), ("Date", "Thu, 01 Jan 1970 00:00:00 GMT"),
             ("content-type", "application/pairing+tlv8"), ("X-Empty", ""), ("Server", "a: b"),
             ("Connection", "keep-alive"), ("x-content-length-hint", "17"), ("ETag", "\"x\"")]
SEPS = [": ", ":", ":  ", ": \t"]
TRAILS = ["", "", " "]
# body byte values for class X: everything except CR and LF (includes ':', ' ', hex digits, NUL, 0xff)
X_BYTES = bytes(b for b in range(256) if b not in (10, 13))


# ----------------------------------------------------------------------------------------------
# real feed loop
# ----------------------------------------------------------------------------------------------
class _Fut:
    """The part of asyncio.Future the feed loop uses; logs the delivery synchronously."""
    __slots__ = ("log", "idx", "_done")

    def __init__(self, log, idx):
        self.log, self.idx, self._done = log, idx, False

    def done(self):
        return self._done

    def set_result(self, resp):
        self._done = True
        self.log.append(("HTTP", self.idx, resp))

    def set_exception(self, exc):
        self._done = True
        self.log.append(("EXC", self.idx, exc))


class _Conn:
    """Stub of HomeKitConnection: only what the protocol touches while receiving."""
    protocol = None

    def __init__(self, log):
        self.log = log

    def event_received(self, resp):
        self.log.append(("EVENT", None, resp))

    def _connection_lost(self, exc):
        pass


def summarize(resp):
    return {"kind": resp.get_http_name(), "code": resp.code,
            "headers": [(n.lower(), v.strip()) for n, v in resp.headers], "body": bytes(resp.body)}


def feed_real(stream: bytes, cuts, nfut: int):
    """Feed `stream` cut at the sorted offsets `cuts`. Returns (after, log, error, pending):
    after[i] = number of deliveries when the i-th data_received returned."""
    from aiohomekit.controller.ip.connection import InsecureHomeKitProtocol
    log: list = []
    proto = InsecureHomeKitProtocol(_Conn(log))
    # keep whatever container the protocol chose for its pending futures (list, deque, ...)
    proto.result_cbs.extend(_Fut(log, i) for i in range(nfut))
    after = []
    p = 0
    err = None
    for c in itertools.chain(cuts, (len(stream),)):
        try:
            proto.data_received(stream[p:c])
        except Exception as ex:  # noqa: BLE001
            err = f"{type(ex).__name__}: {ex}"
            after.append(len(log))
            break
        after.append(len(log))
        p = c
    return after, log, err, len(proto.result_cbs)


def in_loop(fn, *a):
    """The protocol constructor needs a running loop."""
    async def main():
        return fn(*a)
    loop = asyncio.new_event_loop()
    try:
        return loop.run_until_complete(main())
    finally:
        loop.close()


# ----------------------------------------------------------------------------------------------
# (B) concretisation of an exported case
# ----------------------------------------------------------------------------------------------
def _split_text(text: bytes, parts: int, rng):
    """Split text into `parts` non-empty pieces."""
    if parts > len(text):
        raise ValueError("line shorter than its abstract length")
    pts = sorted(rng.sample(range(1, len(text)), parts - 1)) if parts > 1 else []
    out, p = [], 0
    for q in pts + [len(text)]:
        out.append(text[p:q])
        p = q
    return out


def header_text(sem, blen, rng):
    if sem == "CL":
        return rng.choice(CL_NAMES), rng.choice(SEPS), str(blen), rng.choice(TRAILS)
    if sem == "TE":
        return rng.choice(TE_NAMES), rng.choice(SEPS), "chunked", rng.choice(TRAILS)
    n, v = rng.choice(X_HEADERS)
    return n, (": " if v else rng.choice([":", ": "])), v, ""


def status_text(kind, code):
    return f"{'HTTP/1.1' if kind == 'HTTP' else 'EVENT/1.0'} {code} {REASON.get(code, 'Status')}"


def concretise(case, rng):
    """case: exported record (msgs, stream, ends, bodies). Returns dict(bytes, off, ends, sent)."""
    msgs, stream = case["msgs"], case["stream"]
    # texts of the lines
    line_text = {}
    sent = []
    for mi, sh in enumerate(msgs, 1):
        line_text[(mi, 1)] = status_text(sh["kind"], sh["code"]).encode()
        hl = []
        for hi, h in enumerate(sh["hdrs"] or [], 1):
            n, sep, v, trail = header_text(h["sem"], len(sh["body"] or []), rng)
            line_text[(mi, 1 + hi)] = (n + sep + v + trail).encode()
            hl.append((n.lower(), v.strip()))
        sent.append({"kind": sh["kind"], "code": sh["code"], "headers": hl, "body": bytearray()})
    out = bytearray()
    off = [0]
    i = 0
    n = len(stream)
    while i < n:
        cls, m, role, k = stream[i]
        if role >= 1:
            j = i
            while j < n and stream[j][1] == m and stream[j][2] == role:
                j += 1
            for piece in _split_text(line_text[(m, role)], j - i, rng):
                out += piece
                off.append(len(out))
            i = j
            continue
        if cls == "CR":
            b = b"\r"
        elif cls == "LF":
            b = b"\n"
        elif cls == "D":
            b = ("%x" % k).encode()
            if rng.random() < 0.5:
                b = b.upper()
        else:
            b = bytes([X_BYTES[rng.randrange(len(X_BYTES))]])
        if m >= 1:
            sent[m - 1]["body"] += b
        out += b
        off.append(len(out))
        i += 1
    for s in sent:
        s["body"] = bytes(s["body"])
    return {"bytes": bytes(out), "off": off, "ends": [off[e] for e in case["ends"]], "sent": sent}


def cut_candidates(conc):
    """Concrete cut offsets standing for every abstract cut position, plus one cut inside every
    abstract byte that was expanded to several concrete bytes."""
    off = conc["off"]
    c = set(off[1:-1])
    for a, b in zip(off, off[1:]):
        if b - a > 1:
            c.add(a + (b - a) // 2)
    n = len(conc["bytes"])
    return sorted(x for x in c if 0 < x < n)


def check_run(conc, cuts):
    """Run one (stream, cut set) on the real feed loop and compare with the spec's observer.
    Returns None or a description of the first difference."""
    sent, ends, data = conc["sent"], conc["ends"], conc["bytes"]
    nhttp = sum(1 for s in sent if s["kind"] == "HTTP")
    after, log, err, pending = feed_real(data, cuts, nhttp)
    if err:
        return f"parser raised {err} during read #{len(after)}"
    fed_points = list(cuts) + [len(data)]
    for i, fed in enumerate(fed_points):
        want = sum(1 for e in ends if e <= fed)          # observer: messages whose last byte was fed
        if after[i] != want:
            return (f"after read #{i + 1} (fed {fed} of {len(data)} bytes) {after[i]} message(s) delivered, "
                    f"specification says {want}")
    hidx = 0
    for k, (route, idx, resp) in enumerate(log):
        got = summarize(resp)
        want = sent[k]
        if got != want:
            return f"message {k + 1} delivered as {got}, sent {want}"
        if want["kind"] == "HTTP":
            if route != "HTTP" or idx != hidx:
                return f"message {k + 1} (HTTP response #{hidx + 1}) routed to {route} {idx}"
            hidx += 1
        elif route != "EVENT":
            return f"message {k + 1} (EVENT) routed to {route} {idx}"
    if pending != 0:
        return f"{pending} request future(s) left without a response"
    return None


def cut_sets(cands, max_cuts):
    for r in range(0, max_cuts + 1):
        yield from itertools.combinations(cands, r)


def replay_cases(cases, seed, mode, max_cuts, extra_random=0):
    """Worker: for each exported case concretise (seeded) and run cut sets.
    mode 'abstract': cut candidates per abstract position; 'concrete': every concrete offset.
    Returns (runs, distinct_keys, failures[list of dict])."""
    def work():
        runs = 0
        fails = []
        for ci, case in cases:
            rng = random.Random(f"{seed}/{ci}")
            conc = concretise(case, rng)
            n = len(conc["bytes"])
            cands = cut_candidates(conc) if mode == "abstract" else list(range(1, n))
            bad = 0
            for cuts in cut_sets(cands, max_cuts):
                runs += 1
                why = check_run(conc, cuts)
                if why and bad < 2:
                    bad += 1
                    fails.append({"case": ci, "why": why, "stream": conc["bytes"], "cuts": list(cuts),
                                  "msgs": case["msgs"]})
            for _ in range(extra_random):
                k = rng.randrange(3, 9)
                cuts = sorted(rng.sample(range(1, n), min(k, n - 1)))
                runs += 1
                why = check_run(conc, cuts)
                if why and bad < 2:
                    bad += 1
                    fails.append({"case": ci, "why": why, "stream": conc["bytes"], "cuts": list(cuts),
                                  "msgs": case["msgs"]})
        return runs, fails
    return in_loop(work)


# ----------------------------------------------------------------------------------------------
# (C) seeded random long streams with real sizes, recorded for HttpParser_Trace
# ----------------------------------------------------------------------------------------------
def _rle(classes):
    out = []
    for c in classes:
        if out and out[-1][0] == c:
            out[-1][1] += 1
        else:
            out.append([c, 1])
    return out


def _cls(b):
    return "CR" if b == 13 else "LF" if b == 10 else "X"


def random_message(rng, maxbody):
    kind = rng.choice(["HTTP", "HTTP", "EVENT"])
    mode = rng.choice(["none", "cl", "cl", "chunked", "chunked"])
    code = 200 if kind == "EVENT" else rng.choice([200, 200, 207, 204, 400, 404, 422, 470, 500])
    if mode == "none":
        blen = 0
    else:
        blen = rng.choice([0, 1, 2, 5, 16, 17, 255, 256, 1023, 1024, 1025, rng.randrange(maxbody + 1),
                           rng.randrange(maxbody + 1), rng.randrange(60)])
        blen = min(blen, maxbody)
    body = bytearray(rng.randrange(256) for _ in range(blen))
    # sprinkle CR LF / lone CR / lone LF / things that look like chunk-size lines into the body
    for _ in range(rng.randrange(0, 4)):
        if blen >= 2:
            p = rng.randrange(blen - 1)
            body[p:p + 2] = rng.choice([b"\r\n", b"\r\r", b"\n\n", b"0\r", b"\n0"])
    if blen >= 5 and rng.random() < 0.3:
        body[-5:] = b"0\r\n\r\n"
    if blen >= 1 and rng.random() < 0.2:
        body[-1:] = b"\r"
    body = bytes(body)
    status = status_text(kind, code).encode()
    hdrs, sems = [], []
    nx = rng.randrange(0, 3)
    framing = {"cl": "CL", "chunked": "TE"}.get(mode)
    order = ["X"] * nx + ([framing] if framing else [])
    rng.shuffle(order)
    for sem in order:
        n, sep, v, trail = header_text(sem, blen, rng)
        hdrs.append(((n + sep + v + trail).encode(), (n.lower(), v.strip())))
        sems.append(sem)
    wire = bytearray(status + b"\r\n")
    for text, _ in hdrs:
        wire += text + b"\r\n"
    wire += b"\r\n"
    chunks = []
    if mode == "chunked":
        p = 0
        while p < blen:
            n = min(blen - p, rng.choice([1, 2, 3, 15, 16, 17, 255, 256, rng.randrange(1, 1200)]))
            digs = "%x" % n
            if rng.random() < 0.2:
                digs = "0" * rng.randrange(1, 3) + digs
            if rng.random() < 0.5:
                digs = digs.upper()
            chunks.append([int(d, 16) for d in digs])
            wire += digs.encode() + b"\r\n" + body[p:p + n] + b"\r\n"
            p += n
        wire += b"0\r\n\r\n"
    else:
        wire += body
    shape = {"kind": kind, "code": code, "sl": len(status),
             "hdrs": [{"sem": s, "len": len(t)} for s, (t, _) in zip(sems, hdrs)],
             "mode": mode, "body": _rle([_cls(b) for b in body]), "chunks": chunks}
    sent = {"kind": kind, "code": code, "headers": [h for _, h in hdrs], "body": body}
    return bytes(wire), shape, sent


def random_cuts(rng, data: bytes, ends):
    n = len(data)
    if n <= 1:
        return []
    style = rng.randrange(6)
    if style == 0 and n <= 260:
        return list(range(1, n))                                   # one byte per read
    if style == 1:
        return sorted(set(e for e in ends if 0 < e < n))            # exactly at message ends
    # positions around CRs / LFs and message ends are the interesting ones
    hot = set()
    for i, b in enumerate(data):
        if b in (10, 13):
            hot.update((i, i + 1, i + 2))
    for e in ends:
        hot.update((e - 1, e, e + 1))
    hot = sorted(x for x in hot if 0 < x < n)
    k = rng.randrange(1, 12)
    cuts = set()
    for _ in range(k):
        if hot and rng.random() < 0.7:
            cuts.add(rng.choice(hot))
        else:
            cuts.add(rng.randrange(1, n))
    if style == 2:                                                  # a burst of consecutive 1-byte reads
        s = rng.randrange(1, n)
        cuts.update(range(s, min(n, s + rng.randrange(2, 12))))
    return sorted(cuts)


def record_random(seed, idx, maxbody):
    """One recorded execution: returns (record for TLC, violation text or None, replay dict)."""
    def work():
        rng = random.Random(f"{seed}/trace/{idx}")
        nmsg = rng.randrange(1, 6)
        wire = bytearray()
        shapes, sents, ends = [], [], []
        for _ in range(nmsg):
            w, sh, sent = random_message(rng, maxbody)
            wire += w
            shapes.append(sh)
            sents.append(sent)
            ends.append(len(wire))
        data = bytes(wire)
        cuts = random_cuts(rng, data, ends)
        nhttp = sum(1 for s in sents if s["kind"] == "HTTP")
        after, log, err, pending = feed_real(data, cuts, nhttp)
        replay = {"kind": "recorded", "stream": data, "cuts": cuts, "shapes": shapes}
        if err:
            return None, f"parser raised {err} on a well-formed stream during read #{len(after)}", replay
        got = []
        why = None
        hidx = 0
        for k, (route, fidx, resp) in enumerate(log):
            s = summarize(resp)
            got.append({"kind": s["kind"], "code": s["code"], "nhdrs": len(s["headers"]), "blen": len(s["body"]),
                        "bcls": _rle([_cls(b) for b in s["body"]])})
            # content beyond the model (value equality of body bytes / header text) and routing
            if k < len(sents) and why is None:
                if s["body"] != sents[k]["body"] and len(s["body"]) == len(sents[k]["body"]):
                    why = f"message {k + 1}: body bytes differ from the bytes sent"
                elif s["headers"] != sents[k]["headers"] and len(s["headers"]) == len(sents[k]["headers"]):
                    why = f"message {k + 1}: headers {s['headers']} differ from sent {sents[k]['headers']}"
                elif s["kind"] == "HTTP" and (route != "HTTP" or fidx != hidx):
                    why = f"message {k + 1}: HTTP response #{hidx + 1} routed to {route} {fidx}"
                elif s["kind"] == "EVENT" and route != "EVENT":
                    why = f"message {k + 1}: EVENT routed to a request future"
            if s["kind"] == "HTTP":
                hidx += 1
        reads = [b - a for a, b in zip([0] + cuts, cuts + [len(data)])]
        rec = {"msgs": shapes, "reads": reads, "after": after, "got": got, "total": len(data), "ends": ends}
        return rec, why, replay
    return in_loop(work)
