"""Debug a rejected trace: tvdebug.py <Trace.tla> <cfg> <batch.ndjson> <tid> <maxl>"""
import sys, os, json, subprocess, tempfile, re
sys.path.insert(0, "/verif")
tla, cfg, batch, tid, maxl = sys.argv[1], sys.argv[2], sys.argv[3], int(sys.argv[4]), int(sys.argv[5])
lines = open(batch).read().splitlines()
rec = json.loads(lines[tid - 1])
d = tempfile.mkdtemp(prefix="tvd_")
one = os.path.join(d, "one.ndjson")
open(one, "w").write(json.dumps(rec) + "\n")
c = open(cfg).read()
c = re.sub(r"POSTCONDITION \w+\n", "", c) + "\nINVARIANT DebugNotReached\n"
cfgp = os.path.join(d, "dbg.cfg")
open(cfgp, "w").write(c)
env = dict(os.environ, TRACE_FILE=one, DBG_L=str(maxl))
p = subprocess.run(["java", "-Dtlc2.tool.queue.IStateQueue=StateDeque", "-cp", "/opt/veriftools/tla/tla2tools.jar:/opt/veriftools/tla/CommunityModules-deps.jar",
                    "tlc2.TLC", "-workers", "1", "-metadir", os.path.join(d, "m"), "-noGenerateSpecTE", "-config", cfgp, os.path.abspath(tla)],
                   cwd=os.path.dirname(os.path.abspath(tla)), env=env, capture_output=True, text=True)
ev = rec["events"]
print("hosts", rec.get("hosts"), "sub", rec.get("sub"))
for i in range(max(0, maxl - 14), min(len(ev), maxl + 3)):
    print(("-->" if i == maxl - 1 else "   "), i + 1, ev[i])
q = subprocess.run(["/venv/bin/python", "/verif/harness/tlcshow.py"], input=p.stdout, capture_output=True, text=True)
out = q.stdout.splitlines()
print("\n".join(out[-int(os.environ.get("N", "14")):]))
from harness import tlc as T
i = p.stdout.find("Error: The behavior up to this point is:")
if i >= 0:
    ce = T.parse_counterexample(p.stdout[i:])
    last = ce[-1][1]
    for k in os.environ.get("SHOW", "callers,tasks,now,cur,closing,userClosed").split(","):
        print(" ", k, "=", last.get(k))
else:
    print(p.stdout[-1500:])
import shutil; shutil.rmtree(d)
