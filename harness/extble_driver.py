"""EXTBLE driver: the real BlePairing (controller/ble/pairing.py) on a virtual-time loop against a simulated
GATT world in which *every* suspension of the library at the Bluetooth boundary is a "pending point" that
the driver resolves explicitly (honest answer, fault, error, link loss, or the caller is cancelled while
it waits).  That gives the harness the scheduler's role of a model checker over the real code.

  * `establish_connection` (imported into pairing.py) is replaced by a fake that creates a `Link`
    (duck-typed AIOHomeKitBleakClient); `disconnect()` and every GATT read / write of a non-pairing
    characteristic suspend on a pending point; on the Pair-Verify characteristic only the read of the first
    response fragment suspends (one point per pair-verify exchange).
  * the accessory behind a link is the reference implementation of harness/refacc: PairVerify (full),
    pair-resume built from refacc/attacker.py's key schedule, an independent HAP-BLE PDU reader / writer and
    per-link session keys + counters (refacc/crypto.py).  It reports whether it could open every encrypted
    fragment it was sent with *its own* next counter under the keys of the session verified on that link.
  * EncryptionKey / DecryptionKey (as imported into pairing.py) are wrapped to observe key installation and
    every AEAD use with the counter the library used.

Nothing here decides a verdict: the recorded event sequence is validated by TLC against
spec/ble/BleSession_Trace.tla.
"""
from __future__ import annotations

import asyncio
import hashlib
import logging
import os
import struct
import types

from harness.refacc import accessory as A
from harness.refacc import attacker as K
from harness.refacc import crypto as C
from harness.refacc import tlv as T
from harness.vloop import close_loop, new_loop

logging.getLogger("aiohomekit").addHandler(logging.NullHandler())
logging.getLogger("aiohomekit").propagate = False
logging.getLogger("bleak_retry_connector").addHandler(logging.NullHandler())
logging.getLogger("bleak_retry_connector").propagate = False

HK = "-0000-1000-8000-0026BB765291"
SVC_INFO, SVC_PROTO, SVC_LIGHT, SVC_PAIRING = "0000003E" + HK, "000000A2" + HK, "00000043" + HK, "00000055" + HK
CH_NAME, CH_IDENTIFY, CH_VERSION, CH_SIGNATURE = "00000023" + HK, "00000014" + HK, "00000037" + HK, "000000A5" + HK
CH_ON, CH_LABEL, CH_BRIGHT = "00000025" + HK, "000000E3" + HK, "00000008" + HK
CH_PAIR_VERIFY, CH_PAIRINGS = "0000004E" + HK, "00000050" + HK
IID_ON, IID_LABEL, IID_BRIGHT, IID_SIG, IID_SVC_PROTO, IID_PV = 0x21, 0x22, 0x23, 0x11, 0x10, 0x32
ADDRESS = "AA:BB:CC:00:0E:01"
ACC_ID = "aa:bb:cc:00:0e:01"
ENC_FRAG = 30            # fragment size the fake negotiates for encrypted PDUs (plain: + 16)
LONG_VALUE = "x" * 40    # a write of this string needs two request fragments
READ_VALUE = "the quick brown fox"   # value of the string characteristic (splittable over two response fragments)


def accessories_json():
    return [{"aid": 1, "services": [
        {"iid": 1, "type": SVC_INFO, "characteristics": [
            {"iid": 2, "type": CH_NAME, "format": "string", "perms": ["pr"], "value": "sim"},
            {"iid": 3, "type": CH_IDENTIFY, "format": "bool", "perms": ["pw"]}]},
        {"iid": IID_SVC_PROTO, "type": SVC_PROTO, "characteristics": [
            {"iid": IID_SIG, "type": CH_SIGNATURE, "format": "data", "perms": ["pr"], "value": ""},
            {"iid": 0x12, "type": CH_VERSION, "format": "string", "perms": ["pr"], "value": "2.2.0"}]},
        {"iid": 0x20, "type": SVC_LIGHT, "characteristics": [
            {"iid": IID_ON, "type": CH_ON, "format": "bool", "perms": ["pr", "pw", "ev"], "value": False},
            {"iid": IID_LABEL, "type": CH_LABEL, "format": "string", "perms": ["pr", "pw"], "value": ""},
            {"iid": IID_BRIGHT, "type": CH_BRIGHT, "format": "uint8", "perms": ["pr", "pw", "ev"], "value": 0}]},
        {"iid": 0x30, "type": SVC_PAIRING, "characteristics": [
            {"iid": IID_PV, "type": CH_PAIR_VERIFY, "format": "tlv8", "perms": ["pr", "pw"]},
            {"iid": 0x33, "type": CH_PAIRINGS, "format": "tlv8", "perms": ["pr", "pw"]}]}]}]


VALUES = {IID_ON: b"\x01", IID_LABEL: READ_VALUE.encode(), IID_BRIGHT: b"\x2a", 2: b"sim"}


class Handle:
    """Duck-typed BleakGATTCharacteristic."""

    def __init__(self, uuid, iid):
        self.uuid = uuid
        self.iid = iid
        self.handle = iid
        self.properties = ["read", "write"]
        self.max_write_without_response_size = None
        self.pairing = uuid.upper() == CH_PAIR_VERIFY

    def __hash__(self):
        return hash(self.iid)


class Point:
    """A suspension of the library at the Bluetooth boundary."""

    def __init__(self, kind, link, fut, caller, **kw):
        self.kind, self.link, self.fut, self.caller = kind, link, fut, caller
        self.__dict__.update(kw)

    def __repr__(self):
        return f"<{self.kind} link={self.link.n if self.link else None} caller={self.caller}>"


class Session:
    """Accessory end of a verified session on one link."""

    def __init__(self, ep, shared):
        self.ep = ep
        k = K.session_keys(shared)
        self.c2a, self.a2c = k["c2a"], k["a2c"]
        self.rc = 0           # next counter expected from the controller
        self.sc = 0           # next counter used for a response fragment
        self.sent = []        # sealed response fragments of this session (for replays)


class Link:
    """Duck-typed AIOHomeKitBleakClient + the accessory end of this GATT connection."""

    def __init__(self, world, n, disconnected_callback):
        self.world, self.n = world, n
        self.address = ADDRESS
        self.up = True
        self._cb = disconnected_callback
        self.handles = {}
        self.session: Session | None = None
        self.pv = None                 # exchange in progress on the pair-verify characteristic
        self.pv_req = None             # ("m1"|"m1r"|"m3", items, tid)
        self.pv_out = []               # response fragments still to be read
        self.inbuf = {}                # iid -> [tid, opcode, total, bytearray]   (plaintext PDU assembly)
        self.resp = None               # [tid, remaining body bytes, first?] of the data request being answered
        self.notify = {}

    # ---- what BlePairing uses
    @property
    def is_connected(self):
        return self.up

    async def get_characteristic(self, service_uuid, characteristic_uuid, iid=None):
        key = (characteristic_uuid.upper(), iid)
        h = self.handles.get(key)
        if h is None:
            real = iid if characteristic_uuid.upper() != CH_PAIR_VERIFY else IID_PV
            if real is None:
                real = {CH_PAIR_VERIFY: IID_PV}.get(characteristic_uuid.upper(), 0)
            h = self.handles[key] = Handle(characteristic_uuid.upper(), real)
        return h

    async def get_characteristic_iid(self, char):
        return char.iid

    def determine_fragment_size(self, overhead, handle):
        return ENC_FRAG + 16 - overhead

    async def clear_cache(self):
        return None

    async def start_notify(self, endpoint, callback):
        self._check_up()
        self.notify[endpoint.iid] = callback
        self.world.log("notify", n=self.n, iid=endpoint.iid)

    def _check_up(self):
        if not self.up:
            from bleak.exc import BleakError
            raise BleakError("Not connected")

    async def disconnect(self):
        if not self.up:
            return True
        self.world.log("disc_req", n=self.n)
        await self.world.point("disc", self)
        return True

    async def write_gatt_char(self, handle, data, response=True):
        data = bytes(data)
        if handle.pairing:
            self._check_up()
            self.world.on_air_check(self)
            self._pv_write(handle, data)
            return
        await self.world.point("wr", self, handle=handle, data=data)

    async def read_gatt_char(self, handle):
        if handle.pairing:
            self._check_up()
            if self.pv_req is not None:
                return await self.world.point("pv", self, handle=handle)
            if not self.pv_out:
                from bleak.exc import BleakError
                raise BleakError("harness: read on the pair-verify characteristic without a pending response")
            return bytearray(self.pv_out.pop(0))
        return await self.world.point("rd", self, handle=handle)

    # ---- link state
    def go_down(self, callback=True):
        """The link is gone: bleak marks the client disconnected and calls the disconnected callback."""
        if not self.up:
            return
        self.up = False
        if callback:
            self._cb(self)
        from bleak.exc import BleakError
        for p in list(self.world.pending):
            if p.link is self and not p.fut.done():
                if p.kind == "disc":
                    p.fut.set_result(None)
                else:
                    p.fut.set_exception(BleakError("disconnected"))

    # ---- accessory: pair-verify characteristic (plaintext HAP-BLE PDUs)
    def _assemble(self, iid, data):
        """-> (tid, opcode, body) when a request PDU is complete."""
        if data[0] & 0x80:
            ent = self.inbuf.get(iid)
            if ent is None or ent[0] != data[1]:
                self.world.problems.append("continuation fragment without a request")
                return None
            ent[3] += data[2:]
        else:
            _ctl, opcode, tid, riid = struct.unpack("<BBBH", data[:5])
            if riid != iid:
                self.world.problems.append(f"PDU for iid {riid} written to characteristic {iid}")
            total, body = 0, b""
            if len(data) > 5:
                total = struct.unpack("<H", data[5:7])[0]
                body = data[7:]
            self.inbuf[iid] = [tid, opcode, total, bytearray(body)]
        ent = self.inbuf[iid]
        if len(ent[3]) >= ent[2]:
            del self.inbuf[iid]
            return ent[0], ent[1], bytes(ent[3][:ent[2]])
        return None

    def _pv_write(self, handle, data):
        done = self._assemble(handle.iid, data)
        if done is None:
            return
        tid, opcode, body = done
        items = T.dec(dict(T.dec(body)).get(1, b""))
        d = dict(items)
        st = d.get(T.STATE, b"\0")[0]
        if st == 1:
            m = "m1r" if d.get(T.METHOD) == K.METHOD_RESUME else "m1"
        else:
            m = "m3"
        self.pv_req = (m, items, tid)
        self.pv_out = []
        self.world.log("pv_rx", n=self.n, m=m)

    def pv_reply(self, how):
        """Build the accessory's reply to the pending pair-verify request; -> (kind, first fragment)."""
        w = self.world
        m, items, tid = self.pv_req
        self.pv_req = None
        d = dict(items)
        kind = "err"
        reply = [(T.STATE, bytes([2 if m != "m3" else 4])), (T.ERROR, b"\x02")]
        if how == "honest" and m == "m1r":
            sid = bytes(d.get(T.SESSION_ID, b""))
            prev = w.resumable.get(sid)
            if prev is not None and K.resume_check_m1(prev, sid, items) is None:
                pub = bytes(d[T.PUBLIC_KEY])
                new_sid = hashlib.sha256(b"sid" + sid + bytes([w.next_ep & 0xFF]) + w.salt).digest()[:8]
                tag = C.seal(K.resume_response_key(prev, pub, new_sid), C.label_nonce(b"PR-Msg02"), b"")
                shared = K.resume_shared_secret(prev, pub, new_sid)
                reply = [(T.STATE, b"\x02"), (T.METHOD, K.METHOD_RESUME), (T.SESSION_ID, new_sid), (T.ENCRYPTED_DATA, tag)]
                w.resumable[new_sid] = shared
                self._new_session(shared)
                kind = "m2r"
            else:
                how = "fallback"
        if kind == "m2r":
            pass
        elif how in ("honest", "fallback") and m in ("m1", "m1r"):
            self.pv = A.PairVerify(w.ident)
            reply = self.pv.on_m1(items)
            kind = "m2"
        elif how == "honest" and m == "m3" and self.pv is not None:
            reply = self.pv.on_m3(items)
            if self.pv.verified:
                w.resumable[self.pv.resume_session_id()] = self.pv.shared
                self._new_session(self.pv.shared)
                kind = "m4"
            self.pv = None
        body = T.enc([(1, T.enc(reply))])
        first = struct.pack("<BBBH", 0x02, tid, 0, len(body)) + body[:60]
        rest = body[60:]
        self.pv_out = []
        while rest:
            self.pv_out.append(struct.pack("<BB", 0x82, tid) + rest[:60])
            rest = rest[60:]
        return kind, first

    def _new_session(self, shared):
        w = self.world
        w.next_ep += 1
        self.session = Session(w.next_ep, shared)
        w.sessions[w.next_ep] = self.session
        self.resp = None
        self.inbuf = {}

    # ---- accessory: secure characteristics
    def data_write(self, handle, data):
        """An encrypted fragment arrived; -> could the accessory open it with its next counter?"""
        s = self.session
        if s is None:
            return False
        plain = C.open_(s.c2a, C.counter_nonce(s.rc), data)
        if plain is None:
            return False
        s.rc += 1
        done = self._assemble(handle.iid, plain)
        if done is not None:
            tid, opcode, body = done
            if opcode == 0x03:                                   # CHAR_READ
                out = T.enc([(1, VALUES.get(handle.iid, b"\x00"))])
            elif opcode == 0x08:                                 # PROTOCOL_CONFIG (get all params / generate key)
                out = T.enc([(1, struct.pack("<H", self.world.gsn)), (2, b"\x01"), (3, bytes.fromhex(ACC_ID.replace(":", "")))])
                if body[:1] == b"\x01":
                    out = b""
            else:                                                # writes, CHAR_CONFIG: success without a body
                out = b""
            self.resp = [tid, out, True]
        return True

    def data_read(self, kind, split):
        """Next response fragment as the accessory (kind honest / wrongtid / corrupt) or an attacker (replay)
        puts it on the air; -> (bytes, more)."""
        s = self.session
        if s is None or self.resp is None:
            return b"", False
        if kind == "replay":
            return s.sent[self.world.rng.randrange(len(s.sent))], False
        tid, body, first = self.resp
        t = (tid + 1) % 256 if kind == "wrongtid" else tid
        if first:
            take = len(body) if not split else max(1, len(body) // 2)
            plain = struct.pack("<BBB", 0x02, t, 0) + (struct.pack("<H", len(body)) + body[:take] if body else b"")
        else:
            take = len(body)
            plain = struct.pack("<BB", 0x82, t) + body
        rest = body[take:]
        self.resp = [tid, rest, False] if rest else None
        ct = C.seal(s.a2c, C.counter_nonce(s.sc), plain)
        s.sc += 1
        s.sent.append(ct)
        if kind == "corrupt":
            b = bytearray(ct)
            i = self.world.rng.randrange(len(b) * 8)
            b[i // 8] ^= 1 << (i % 8)
            ct = bytes(b)
        return ct, bool(rest)

    def can_split(self):
        return self.resp is not None and self.resp[2] and len(self.resp[1]) >= 2

    def can_replay(self):
        return self.session is not None and bool(self.session.sent)


class World:
    def __init__(self, seed: int, rid: str = "", subs: bool = False):
        import random
        from aiohomekit.characteristic_cache import CharacteristicCacheMemory
        import aiohomekit.controller.ble.pairing as P

        self.rid = rid
        self.rng = random.Random(seed)
        self.salt = hashlib.sha256(f"extble-{seed}".encode()).digest()
        self.loop = new_loop()
        self.loop_exceptions = []
        self.loop.set_exception_handler(lambda loop, c: self.loop_exceptions.append(repr(c.get("exception") or c.get("message"))))
        self.events = []
        self.problems = []
        self.pending: list[Point] = []
        self.links: list[Link] = []
        self.sessions = {}
        self.resumable = {}
        self.next_ep = 0
        self.gsn = 7
        self.key_objs = {}          # id(key object) -> epoch
        self.key_seen = set()
        self.callers = {}           # c -> (task, kind)
        self.task_caller = {}
        self.ident = A.Identity(acc_id=ACC_ID, seed=hashlib.sha256(b"extble-acc").digest())
        self.ctrl_ident = A.ControllerIdentity(seed=hashlib.sha256(b"extble-ctrl").digest())
        pd = self.ident.pairing_data(self.ctrl_ident)
        pd = {k: v for k, v in pd.items() if not k.startswith("AccessoryIP") and k != "AccessoryPort"}
        pd.update({"Connection": "BLE", "AccessoryAddress": ADDRESS})
        cache = CharacteristicCacheMemory()
        cache.async_create_or_update_map(ACC_ID, 1, accessories_json(), None, self.gsn)
        self.controller = types.SimpleNamespace(_char_cache=cache, pairings={}, aliases={})
        # ---- patches (restored by close())
        self.P = P
        self._orig = (P.establish_connection, P.EncryptionKey, P.DecryptionKey)
        world = self

        async def fake_establish_connection(device, name, disconnected_callback, **kw):
            world.log("conn_req")
            return await world.point("conn", None, cb=disconnected_callback)

        class EK(self._orig[1]):
            def __init__(self, key):
                super().__init__(key)
                world._key_created(self, "enc", bytes(key))

            def encrypt(self, data):
                world.log("enc", ep=world.key_objs.get(id(self), 0), ctr=self.counter)
                return super().encrypt(data)

        class DK(self._orig[2]):
            def __init__(self, key):
                super().__init__(key)
                world._key_created(self, "dec", bytes(key))

            def decrypt(self, data):
                ctr = self.counter
                try:
                    out = super().decrypt(data)
                except Exception:
                    world.log("dec", ep=world.key_objs.get(id(self), 0), ctr=ctr, ok=False)
                    raise
                world.log("dec", ep=world.key_objs.get(id(self), 0), ctr=ctr, ok=True)
                return out
        P.establish_connection, P.EncryptionKey, P.DecryptionKey = fake_establish_connection, EK, DK
        device = types.SimpleNamespace(address=ADDRESS, name="sim", details=None)

        async def mk():
            return P.BlePairing(self.controller, pd, device=device)
        self.pairing = self.loop.run_until_complete(mk())
        self._keep = []              # key objects are kept alive so id() stays unique
        self._pending_key = None

    # ------------------------------------------------------------------ plumbing
    def log(self, ev, **kw):
        rec = {"ev": ev}
        rec.update(kw)
        self.events.append(rec)

    def _key_created(self, obj, which, key):
        """EncryptionKey then DecryptionKey are created by one pair-verify: one `keys` event for the pair."""
        self._keep.append(obj)
        if which == "enc":
            self._pending_key = (obj, key)
            return
        ek_obj, ek = self._pending_key or (None, b"")
        self._pending_key = None
        ep = 0
        for e, s in self.sessions.items():
            if s.c2a == ek and s.a2c == key:
                ep = e
        fresh = (ek, key) not in self.key_seen
        self.key_seen.add((ek, key))
        self.key_objs[id(obj)] = ep
        if ek_obj is not None:
            self.key_objs[id(ek_obj)] = ep
        self.log("keys", ep=ep, fresh=fresh)

    def on_air_check(self, link):
        live = [p for p in self.pending if p.kind in ("wr", "rd", "pv") and not p.fut.done()]
        if live:
            self.problems.append(f"a GATT operation was started while another one was pending ({live})")
            self.log("overlap")

    async def point(self, kind, link, **kw):
        if link is not None and not link.up:
            from bleak.exc import BleakError
            raise BleakError("Not connected")
        if kind in ("wr", "rd", "pv"):
            self.on_air_check(link)
        c = self.task_caller.get(asyncio.current_task(), 0)
        p = Point(kind, link, self.loop.create_future(), c, **kw)
        self.pending.append(p)
        try:
            return await p.fut
        finally:
            self.pending.remove(p)

    def settle(self):
        self.loop.settle()

    def live(self, kind=None):
        return [p for p in self.pending if not p.fut.done() and (kind is None or p.kind == kind)]

    # ------------------------------------------------------------------ stimuli: callers
    def call(self, c, kind, n=1, long=False):
        """kind: get | put | close | shutdown.  n requests; long: the put needs two request fragments."""
        p = self.pairing
        if kind == "get":
            iids = [IID_ON, IID_LABEL][:n] if n <= 2 else [IID_ON, IID_LABEL, IID_BRIGHT]
            coro = p.get_characteristics([(1, i) for i in iids])
        elif kind == "put":
            vals = [(1, IID_LABEL, LONG_VALUE if long else "ab"), (1, IID_ON, True), (1, IID_BRIGHT, 5)][:n]
            coro = p.put_characteristics(vals)
        elif kind == "close":
            coro = p.close()
        else:
            coro = p.shutdown()
        self.log("call", c=c, kind=kind, n=n, nw=2 if (kind == "put" and long) else 1)

        async def runner():
            try:
                res = await coro
            except asyncio.CancelledError:
                self.log("ret", c=c, res="cancelled")
                return
            except Exception as ex:  # noqa: BLE001
                self.log("ret", c=c, res="err", exc=type(ex).__name__)
                return
            self.log("ret", c=c, res="ok", val=_short(res))
        t = self.loop.create_task(runner())
        self.callers[c] = (t, kind)
        self.task_caller[t] = c
        self.settle()

    def subscribe(self):
        """subscribe() while there is no connection (it only records the subscription then)."""
        if any(x.up for x in self.links) or self.pairing.subscriptions:
            return False
        self.log("subscribe")
        self.loop.run_until_complete(self.pairing.subscribe([(1, IID_ON), (1, IID_BRIGHT)]))
        self.settle()
        return True

    def cancel(self, c):
        t, _ = self.callers[c]
        if t.done():
            return False
        self.log("cancel", c=c)
        t.cancel()
        self.settle()
        return True

    def busy(self, c):
        return c in self.callers and not self.callers[c][0].done()

    # ------------------------------------------------------------------ stimuli: the Bluetooth side
    def conn_result(self, ok=True):
        p = self.live("conn")[0]
        if ok:
            link = Link(self, len(self.links) + 1, p.cb)
            self.links.append(link)
            self.log("conn_res", out="ok", n=link.n)
            p.fut.set_result(link)
        else:
            from aiohomekit.exceptions import AccessoryDisconnectedError
            self.log("conn_res", out="fail", n=0)
            p.fut.set_exception(AccessoryDisconnectedError("harness: connection failed"))
        self.settle()

    def disc_result(self, p=None, error=False):
        p = p or self.live("disc")[0]
        self.log("disc_res", n=p.link.n)
        link = p.link
        if error:
            # a dead backend: the call fails, the link is gone all the same
            link.up = False
            for q in list(self.pending):
                if q.link is link and q is not p and not q.fut.done():
                    from bleak.exc import BleakError
                    if q.kind == "disc":
                        q.fut.set_result(None)
                    else:
                        q.fut.set_exception(BleakError("disconnected"))
            p.fut.set_exception(EOFError("harness: backend gone"))
        else:
            link.go_down()
        self.settle()

    def drop(self, link=None):
        link = link or next((x for x in self.links if x.up), None)
        if link is None:
            return False
        self.log("drop", n=link.n)
        link.go_down()
        self.settle()
        return True

    def gatt_error(self, p, drop=False, cls="bleak"):
        from bleak.exc import BleakError
        self.log("gatt_err", n=p.link.n, drop=bool(drop))
        exc = {"bleak": BleakError("harness: GATT operation failed"), "timeout": TimeoutError("harness: no answer"),
               "eof": EOFError("harness: backend gone")}[cls]
        p.fut.set_exception(exc)
        if drop:
            p.link.go_down()
        self.settle()

    def write_ok(self, p):
        ok = p.link.data_write(p.handle, p.data)
        self.log("wr", n=p.link.n, open=bool(ok))
        p.fut.set_result(None)
        self.settle()

    def read_ok(self, p, kind="honest", split=False):
        if kind == "replay" and not p.link.can_replay():
            kind = "corrupt"
        if p.link.resp is None and kind != "replay":
            kind = "none"
        data, more = p.link.data_read(kind, split and p.link.can_split())
        self.log("rd", n=p.link.n, kind=kind, more=bool(more))
        p.fut.set_result(bytearray(data))
        self.settle()

    def pv_answer(self, p, how="honest"):
        kind, first = p.link.pv_reply(how)
        self.log("pv_tx", n=p.link.n, kind=kind)
        p.fut.set_result(bytearray(first))
        self.settle()

    def advance(self):
        """Let the next timer fire (back-off sleeps, debounce)."""
        self.settle()
        nt = self.loop.next_timer()
        if nt is None:
            return False
        if nt > self.loop.time():
            self.loop.advance(nt - self.loop.time())
        else:
            self.settle()
        return True

    # ------------------------------------------------------------------ observations
    def obs(self):
        self.settle()
        self.log("obs", up=[x.n for x in self.links if x.up], connected=bool(self.pairing.is_connected))

    def honest_step(self):
        """Resolve one pending point honestly; -> False if nothing is pending."""
        live = self.live()
        if not live:
            return False
        p = live[0]
        if p.kind == "conn":
            self.conn_result(True)
        elif p.kind == "disc":
            self.disc_result(p)
        elif p.kind == "wr":
            self.write_ok(p)
        elif p.kind == "rd":
            self.read_ok(p)
        elif p.kind == "pv":
            self.pv_answer(p)
        return True

    def honest_tail(self, limit=400):
        """Everything is answered honestly and time passes until nothing is left to do."""
        for _ in range(limit):
            self.settle()
            if self.honest_step():
                continue
            if any(not t.done() for t, _ in self.callers.values()) and self.advance():
                continue
            break
        self.settle()
        self.log("end", up=[x.n for x in self.links if x.up], connected=bool(self.pairing.is_connected),
                 hung=sorted(c for c, (t, _) in self.callers.items() if not t.done()))

    def record(self):
        return {"id": self.rid, "events": self.events, "problems": self.problems[:5]}

    def close(self):
        P = self.P
        P.establish_connection, P.EncryptionKey, P.DecryptionKey = self._orig
        close_loop(self.loop)


def _short(v):
    if isinstance(v, dict):
        return sorted(f"{k[1]}" for k in v)
    return "" if v is None else str(v)[:40]


# =======================================================================================
# seeded random executions
# =======================================================================================
def answer_then_drop(w: World, p):
    """The accessory's answer and the loss of the link reach the event loop in the same iteration (both
    D-Bus messages are read in one batch): the result is delivered, bleak marks the client disconnected
    and runs the disconnected callback, and only then the waiting coroutine resumes."""
    link = p.link
    if p.kind == "pv":
        kind, first = link.pv_reply("honest")
        w.log("pv_tx", n=link.n, kind=kind)
        p.fut.set_result(bytearray(first))
    elif p.kind == "wr":
        ok = link.data_write(p.handle, p.data)
        w.log("wr", n=link.n, open=bool(ok))
        p.fut.set_result(None)
    elif p.kind == "rd":
        kind = "honest" if link.resp is not None else "none"
        data, more = link.data_read(kind, False)
        w.log("rd", n=link.n, kind=kind, more=bool(more))
        p.fut.set_result(bytearray(data))
    else:
        return False
    w.log("drop", n=link.n)
    link.go_down()
    w.settle()
    return True


def random_run(seed: int, rid: str, nsteps: int = 40, fault: float = 0.25, ncallers: int = 3, races: bool = True,
               subscribe: bool = True) -> World:
    """A seeded random schedule: calls, honest answers, faults, cancellations, link loss, close."""
    w = World(seed, rid)
    rng = w.rng
    cancelled = set()
    shutdown_called = False
    for _ in range(nsteps):
        acts = []
        idle = [c for c in range(1, ncallers + 1) if not w.busy(c)]
        live = w.live()
        if idle:
            acts += [("call", 4 if not live else 2)]
        if live:
            acts += [("answer", 10)]
            if rng.random() < fault:
                acts += [("fault", 10)]
        busy = [c for c in range(1, ncallers + 1) if w.busy(c) and c not in cancelled
                and not any(p.kind == "disc" and p.caller == c for p in live)
                and w.callers[c][1] in ("get", "put", "close")]
        if busy and rng.random() < fault:
            acts += [("cancel", 3)]
        if any(x.up for x in w.links) and rng.random() < fault:
            acts += [("drop", 2)]
        if w.loop.next_timer() is not None:
            acts += [("advance", 3)]
        acts += [("obs", 1)]
        if subscribe and not w.pairing.subscriptions and not any(x.up for x in w.links):
            acts += [("subscribe", 1)]
        tot = sum(wt for _, wt in acts)
        x = rng.random() * tot
        for name, wt in acts:
            x -= wt
            if x < 0:
                break
        if name == "call":
            c = rng.choice(idle)
            cancelled.discard(c)
            kind = rng.choices(["get", "put", "close", "shutdown"], [45, 35, 17, 0 if shutdown_called else 3])[0]
            shutdown_called |= kind == "shutdown"
            if kind == "get":
                w.call(c, "get", rng.choice([1, 1, 2, 3]))
            elif kind == "put":
                w.call(c, "put", rng.choice([1, 1, 2]), long=rng.random() < 0.5)
            else:
                w.call(c, kind)
        elif name == "answer":
            p = rng.choice(live)
            if p.kind == "conn":
                w.conn_result(True)
            elif p.kind == "disc":
                w.disc_result(p, error=rng.random() < 0.15)
            elif p.kind == "wr":
                w.write_ok(p)
            elif p.kind == "rd":
                w.read_ok(p, "honest", split=rng.random() < 0.4)
            elif p.kind == "pv":
                w.pv_answer(p, "fallback" if rng.random() < 0.2 else "honest")
        elif name == "fault":
            p = rng.choice(live)
            if p.kind == "conn":
                w.conn_result(False)
            elif p.kind == "disc":
                w.disc_result(p, error=True)
            elif p.kind == "pv":
                r = rng.random()
                if r < 0.3:
                    w.pv_answer(p, "err")
                elif r < 0.5 and races:
                    answer_then_drop(w, p)
                else:
                    w.gatt_error(p, drop=rng.random() < 0.5, cls=rng.choice(["bleak", "bleak", "timeout", "eof"]))
            else:
                r = rng.random()
                if p.kind == "rd" and r < 0.5:
                    w.read_ok(p, rng.choice(["corrupt", "replay", "wrongtid"]), split=rng.random() < 0.3)
                elif r < 0.65 and races:
                    answer_then_drop(w, p)
                else:
                    w.gatt_error(p, drop=rng.random() < 0.5, cls=rng.choice(["bleak", "bleak", "timeout", "eof"]))
        elif name == "cancel":
            c = rng.choice(busy)
            cancelled.add(c)
            w.cancel(c)
        elif name == "drop":
            w.drop()
        elif name == "advance":
            w.advance()
        elif name == "subscribe":
            w.subscribe()
        else:
            w.obs()
    w.honest_tail()
    return w


def directed_run(seed: int, rid: str, template: str) -> World:
    """Schedules for races that random choice rarely produces (the stimuli are still drawn from the seed)."""
    w = World(seed, rid)
    rng = w.rng

    def honest_until(pred, limit=60):
        for _ in range(limit):
            if pred():
                return True
            if not w.honest_step():
                return False
        return pred()
    if template == "shutdown_vs_connect":
        # close() is in progress (disconnect pending), an operation starts on the link that is about to go, shutdown() is called
        w.call(1, rng.choice(["get", "put"]), rng.choice([1, 2]))
        honest_until(lambda: not w.busy(1))
        w.call(2, "close")                                   # disconnect pending
        if rng.random() < 0.3:
            w.obs()
        w.call(1, rng.choice(["get", "put"]), 1)             # needs a connection: waits for the lock
        w.call(3, "shutdown" if rng.random() < 0.8 else "close")
        w.obs()
        w.honest_tail()
        w.call(1, "get", 1)                                  # after shutdown: nothing may happen
        w.honest_tail()
    elif template == "close_during_request":
        w.call(1, rng.choice(["get", "put"]), rng.choice([1, 2, 3]), long=rng.random() < 0.5)
        honest_until(lambda: bool(w.live("wr") or w.live("rd")))
        for _ in range(rng.randrange(0, 3)):
            if w.live("wr") or w.live("rd"):
                w.honest_step()
        w.call(2, rng.choice(["close", "close", "shutdown"]))
        w.call(3, "get", 1)
        if rng.random() < 0.5 and w.live("disc"):
            w.disc_result(w.live("disc")[0], error=rng.random() < 0.3)
        w.honest_tail()
    elif template == "cancel_positions":
        # cancel the caller at the k-th suspension of its operation
        k = rng.randrange(0, 9)
        w.call(1, rng.choice(["get", "put"]), rng.choice([1, 2]), long=rng.random() < 0.5)
        for _ in range(k):
            w.honest_step()
        if w.busy(1) and not w.live("disc"):
            w.cancel(1)
        w.call(2, rng.choice(["get", "put"]), 1)
        w.honest_tail()
    w.settle()
    return w


TEMPLATES = ("shutdown_vs_connect", "close_during_request", "cancel_positions")
