SPECIFICATION TSpec
CONSTANTS
  Chars = {109, 110, 209}
  Listeners = {1, 2, 3}
  Raising = {2}
  SelfRemoving = {3}
  OpIds = {1, 2}
  MaxSess = 60
  MaxEv = 1000
  MaxLevel = 100000
CONSTRAINT TConstraint
INVARIANT ResubscribedAfterReconnect
INVARIANT ToldUp
INVARIANT ExactlyOnce
INVARIANT NeverTwice
INVARIANT InOrder
POSTCONDITION Accepted
CHECK_DEADLOCK FALSE
