SPECIFICATION TSpec
CONSTANTS
  AllHosts = {"h1", "h2", "h3"}
  InitHosts = {"h1"}
  MaxSock = 0
  MaxK = 0
  TaskIds = {1, 2}
  Callers = {1, 2, 3}
  Waiters = {1, 2, 3}
  Closers = {1, 2, 3}
  SubAids = 2
  Timed = TRUE
  LooseBackoff <- LooseOn
CONSTRAINT TConstraint
INVARIANT AtMostOneOpen
INVARIANT AtMostOneHeld
INVARIANT SingleAttempt
INVARIANT NotStuck
INVARIANT AuthEndsRetries
INVARIANT AfterCloseNothingHeld
INVARIANT NoSpontaneousAttemptAfterClose
POSTCONDITION Accepted
CHECK_DEADLOCK FALSE
