SPECIFICATION Spec
CONSTANTS
  Reqs = {1, 2, 3}
  MaxSock = 1
  MaxEv = 1
  MaxUnsol = 0
  Limit = 2
  Timed = FALSE
INVARIANT OwnResponse
INVARIANT OwnResponsePending
INVARIANT EventsInOrder
INVARIANT SemConsistent
INVARIANT InFlightBounded
INVARIANT NoOrphan
PROPERTY NoWriteAfterFault
PROPERTY NoStaleCompletion
PROPERTY StaleLossHarmless
CHECK_DEADLOCK FALSE
