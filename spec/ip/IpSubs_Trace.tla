----------------------------- MODULE IpSubs_Trace -----------------------------
(* Trace validation for IpSubs: executions of the real IpPairing (subscribe / unsubscribe / listener
   registration / events / disconnect-reconnect cycles) recorded at the accessory (registrations per
   session, events sent), at the public API and in the listeners. *)
EXTENDS IpSubs, Json, IOUtils, TLCExt

Traces == ndJsonDeserialize(IOEnv.TRACE_FILE)
VARIABLES tid, l
tvars == <<vars, tid, l>>
Ev == Traces[tid].events
HasEv == l <= Len(Ev)
E == Ev[l]
IsEvent(k) == HasEv /\ E.ev = k /\ l' = l + 1 /\ UNCHANGED tid
ToSet(sq) == {sq[i] : i \in 1..Len(sq)}

TInit == /\ tid \in 1..Len(Traces) /\ l = 1 /\ Init

TrAdd == IsEvent("add_listener") /\ AddListener(E.l)
TrRemove == IsEvent("remove_listener") /\ RemoveListener(E.l)
TrSub == IsEvent("sub_call") /\ Subscribe(E.o, ToSet(E.chars))
TrUnsub == IsEvent("unsub_call") /\ Unsubscribe(E.o, ToSet(E.chars))
\* subscribe() always returns normally; unsubscribe() returns or raises the disconnection
TrOpRet == /\ IsEvent("op_ret")
           /\ ops[E.o].res # "none"
           /\ ops[E.o].kind = "unsub" => (E.res = "returned") = (ops[E.o].res = "ok")
           /\ ops[E.o].kind = "sub" => E.res = "returned"
           /\ OpDone(E.o)
TrSession == IsEvent("session") /\ SessionUp /\ sess' = E.s
TrDrop == IsEvent("drop") /\ (IF sess = E.s THEN Drop ELSE UNCHANGED vars)
\* the accessory recorded a registration request: one PUT of some operation
TrAccReg == /\ IsEvent("acc_reg")
            /\ E.s = sess
            /\ \E o \in OpIds \cup {0} :
                  /\ OpPut(o, ToSet(E.chars))
                  /\ E.on = ((IF o = 0 THEN resub ELSE ops[o]).kind # "unsub")
TrAccReply == IsEvent("acc_put_reply") /\ (IF E.s = sess THEN \E o \in OpIds \cup {0} : AccReplyPut(o) ELSE UNCHANGED vars)
TrAccEv == IsEvent("acc_ev") /\ E.s = sess /\ AccEvent(FALSE) /\ evSent'[sess] = E.n
TrAccBad == IsEvent("acc_bad") /\ E.s = sess /\ AccEvent(TRUE)
TrListener == /\ IsEvent("listener")
              /\ delivering.what = <<E.kind, E.s, E.n>>
              /\ DeliverTo(E.l)
TrEnd == IsEvent("end") /\ Idle /\ wire = << >> /\ UNCHANGED vars
\* When the controller itself abandons a session (request time-out) the accessory notices - and the harness logs
\* `drop` - only after the controller has already failed the operation: the loss may be taken silently if a `drop`
\* of the current session is logged before the next session comes up.
DropAhead == \E k \in l..Len(Ev) : /\ Ev[k].ev = "drop" /\ Ev[k].s = sess
                                    /\ \A m \in l..(k - 1) : Ev[m].ev # "session"
Silent == /\ \/ CtrlRead
             \/ (sess # 0 /\ DropAhead /\ Drop)
          /\ UNCHANGED <<tid, l>>

TNext == TrAdd \/ TrRemove \/ TrSub \/ TrUnsub \/ TrOpRet \/ TrSession \/ TrDrop \/ TrAccReg \/ TrAccReply \/ TrAccEv \/ TrAccBad
         \/ TrListener \/ TrEnd \/ Silent
TSpec == TInit /\ [][TNext]_tvars

ASSUME \A i \in 1..Len(Traces) : TLCSet(i, 0)
TConstraint == TLCSet(tid, IF TLCGet(tid) < l THEN l ELSE TLCGet(tid))
Accepted == /\ TLCGet("stats").generated >= 0
            /\ \A i \in 1..Len(Traces) :
                  IF TLCGet(i) = Len(Traces[i].events) + 1 THEN TRUE ELSE PrintT(<<"REJECTED", i, TLCGet(i)>>)
DbgL == CHOOSE n \in 0..100000 : ToString(n) = IOEnv.DBG_L
DebugNotReached == l < DbgL
===============================================================================
