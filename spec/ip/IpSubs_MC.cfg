SPECIFICATION Spec
CONSTANTS
  Chars = {101, 102, 201}
  Listeners = {1, 2, 3}
  Raising = {2}
  SelfRemoving = {3}
  OpIds = {1}
  MaxSess = 2
  MaxEv = 2
  MaxLevel = 100
INVARIANT ResubscribedAfterReconnect
INVARIANT ToldUp
INVARIANT ExactlyOnce
INVARIANT NeverTwice
INVARIANT InOrder
PROPERTY ListenersDoNotDrop
CHECK_DEADLOCK FALSE
