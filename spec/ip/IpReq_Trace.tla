----------------------------- MODULE IpReq_Trace -----------------------------
(* Trace validation for IpReq (Timed = TRUE): executions of the real HomeKitConnection request plane
   recorded at the socket boundary, the public request API and the owner's listener. *)
EXTENDS IpReq, Json, IOUtils, TLCExt

Traces == ndJsonDeserialize(IOEnv.TRACE_FILE)
VARIABLES tid, l
tvars == <<vars, tid, l>>
Ev == Traces[tid].events
HasEv == l <= Len(Ev)
E == Ev[l]
IsEvent(k) == HasEv /\ E.ev = k /\ E.t = now /\ l' = l + 1 /\ UNCHANGED tid

TInit == /\ tid \in 1..Len(Traces) /\ l = 1
         /\ now = 0 /\ socks = << >> /\ cur = 0 /\ sem = {} /\ semQ = << >>
         /\ reqs = [r \in Reqs |-> IdleReq] /\ evLog = << >> /\ unsol = 0 /\ wantUp = TRUE

Dead(s) == s \in Socks /\ socks[s].st = "dead"
TrIssue == IsEvent("issue") /\ \E werr \in BOOLEAN : Issue(E.r, werr, E.big)
TrPause == IsEvent("acc_pause") /\ AccPause(E.s)
TrCancel == IsEvent("cancel") /\ CallerCancel(E.r)
\* the API call returned: outcome class and, for a response, which request the body was written for
TrRet == /\ IsEvent("ret")
         /\ reqs[E.r].pc = "done" /\ reqs[E.r].res = E.res
         /\ reqs[E.r].dl = E.t                      \* promptly: the call returns at the instant it completed
         /\ E.res = "resp" => reqs[E.r].from = E.from
         /\ reqs' = [reqs EXCEPT ![E.r].pc = "returned"]
         /\ UNCHANGED <<now, socks, cur, sem, semQ, evLog, unsol, wantUp>>
TrSession == IsEvent("session") /\ SessionUp /\ Len(socks') = E.s
TrAccRx == /\ IsEvent("acc_rx")
           /\ IF Dead(E.s) THEN UNCHANGED vars ELSE AccRecv(E.s) /\ Head(socks[E.s].c2a) = E.r
TrAccTx == /\ IsEvent("acc_tx")
           /\ IF Dead(E.s) THEN UNCHANGED vars
              ELSE CASE E.kind \in {"resp", "half", "rest"} -> AccRespond(E.s, E.kind) /\ (E.kind # "rest" => Head(socks[E.s].accPend) = E.r)
                     [] E.kind = "event" -> AccEvent(E.s) /\ socks'[E.s].evSent = E.n
                     [] E.kind = "unsol" -> AccUnsolicited(E.s)
TrPeerClose == IsEvent("peer_close") /\ (IF Dead(E.s) THEN UNCHANGED vars
                                          ELSE IF socks[E.s].pclose = "fin" /\ E.how = "rst" THEN PeerAbort(E.s)
                                          ELSE PeerClose(E.s, E.how))
\* the owner's listener was called: emitted by the read that completes an EVENT message
TrListener == /\ IsEvent("listener")
              /\ CtrlRead(E.s) /\ Head(socks[E.s].a2c) = <<"event", E.n>>
TrClose == IsEvent("close") /\ UserClose
TrOpen == IsEvent("open") /\ UserOpen
TrEnd == IsEvent("end") /\ Quiescent /\ UNCHANGED vars
         /\ \A r \in Reqs : reqs[r].pc \in {"idle", "returned"}       \* nothing hangs

Silent == /\ \/ \E r \in Reqs : (\E werr \in BOOLEAN : ReqRun(r, werr)) \/ TimerFire(r)
             \/ \E s \in 1..Len(socks) : (CtrlRead(s) /\ Head(socks[s].a2c)[1] # "event") \/ LostCallback(s)
          /\ UNCHANGED <<tid, l>>
Advance == /\ HasEv /\ E.t > now /\ Quiescent
           /\ LET cand == {d \in Deadlines : d > now /\ d <= E.t} \cup {E.t}
              IN now' = CHOOSE x \in cand : \A y \in cand : x <= y
           /\ \A d \in Deadlines : d >= now
           /\ UNCHANGED <<socks, cur, sem, semQ, reqs, evLog, unsol, wantUp, tid, l>>

TNext == TrIssue \/ TrPause \/ TrCancel \/ TrRet \/ TrSession \/ TrAccRx \/ TrAccTx \/ TrPeerClose \/ TrListener \/ TrClose \/ TrOpen \/ TrEnd
         \/ Silent \/ Advance
TSpec == TInit /\ [][TNext]_tvars

ASSUME \A i \in 1..Len(Traces) : TLCSet(i, 0)
TConstraint == TLCSet(tid, IF TLCGet(tid) < l THEN l ELSE TLCGet(tid))
Accepted == /\ TLCGet("stats").generated >= 0
            /\ \A i \in 1..Len(Traces) :
                  IF TLCGet(i) = Len(Traces[i].events) + 1 THEN TRUE ELSE PrintT(<<"REJECTED", i, TLCGet(i)>>)
DbgL == CHOOSE n \in 0..100000 : ToString(n) = IOEnv.DBG_L
DebugNotReached == l < DbgL
==============================================================================
