SPECIFICATION Spec
CONSTANTS
  Chars = {101}
  Listeners = {1, 2}
  Raising = {2}
  SelfRemoving = {2}
  OpIds = {1}
  MaxSess = 2
  MaxEv = 1
  MaxLevel = 31
INVARIANT ResubscribedAfterReconnect
INVARIANT ToldUp
INVARIANT ExactlyOnce
INVARIANT NeverTwice
INVARIANT InOrder
PROPERTY ListenersDoNotDrop
CONSTRAINT LevelBound
CHECK_DEADLOCK FALSE
