SPECIFICATION Spec
CONSTANTS
  Reqs = {1, 2, 3}
  MaxSock = 2
  MaxEv = 0
  MaxUnsol = 0
  Limit = 1
  Timed = FALSE
INVARIANT OwnResponse
INVARIANT OwnResponsePending
INVARIANT EventsInOrder
INVARIANT SemConsistent
INVARIANT NoOrphan
PROPERTY NoWriteAfterFault
PROPERTY NoStaleCompletion
PROPERTY StaleLossHarmless
CHECK_DEADLOCK FALSE
