SPECIFICATION LiveSpec
CONSTANTS
  Reqs = {1, 2}
  MaxSock = 1
  MaxEv = 1
  MaxUnsol = 0
  Limit = 1
  Timed = FALSE
PROPERTY NoHang
CHECK_DEADLOCK FALSE
