------------------------------- MODULE IpSubs -------------------------------
(* Subscriptions and event delivery of an IP pairing (controller/ip/pairing.py: subscribe,
   unsubscribe, _update_subscriptions, connection_made, event_received; controller/abstract.py:
   _callback_listeners, dispatcher_connect; controller/ip/connection.py: event_received).

   The connector and the request plane are abstracted (they are IpConn / IpReq): a session comes up
   (SessionUp) or is lost (Drop) as environment actions; a subscription request is one PUT per
   accessory id, answered by the accessory unless the session is lost first.

   Operations (ops): "sub" / "unsub" issued by a caller, "resub" issued by connection_made after every
   (re)connection.  Each op owns a list of accessory ids still to be sent; one PUT of an op is in
   flight at a time. *)
EXTENDS Naturals, FiniteSets, Sequences, TLC

CONSTANTS Chars,        \* characteristics encoded as aid * 100 + iid
          Listeners,    \* listener identifiers
          Raising,      \* listeners whose callback raises
          SelfRemoving, \* listeners that unregister themselves from inside their first callback
          OpIds,        \* identifiers for caller operations
          MaxSess, MaxEv,
          MaxLevel      \* bound on the exploration depth (model checking only)

VARIABLES want,        \* pairing.subscriptions
          sess,        \* current session (0 = not connected)
          nsess,       \* sessions so far
          accReg,      \* [session -> set of chars registered with the accessory]
          pushOk,      \* supports_subscribe
          listeners,   \* registered listeners
          ops,         \* [op id -> record]
          resub,       \* the connector's re-subscription op (record)
          wire,        \* sequence of accessory->controller messages of the current session not yet read
          evSent,      \* [session -> number of events sent]
          log,         \* [listener -> sequence of calls]
          delivering,  \* the listener loop in progress: [what, left]
          told,        \* history: listeners told "up" for the current session
          toTell,      \* history: listeners registered when the current session came up
          readEv       \* history: events read, with the listeners registered at that moment

vars == <<want, sess, nsess, accReg, pushOk, listeners, ops, resub, wire, evSent, log, delivering, told, toTell, readEv>>

Aids(S) == {c \div 100 : c \in S}
OfAid(S, a) == {c \in S : c \div 100 = a}
NoOp == [kind |-> "none", chars |-> {}, todo |-> {}, inflight |-> 0, sess |-> 0, res |-> "none"]
NoneW == <<"none", 0, 0>>
Idle == delivering.what = NoneW

Init == /\ want = {} /\ sess = 0 /\ nsess = 0 /\ accReg = [s \in 1..MaxSess |-> {}] /\ pushOk = TRUE
        /\ listeners = {} /\ ops = [o \in OpIds |-> NoOp] /\ resub = NoOp /\ wire = << >>
        /\ evSent = [s \in 1..MaxSess |-> 0] /\ log = [l \in Listeners |-> << >>]
        /\ delivering = [what |-> NoneW, left |-> {}] /\ told = {} /\ toTell = {} /\ readEv = {}

\* ------------------------------------------------------------------ listeners
AddListener(l) == /\ Idle /\ l \notin listeners /\ listeners' = listeners \cup {l}
                  /\ UNCHANGED <<want, sess, nsess, accReg, pushOk, ops, resub, wire, evSent, log, delivering, told, toTell, readEv>>
RemoveListener(l) == /\ Idle /\ l \in listeners /\ listeners' = listeners \ {l}
                     /\ UNCHANGED <<want, sess, nsess, accReg, pushOk, ops, resub, wire, evSent, log, delivering, told, toTell, readEv>>

\* _callback_listeners: iterate over a snapshot of the registered listeners, one call per step
DeliverTo(l) ==
    /\ delivering.what # NoneW /\ l \in delivering.left
    /\ log' = IF delivering.what[1] = "ev" THEN [log EXCEPT ![l] = Append(@, delivering.what)] ELSE log   \* ("up" is recorded in told)
    /\ delivering' = IF delivering.left = {l} THEN [what |-> NoneW, left |-> {}]
                     ELSE [delivering EXCEPT !.left = @ \ {l}]
    /\ listeners' = IF l \in SelfRemoving THEN listeners \ {l} ELSE listeners     \* a raising listener changes nothing
    /\ told' = IF delivering.what = <<"up", sess, 0>> THEN told \cup {l} ELSE told
    /\ UNCHANGED <<want, sess, nsess, accReg, pushOk, ops, resub, wire, evSent, toTell, readEv>>
StartDelivery(what) == IF listeners = {} THEN [what |-> NoneW, left |-> {}] ELSE [what |-> what, left |-> listeners]

\* ------------------------------------------------------------------ sessions
\* a secure session is established: connection_made(True) tells the listeners and re-subscribes
SessionUp ==
    /\ Idle /\ sess = 0 /\ nsess < MaxSess
    /\ nsess' = nsess + 1 /\ sess' = nsess + 1 /\ wire' = << >> /\ told' = {} /\ toTell' = listeners
    /\ delivering' = StartDelivery(<<"up", nsess + 1, 0>>)
    /\ resub' = IF want # {} /\ pushOk
                THEN [kind |-> "resub", chars |-> want, todo |-> want, inflight |-> 0, sess |-> nsess + 1, res |-> "none"]
                ELSE NoOp
    /\ UNCHANGED <<want, accReg, pushOk, listeners, ops, evSent, log, readEv>>

\* the session is lost (peer close, time-out ...): every PUT in flight fails with a disconnection
FailOp(o) == IF o.kind = "none" \/ o.res # "none" THEN o
             ELSE [o EXCEPT !.res = "disconnected", !.inflight = 0, !.todo = {}]
Drop ==
    /\ Idle /\ sess # 0
    /\ sess' = 0 /\ wire' = << >>
    /\ ops' = [o \in OpIds |-> IF ops[o].sess = sess /\ ops[o].kind \in {"sub", "unsub"} THEN FailOp(ops[o]) ELSE ops[o]]
    /\ resub' = IF resub.kind = "resub" /\ resub.res = "none" THEN NoOp ELSE resub
    \* an op cut off by the disconnection switches the pairing to polling (subscribe / resubscribe only)
    /\ pushOk' = IF (\E o \in OpIds : ops[o].kind = "sub" /\ ops[o].sess = sess /\ ops[o].res = "none")
                    \/ (resub.kind = "resub" /\ resub.res = "none")
                 THEN FALSE ELSE pushOk
    /\ UNCHANGED <<want, nsess, accReg, listeners, evSent, log, delivering, told, toTell, readEv>>

\* ------------------------------------------------------------------ caller operations
Subscribe(o, S) ==
    /\ Idle /\ ops[o].kind = "none" /\ S # {} /\ S \subseteq Chars
    /\ want' = want \cup S
    /\ ops' = [ops EXCEPT ![o] =
                 IF ~pushOk THEN [NoOp EXCEPT !.kind = "sub", !.chars = S, !.res = "nopush"]
                 ELSE IF sess = 0 THEN [NoOp EXCEPT !.kind = "sub", !.chars = S, !.res = "notconnected"]
                 ELSE [kind |-> "sub", chars |-> S, todo |-> S, inflight |-> 0, sess |-> sess, res |-> "none"]]
    /\ UNCHANGED <<sess, nsess, accReg, pushOk, listeners, resub, wire, evSent, log, delivering, told, toTell, readEv>>
Unsubscribe(o, S) ==
    /\ Idle /\ ops[o].kind = "none" /\ S # {} /\ S \subseteq Chars
    /\ IF sess = 0
       THEN /\ want' = want \ S
            /\ ops' = [ops EXCEPT ![o] = [NoOp EXCEPT !.kind = "unsub", !.chars = S, !.res = "ok"]]
       ELSE /\ want' = want
            /\ ops' = [ops EXCEPT ![o] = [kind |-> "unsub", chars |-> S, todo |-> S, inflight |-> 0, sess |-> sess, res |-> "none"]]
    /\ UNCHANGED <<sess, nsess, accReg, pushOk, listeners, resub, wire, evSent, log, delivering, told, toTell, readEv>>
\* the caller consumed the result
OpDone(o) == /\ ops[o].res # "none" /\ ops' = [ops EXCEPT ![o] = NoOp]
             /\ UNCHANGED <<want, sess, nsess, accReg, pushOk, listeners, resub, wire, evSent, log, delivering, told, toTell, readEv>>

\* one PUT of an op: sent, registered by the accessory, answered (the accessory processes the request
\* when it reads it; the reply is read later).  A PUT carries characteristics of one accessory id; how the
\* characteristics of an op are grouped into PUTs is left open (the code groups runs of equal accessory ids).
OpPut(o, P) ==      \* o \in OpIds, or 0 for the connector's re-subscription
    /\ Idle /\ sess # 0
    /\ LET op == IF o = 0 THEN resub ELSE ops[o] IN
       /\ op.kind # "none" /\ op.res = "none" /\ op.inflight = 0 /\ op.sess = sess
       /\ P # {} /\ P \subseteq op.todo /\ Cardinality(Aids(P)) = 1
       /\ accReg' = [accReg EXCEPT ![sess] = IF op.kind = "unsub" THEN @ \ P ELSE @ \cup P]
       /\ IF o = 0 THEN resub' = [resub EXCEPT !.inflight = 1, !.todo = @ \ P] /\ UNCHANGED ops
          ELSE ops' = [ops EXCEPT ![o] = [@ EXCEPT !.inflight = 1, !.todo = @ \ P]] /\ UNCHANGED resub
    /\ UNCHANGED <<want, sess, nsess, pushOk, listeners, wire, evSent, log, delivering, told, toTell, readEv>>
\* the accessory answers that PUT (204)
AccReplyPut(o) ==
    /\ sess # 0
    /\ LET op == IF o = 0 THEN resub ELSE ops[o] IN op.kind # "none" /\ op.res = "none" /\ op.inflight = 1 /\ op.sess = sess
    /\ wire' = Append(wire, <<"reply", o, 0>>)
    /\ IF o = 0 THEN resub' = [resub EXCEPT !.inflight = 2] /\ UNCHANGED ops
       ELSE ops' = [ops EXCEPT ![o].inflight = 2] /\ UNCHANGED resub
    /\ UNCHANGED <<want, sess, nsess, accReg, pushOk, listeners, evSent, log, delivering, told, toTell, readEv>>

\* ------------------------------------------------------------------ accessory events and the read loop
AccEvent(bad) ==
    /\ sess # 0 /\ evSent[sess] < MaxEv
    /\ bad \/ accReg[sess] # {}                    \* a conformant accessory only notifies registered characteristics
    /\ IF bad THEN wire' = Append(wire, <<"bad", 0, 0>>) /\ UNCHANGED evSent
       ELSE /\ evSent' = [evSent EXCEPT ![sess] = @ + 1]
            /\ wire' = Append(wire, <<"event", sess, evSent[sess] + 1>>)
    /\ UNCHANGED <<want, sess, nsess, accReg, pushOk, listeners, ops, resub, log, delivering, told, toTell, readEv>>

CtrlRead ==
    /\ Idle /\ sess # 0 /\ wire # << >>
    /\ LET m == Head(wire) IN
       /\ wire' = Tail(wire)
       /\ readEv' = IF m[1] = "event" THEN readEv \cup {<<m[2], m[3], listeners>>} ELSE readEv
       /\ CASE m[1] = "event" -> /\ delivering' = StartDelivery(<<"ev", m[2], m[3]>>)
                                 /\ UNCHANGED <<ops, resub, want>>
            [] m[1] = "bad" -> UNCHANGED <<delivering, ops, resub, want>>          \* empty / non-JSON body: ignored
            [] m[1] = "reply" ->
                 /\ UNCHANGED delivering
                 /\ IF m[2] = 0
                    THEN /\ resub' = IF resub.todo = {} THEN NoOp ELSE [resub EXCEPT !.inflight = 0]
                         /\ UNCHANGED <<ops, want>>
                    ELSE LET op == ops[m[2]]
                             fin == op.todo = {}
                         IN /\ ops' = [ops EXCEPT ![m[2]] = [@ EXCEPT !.inflight = 0, !.res = IF fin THEN "ok" ELSE "none"]]
                            /\ want' = IF fin /\ op.kind = "unsub" THEN want \ op.chars ELSE want
                            /\ UNCHANGED resub
    /\ UNCHANGED <<sess, nsess, accReg, pushOk, listeners, evSent, log, told, toTell>>

Next == \/ \E l \in Listeners : AddListener(l) \/ RemoveListener(l) \/ DeliverTo(l)
        \/ SessionUp \/ Drop \/ CtrlRead \/ AccEvent(TRUE) \/ AccEvent(FALSE)
        \/ \E o \in OpIds : OpDone(o) \/ \E S \in SUBSET Chars : Subscribe(o, S) \/ Unsubscribe(o, S)
        \/ \E o \in OpIds \cup {0} : AccReplyPut(o) \/ \E P \in SUBSET Chars : OpPut(o, P)
Spec == Init /\ [][Next]_vars

\* ------------------------------------------------------------------ properties (C12)
OpsQuiet == resub.kind = "none" /\ \A o \in OpIds : ops[o].kind = "none" \/ ops[o].res # "none"
\* after a completed (re)connection everything the caller wants is registered with the accessory,
\* unless a subscription request was cut off by a disconnection (polling fallback)
ResubscribedAfterReconnect == (sess # 0 /\ pushOk /\ OpsQuiet /\ Idle) => want \subseteq accReg[sess]
\* listeners registered when the connection came back were told (empty notification)
ToldUp == (sess # 0 /\ Idle) => toTell \subseteq told
\* every event read reaches every listener registered at that moment exactly once - whatever the other
\* listeners do (raise, unregister themselves) - ...
Count(sq, x) == Cardinality({i \in 1..Len(sq) : sq[i] = x})
ExactlyOnce == Idle => \A e \in readEv : \A l \in e[3] : Count(log[l], <<"ev", e[1], e[2]>>) = 1
NeverTwice == \A l \in Listeners : \A i, j \in 1..Len(log[l]) : (i # j /\ log[l][i][1] = "ev") => log[l][i] # log[l][j]
\* ... and in the order the accessory sent them
InOrder ==
    \A l \in Listeners : \A i, j \in 1..Len(log[l]) :
        (i < j /\ log[l][i][1] = "ev" /\ log[l][j][1] = "ev" /\ log[l][i][2] = log[l][j][2]) => log[l][i][3] < log[l][j][3]
\* nothing a listener does ends the session
ListenersDoNotDrop == [][(delivering.what # NoneW /\ delivering' # delivering) => sess' = sess]_vars
LevelBound == TLCGet("level") <= MaxLevel
=============================================================================
