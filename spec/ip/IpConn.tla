------------------------------- MODULE IpConn -------------------------------
(* Life-cycle of aiohomekit's IP connection object (HomeKitConnection /
   SecureHomeKitConnection in controller/ip/connection.py) together with its owner's
   connect-time behaviour (IpPairing.connection_made / _ensure_connected / close / shutdown /
   _async_description_update), the asyncio transport callbacks, the network and the accessory.

   One action per critical section: for asyncio code that is the run of a task / callback
   between two suspension points.  The environment (accessory replies, TCP outcomes, peer closes,
   API callers, timers) consists of independently enabled actions.

   The controller's internal operations are written as functions S -> S over a record S of the
   controller-owned variables so that a step can be composed like the code composes calls.

   Time.  `now` counts ticks of 1/4096 s (every delay of the back-off table
   min(60, 0.5 * 1.5^(k+1)) is an integer number of ticks).  With Timed = FALSE (model checking)
   deadlines are ignored and timers may fire at any moment; with Timed = TRUE (trace validation)
   a timer fires exactly at its deadline and time only advances when nothing else can run. *)
EXTENDS Naturals, FiniteSets, Sequences, TLC

CONSTANTS AllHosts,     \* universe of advertised host addresses
          InitHosts,    \* hosts stored in the pairing data
          MaxSock,      \* bound on the number of sockets ever created (0 = unbounded)
          MaxK,         \* back-off index saturates here when Timed = FALSE (0 = never)
          TaskIds,      \* identifiers available for connector tasks
          Callers,      \* identifiers of API callers
          Waiters,      \* callers that use ensure_connection / _ensure_connected
          Closers,      \* callers that use close / shutdown
          SubAids,      \* number of accessory ids with subscriptions (requests sent by connection_made)
          Timed

VARIABLES now, socks, cur, closing, closedF, secureF, shutdownF, lock, ref, tasks,
          hosts, descr, failed, nxUsed, callers, attempts, userClosed, subsOk, authEnded

cvars == <<socks, cur, closing, closedF, secureF, shutdownF, lock, ref, tasks,
           hosts, descr, failed, nxUsed, callers, attempts, userClosed, subsOk, authEnded>>
vars == <<now, cvars>>

TPS == 4096                                   \* ticks per second
RECURSIVE Pow(_, _)
Pow(b, e) == IF e = 0 THEN 1 ELSE b * Pow(b, e - 1)
\* sleep after the (k+1)-th consecutive failure of a connector run: min(60, 0.5 * 1.5^(k+1)) s
Delay(k) == IF k >= 11 THEN 60 * TPS ELSE Pow(3, k + 1) * Pow(2, 10 - k)
T_CONNECT == 10 * TPS                         \* asyncio_timeout(10) around start_connection
T_REQUEST == 30 * TPS                         \* request timer in _send_lines
T_ENSURE  == 10 * TPS                         \* IpPairing._ensure_connected

NoDeadline == 0
LooseBackoff == FALSE
At(d) == IF Timed THEN (IF LooseBackoff THEN now ELSE now + d) ELSE NoDeadline
\* Loose back-off (only used as a second opinion in trace validation, see harness/props/ipconn_common.py): the property
\* demands a growing delay that is positive and never exceeds 60 s, the table above is what the code does today.  With
\* LooseBackoff (overridden to TRUE by IpConn_Trace_*_loose.cfg) every timer remembers when it was armed (dl = that
\* instant) and may fire at any later instant d with 0 < d <= 60 s ("bounded"); the back-off sleep in addition needs
\* d >= the previous full delay of the same connector run (kept in field k): growing.
SleepStart(tk) == tk.dl
CAP == 60 * TPS

\* ------------------------------------------------------------------ records
NewSock(h) == [host |-> h, c2a |-> << >>, a2c |-> << >>, cc |-> FALSE, pclose |-> "no",
               accPend |-> << >>, lostRun |-> FALSE]
DeadSock == [host |-> "none", c2a |-> << >>, a2c |-> << >>, cc |-> TRUE, pclose |-> "dead", accPend |-> << >>, lostRun |-> TRUE]
DeadTask == [pc |-> "dead", k |-> 0, sock |-> 0, host |-> "none", fb |-> 0, rem |-> {}, tmo |-> FALSE,
             wake |-> "none", dl |-> NoDeadline, sub |-> 0, slept |-> TRUE]
FreshTask == [DeadTask EXCEPT !.pc = "new", !.wake = "go"]
IdleCaller == [kind |-> "none", pc |-> "idle", waitOn |-> 0, wake |-> "none", dl |-> NoDeadline, res |-> "none"]
\* a finished call: kept as "done" with its result for trace validation; when model checking the
\* caller is immediately idle again (the result is an observation, not state)
Returned(kind, res) == IF Timed THEN [IdleCaller EXCEPT !.kind = kind, !.pc = "done", !.res = res] ELSE IdleCaller

FinalPcs == {"dead", "ok", "auth", "cancelled"}
AliveT(tk, t) == tk[t].pc \notin FinalPcs
Alive(t) == AliveT(tasks, t)

Socks == 1..Len(socks)
Open(s) == ~socks[s].cc /\ socks[s].pclose = "no"
OpenSet == {s \in Socks : Open(s)}
HeldSet == {s \in Socks : ~socks[s].cc}

\* the controller-owned state as one record
St == [socks |-> socks, cur |-> cur, closing |-> closing, closedF |-> closedF, secureF |-> secureF,
       lock |-> lock, ref |-> ref, tasks |-> tasks, hosts |-> hosts, failed |-> failed,
       nxUsed |-> nxUsed, callers |-> callers, attempts |-> attempts, userClosed |-> userClosed, subsOk |-> subsOk, authEnded |-> authEnded]
Commit(S) == /\ socks' = S.socks /\ cur' = S.cur /\ closing' = S.closing /\ closedF' = S.closedF
             /\ secureF' = S.secureF /\ lock' = S.lock /\ ref' = S.ref /\ tasks' = S.tasks
             /\ hosts' = S.hosts /\ failed' = S.failed /\ nxUsed' = S.nxUsed /\ callers' = S.callers
             /\ attempts' = S.attempts /\ userClosed' = S.userClosed /\ subsOk' = S.subsOk /\ authEnded' = S.authEnded

Connected(S) == S.cur # 0 /\ ~S.closedF /\ S.secureF           \* SecureHomeKitConnection.is_connected

\* ------------------------------------------------------------------ controller operations (S -> S)
\* transport.close() on socket s (no-op when the transport is already closing)
CloseSock(S, s) ==
    IF s = 0 \/ S.socks[s].cc THEN S
    ELSE [S EXCEPT !.socks[s].cc = TRUE]

\* _drop_transport
Drop(S) == [CloseSock(S, S.cur) EXCEPT !.cur = 0]

\* a connector task ends: callers shielding on it are woken with its outcome
Finish(S, t, status) ==
    LET cs == [c \in Callers |->
                 IF S.callers[c].pc = "wait" /\ S.callers[c].waitOn = t /\ S.callers[c].wake = "none"
                 THEN [S.callers[c] EXCEPT !.wake = status] ELSE S.callers[c]]
    IN [S EXCEPT !.tasks[t] = [DeadTask EXCEPT !.pc = status], !.callers = cs]

\* _start_connector
FreeIdIn(tk) == CHOOSE t \in TaskIds : tk[t].pc = "dead" /\ \A u \in TaskIds : tk[u].pc = "dead" => t <= u
StartConnector(S) ==
    IF (S.ref # 0 /\ AliveT(S.tasks, S.ref)) \/ Connected(S) THEN S
    ELSE LET tk0 == IF S.ref # 0 THEN [S.tasks EXCEPT ![S.ref] = DeadTask] ELSE S.tasks   \* old task object dropped
             t == FreeIdIn(tk0)
         IN [S EXCEPT !.tasks = [tk0 EXCEPT ![t] = FreshTask], !.ref = t]

\* _start_reconnecting (returns the state; whether it "started" is ~Connected(S) before)
\* userClosed is a history variable: "closed" = the last API-level request was a close that completed,
\* "open" = it was a trigger asking for the connection, "either" = a trigger arrived while a close()
\* was still waiting for the connector (the code resolves that race either way; both are accepted).
\* A close() that is still waiting for the connector when such a trigger arrives is superseded by it.
StartReconnecting(S) ==
    IF Connected(S) THEN S
    ELSE StartConnector([S EXCEPT !.closing = FALSE, !.closedF = FALSE, !.authEnded = FALSE,
                                  !.userClosed = IF \E c \in Callers : S.callers[c].kind = "close" /\ S.callers[c].pc = "wait"
                                                 THEN "either" ELSE "open",
                                  !.callers = [c \in Callers |->
                                        IF S.callers[c].kind = "close" /\ S.callers[c].pc = "wait"
                                        THEN [S.callers[c] EXCEPT !.res = "sup"] ELSE S.callers[c]]])

\* hosts to try: _get_connect_hosts (clears the exclusions when every host is excluded)
ConnectHosts(S) == IF S.hosts \ S.failed = {} THEN S.hosts ELSE S.hosts \ S.failed

\* Top of the `while not self.closing` loop of _reconnect + the synchronous prefix of _connect_once
\* up to the first start_connection call.
LoopHead(S, t) ==
    IF S.closing
    THEN Finish([S EXCEPT !.lock = FALSE], t, "ok")                   \* loop not entered: returns None
    ELSE LET changed == descr # {} /\ descr # S.hosts
             h1 == IF changed THEN descr ELSE S.hosts
             f1 == IF changed THEN {} ELSE S.failed
             nx1 == IF changed THEN {} ELSE S.nxUsed
             allEx == h1 \ f1 = {}
             f2 == IF allEx THEN {} ELSE f1
             nx2 == IF allEx THEN {} ELSE nx1
             try == h1 \ f2
         IN [S EXCEPT !.secureF = FALSE, !.hosts = h1, !.failed = f2, !.nxUsed = nx2,
                      !.attempts = 1,
                      !.tasks[t] = [@ EXCEPT !.pc = "tcp", !.wake = "none", !.fb = Cardinality(S.failed),   \* counted before _connect_once may clear the exclusions
                                            
                                             !.rem = try, !.tmo = FALSE, !.sock = 0, !.dl = At(T_CONNECT)]]

\* reaction of _reconnect to an exception raised by _connect_once
SleepNext(S, t) ==   \* back-off: interval = min(60, 1.5 * interval); sleep
    LET k == S.tasks[t].k
    IN [S EXCEPT !.tasks[t] = [@ EXCEPT !.pc = "sleep", !.wake = "none",
                                       !.dl = At(Delay(k)), !.slept = FALSE,
                                       !.k = IF LooseBackoff /\ Timed THEN k
                                             ELSE IF MaxK > 0 /\ k >= MaxK THEN k ELSE k + 1]]

Fail(S, t, kind) ==
    \* every failure of the secure-session setup drops the transport (see fix in /repo)
    LET S1 == Drop(S) IN
    CASE kind = "auth"    -> Finish([S1 EXCEPT !.lock = FALSE, !.authEnded = TRUE], t, "auth")
      [] kind = "wrongid" ->
            LET h == S.tasks[t].host
                f == S1.failed \cup {h}
                S2 == [S1 EXCEPT !.failed = f]
            IN IF Cardinality(f) > S.tasks[t].fb /\ (S2.hosts \ f # {})
               THEN LoopHead([S2 EXCEPT !.nxUsed = @ \cup {h}, !.tasks[t].slept = TRUE], t)   \* `continue`
               ELSE SleepNext(S2, t)
      [] OTHER            -> SleepNext(S1, t)

\* write a request on the current transport (request() -> _send_lines): enqueue + 30 s timer
SendReq(S, t, msg, nextpc) ==
    LET s == S.cur IN
    [S EXCEPT !.socks[s].c2a = Append(@, msg),
              !.tasks[t] = [@ EXCEPT !.pc = nextpc, !.wake = "none", !.dl = At(T_REQUEST)]]

\* the connector's request could not even be written: transport is closing -> AccessoryDisconnectedError,
\* or no protocol -> AccessoryDisconnectedError
CanSend(S) == S.cur # 0 /\ ~S.socks[S.cur].cc

\* owner.connection_made(True) returned: if the transport was lost meanwhile (its loss callback ran while
\* this task was still alive, so nothing restarted the connector) the attempt counts as failed (fix in
\* /repo); otherwise the connector is done.
ConnMadeReturn(S, t) ==
    IF S.cur = 0 THEN Fail(S, t, "generic") ELSE Finish([S EXCEPT !.lock = FALSE], t, "ok")

\* after pair-verify succeeded: switch protocol, is_secure, owner.connection_made(True)
AfterVerify(S, t) ==
    LET S1 == [S EXCEPT !.secureF = TRUE] IN
    IF ~CanSend(S) THEN Fail(S, t, "generic")       \* the transport was closed meanwhile: no session (fix in /repo)
    ELSE IF SubAids = 0 \/ ~S1.subsOk THEN ConnMadeReturn(S1, t)
    ELSE IF CanSend(S1) THEN SendReq([S1 EXCEPT !.tasks[t].sub = SubAids - 1], t, "sub", "sub")
    ELSE ConnMadeReturn([S1 EXCEPT !.subsOk = FALSE], t)          \* subscribe() swallows the disconnection

\* ------------------------------------------------------------------ connector task steps
\* a task runs when it has been woken (its awaited future completed / it was just created)
TaskRun(t) ==
    /\ Alive(t) /\ tasks[t].wake # "none"
    /\ LET T == tasks[t]
           w == T.wake
           S == St
       IN Commit(
          CASE w = "cancel" ->
                 \* CancelledError thrown at the current await.  A request in flight closes its
                 \* transport (_send_lines: except BaseException); start_connection's socket is not ours yet.
                 LET S1 == IF T.pc \in {"v1", "v3", "sub"} THEN CloseSock(S, T.sock) ELSE S
                     S2 == IF T.pc \in {"v1", "v3", "sub", "mk"} THEN Drop(S1) ELSE S1
                     S3 == IF T.pc = "mk" THEN CloseSock(S2, T.sock) ELSE S2
                 IN Finish([S3 EXCEPT !.lock = IF T.pc = "new" THEN S.lock ELSE FALSE], t, "cancelled")
            [] T.pc = "new" /\ w # "cancel" ->
                 IF S.lock THEN Finish(S, t, "ok")                      \* _connect_lock.locked(): return
                 ELSE LoopHead([S EXCEPT !.lock = TRUE], t)
            [] T.pc = "tcp" /\ w \in {"refused", "tmo"} ->
                 \* pop the first address; next start_connection call or give up
                 LET rem == T.rem \ {T.host} IN                          \* the address that was first in the list
                 IF rem # {} THEN [S EXCEPT !.tasks[t] = [@ EXCEPT !.rem = rem, !.wake = "none", !.tmo = (w = "tmo"),
                                                                   !.dl = At(T_CONNECT)]]
                 ELSE Fail(S, t, "generic")
            [] T.pc = "tcp" /\ w = "ok" ->
                 \* start_connection returned a socket; create_connection(sock=...) suspends once more
                 \* before the transport exists
                 [S EXCEPT !.socks = Append(@, NewSock(T.host)),
                           !.tasks[t] = [@ EXCEPT !.pc = "mk", !.wake = "go", !.dl = NoDeadline, !.sock = Len(S.socks) + 1]]
            [] T.pc = "mk" /\ w # "cancel" ->
                 \* transport/protocol assigned (overwriting), owner.connection_made(False), first request
                 LET S1 == [S EXCEPT !.cur = T.sock] IN
                 IF CanSend(S1) THEN SendReq(S1, t, "m1", "v1") ELSE Fail(S1, t, "generic")
            [] T.pc = "v1" /\ w = "r_ok" ->
                 IF CanSend(S) THEN SendReq(S, t, "m3", "v3") ELSE Fail(S, t, "generic")
            [] T.pc = "v3" /\ w = "r_ok" -> AfterVerify(S, t)
            [] T.pc = "sub" /\ w = "r_ok" ->
                 IF T.sub = 0 THEN ConnMadeReturn(S, t)
                 ELSE IF CanSend(S) THEN SendReq([S EXCEPT !.tasks[t].sub = T.sub - 1], t, "sub", "sub")
                 ELSE ConnMadeReturn([S EXCEPT !.subsOk = FALSE], t)
            [] T.pc \in {"v1", "v3"} /\ w \in {"r_wrongid", "r_auth", "r_generic"} ->
                 Fail(S, t, IF w = "r_wrongid" THEN "wrongid" ELSE IF w = "r_auth" THEN "auth" ELSE "generic")
            [] T.pc = "sub" /\ w \in {"r_generic", "r_auth", "r_wrongid"} ->
                 \* a 4xx answer to the subscription request is an (HTTP) disconnection error: subscribe()
                 \* swallows it and falls back to polling (for good); the connection stays
                 ConnMadeReturn([S EXCEPT !.subsOk = FALSE], t)
            [] T.pc \in {"v1", "v3"} /\ w \in {"lost", "tmo30"} ->
                 \* tmo30: _send_lines closes the transport (write_eof + close) and raises a disconnection
                 Fail(IF w = "tmo30" THEN CloseSock(S, T.sock) ELSE S, t, "generic")
            [] T.pc = "sub" /\ w = "r_exc" ->
                 \* owner.connection_made raised something else (e.g. KeyError on a malformed multi-status row):
                 \* the attempt failed although pair-verify had succeeded - transport dropped, back-off
                 Fail(S, t, "generic")
            [] T.pc = "sub" /\ w \in {"lost", "tmo30"} ->
                 \* subscribe() swallows the disconnection, connection_made returns; if the transport is
                 \* already gone the attempt counts as failed (see fix in /repo), else the pending loss
                 \* callback will restart the connector
                 LET S1 == IF w = "tmo30" THEN CloseSock(S, T.sock) ELSE S IN
                 ConnMadeReturn([S1 EXCEPT !.subsOk = FALSE], t)
            [] T.pc = "sleep" /\ w \in {"timer", "early"} ->
                 LoopHead([S EXCEPT !.tasks[t].slept = TRUE], t)
            [] OTHER -> S )
    /\ UNCHANGED <<now, shutdownF, descr>>

\* ------------------------------------------------------------------ timers
TaskTimerDue(t) == Alive(t) /\ tasks[t].wake = "none" /\ tasks[t].pc \in {"tcp", "v1", "v3", "sub", "sleep"}
TaskTimer(t) ==
    /\ TaskTimerDue(t)
    /\ Timed => IF LooseBackoff
                THEN LET d == now - SleepStart(tasks[t])
                         \* a sleep that follows a (silent, unlogged) time-out began at an unknown instant before `dl`
                         blind == tasks[t].pc = "sleep" /\ tasks[t].tmo
                     IN /\ (d > 0 \/ (d = 0 /\ blind)) /\ d <= CAP
                        /\ (tasks[t].pc = "sleep" /\ ~blind => d >= tasks[t].k)
                ELSE now = tasks[t].dl
    /\ \E h \in (IF tasks[t].pc = "tcp" THEN tasks[t].rem ELSE {tasks[t].host}) :
       tasks' = [tasks EXCEPT ![t].wake = CASE tasks[t].pc = "tcp" -> "tmo"
                                             [] tasks[t].pc = "sleep" -> "timer"
                                             [] OTHER -> "tmo30",
                              ![t].host = h,
                              ![t].k = IF Timed /\ LooseBackoff /\ tasks[t].pc = "sleep" /\ ~tasks[t].tmo THEN now - SleepStart(tasks[t]) ELSE @,
                              \* (loose reading) a time-out is silent: what follows it began at an unknown earlier instant
                              ![t].tmo = IF Timed /\ LooseBackoff /\ tasks[t].pc # "sleep" THEN TRUE ELSE @]
    /\ UNCHANGED <<now, socks, cur, closing, closedF, secureF, shutdownF, lock, ref, hosts, descr, failed,
                   nxUsed, callers, attempts, userClosed, subsOk, authEnded>>

\* ------------------------------------------------------------------ network / accessory (environment)
\* TCP outcome of the pending start_connection call
TcpRefused(t, h) ==
    /\ Alive(t) /\ tasks[t].pc = "tcp" /\ tasks[t].wake = "none" /\ h \in tasks[t].rem
    /\ tasks' = [tasks EXCEPT ![t].wake = "refused", ![t].host = h]
    /\ UNCHANGED <<now, socks, cur, closing, closedF, secureF, shutdownF, lock, ref, hosts, descr, failed,
                   nxUsed, callers, attempts, userClosed, subsOk, authEnded>>
TcpOk(t, h) ==
    /\ Alive(t) /\ tasks[t].pc = "tcp" /\ tasks[t].wake = "none" /\ h \in tasks[t].rem
    /\ MaxSock > 0 => Len(socks) < MaxSock
    /\ tasks' = [tasks EXCEPT ![t].wake = "ok", ![t].host = h]
    /\ UNCHANGED <<now, socks, cur, closing, closedF, secureF, shutdownF, lock, ref, hosts, descr, failed,
                   nxUsed, callers, attempts, userClosed, subsOk, authEnded>>

\* accessory reads the next request
AccRecv(s) ==
    /\ s \in Socks /\ socks[s].c2a # << >> /\ socks[s].pclose = "no"
    /\ socks' = [socks EXCEPT ![s].c2a = Tail(@), ![s].accPend = Append(@, Head(socks[s].c2a))]
    /\ UNCHANGED <<now, cur, closing, closedF, secureF, shutdownF, lock, ref, tasks, hosts, descr, failed,
                   nxUsed, callers, attempts, userClosed, subsOk, authEnded>>
ReplyKinds == {"r_ok", "r_wrongid", "r_auth", "r_generic", "r_exc"}
AccReply(s, kind) ==
    /\ s \in Socks /\ socks[s].accPend # << >> /\ socks[s].pclose = "no" /\ kind \in ReplyKinds
    /\ kind = "r_wrongid" => Head(socks[s].accPend) = "m1"      \* only M2 carries the accessory identifier
    /\ kind = "r_exc" => Head(socks[s].accPend) = "sub"         \* a reply that makes connection_made raise a non-library exception
    /\ socks' = [socks EXCEPT ![s].a2c = Append(@, kind), ![s].accPend = Tail(@)]
    /\ UNCHANGED <<now, cur, closing, closedF, secureF, shutdownF, lock, ref, tasks, hosts, descr, failed,
                   nxUsed, callers, attempts, userClosed, subsOk, authEnded>>
\* peer closes: orderly (FIN) or abortive (reset)
PeerClose(s, how) ==
    /\ s \in Socks /\ socks[s].pclose = "no" /\ how \in {"fin", "rst"}
    /\ socks' = [socks EXCEPT ![s].pclose = how, ![s].a2c = Append(@, how)]
    /\ UNCHANGED <<now, cur, closing, closedF, secureF, shutdownF, lock, ref, tasks, hosts, descr, failed,
                   nxUsed, callers, attempts, userClosed, subsOk, authEnded>>

\* the controller's transport reads from socket s (only while it is registered: not closing)
Awaiting(tk, t, s) == AliveT(tk, t) /\ tk[t].pc \in {"v1", "v3", "sub"} /\ tk[t].sock = s /\ tk[t].wake = "none"
FailFutures(tk, s) == [t \in TaskIds |-> IF Awaiting(tk, t, s) THEN [tk[t] EXCEPT !.wake = "lost"] ELSE tk[t]]
CtrlRead(s) ==
    /\ s \in Socks /\ ~socks[s].cc /\ socks[s].a2c # << >>
    /\ LET m == Head(socks[s].a2c)
           sk == [socks EXCEPT ![s].a2c = Tail(@)]
       IN CASE m = "fin" ->   \* eof_received: pending futures fail now, transport closes itself
                 /\ socks' = [sk EXCEPT ![s].cc = TRUE]
                 /\ tasks' = FailFutures(tasks, s)
            [] m = "rst" ->   \* fatal read error: transport force-closed; futures fail in connection_lost
                 /\ socks' = [sk EXCEPT ![s].cc = TRUE]
                 /\ tasks' = tasks
            [] OTHER ->       \* a response: completes the oldest pending request of this socket
                 IF \E t \in TaskIds : Awaiting(tasks, t, s)
                 THEN /\ socks' = sk
                      /\ tasks' = [t \in TaskIds |-> IF Awaiting(tasks, t, s) THEN [tasks[t] EXCEPT !.wake = m] ELSE tasks[t]]
                 ELSE \* the oldest pending future is already done (timed out / cancelled / failed, its
                      \* transport is about to be closed by the task): the response is popped and dropped
                      /\ socks' = sk
                      /\ tasks' = tasks
    /\ UNCHANGED <<now, cur, closing, closedF, secureF, shutdownF, lock, ref, hosts, descr, failed,
                   nxUsed, callers, attempts, userClosed, subsOk, authEnded>>

\* asyncio calls protocol.connection_lost for socket s
LostCallback(s) ==
    /\ s \in Socks /\ socks[s].cc /\ ~socks[s].lostRun
    /\ LET S0 == [St EXCEPT !.socks[s] = DeadSock]        \* nothing about a finished socket matters any more
           stale == S0.cur # s      \* not the connection's current transport (a newer one, or dropped on purpose): ignore
           S1 == IF stale THEN S0
                 ELSE LET D == Drop(S0) IN
                      IF D.closing THEN [D EXCEPT !.closedF = TRUE] ELSE StartConnector(D)
           S2 == [S1 EXCEPT !.tasks = FailFutures(S1.tasks, s)]      \* _cancel_pending_requests
       IN Commit(S2)
    /\ UNCHANGED <<now, shutdownF, descr>>

\* ------------------------------------------------------------------ API callers (environment + their coroutines)
Idle(c) == callers[c].pc = "idle"
\* connection.ensure_connection()
EnsureCall(c) ==
    /\ c \in Waiters /\ Idle(c) /\ ~shutdownF
    /\ LET S == St IN
       IF Connected(S)
       THEN Commit([S EXCEPT !.callers[c] = Returned("ensure", "ok")])
       ELSE LET S1 == StartReconnecting(S) IN
            Commit([S1 EXCEPT !.callers[c] = [IdleCaller EXCEPT !.kind = "ensure", !.pc = "wait", !.waitOn = S1.ref]])
    /\ UNCHANGED <<now, shutdownF, descr>>
\* IpPairing._ensure_connected(): 10 s budget, error translation
PensCall(c) ==
    /\ c \in Waiters /\ Idle(c)
    /\ LET S == St IN
       IF shutdownF \/ Connected(S)
       THEN Commit([S EXCEPT !.callers[c] = Returned("pens", "ok")])
       ELSE LET S1 == StartReconnecting(S) IN
            Commit([S1 EXCEPT !.callers[c] = [IdleCaller EXCEPT !.kind = "pens", !.pc = "wait", !.waitOn = S1.ref,
                                                                 !.dl = At(T_ENSURE)]])
    /\ UNCHANGED <<now, shutdownF, descr>>
\* the shielded wait ends (the connector finished), the caller's own timer fires, or the caller is cancelled
CallerResume(c) ==
    /\ callers[c].kind \in {"ensure", "pens"} /\ callers[c].pc = "wait" /\ callers[c].wake # "none"
    /\ LET w == callers[c].wake
           r == CASE w = "ccancel" -> "cancelled"
                  [] w = "timeout" -> "disconnected"
                  [] w = "auth" -> "auth"
                  [] w = "cancelled" -> "cancelled"
                  [] OTHER -> IF callers[c].kind = "pens" /\ ~Connected(St) THEN "disconnected" ELSE "ok"
       IN callers' = [callers EXCEPT ![c] = Returned(callers[c].kind, r)]
    /\ UNCHANGED <<now, socks, cur, closing, closedF, secureF, shutdownF, lock, ref, tasks, hosts, descr, failed,
                   nxUsed, attempts, userClosed, subsOk, authEnded>>
CallerTimerDue(c) == callers[c].pc = "wait" /\ callers[c].kind = "pens" /\ callers[c].wake = "none"
CallerTimer(c) ==
    /\ CallerTimerDue(c)
    /\ Timed => IF LooseBackoff THEN now > callers[c].dl /\ now <= callers[c].dl + CAP ELSE now = callers[c].dl
    /\ callers' = [callers EXCEPT ![c].wake = "timeout"]
    /\ UNCHANGED <<now, socks, cur, closing, closedF, secureF, shutdownF, lock, ref, tasks, hosts, descr, failed,
                   nxUsed, attempts, userClosed, subsOk, authEnded>>
CallerCancel(c) ==      \* the caller's own cancellation / outer timeout: must not touch the connector (shield)
    /\ callers[c].pc = "wait" /\ callers[c].kind \in {"ensure", "pens"}
    /\ callers' = [callers EXCEPT ![c].wake = "ccancel"]
    /\ UNCHANGED <<now, socks, cur, closing, closedF, secureF, shutdownF, lock, ref, tasks, hosts, descr, failed,
                   nxUsed, attempts, userClosed, subsOk, authEnded>>
\* the harness consumed the result; the caller id can be used again
CallerReturn(c) ==
    /\ callers[c].pc = "done"
    /\ callers' = [callers EXCEPT ![c] = IdleCaller]
    /\ UNCHANGED <<now, socks, cur, closing, closedF, secureF, shutdownF, lock, ref, tasks, hosts, descr, failed,
                   nxUsed, attempts, userClosed, subsOk, authEnded>>

\* connection.reconnect_soon()
ReconnectSoonS(S) ==
    IF \E t \in TaskIds : AliveT(S.tasks, t) /\ S.tasks[t].pc = "sleep" /\ S.tasks[t].wake \in {"none", "timer"}
    THEN [S EXCEPT !.tasks = [t \in TaskIds |->
              IF AliveT(S.tasks, t) /\ S.tasks[t].pc = "sleep" /\ S.tasks[t].wake = "none"
              THEN [S.tasks[t] EXCEPT !.wake = "early"] ELSE S.tasks[t]]]
    ELSE StartReconnecting(S)
ReconnectSoon ==
    /\ ~shutdownF
    /\ Commit(ReconnectSoonS(St))
    /\ UNCHANGED <<now, shutdownF, descr>>
\* zeroconf: new description for this pairing (IpPairing._async_description_update)
DescrUpdate(H) ==
    /\ H \in (SUBSET AllHosts) \ {{}}
    /\ IF shutdownF THEN UNCHANGED <<cvars>>
       ELSE /\ descr' = H
            /\ Commit(ReconnectSoonS(St))
            /\ UNCHANGED shutdownF
    /\ UNCHANGED now

\* close() / shutdown()
CloseCall(c, sd) ==
    /\ c \in Closers /\ Idle(c)
    /\ shutdownF' = (shutdownF \/ sd)
    /\ LET S0 == [St EXCEPT !.closing = TRUE]
           r == S0.ref
       IN IF r = 0 \/ ~AliveT(S0.tasks, r)
          THEN \* no connector, or `await finished_task` returns/raises at once (its exception is swallowed: fix)
               Commit([Drop(S0) EXCEPT !.secureF = FALSE, !.userClosed = "closed",
                       !.callers[c] = [IdleCaller EXCEPT !.kind = "close", !.pc = "yield"]])
          ELSE Commit([S0 EXCEPT !.tasks[r].wake = "cancel",
                       !.callers[c] = [IdleCaller EXCEPT !.kind = "close", !.pc = "wait", !.waitOn = r]])
    /\ UNCHANGED <<now, descr>>
CloseResume(c) ==      \* the cancelled connector finished; drop the transport
    /\ callers[c].kind = "close" /\ callers[c].pc = "wait" /\ callers[c].wake # "none"
    /\ Commit([Drop(St) EXCEPT !.secureF = FALSE, !.userClosed = IF callers[c].res = "sup" THEN @ ELSE "closed",
                              !.callers[c] = [@ EXCEPT !.pc = "yield", !.wake = "none", !.res = "none"]])
    /\ UNCHANGED <<now, shutdownF, descr>>
CloseYield(c) ==       \* IpPairing.close(): await asyncio.sleep(0)
    /\ callers[c].kind = "close" /\ callers[c].pc = "yield"
    /\ callers' = [callers EXCEPT ![c] = Returned("close", "ok")]
    /\ UNCHANGED <<now, socks, cur, closing, closedF, secureF, shutdownF, lock, ref, tasks, hosts, descr, failed,
                   nxUsed, attempts, userClosed, subsOk, authEnded>>

\* ------------------------------------------------------------------ time
Deadlines == {(IF LooseBackoff THEN SleepStart(tasks[t]) + CAP ELSE tasks[t].dl) :
                  t \in {u \in TaskIds : TaskTimerDue(u)}} \cup
             {(IF LooseBackoff THEN callers[c].dl + CAP ELSE callers[c].dl) : c \in {d \in Callers : CallerTimerDue(d)}}
\* nothing can run without the passage of time or a new stimulus
InternalEnabled ==
    \/ \E t \in TaskIds : Alive(t) /\ tasks[t].wake # "none"
    \/ \E s \in Socks : socks[s].cc /\ ~socks[s].lostRun
    \/ \E s \in Socks : ~socks[s].cc /\ socks[s].a2c # << >>
    \/ \E s \in Socks : socks[s].c2a # << >> /\ socks[s].pclose = "no"
    \/ \E c \in Callers : callers[c].pc = "wait" /\ callers[c].wake # "none"
    \/ \E c \in Callers : callers[c].pc = "yield"
Quiescent == ~InternalEnabled
Tick(t) ==
    /\ Timed /\ t > now /\ Quiescent
    /\ \A d \in Deadlines : t <= d
    /\ now' = t
    /\ UNCHANGED cvars

\* ------------------------------------------------------------------ specification
Init ==
    /\ now = 0 /\ socks = << >> /\ cur = 0 /\ closing = FALSE /\ closedF = FALSE /\ secureF = FALSE
    /\ shutdownF = FALSE /\ lock = FALSE /\ ref = 0 /\ tasks = [t \in TaskIds |-> DeadTask]
    /\ hosts = InitHosts /\ descr = {} /\ failed = {} /\ nxUsed = {}
    /\ callers = [c \in Callers |-> IdleCaller] /\ attempts = 0 /\ userClosed = "open" /\ subsOk = TRUE /\ authEnded = FALSE

Internal ==
    \/ \E t \in TaskIds : TaskRun(t) \/ TaskTimer(t)
    \/ \E s \in 1..Len(socks) : CtrlRead(s) \/ LostCallback(s)
    \/ \E c \in Callers : CallerResume(c) \/ CallerTimer(c) \/ CloseResume(c) \/ CloseYield(c)

Env ==
    \/ \E t \in TaskIds, h \in AllHosts : TcpRefused(t, h) \/ TcpOk(t, h)
    \/ \E s \in 1..Len(socks) : AccRecv(s) \/ (\E k \in ReplyKinds : AccReply(s, k)) \/ PeerClose(s, "fin") \/ PeerClose(s, "rst")
    \/ \E c \in Callers : EnsureCall(c) \/ PensCall(c) \/ CallerCancel(c) \/ CallerReturn(c)
                          \/ CloseCall(c, FALSE) \/ CloseCall(c, TRUE)
    \/ ReconnectSoon
    \/ \E H \in SUBSET AllHosts : DescrUpdate(H)

Next == Internal \/ Env
Spec == Init /\ [][Next]_vars

\* ------------------------------------------------------------------ properties
TypeOK ==
    /\ cur \in 0..Len(socks) /\ ref \in TaskIds \cup {0}
    /\ \A t \in TaskIds : tasks[t].pc \in {"dead", "new", "tcp", "mk", "v1", "v3", "sub", "sleep", "ok", "auth", "cancelled"}

\* ---- C11
AtMostOneOpen == Cardinality(OpenSet) <= 1
AtMostOneHeld == Cardinality(HeldSet) <= 1
\* the connection's own reference always designates the only socket it still holds
HeldIsCurrent == \A s \in HeldSet : s = cur \/ (\E t \in TaskIds : Alive(t) /\ tasks[t].pc \in {"tcp", "mk"} /\ tasks[t].sock = s)
\* close()/shutdown() always complete (never raise) and afterwards nothing is held
AfterCloseNothingHeld == userClosed = "closed" => HeldSet = {}
\* ... and nothing attempts to connect until an explicit trigger re-opens it
NoSpontaneousAttemptAfterClose == userClosed = "closed" => {t \in TaskIds : tasks[t].pc \notin FinalPcs} = {}
\* the loss callback of a socket that is not the current one leaves the current one alone
StaleLossHarmless ==
    [][\A s \in 1..Len(socks) : (socks[s].cc /\ ~socks[s].lostRun /\ socks'[s].lostRun /\ cur # 0 /\ cur # s)
            => (cur' = cur /\ socks'[cur].cc = socks[cur].cc)]_vars

\* ---- C10
LiveTasks == {t \in TaskIds : Alive(t)}
SingleConnector == Cardinality(LiveTasks) <= 1
AttemptingTasks == {t \in TaskIds : Alive(t) /\ tasks[t].pc \in {"tcp", "mk", "v1", "v3", "sub"}}
SingleAttempt == Cardinality(AttemptingTasks) <= 1
\* every start_connection call gets a non-empty list of advertised hosts
HostsNeverEmpty == \A t \in TaskIds : (Alive(t) /\ tasks[t].pc = "tcp") => (tasks[t].rem # {} /\ tasks[t].rem \subseteq hosts)
\* exclusions never cover every advertised host once an attempt starts
ExclusionEnds == \A t \in TaskIds : (Alive(t) /\ tasks[t].pc = "tcp") => hosts \ failed # {}
\* an attempt that follows a failure in the same connector run was preceded by a sleep, except under
\* the next-address rule (slept is reset by every failure and set by the sleep / the next-address branch)
BackoffBeforeRetry == \A t \in TaskIds : (Alive(t) /\ tasks[t].pc \in {"tcp", "mk", "v1", "v3", "sub"}) => tasks[t].slept
\* the immediate retry is taken at most once per address per exclusion epoch
NextAddressOnce == nxUsed \subseteq failed
\* the connector only ends by success, authentication failure or cancellation (pc domain), and a
\* pairing that is open, not connected and not ended by authentication always has work scheduled
PendingLoss == \E s \in Socks : socks[s].cc /\ ~socks[s].lostRun
UnreadLoss == \E s \in Socks : ~socks[s].cc /\ socks[s].a2c # << >>
NotStuck ==
    (/\ userClosed = "open" /\ subsOk = TRUE /\ authEnded = FALSE /\ ~shutdownF /\ attempts > 0
     /\ ~\E c \in Callers : callers[c].kind = "close" /\ callers[c].pc = "wait"
     /\ ~Connected(St)
     /\ LiveTasks = {}
     /\ ~PendingLoss /\ ~UnreadLoss)
    => (ref # 0 /\ tasks[ref].pc = "auth")
\* an authentication failure ends the retries: nothing runs until an explicit trigger (ensure / reconnect_soon /
\* description update) asks again
\* (authEnded is a history variable: set when a connector ends with the authentication error, cleared by a trigger)
AuthEndsRetries == authEnded => LiveTasks = {}
\* after shutdown has completed nothing ever attempts again
NoAttemptAfterShutdown ==
    (shutdownF /\ \A c \in Callers : callers[c].kind = "close" => callers[c].pc \in {"done", "idle"}) => LiveTasks = {}
\* a waiting caller never changes the connector (shield): cancelling / timing out a caller leaves tasks alone
ShieldRespected ==
    [][\A c \in Callers : (callers[c].pc = "wait" /\ callers'[c].pc = "wait" /\ callers[c].wake = "none"
                            /\ callers'[c].wake \in {"ccancel", "timeout"}) => tasks' = tasks]_vars
\* waiting callers are attached to a live connector or already woken
WaiterAttached ==
    \A c \in Callers : (callers[c].pc = "wait" /\ callers[c].wake = "none") => Alive(callers[c].waitOn)

\* "keeps trying" as a temporal property: an open pairing that is not connected and was not ended by an
\* authentication failure always gets another attempt (or gets connected / closed / ended)
NeedsWork == userClosed = "open" /\ ~shutdownF /\ attempts > 0 /\ ~Connected(St) /\ ~authEnded
KeepsTrying == [](NeedsWork => <>(~NeedsWork \/ \E t \in TaskIds : Alive(t) /\ tasks[t].pc = "tcp"))
\* liveness (checked with fairness on the internal steps, untimed)
Fairness == /\ \A t \in TaskIds : WF_vars(TaskRun(t)) /\ WF_vars(TaskTimer(t))
            /\ \A s \in 1..4 : WF_vars(CtrlRead(s)) /\ WF_vars(LostCallback(s))
            /\ \A t \in TaskIds, h \in AllHosts : WF_vars(TcpRefused(t, h))     \* a pending connect eventually resolves
            /\ \A c \in Callers : WF_vars(CallerResume(c)) /\ WF_vars(CloseResume(c)) /\ WF_vars(CloseYield(c))
LiveSpec == Spec /\ Fairness
=============================================================================
