SPECIFICATION TSpec
CONSTANTS
  Reqs = {1, 2, 3, 4, 5, 6, 7, 8, 9, 10, 11, 12}
  MaxSock = 0
  MaxEv = 1000000
  MaxUnsol = 1000
  Limit = 2
  Timed = TRUE
CONSTRAINT TConstraint
INVARIANT OwnResponse
INVARIANT EventsInOrder
INVARIANT SemConsistent
INVARIANT NoOrphan
POSTCONDITION Accepted
CHECK_DEADLOCK FALSE
