SPECIFICATION Spec
CONSTANTS
  AllHosts = {h1}
  InitHosts = {h1}
  MaxSock = 2
  MaxK = 1
  TaskIds = {1, 2}
  Callers = {1, 2}
  Waiters = {1}
  Closers = {2}
  SubAids = 1
  Timed = FALSE
INVARIANT TypeOK
INVARIANT AtMostOneOpen
INVARIANT AtMostOneHeld
INVARIANT HeldIsCurrent
INVARIANT AfterCloseNothingHeld
INVARIANT NoSpontaneousAttemptAfterClose
INVARIANT SingleConnector
INVARIANT SingleAttempt
INVARIANT HostsNeverEmpty
INVARIANT ExclusionEnds
INVARIANT BackoffBeforeRetry
INVARIANT NextAddressOnce
INVARIANT NotStuck
INVARIANT AuthEndsRetries
INVARIANT NoAttemptAfterShutdown
INVARIANT WaiterAttached
PROPERTY StaleLossHarmless
PROPERTY ShieldRespected
CHECK_DEADLOCK FALSE
