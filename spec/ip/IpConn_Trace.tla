---------------------------- MODULE IpConn_Trace ----------------------------
(* Trace validation for IpConn: executions of the real HomeKitConnection / IpPairing recorded at
   the socket boundary (simulated network + accessory) and at the public API are accepted iff
   they are behaviours of IpConn (Timed = TRUE).  Unlogged internal steps (task steps without an
   observable effect, transport callbacks, timers) are inferred by TLC.

   A batch file holds many traces (one JSON object per line: {"hosts": [...], "events": [...]});
   Init picks one; the furthest position reached per trace is kept in a TLC register and the
   post-condition requires every trace to have been consumed completely. *)
EXTENDS IpConn, Json, IOUtils, TLCExt

Traces == ndJsonDeserialize(IOEnv.TRACE_FILE)

VARIABLES tid, l
tvars == <<vars, tid, l>>

Ev == Traces[tid].events
ToSet(seq) == {seq[i] : i \in 1..Len(seq)}
HasEv == l <= Len(Ev)
E == Ev[l]
\* consume the next event: it must be of kind k and happen at the current time
IsEvent(k) == HasEv /\ E.ev = k /\ E.t = now /\ l' = l + 1 /\ UNCHANGED tid

TInit ==
    /\ tid \in 1..Len(Traces)
    /\ l = 1
    /\ now = 0 /\ socks = << >> /\ cur = 0 /\ closing = FALSE /\ closedF = FALSE /\ secureF = FALSE
    /\ shutdownF = FALSE /\ lock = FALSE /\ ref = 0 /\ tasks = [t \in TaskIds |-> DeadTask]
    /\ hosts = ToSet(Traces[tid].hosts) /\ descr = {} /\ failed = {} /\ nxUsed = {}
    /\ callers = [c \in Callers |-> IdleCaller] /\ attempts = 0 /\ userClosed = "open" /\ subsOk = TRUE /\ authEnded = FALSE

\* ---- task steps: a step that enters start_connection emits tcp_call, the step that receives the
\* socket emits tcp_ok, every other step is silent
EmitsTcpCall(t) == tasks'[t].pc = "tcp" /\ tasks'[t].wake = "none" /\ (tasks[t].pc # "tcp" \/ tasks'[t].rem # tasks[t].rem)
EmitsTcpOk(t) == tasks[t].pc = "tcp" /\ tasks[t].wake = "ok"

TrTcpCall == /\ IsEvent("tcp_call")
             /\ \E t \in TaskIds : TaskRun(t) /\ EmitsTcpCall(t) /\ tasks'[t].rem = ToSet(E.hosts)
TrTcpOk ==   /\ IsEvent("tcp_ok")
             /\ \E t \in TaskIds : TaskRun(t) /\ EmitsTcpOk(t) /\ Len(socks') = E.conn /\ tasks[t].host = E.host
SilentTask == /\ \E t \in TaskIds : TaskRun(t) /\ ~EmitsTcpCall(t) /\ ~EmitsTcpOk(t)
              /\ UNCHANGED <<tid, l>>

\* ---- stimuli and observations
TrTcpRes == /\ IsEvent("tcp_res")
            /\ \E t \in TaskIds : IF E.out = "ok" THEN TcpOk(t, E.host) ELSE TcpRefused(t, E.host)
Dead(s) == s \in Socks /\ socks[s].pclose = "dead"
TrAccRx ==  /\ IsEvent("acc_rx")
            /\ IF Dead(E.conn) THEN UNCHANGED vars       \* bytes written before the controller dropped the socket
               ELSE AccRecv(E.conn) /\ Head(socks[E.conn].c2a) = E.kind
TrAccTx ==  /\ IsEvent("acc_tx")
            /\ IF Dead(E.conn) THEN UNCHANGED vars ELSE AccReply(E.conn, E.kind)
TrPeerClose == /\ IsEvent("peer_close")
               /\ IF Dead(E.conn) THEN UNCHANGED vars ELSE PeerClose(E.conn, E.how)
TrAccEof == /\ IsEvent("acc_eof")                        \* the accessory saw the controller close: it must have
            /\ E.conn \in Socks /\ socks[E.conn].cc      \* closed (or be closing) that transport
            /\ UNCHANGED vars
TrCall ==   /\ IsEvent("call")
            /\ CASE E.api = "ensure"   -> EnsureCall(E.c)
                 [] E.api = "pens"     -> PensCall(E.c)
                 [] E.api = "close"    -> CloseCall(E.c, FALSE)
                 [] E.api = "shutdown" -> CloseCall(E.c, TRUE)
TrRet ==    /\ IsEvent("ret")
            /\ callers[E.c].res = E.res
            /\ CallerReturn(E.c)
TrCancel == IsEvent("cancel") /\ CallerCancel(E.c)
TrRsoon ==  IsEvent("rsoon") /\ ReconnectSoon
TrDescr ==  IsEvent("descr") /\ DescrUpdate(ToSet(E.hosts))
\* after a full settle the harness reports what is visible from outside
TrObs ==    /\ IsEvent("obs")
            /\ Quiescent
            /\ ToSet(E.open) = OpenSet
            /\ E.connected = Connected(St)
            /\ UNCHANGED vars
\* the run ended after a long honest tail: nothing may be pending except sleeping/timers, and the
\* safety form of "keeps trying" must hold
TrEnd ==    /\ IsEvent("end")
            /\ Quiescent
            /\ UNCHANGED vars

\* ---- silent steps
SilentOther ==
    /\ \/ \E t \in TaskIds : TaskTimer(t)
       \/ \E s \in 1..Len(socks) : CtrlRead(s) \/ LostCallback(s)
       \/ \E c \in Callers : CallerResume(c) \/ CallerTimer(c) \/ CloseResume(c) \/ CloseYield(c)
    /\ UNCHANGED <<tid, l>>
\* time passes only when nothing else can run, up to the next deadline or the next logged event
NextTime == IF HasEv THEN E.t ELSE now
Advance ==
    /\ HasEv /\ E.t > now /\ Quiescent
    /\ LET cand == {d \in Deadlines : d > now /\ d <= E.t} \cup {E.t}
           nt == CHOOSE x \in cand : \A y \in cand : x <= y
       IN now' = nt
    /\ \A d \in Deadlines : d >= now            \* no timer was skipped
    /\ UNCHANGED <<cvars, tid, l>>

TNext == TrTcpCall \/ TrTcpOk \/ SilentTask \/ TrTcpRes \/ TrAccRx \/ TrAccTx \/ TrPeerClose \/ TrAccEof
         \/ TrCall \/ TrRet \/ TrCancel \/ TrRsoon \/ TrDescr \/ TrObs \/ TrEnd \/ SilentOther \/ Advance
LooseOn == TRUE
TSpec == TInit /\ [][TNext]_tvars

\* ---- acceptance bookkeeping (workers = 1)
Progress == TLCSet(tid, IF TLCGet(tid) < l THEN l ELSE TLCGet(tid))
TConstraint == Progress
ASSUME \A i \in 1..Len(Traces) : TLCSet(i, 0)
Accepted ==
    /\ TLCGet("stats").generated >= 0
    /\ \A i \in 1..Len(Traces) :
          IF TLCGet(i) = Len(Traces[i].events) + 1 THEN TRUE
          ELSE PrintT(<<"REJECTED", i, TLCGet(i)>>)
\* debugging aid: a counterexample to this "invariant" is the longest matched prefix of a rejected trace
DbgL == CHOOSE n \in 0..100000 : ToString(n) = IOEnv.DBG_L
DebugNotReached == l < DbgL
\* ... and a counterexample to this one is a settled state at that position (what an `obs` is compared with)
DebugNotQuiescentAt == ~(l = DbgL /\ Quiescent)
=============================================================================
