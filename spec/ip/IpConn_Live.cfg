SPECIFICATION LiveSpec
CONSTANTS
  AllHosts = {h1}
  InitHosts = {h1}
  MaxSock = 1
  MaxK = 1
  TaskIds = {1, 2}
  Callers = {1}
  Waiters = {1}
  Closers = {1}
  SubAids = 1
  Timed = FALSE
PROPERTY KeepsTrying
CHECK_DEADLOCK FALSE
