------------------------------- MODULE IpReq -------------------------------
(* Request plane of one HomeKitConnection object across successive sockets
   (controller/ip/connection.py: request(), _send_lines(), data_received(), eof_received(),
   connection_lost(), _cancel_pending_requests()).

   Callers issue requests (serialised by the connection's semaphore, limit 1); the accessory answers
   the oldest unanswered request of a socket, may push EVENT messages at any time, may send an
   unsolicited response, may close (FIN / reset); responses may arrive in two pieces; the 30 s
   request timer may fire; callers may be cancelled at any point.  The background connector is part
   of the environment here: a new secure session (socket) may come up whenever the previous socket
   is gone (action SessionUp).

   Time as in IpConn: ticks of 1/4096 s; Timed = FALSE lets timers fire at any moment. *)
EXTENDS Naturals, FiniteSets, Sequences, TLC

CONSTANTS Reqs,        \* request identifiers (each issued at most once)
          MaxSock,     \* sockets ever created (0 = unbounded)
          MaxEv,       \* events the accessory may push per socket
          MaxUnsol,    \* unsolicited responses overall
          Limit,       \* capacity of the connection's semaphore (1 as the library constructs secure connections;
                       \* HomeKitConnection accepts a larger concurrency_limit)
          Timed

VARIABLES now, socks, cur, sem, semQ, reqs, evLog, unsol, wantUp

vars == <<now, socks, cur, sem, semQ, reqs, evLog, unsol, wantUp>>

TPS == 4096
T_REQUEST == 30 * TPS
At(d) == IF Timed THEN now + d ELSE 0

NewSock == [st |-> "up", cbs |-> << >>, c2a |-> << >>, a2c |-> << >>, pclose |-> "no",
            accPend |-> << >>, accHalf |-> 0, evSent |-> 0, evRead |-> 0, lostRun |-> FALSE,
            paused |-> FALSE,      \* the accessory stopped reading this socket (hung)
            blocked |-> FALSE]     \* the controller's transport holds unflushed bytes: its close completes only when
                                   \* the socket dies
IdleReq == [pc |-> "idle", sock |-> 0, wake |-> "none", dl |-> 0, res |-> "none", from |-> 0]

Socks == 1..Len(socks)
\* a2c messages: <<"resp", r>>, <<"half", r>> (first piece of the response to r), <<"rest", r>>,
\* <<"event", s, n>>, <<"unsol", 0>>, <<"fin", 0>>, <<"rst", 0>>

\* ------------------------------------------------------------------ helpers (functional style)
\* fail every pending future of socket s (_cancel_pending_requests): they are popped from cbs
FailPending(rq, sk, s) ==
    [r \in Reqs |-> IF rq[r].pc = "inflight" /\ rq[r].sock = s /\ rq[r].wake = "none"
                          /\ (\E i \in 1..Len(sk[s].cbs) : sk[s].cbs[i] = r)
                    THEN [rq[r] EXCEPT !.wake = "lost"] ELSE rq[r]]

\* semaphore release: hand over to the next waiter (its acquire() future is completed)
\* (sem = set of requests holding a permit; r gives its permit back)
ReleaseOf(S, r) ==
    IF S.semQ = << >> THEN [S EXCEPT !.sem = @ \ {r}]
    ELSE LET n == Head(S.semQ) IN
         [S EXCEPT !.sem = (@ \ {r}) \cup {n}, !.semQ = Tail(@),
                   !.reqs[n].wake = IF S.reqs[n].wake = "none" THEN "sem" ELSE S.reqs[n].wake]

St == [socks |-> socks, cur |-> cur, sem |-> sem, semQ |-> semQ, reqs |-> reqs]
Commit(S) == /\ socks' = S.socks /\ cur' = S.cur /\ sem' = S.sem /\ semQ' = S.semQ /\ reqs' = S.reqs

\* the part of request() after the semaphore is held: protocol check, transport check, write
SendOrFail(S, r) ==
    IF S.cur = 0 \/ S.cur # S.reqs[r].sock THEN      \* no protocol, or not the one the request was issued on
        ReleaseOf([S EXCEPT !.reqs[r] = [@ EXCEPT !.pc = "done", !.res = "disconnected", !.wake = "none", !.dl = At(0)]], r)
    ELSE IF S.socks[S.cur].st # "up" THEN                       \* transport.is_closing()
        ReleaseOf([S EXCEPT !.reqs[r] = [@ EXCEPT !.pc = "done", !.res = "disconnected", !.wake = "none", !.dl = At(0)]], r)
    ELSE [S EXCEPT !.socks[S.cur].cbs = Append(@, r), !.socks[S.cur].c2a = Append(@, r),
                   !.reqs[r] = [@ EXCEPT !.pc = "inflight", !.sock = S.cur, !.wake = "none", !.dl = At(T_REQUEST)]]

\* A write to a socket whose peer has already closed may fail at once (EPIPE on a local socket; on TCP
\* the first write usually still succeeds): asyncio then force-closes the transport without reading what
\* is still buffered.  `werr` says whether that happens.
WriteErr(S, r, werr) ==
    LET s == S.reqs[r].sock IN
    IF werr /\ S.reqs[r].pc = "inflight" /\ s # 0 /\ S.socks[s].pclose # "no" /\ S.socks[s].st = "up"
    THEN [S EXCEPT !.socks[s].st = "closing", !.socks[s].a2c = << >>] ELSE S

\* transport.close() by the controller
CloseTransport(S, s) == IF S.socks[s].st = "up" THEN [S EXCEPT !.socks[s].st = "closing"] ELSE S

\* ------------------------------------------------------------------ callers
\* big: a request too large for the socket buffers; written to a socket the accessory does not read it leaves
\* unflushed bytes in the transport
Blocks(S, r, big) ==
    LET s == S.reqs[r].sock IN
    IF big /\ S.reqs[r].pc = "inflight" /\ s # 0 /\ S.socks[s].paused THEN [S EXCEPT !.socks[s].blocked = TRUE] ELSE S
Issue(r, werr, big) ==
    /\ reqs[r].pc = "idle"
    /\ LET S == St IN
       IF S.cur = 0 THEN Commit([S EXCEPT !.reqs[r] = [@ EXCEPT !.pc = "done", !.res = "disconnected", !.dl = At(0)]])
       ELSE IF Cardinality(S.sem) < Limit THEN Commit(Blocks(WriteErr(SendOrFail([S EXCEPT !.sem = @ \cup {r}, !.reqs[r].sock = S.cur], r), r, werr), r, big))
       ELSE Commit([S EXCEPT !.semQ = Append(@, r), !.reqs[r].pc = "semwait", !.reqs[r].sock = S.cur])
    /\ UNCHANGED <<now, evLog, unsol, wantUp>>

CallerCancel(r) ==
    /\ reqs[r].pc \in {"semwait", "inflight"}
    /\ reqs' = [reqs EXCEPT ![r].wake = "cancel"]
    /\ UNCHANGED <<now, socks, cur, sem, semQ, evLog, unsol, wantUp>>

\* the caller's task continues
ReqRun(r, werr) ==
    /\ reqs[r].wake # "none"
    /\ LET R == reqs[r]
           w == R.wake
           S == St
       IN Commit(
          CASE R.pc = "semwait" /\ w = "sem" -> WriteErr(SendOrFail(S, r), r, werr)
            [] R.pc = "semwait" /\ w = "cancel" ->
                 \* CancelledError inside Semaphore.acquire(): leave the queue; if the semaphore had
                 \* already been handed to us, pass it on
                 LET S1 == [S EXCEPT !.semQ = SelectSeq(@, LAMBDA x : x # r),
                                     !.reqs[r] = [@ EXCEPT !.pc = "done", !.res = "cancelled", !.wake = "none", !.dl = At(0)]]
                 IN IF r \in S.sem THEN ReleaseOf(S1, r) ELSE S1
            [] R.pc = "inflight" /\ w = "resp" ->
                 ReleaseOf([S EXCEPT !.reqs[r] = [@ EXCEPT !.pc = "done", !.res = "resp", !.wake = "none", !.dl = At(0)]], r)
            [] R.pc = "inflight" /\ w \in {"timeout", "cancel", "lost"} ->
                 \* _send_lines: except -> transport.write_eof(); transport.close(); raise
                 LET S1 == CloseTransport(S, R.sock) IN
                 ReleaseOf([S1 EXCEPT !.reqs[r] = [@ EXCEPT !.pc = "done", !.wake = "none", !.dl = At(0),
                                                  !.res = IF w = "cancel" THEN "cancelled" ELSE "disconnected"]], r)
            [] OTHER -> S)
    /\ UNCHANGED <<now, evLog, unsol, wantUp>>

TimerDue(r) == reqs[r].pc = "inflight" /\ reqs[r].wake = "none"
TimerFire(r) ==
    /\ TimerDue(r)
    /\ Timed => now = reqs[r].dl
    /\ reqs' = [reqs EXCEPT ![r].wake = "timeout"]
    /\ UNCHANGED <<now, socks, cur, sem, semQ, evLog, unsol, wantUp>>

\* ------------------------------------------------------------------ accessory / network
AccPause(s) ==
    /\ s \in Socks /\ socks[s].pclose = "no" /\ ~socks[s].paused /\ socks[s].c2a = << >>
    /\ socks' = [socks EXCEPT ![s].paused = TRUE]
    /\ UNCHANGED <<now, cur, sem, semQ, reqs, evLog, unsol, wantUp>>
AccRecv(s) ==
    /\ s \in Socks /\ socks[s].c2a # << >> /\ socks[s].pclose = "no" /\ ~socks[s].paused
    /\ socks' = [socks EXCEPT ![s].c2a = Tail(@), ![s].accPend = Append(@, Head(socks[s].c2a))]
    /\ UNCHANGED <<now, cur, sem, semQ, reqs, evLog, unsol, wantUp>>
\* a conformant accessory answers the oldest unanswered request, whole or in two pieces (the second
\* piece follows the first with nothing in between on that socket, but anything may happen elsewhere)
AccRespond(s, piece) ==
    /\ s \in Socks /\ socks[s].pclose = "no" /\ piece \in {"resp", "half", "rest"}
    /\ IF piece = "rest" THEN socks[s].accHalf # 0 ELSE socks[s].accHalf = 0 /\ socks[s].accPend # << >>
    /\ LET r == IF piece = "rest" THEN socks[s].accHalf ELSE Head(socks[s].accPend) IN
       socks' = [socks EXCEPT ![s].accPend = IF piece = "rest" THEN @ ELSE Tail(@),
                              ![s].accHalf = IF piece = "half" THEN r ELSE 0,
                              ![s].a2c = Append(@, <<piece, r>>)]
    /\ UNCHANGED <<now, cur, sem, semQ, reqs, evLog, unsol, wantUp>>
AccEvent(s) ==
    /\ s \in Socks /\ socks[s].pclose = "no" /\ socks[s].accHalf = 0
    /\ socks[s].evSent < MaxEv
    /\ socks' = [socks EXCEPT ![s].evSent = @ + 1, ![s].a2c = Append(@, <<"event", socks[s].evSent + 1>>)]
    /\ UNCHANGED <<now, cur, sem, semQ, reqs, evLog, unsol, wantUp>>
\* An unsolicited response.  On the wire it cannot be told from the response to a request written while
\* it was in flight (that race is inherent to the protocol), so the environment sends one only while the
\* controller has nothing outstanding on s and it is read before anything else happens: data_received finds
\* no pending future, raises, and asyncio force-closes the transport.
AccUnsolicited(s) ==
    /\ s \in Socks /\ socks[s].pclose = "no" /\ socks[s].accPend = << >> /\ socks[s].c2a = << >> /\ socks[s].accHalf = 0
    /\ socks[s].st = "up" /\ socks[s].cbs = << >> /\ socks[s].a2c = << >>
    /\ unsol < MaxUnsol
    /\ unsol' = unsol + 1
    /\ socks' = [socks EXCEPT ![s].st = "closing"]
    /\ UNCHANGED <<now, cur, sem, semQ, reqs, evLog, wantUp>>
PeerClose(s, how) ==
    /\ s \in Socks /\ socks[s].pclose = "no" /\ how \in {"fin", "rst"}
    /\ socks' = [socks EXCEPT ![s].pclose = how, ![s].a2c = Append(@, <<how, 0>>)]
    /\ UNCHANGED <<now, cur, sem, semQ, reqs, evLog, unsol, wantUp>>

\* an accessory that had only shut down its sending side (FIN) finally dies: the reset reaches a socket whose FIN may
\* never have been read (closing transport with unflushed data)
PeerAbort(s) ==
    /\ s \in Socks /\ socks[s].pclose = "fin"
    /\ socks' = [socks EXCEPT ![s].pclose = "rst", ![s].a2c = Append(@, <<"rst", 0>>)]
    /\ UNCHANGED <<now, cur, sem, semQ, reqs, evLog, unsol, wantUp>>

\* the transport reads the next message of socket s (only while not closing)
CtrlRead(s) ==
    /\ s \in Socks /\ socks[s].st = "up" /\ socks[s].a2c # << >>
    /\ LET m == Head(socks[s].a2c)
           sk == [socks EXCEPT ![s].a2c = Tail(@)]
       IN CASE m[1] = "half" -> /\ socks' = sk /\ UNCHANGED <<reqs, evLog>>      \* buffered, message incomplete
            [] m[1] \in {"resp", "rest", "unsol"} ->
                 IF sk[s].cbs = << >>
                 THEN \* nothing pending: data_received raises, asyncio force-closes the transport
                      /\ socks' = [sk EXCEPT ![s].st = "closing"] /\ UNCHANGED <<reqs, evLog>>
                 ELSE LET r == Head(sk[s].cbs) IN
                      /\ socks' = [sk EXCEPT ![s].cbs = Tail(@)]
                      /\ reqs' = IF reqs[r].wake = "none" /\ reqs[r].pc = "inflight"
                                 THEN [reqs EXCEPT ![r].wake = "resp", ![r].from = m[2]] ELSE reqs
                      /\ UNCHANGED evLog
            [] m[1] = "event" ->
                 /\ socks' = [sk EXCEPT ![s].evRead = @ + 1]
                 /\ evLog' = Append(evLog, <<s, m[2]>>)
                 /\ UNCHANGED reqs
            [] m[1] = "fin" ->      \* eof_received: fail pending futures, transport closes
                 /\ reqs' = FailPending(reqs, sk, s)
                 /\ socks' = [sk EXCEPT ![s].st = "closing", ![s].cbs = << >>]
                 /\ UNCHANGED evLog
            [] m[1] = "rst" ->
                 /\ socks' = [sk EXCEPT ![s].st = "closing"] /\ UNCHANGED <<reqs, evLog>>
    /\ UNCHANGED <<now, cur, sem, semQ, unsol, wantUp>>

\* protocol.connection_lost for socket s
\* (a transport with unflushed bytes reports the loss only once the socket has died)
\* (a transport that is closing with unflushed data has stopped reading: a FIN from the peer is not seen, only a reset -
\* which makes the pending write fail - ends it; otherwise it lingers until the requests' own 30 s timers have fired)
LossDue(s) == socks[s].st = "closing" /\ ~socks[s].lostRun /\ (socks[s].blocked => socks[s].pclose = "rst")
LostCallback(s) ==
    /\ s \in Socks /\ LossDue(s)
    /\ reqs' = FailPending(reqs, socks, s)
    /\ socks' = [socks EXCEPT ![s].lostRun = TRUE, ![s].st = "dead", ![s].cbs = << >>]
    /\ cur' = IF cur = s THEN 0 ELSE cur
    /\ UNCHANGED <<now, sem, semQ, evLog, unsol, wantUp>>

\* the background connector established a new secure session
SessionUp ==
    /\ cur = 0 /\ wantUp
    /\ MaxSock > 0 => Len(socks) < MaxSock
    /\ socks' = Append(socks, NewSock)
    /\ cur' = Len(socks) + 1
    /\ UNCHANGED <<now, sem, semQ, reqs, evLog, unsol, wantUp>>

\* the owner closes the connection (HomeKitConnection.close): the transport is dropped at once, the
\* connector stops; pending requests are failed by the loss callback
UserClose ==
    /\ wantUp' = FALSE
    /\ socks' = IF cur # 0 /\ socks[cur].st = "up" THEN [socks EXCEPT ![cur].st = "closing"] ELSE socks
    /\ cur' = 0
    /\ UNCHANGED <<now, sem, semQ, reqs, evLog, unsol>>
\* ... and later asks for the connection again (ensure_connection)
UserOpen == /\ ~wantUp /\ wantUp' = TRUE /\ UNCHANGED <<now, socks, cur, sem, semQ, reqs, evLog, unsol>>

\* ------------------------------------------------------------------ time
Deadlines == {reqs[r].dl : r \in {x \in Reqs : TimerDue(x)}}
InternalEnabled ==
    \/ \E r \in Reqs : reqs[r].wake # "none"
    \/ \E s \in Socks : socks[s].st = "up" /\ socks[s].a2c # << >>
    \/ \E s \in Socks : LossDue(s)
    \/ \E s \in Socks : socks[s].c2a # << >> /\ socks[s].pclose = "no" /\ ~socks[s].paused
Quiescent == ~InternalEnabled

Init == /\ now = 0 /\ socks = << >> /\ cur = 0 /\ sem = {} /\ semQ = << >>
        /\ reqs = [r \in Reqs |-> IdleReq] /\ evLog = << >> /\ unsol = 0 /\ wantUp = TRUE

Next ==
    \/ \E r \in Reqs, werr \in BOOLEAN : Issue(r, werr, FALSE) \/ Issue(r, werr, TRUE) \/ CallerCancel(r) \/ ReqRun(r, werr) \/ TimerFire(r)
    \/ \E s \in 1..Len(socks) : AccPause(s) \/ AccRecv(s) \/ AccRespond(s, "resp") \/ AccRespond(s, "half") \/ AccRespond(s, "rest") \/ AccEvent(s)
                               \/ AccUnsolicited(s) \/ PeerClose(s, "fin") \/ PeerClose(s, "rst") \/ PeerAbort(s)
                               \/ CtrlRead(s) \/ LostCallback(s)
    \/ SessionUp \/ UserClose \/ UserOpen
Spec == Init /\ [][Next]_vars

\* ------------------------------------------------------------------ properties (C08)
\* a request that completes with a response got the response the accessory sent for it
\* (from = 0: an unsolicited response raced with the request - indistinguishable on the wire - never a
\* response that was sent for another request)
OwnResponse == \A r \in Reqs : reqs[r].res = "resp" => reqs[r].from \in {r, 0}
\* (also while the wake-up is still pending)
OwnResponsePending == \A r \in Reqs : reqs[r].wake = "resp" => reqs[r].from \in {r, 0}
\* events reach the owner in the order the accessory sent them, each once, never as a response
EventsInOrder ==
    \A s \in Socks :
        LET mine == SelectSeq(evLog, LAMBDA e : e[1] = s) IN
        /\ Len(mine) = socks[s].evRead
        /\ \A i \in 1..Len(mine) : mine[i][2] = i
\* a socket on which a request timed out / was cancelled / that was lost is never written to again:
\* every request in flight is on a socket that was "up" when it was written, and the result queue of a
\* socket that is no longer up only shrinks
NoWriteAfterFault ==
    [][\A s \in 1..Len(socks) : socks[s].st # "up" => (Len(socks'[s].cbs) <= Len(socks[s].cbs) /\ Len(socks'[s].c2a) <= Len(socks[s].c2a))]_vars
\* no response is ever taken from a socket that is not up
NoStaleCompletion ==
    [][\A r \in Reqs : (reqs[r].wake # "resp" /\ reqs'[r].wake = "resp") => socks[reqs[r].sock].st = "up"]_vars
\* the loss of an abandoned socket (however late it is reported) never disturbs the socket currently in use
StaleLossHarmless ==
    [][\A s \in 1..Len(socks) : (LossDue(s) /\ socks'[s].lostRun /\ cur # 0 /\ cur # s)
            => (cur' = cur /\ socks'[cur].st = socks[cur].st /\ socks'[cur].cbs = socks[cur].cbs)]_vars
\* the semaphore is held by a request that is actually running, or handed to a queued one
SemConsistent == /\ Cardinality(sem) <= Limit
                 /\ \A r \in sem : reqs[r].pc \in {"inflight", "semwait"} \/ reqs[r].wake # "none"
                 /\ \A i \in 1..Len(semQ) : reqs[semQ[i]].pc = "semwait"
\* at most Limit requests are on the wire / awaiting a response at any time
InFlightBounded == Cardinality({r \in Reqs : reqs[r].pc = "inflight"}) <= Limit
\* nothing hangs: a request in flight on a dead socket has been woken
NoOrphan == \A r \in Reqs : (reqs[r].pc = "inflight" /\ socks[reqs[r].sock].st = "dead") => reqs[r].wake # "none"
\* liveness (untimed, fairness on the controller's own steps and the timer)
Fairness == /\ \A r \in Reqs : WF_vars(\E werr \in BOOLEAN : ReqRun(r, werr)) /\ WF_vars(TimerFire(r))
            /\ \A s \in 1..3 : WF_vars(CtrlRead(s)) /\ WF_vars(LostCallback(s))
LiveSpec == Spec /\ Fairness
NoHang == \A r \in Reqs : (reqs[r].pc \in {"semwait", "inflight"}) ~> (reqs[r].pc = "done")
=============================================================================
