SPECIFICATION Spec
CONSTANTS
  Callers = {1, 2, 3}
  MaxCalls = 3
  MaxLinks = 0
  MaxEp = 0
  MaxReq = 3
  MaxW = 2
  MaxR = 2
  MaxAtt = 2
  MaxFaults = 5
  SubsInit = {FALSE}
  MaySubscribe = TRUE
  RestoreReqs = {2}
  Loose = FALSE
  Guarded = TRUE
CHECK_DEADLOCK FALSE
