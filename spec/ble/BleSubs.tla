------------------------------- MODULE BleSubs -------------------------------
(* Subscriptions and connected events (GATT notifications) of ONE BLE pairing (extension EXTBLESUB).

   Code modelled (aiohomekit/controller/ble/pairing.py, controller/abstract.py):
     subscribe / AbstractPairing.subscribe   the subscription set grows; only when there are NEW characteristics and the
                                             client is connected: task _async_subscribe(new) + debounce timer (re)started
     unsubscribe                             BlePairing overrides it with `pass` (departure D_UNSUB, recorded finding)
     _async_schedule_start_notify_subscriptions   ONE timer (_start_notify_timer): a pending one is cancelled, the new one
                                             fires START_NOTIFY_DEBOUNCE (1.5 s) later and creates the start-notify pass
     _async_start_notify_subscriptions       the pass (under the operation lock): nothing without a connected client;
                                             snapshot of the subscriptions; per characteristic not in _notifications one
                                             await of client.start_notify, afterwards _notifications.add(iid); errors of the
                                             BLEAK family are swallowed per characteristic, no retry; once the link is gone
                                             the remaining ones are skipped
     _async_start_notify                     the GATT callback: non-empty payloads are ignored; at most two tasks per
                                             (link, characteristic) - one reading, one waiting (Semaphore(2)) -, each reads
                                             the characteristic under the operation lock and tells every listener
                                             {(1, iid): {"value": v}} (AbstractPairing._callback_listeners: snapshot of the
                                             listener set, exceptions of a listener are swallowed)
     restore_connection_and_resume / _populate_accessories_and_characteristics / _ensure_connected
                                             an operation (here: get_characteristics of one characteristic, and the
                                             _async_subscribe task) connects on demand, _restore_pending |= made_connection,
                                             and after its body - unless shut down - _async_restore_subscriptions:
                                             broadcast key, broadcasts enabled for subscribed characteristics that have them
                                             (_broadcast_notifications), _restore_pending := False, state number read,
                                             debounce timer (re)started.  No subscriptions: _restore_pending := False only
     _async_disconnected / _async_reset_connection_state   _notifications, _broadcast_notifications := {}, _restore_pending :=
                                             False (disconnected callback of bleak, and _close_while_locked)
     close / shutdown / _close_while_locked  under the connection lock only; disconnect, client := None, reset.  The debounce
                                             timer is NOT cancelled (its pass finds no client)
     retry_bluetooth_connection_error        2 attempts on BleakError, 0.1 s apart; get_characteristics retries OUTSIDE the
                                             operation lock (re-queued), _async_subscribe INSIDE (the lock is held asleep)

   One action = one run of the library between two suspension points (or one stimulus of the environment).  `out` is the
   sequence of externally visible effects of the step, in order (records with field ev).  BleSubs_Trace accepts an
   execution of the real code iff its event sequence is the concatenation of the `out`s of a behaviour of this module
   (steps without visible effect are inferred).

   Time: remaining time of every pending timer (debounce, back-off sleeps); Wait(d) lets d pass without any timer
   firing, Timer fires the next one.  Debounce / Backoff are 1500 / 100 (ms) for recorded executions, 2 / 1 for TLC.

   Deviations = {} is the intended behaviour, on which TLC checks the properties below.  D_UNSUB, D_STALE, D_CRASH are
   the departures of the released library (recorded findings).  The other members of AllDeviations are in no version of
   the library: each is refuted by one of the properties (vacuity guard of the check) and corresponds to a mutant of the
   real code that the trace validation must reject. *)
EXTENDS Integers, Sequences, FiniteSets, TLC

CONSTANTS Chars,       \* characteristics (model ids)
          NoEv,        \* ... on which the accessory refuses notifications (start_notify fails, the link stays)
          BChars,      \* ... that have broadcast events
          Vals, Listeners, Raising, Callers,
          MaxOps,      \* bound on the operation-lock queue
          MaxLinks,    \* bound on the GATT connections ever made (0 = unbounded)
          Debounce, Backoff, Off, Deviations

\* BlePairing.unsubscribe is `pass`: the characteristic stays subscribed (restored after every reconnect, notified, polled)
D_UNSUB == "extblesub-unsubscribe-ignored"
\* start_notify returns successfully in the same loop iteration in which the link is lost: the disconnected callback
\* empties _notifications, then the pass adds the iid -> on the next link the pass skips that characteristic
D_STALE == "extblesub-stale-notify-entry-after-link-loss"
\* close() finishes (client := None) before the pass resumes from its failed start_notify: `self.client.is_connected`
\* raises AttributeError out of the pass (background task dies, logged)
D_CRASH == "extblesub-pass-crashes-on-closed-client"
D_NOCLEAR == "notifications-not-cleared-on-disconnect"
D_NORESTORE == "restore-skipped"
D_NOSCHED == "subscribe-does-not-schedule"
D_KEEPTIMER == "pending-timer-kept"          \* a schedule request while the timer is pending does not restart it
D_ONESLOT == "one-notification-slot"         \* Semaphore(1): a notification during a read is dropped
D_FIRSTONLY == "first-listener-only"
D_RAISEKILLS == "raising-listener-stops-the-round"
D_DUP == "start-notify-ignores-notifications-set"
D_NOREAD == "callback-does-not-read"
AllDeviations == {D_UNSUB, D_STALE, D_CRASH, D_NOCLEAR, D_NORESTORE, D_NOSCHED, D_KEEPTIMER, D_ONESLOT, D_FIRSTONLY, D_RAISEKILLS, D_DUP, D_NOREAD}
ASSUME Deviations \subseteq AllDeviations
ASSUME NoEv \subseteq Chars /\ BChars \subseteq Chars /\ Raising \subseteq Listeners /\ Chars \subseteq 1..9

(* s is one record:
     accessory / link   up (GATT link up), ln (links made so far; the current one when up), act (notify active on the
                        current link), aval (values)
     pairing            subs (pairing.subscriptions), lsn (listeners), cnull (client is None), rpend (_restore_pending), ntf
                        (_notifications), bcn (_broadcast_notifications), bkey (a broadcast key is held), timer (remaining
                        time of the debounce timer, -1 = none), shut (_shutdown), opq (operation lock, FIFO, the head holds
                        it: k in get / sub / ntf (the pass) / ev (one notification task)), cst (application callers of
                        get_characteristics: idle / busy / backoff + remaining sleep), hbo (remaining back-off sleep of the
                        _async_subscribe task at the head), cl (the one close()/shutdown() caller: idle / wait (for the
                        connection lock) / disc (disconnect pending)), cnl (connection lock: none / op / cl)
     ghosts             want (what the application asked for: subscribed minus unsubscribed), everw (wanted at some moment
                        since the current link came up), owed (a notification was delivered to the callback and the value
                        has not been read since) *)
VARIABLES s, out
vars == <<s, out>>

RECURSIVE Sorted(_)
Sorted(S) == IF S = {} THEN << >> ELSE LET m == CHOOSE x \in S : \A y \in S : x <= y IN <<m>> \o Sorted(S \ {m})
RECURSIVE Orders(_)
Orders(S) == IF S = {} THEN {<< >>} ELSE UNION {{<<x>> \o t : t \in Orders(S \ {x})} : x \in S}

E1(e) == [ev |-> e]
R(S, o) == [s |-> S, o |-> o]
Commit(r) == s' = r.s /\ out' = r.o
On(a) == a \notin Off
Dev(d) == d \in Deviations

Op(k, c, i, S, att, l) == [k |-> k, c |-> c, i |-> i, S |-> S, pc |-> "start", att |-> att, l |-> l, ph |-> "body",
                           todo |-> {}, sk |-> {}, cur |-> 0, v |-> 0, ws |-> {}]
IdleC == [st |-> "idle", i |-> 0, bo |-> -1]
Conn(S) == S.up /\ ~S.cnull                    \* self.client and self.client.is_connected
Running(S) == S.opq # << >>
HeadOp(S) == S.opq[1]
SetHead(S, h) == [S EXCEPT !.opq[1] = h]
Pop(S) == [S EXCEPT !.opq = Tail(@)]
GattPcs == {"pv", "g_w", "g_r", "key", "bw", "br", "par", "e_w", "e_r", "e_p"}
\* tasks of the GATT callback of the current link for characteristic i (they hold the semaphore of that callback)
EvTasks(S, i) == {k \in 1..Len(S.opq) : S.opq[k].k = "ev" /\ S.opq[k].i = i /\ S.opq[k].l = S.ln}

\* _async_reset_connection_state
Reset(S) == [S EXCEPT !.ntf = IF Dev(D_NOCLEAR) THEN @ ELSE {}, !.bcn = {}, !.rpend = FALSE]
\* the link is gone: bleak marks the client disconnected and runs the disconnected callback
LinkDown(S) == Reset([S EXCEPT !.up = FALSE, !.act = {}, !.owed = {}, !.everw = {}])
\* _async_schedule_start_notify_subscriptions
Sched(S) == [S EXCEPT !.timer = IF Dev(D_KEEPTIMER) /\ @ >= 0 THEN @ ELSE Debounce]

\* ------------------------------------------------------------------ an operation runs on to its next suspension
Ret(c, res) == [ev |-> "ret", c |-> c, res |-> res]
\* the operation at the head ends normally / returns None because of _shutdown
Fin(S, o) == LET h == HeadOp(S) IN
    IF h.k = "get" THEN R([Pop(S) EXCEPT !.cst[h.c] = IdleC], o \o <<Ret(h.c, "ok")>>) ELSE R(Pop(S), o)
FinNone(S, o) == LET h == HeadOp(S) IN
    IF h.k = "get" THEN R([Pop(S) EXCEPT !.cst[h.c] = IdleC], o \o <<Ret(h.c, "none")>>) ELSE R(Pop(S), o)
\* ... with an exception (retryable: a BleakError; not: AccessoryDisconnectedError)
Fail(S, o, retryable) == LET h == HeadOp(S) IN
    CASE h.k = "get" -> IF retryable /\ h.att < 2 THEN R([Pop(S) EXCEPT !.cst[h.c] = [st |-> "backoff", i |-> h.i, bo |-> Backoff]], o)
                        ELSE R([Pop(S) EXCEPT !.cst[h.c] = IdleC], o \o <<Ret(h.c, "err")>>)
      [] h.k = "sub" -> IF retryable /\ h.att < 2 THEN R([SetHead(S, [h EXCEPT !.pc = "backoff", !.att = 2]) EXCEPT !.hbo = Backoff], o)
                        ELSE R(Pop(S), o \o <<[ev |-> "bgfail", cls |-> "disc"]>>)
      [] OTHER -> R(Pop(S), o \o <<[ev |-> "bgfail", cls |-> "disc"]>>)

\* _async_subscribe_broadcast_events(set) and what follows it (ph = "rest": inside _async_restore_subscriptions)
RECURSIVE AfterBody(_, _)
AfterBcast(S, o, ph) ==
    IF ph = "rest" THEN R(SetHead([S EXCEPT !.rpend = FALSE], [HeadOp(S) EXCEPT !.pc = "par"]), o) ELSE AfterBody(S, o)
Bcast(S, o, ph, set) == LET td == (set \cap BChars) \ S.bcn IN
    IF td = {} THEN AfterBcast(S, o, ph)
    ELSE R(SetHead(S, [HeadOp(S) EXCEPT !.pc = "bw", !.ph = ph, !.todo = td]), o)
\* the `finally` of restore_connection_and_resume -> _async_restore_subscriptions
AfterBody(S, o) ==
    IF S.shut \/ ~S.rpend \/ Dev(D_NORESTORE) \/ ~Conn(S) THEN Fin(S, o)
    ELSE IF S.subs = {} THEN Fin([S EXCEPT !.rpend = FALSE], o)
    ELSE R(SetHead(S, [HeadOp(S) EXCEPT !.pc = "key", !.ph = "rest"]), o)
\* connected, session keys installed: the body of the operation
BeginBody(S, o) == LET h == HeadOp(S) IN
    IF h.k = "get" THEN R(SetHead(S, [h EXCEPT !.pc = "g_w"]), o)
    ELSE IF ~S.bkey THEN R(SetHead(S, [h EXCEPT !.pc = "key", !.ph = "body"]), o)
    ELSE Bcast(S, o, "body", h.S)
\* the pass finds the link gone: the remaining characteristics are skipped.  cr: one of them comes after the current one
\* in the snapshot's iteration order (the model does not fix that order for the ones skipped anyway)
PassEnd(S, o, cr) == LET h == HeadOp(S) IN
    IF Dev(D_CRASH) /\ S.cnull /\ ((h.todo \ h.sk) # {} \/ (cr /\ h.todo # {}))
    THEN R(Pop(S), o \o <<[ev |-> "bgfail", cls |-> "attr"]>>)
    ELSE Fin(S, o)
\* close() resumes after its disconnect
CloserDone(S, o) == R([Reset(S) EXCEPT !.cnull = TRUE, !.cl.st = "idle", !.cnl = "none"], o \o <<E1("cret")>>)
\* the connection lock goes to the waiting close()
CloserWake(S, o) ==
    IF S.cl.st # "wait" THEN R(S, o)
    ELSE IF Conn(S) THEN R([S EXCEPT !.cl.st = "disc", !.cnl = "cl"], o \o <<E1("disc_req")>>)
    ELSE R([S EXCEPT !.cl.st = "idle", !.cnl = "none"], o \o <<E1("cret")>>)
\* the pending GATT operation of the head fails (the link is down already)
HeadFails(S, o, cr) ==
    IF ~Running(S) THEN R(S, o)
    ELSE LET h == HeadOp(S) IN
         CASE h.pc \in GattPcs -> Fail(S, o, TRUE)
           [] h.pc = "sn" -> PassEnd(SetHead(S, [h EXCEPT !.pc = "loop"]), o, cr)
           [] OTHER -> R(S, o)
\* the link goes down (cf: a close() in progress resumes before the operation does)
Down(S, o, cf, cr) ==
    LET S1 == LinkDown(S)
        closing == S1.cl.st = "disc"
        A == IF closing /\ cf THEN CloserDone(S1, o) ELSE R(S1, o)
        B == HeadFails(A.s, A.o, cr) IN
    IF closing /\ ~cf THEN CloserDone(B.s, B.o) ELSE B

\* ------------------------------------------------------------------ the library runs by itself
\* get_characteristics / _async_subscribe get the operation lock: restore_connection_and_resume, connect on demand
Begin ==
    /\ Running(s) /\ HeadOp(s).pc = "start" /\ HeadOp(s).k \in {"get", "sub"}
    /\ Commit(IF s.shut THEN FinNone(s, << >>)
              ELSE IF Conn(s) THEN BeginBody(s, << >>)
              ELSE R(SetHead([s EXCEPT !.cnl = "op"], [HeadOp(s) EXCEPT !.pc = "connecting"]), <<E1("conn_req")>>))
\* the pass gets the operation lock
PassBegin ==
    /\ Running(s) /\ HeadOp(s).pc = "start" /\ HeadOp(s).k = "ntf"
    /\ Commit(IF ~Conn(s) THEN Fin(s, << >>)
              ELSE R(SetHead(s, [HeadOp(s) EXCEPT !.pc = "loop", !.todo = s.subs, !.sk = s.subs \cap s.ntf, !.ws = s.want]), << >>))
\* ... and goes on to the next characteristic that is not in _notifications
PassNext(i, cr) ==
    /\ Running(s) /\ HeadOp(s).pc = "loop"
    /\ LET h == HeadOp(s)
           td == IF Dev(D_DUP) THEN h.todo ELSE h.todo \ s.ntf IN
       IF ~Conn(s) THEN Commit(PassEnd(s, << >>, cr))
       ELSE IF td = {} THEN ~cr /\ Commit(Fin(s, << >>))
       ELSE /\ i \in td /\ ~cr
            /\ Commit(R(SetHead(s, [h EXCEPT !.pc = "sn", !.cur = i, !.todo = @ \ {i}]), <<[ev |-> "sn_req", l |-> s.ln, i |-> i]>>))
\* a notification task gets the operation lock
EvBegin ==
    /\ Running(s) /\ HeadOp(s).pc = "start" /\ HeadOp(s).k = "ev"
    /\ Commit(IF Dev(D_NOREAD) THEN Fin(s, << >>)
              ELSE IF ~Conn(s) THEN Fail(s, << >>, FALSE)
              ELSE R(SetHead(s, [HeadOp(s) EXCEPT !.pc = "e_w"]), << >>))
Internal == Begin \/ PassBegin \/ EvBegin \/ \E i \in Chars, cr \in BOOLEAN : PassNext(i, cr)

\* ------------------------------------------------------------------ Bluetooth answers
LinksOk == MaxLinks = 0 \/ s.ln < MaxLinks
ConnRes(res) ==
    /\ Running(s) /\ HeadOp(s).pc = "connecting" /\ res \in {"ok", "fail"} /\ On(res)
    /\ IF res = "ok"
       THEN /\ LinksOk
            /\ LET S1 == [s EXCEPT !.up = TRUE, !.ln = @ + 1, !.cnull = FALSE, !.rpend = TRUE, !.cnl = "none", !.everw = s.want] IN
               Commit(CloserWake(SetHead(S1, [HeadOp(S1) EXCEPT !.pc = "pv"]), <<[ev |-> "conn_res", out |-> "ok", l |-> s.ln + 1]>>))
       ELSE LET f == Fail([s EXCEPT !.cnl = "none"], <<[ev |-> "conn_res", out |-> "fail", l |-> 0]>>, FALSE) IN
            Commit(CloserWake(f.s, f.o))
\* pair-verify done
PvDone == /\ Running(s) /\ HeadOp(s).pc = "pv" /\ Commit(BeginBody(s, << >>))
\* the accessory receives the read request of get_characteristics / answers it
GReq == /\ Running(s) /\ HeadOp(s).pc = "g_w"
        /\ LET i == HeadOp(s).i IN
           Commit(R(SetHead(s, [HeadOp(s) EXCEPT !.pc = "g_r"]), <<[ev |-> "read", i |-> i, v |-> s.aval[i]]>>))
GRes == /\ Running(s) /\ HeadOp(s).pc = "g_r" /\ Commit(AfterBody(s, << >>))
\* broadcast key generated (restore: always; _async_subscribe: when none is held)
KeyDone == /\ Running(s) /\ HeadOp(s).pc = "key"
           /\ LET h == HeadOp(s) IN Commit(Bcast([s EXCEPT !.bkey = TRUE], << >>, h.ph, IF h.ph = "rest" THEN s.subs ELSE h.S))
\* broadcasts enabled for one characteristic: the accessory receives the request / answers it
BcReq(i) == /\ Running(s) /\ HeadOp(s).pc = "bw" /\ i \in HeadOp(s).todo
            /\ Commit(R(SetHead(s, [HeadOp(s) EXCEPT !.pc = "br", !.cur = i]), <<[ev |-> "bcen", i |-> i]>>))
BcRes == /\ Running(s) /\ HeadOp(s).pc = "br"
         /\ LET h == HeadOp(s)
                S1 == [s EXCEPT !.bcn = @ \cup {h.cur}]
                td == h.todo \ {h.cur} IN
            Commit(IF td # {} THEN R(SetHead(S1, [h EXCEPT !.pc = "bw", !.todo = td]), << >>)
                   ELSE AfterBcast(SetHead(S1, [h EXCEPT !.todo = {}]), << >>, h.ph))
\* state number read at the end of the restore; the debounce timer is (re)started
ParDone == /\ Running(s) /\ HeadOp(s).pc = "par" /\ Commit(Fin(Sched(s), << >>))
\* start_notify answered: ok (not for NoEv), err (NoEv: refused, the link stays), race (ok, and the link is lost in the
\* same loop iteration: the disconnected callback runs before the pass resumes)
SnRes(res, cr) ==
    /\ Running(s) /\ HeadOp(s).pc = "sn" /\ res \in {"ok", "err", "race"} /\ On(res)
    /\ LET h == HeadOp(s)
           ev == <<[ev |-> "sn_res", l |-> s.ln, i |-> h.cur, out |-> res]>> IN
       CASE res = "ok" -> /\ h.cur \notin NoEv /\ ~cr
                          /\ Commit(R(SetHead([s EXCEPT !.act = @ \cup {h.cur}, !.ntf = @ \cup {h.cur}], [h EXCEPT !.pc = "loop"]), ev))
         [] res = "err" -> /\ h.cur \in NoEv /\ ~cr
                           /\ Commit(R(SetHead(s, [h EXCEPT !.pc = "loop"]), ev))
         [] OTHER -> /\ h.cur \notin NoEv
                     /\ LET S1 == LinkDown(s)
                            S2 == IF Dev(D_STALE) THEN [S1 EXCEPT !.ntf = @ \cup {h.cur}] ELSE S1
                            B == PassEnd(SetHead(S2, [h EXCEPT !.pc = "loop"]), ev, cr) IN
                        Commit(IF S1.cl.st = "disc" THEN CloserDone(B.s, B.o) ELSE B)
\* a notification task: the accessory receives the read request / answers it (every listener is told) / the task ends
EvReq == /\ Running(s) /\ HeadOp(s).pc = "e_w"
         /\ LET i == HeadOp(s).i IN
            Commit(R(SetHead([s EXCEPT !.owed = @ \ {i}], [HeadOp(s) EXCEPT !.pc = "e_r", !.v = s.aval[i]]), <<[ev |-> "read", i |-> i, v |-> s.aval[i]]>>))
Told(L, h) == [k \in 1..Len(L) |-> [ev |-> "told", l |-> L[k], i |-> h.i, v |-> h.v]]
EvRes == /\ Running(s) /\ HeadOp(s).pc = "e_r"
         /\ \E L \in Orders(s.lsn) :
               LET h == HeadOp(s)
                   upto == IF Dev(D_FIRSTONLY) /\ Len(L) > 1 THEN SubSeq(L, 1, 1)
                           ELSE IF Dev(D_RAISEKILLS) /\ (\E k \in 1..Len(L) : L[k] \in Raising)
                                THEN SubSeq(L, 1, CHOOSE k \in 1..Len(L) : L[k] \in Raising /\ \A j \in 1..(k - 1) : L[j] \notin Raising)
                                ELSE L IN
               Commit(R(SetHead(s, [h EXCEPT !.pc = "e_p"]), Told(upto, h)))
EvDone == /\ Running(s) /\ HeadOp(s).pc = "e_p" /\ Commit(Fin(s, << >>))
Answer == PvDone \/ GReq \/ GRes \/ KeyDone \/ (\E i \in Chars : BcReq(i)) \/ BcRes \/ ParDone \/ EvReq \/ EvDone
          \/ EvRes \/ (\E cr \in BOOLEAN : SnRes("ok", cr) \/ SnRes("err", cr))

\* the link is lost / the disconnect of close() completes
Drop(cf, cr) == /\ s.up /\ On("Drop") /\ Commit(Down(s, <<E1("drop")>>, cf, cr))
DiscRes(cf, cr) == /\ s.cl.st = "disc" /\ s.up /\ Commit(Down(s, <<E1("disc_res")>>, cf, cr))

\* ------------------------------------------------------------------ time
Timers(S) == (IF S.timer >= 0 THEN {S.timer} ELSE {}) \cup (IF S.hbo >= 0 THEN {S.hbo} ELSE {})
             \cup {S.cst[c].bo : c \in {x \in Callers : S.cst[x].bo >= 0}}
MinT(S) == CHOOSE t \in Timers(S) : \A u \in Timers(S) : t <= u
Elapse(S, d) == [S EXCEPT !.timer = IF @ >= 0 THEN @ - d ELSE @, !.hbo = IF @ >= 0 THEN @ - d ELSE @,
                          !.cst = [c \in Callers |-> IF @[c].bo >= 0 THEN [@[c] EXCEPT !.bo = @ - d] ELSE @[c]]]
\* d passes, no timer fires
Wait(d) == /\ On("Wait") /\ d >= 1 /\ Timers(s) # {} /\ d < MinT(s)
           /\ Commit(R(Elapse(s, d), <<[ev |-> "wait", d |-> d]>>))
\* time passes until the next timer fires: "ntf" the debounce timer (the pass is created), "sub" the sleep of the
\* _async_subscribe task, a caller's sleep (its second attempt queues for the operation lock)
Timer(which) ==
    /\ Timers(s) # {} /\ which \in {"ntf", "sub"}
    /\ LET S1 == Elapse(s, MinT(s))
           ev == <<E1("timer")>> IN
       IF which = "ntf" THEN /\ S1.timer = 0 /\ Len(s.opq) < MaxOps
                             /\ Commit(R([S1 EXCEPT !.timer = -1, !.opq = Append(@, Op("ntf", 0, 0, {}, 1, 0))], ev))
       ELSE /\ S1.hbo = 0
            /\ Commit(R(SetHead([S1 EXCEPT !.hbo = -1], [HeadOp(S1) EXCEPT !.pc = "start"]), ev))
TimerC(c) ==
    /\ Timers(s) # {} /\ c \in Callers
    /\ LET S1 == Elapse(s, MinT(s)) IN
       /\ S1.cst[c].bo = 0 /\ Len(s.opq) < MaxOps
       /\ Commit(R([S1 EXCEPT !.cst[c] = [st |-> "busy", i |-> @.i, bo |-> -1],
                              !.opq = Append(@, Op("get", c, S1.cst[c].i, {}, 2, 0))], <<E1("timer")>>))
AnyTimer == (\E w \in {"ntf", "sub"} : Timer(w)) \/ (\E c \in Callers : TimerC(c))

\* ------------------------------------------------------------------ the application
Subscribe(S) ==
    /\ S # {} /\ S \subseteq Chars /\ On("Subscribe")
    /\ LET new == S \ s.subs
           S1 == [s EXCEPT !.subs = @ \cup S, !.want = @ \cup S, !.everw = IF s.up THEN @ \cup S ELSE @]
           ev == <<[ev |-> "sub", S |-> Sorted(S)]>> IN
       IF new = {} \/ ~Conn(s) THEN Commit(R(S1, ev))
       ELSE /\ Len(s.opq) < MaxOps
            /\ LET S2 == [S1 EXCEPT !.opq = Append(@, Op("sub", 0, 0, new, 1, 0))] IN
               Commit(R(IF Dev(D_NOSCHED) THEN S2 ELSE Sched(S2), ev))
Unsubscribe(S) ==
    /\ S # {} /\ S \subseteq Chars /\ On("Unsubscribe")
    /\ Commit(R([s EXCEPT !.want = @ \ S, !.subs = IF Dev(D_UNSUB) THEN @ ELSE @ \ S], <<[ev |-> "unsub", S |-> Sorted(S)]>>))
Listen(l) == /\ l \in Listeners \ s.lsn /\ On("Listen")
             /\ Commit(R([s EXCEPT !.lsn = @ \cup {l}], <<[ev |-> "listen", l |-> l]>>))
Unlisten(l) == /\ l \in s.lsn /\ On("Listen")
               /\ Commit(R([s EXCEPT !.lsn = @ \ {l}], <<[ev |-> "unlisten", l |-> l]>>))
Call(c, i) ==
    /\ c \in Callers /\ i \in Chars \ NoEv /\ s.cst[c].st = "idle" /\ Len(s.opq) < MaxOps /\ On("Call")
    /\ Commit(R([s EXCEPT !.cst[c] = [st |-> "busy", i |-> i, bo |-> -1], !.opq = Append(@, Op("get", c, i, {}, 1, 0))],
                <<[ev |-> "call", c |-> c, i |-> i]>>))
\* close() / shutdown(): under the connection lock only
CloseCall(k) ==
    /\ k \in {"close", "shutdown"} /\ On(k) /\ s.cl.st = "idle"
    /\ LET S0 == [s EXCEPT !.shut = @ \/ (k = "shutdown")]
           ev == <<E1(k)>> IN
       Commit(IF s.cnl = "op" THEN R([S0 EXCEPT !.cl.st = "wait"], ev)
              ELSE IF Conn(S0) THEN R([S0 EXCEPT !.cl.st = "disc", !.cnl = "cl"], ev \o <<E1("disc_req")>>)
              ELSE R(S0, ev \o <<E1("cret")>>))

\* ------------------------------------------------------------------ the accessory
\* an indication for characteristic i on the current link (d = 1: with a payload - ignored by the library)
Ind(i, d) ==
    /\ s.up /\ i \in s.act /\ d \in {0, 1} /\ On("Ind") /\ (d = 1 => On("payload"))
    /\ LET n == Cardinality(EvTasks(s, i))
           ev == <<[ev |-> "ind", i |-> i, d |-> d]>>
           S1 == IF d = 0 /\ Conn(s) THEN [s EXCEPT !.owed = @ \cup {i}] ELSE s IN
       IF d = 1 \/ n >= (IF Dev(D_ONESLOT) THEN 1 ELSE 2) \/ ~Conn(s) THEN Commit(R(S1, ev))
       ELSE /\ Len(s.opq) < MaxOps
            /\ Commit(R([S1 EXCEPT !.opq = Append(@, Op("ev", 0, i, {}, 1, s.ln))], ev))
Change(i, v) == /\ i \in Chars \ NoEv /\ v \in Vals /\ v # s.aval[i] /\ On("Change")
                /\ Commit(R([s EXCEPT !.aval[i] = v], <<[ev |-> "chg", i |-> i, v |-> v]>>))

\* what is visible from outside when the library has nothing left to run: pairing.subscriptions, what is pending at the
\* Bluetooth boundary, the remaining times of the loop's timers, is_connected (ObsRec); and - optional, recorded when the
\* attributes exist - _notifications, _broadcast_notifications, _restore_pending, _shutdown (WbRec)
Pend(S) == IF ~Running(S) THEN ""
           ELSE LET pc == HeadOp(S).pc IN
                IF pc = "connecting" THEN "conn" ELSE IF pc \in GattPcs THEN "gatt" ELSE IF pc = "sn" THEN "sn" ELSE ""
ObsRec(S) == [ev |-> "obs", subs |-> Sorted(S.subs), pend |-> Pend(S), disc |-> (S.cl.st = "disc"), tm |-> Sorted(Timers(S)),
              conn |-> (Conn(S) /\ ~(Running(S) /\ HeadOp(S).pc = "pv"))]
WbRec(S) == [ev |-> "wb", ntf |-> Sorted(S.ntf), bcn |-> Sorted(S.bcn), rp |-> S.rpend, shut |-> S.shut]
Quiescent == ~ENABLED Internal
Obs == /\ Quiescent /\ s' = s /\ out' = <<ObsRec(s)>>
Wb == /\ Quiescent /\ s' = s /\ out' = <<WbRec(s)>>

\* ------------------------------------------------------------------
Init0(av) == [up |-> FALSE, ln |-> 0, act |-> {}, aval |-> av,
              subs |-> {}, want |-> {}, lsn |-> {}, cnull |-> TRUE, rpend |-> FALSE, ntf |-> {}, bcn |-> {}, bkey |-> FALSE,
              timer |-> -1, shut |-> FALSE, opq |-> << >>, cst |-> [c \in Callers |-> IdleC], hbo |-> -1,
              cl |-> [st |-> "idle"], cnl |-> "none", owed |-> {}, everw |-> {}]
Init == /\ s = Init0([i \in Chars |-> CHOOSE v \in Vals : \A w \in Vals : v <= w])
        /\ out = << >>

WaitSet == IF Debounce > 10 THEN {1, 50, 99, 700, 1400, 1499} ELSE 1..(Debounce - 1)
Env == \/ \E S \in SUBSET Chars : Subscribe(S) \/ Unsubscribe(S)
       \/ \E l \in Listeners : Listen(l) \/ Unlisten(l)
       \/ \E c \in Callers, i \in Chars : Call(c, i)
       \/ \E k \in {"close", "shutdown"} : CloseCall(k)
       \/ \E i \in Chars, d \in {0, 1} : Ind(i, d)
       \/ \E i \in Chars, v \in Vals : Change(i, v)
       \/ \E cf, cr \in BOOLEAN : Drop(cf, cr) \/ DiscRes(cf, cr)
       \/ \E r \in {"ok", "fail"} : ConnRes(r)
       \/ \E cr \in BOOLEAN : SnRes("race", cr)
       \/ \E d \in WaitSet : Wait(d)
       \/ AnyTimer
Next == Internal \/ Answer \/ Env
Spec == Init /\ [][Next]_vars
View == s
NextObs == Next \/ Obs \/ Wb

\* for `tlc -simulate` (behaviours replayed on the real code): the library runs on when it can, the Bluetooth side mostly
\* answers, the other stimuli are drawn with similar weights
Progress == Answer \/ ConnRes(IF RandomElement(1..6) = 1 THEN "fail" ELSE "ok") \/ (\E cf, cr \in BOOLEAN : DiscRes(cf, cr))
Fallback == IF ENABLED Progress THEN Progress
            ELSE (\E c \in Callers, i \in Chars : Call(c, i)) \/ (\E S \in SUBSET Chars : Subscribe(S))
Try(A) == IF ENABLED A THEN A ELSE Fallback
SimEnv == LET k == RandomElement(1..20) IN
          CASE k <= 2 -> Try(\E S \in SUBSET Chars : Subscribe(S))
            [] k = 3 -> IF RandomElement(1..6) = 1 THEN Try(\E S \in SUBSET Chars : Unsubscribe(S)) ELSE Fallback
            [] k \in {4, 5} -> Try(AnyTimer)
            [] k \in {6, 7} -> Try(\E c \in Callers, i \in Chars : Call(c, i))
            [] k = 8 -> Try(\E cf, cr \in BOOLEAN : Drop(cf, cr))
            [] k \in 9..12 -> Try(\E i \in Chars, d \in {0, 1} : Ind(i, IF RandomElement(1..5) = 1 THEN d ELSE 0))
            [] k = 13 -> Try(\E i \in Chars, v \in Vals : Change(i, v))
            [] k = 14 -> Try(\E l \in Listeners : Listen(l) \/ (RandomElement(1..3) = 1 /\ Unlisten(l)))
            [] k = 15 -> IF RandomElement(1..2) = 1 THEN Try(CloseCall("close")) ELSE IF RandomElement(1..5) = 1 THEN Try(CloseCall("shutdown")) ELSE Fallback
            [] k = 16 -> Try(\E d \in WaitSet : Wait(d))
            [] k = 17 -> Try(\E cr \in BOOLEAN : SnRes("race", cr))
            [] k = 18 -> IF ENABLED SnRes("ok", FALSE) THEN Try(CloseCall("close")) ELSE Fallback
            [] OTHER -> Fallback
SimNext == IF ENABLED Internal THEN Internal
           ELSE IF RandomElement(1..5) <= 3 /\ ENABLED Progress
                THEN IF ENABLED SnRes("ok", FALSE) /\ RandomElement(1..6) = 1 THEN \E cr \in BOOLEAN : SnRes("race", cr) ELSE Progress
           ELSE SimEnv
SimSpec == Init /\ [][SimNext]_vars

\* ------------------------------------------------------------------ properties
Settled(S) == /\ Conn(S) /\ S.opq = << >> /\ S.timer = -1 /\ S.cl.st = "idle" /\ ~S.shut
              /\ \A c \in Callers : S.cst[c].st = "idle"
Evs(o, k) == {o[j] : j \in {x \in 1..Len(o) : o[x].ev = k}}
\* P1  once the link is up and everything has settled, notifications are active on the accessory for exactly the
\*     subscribed characteristics that support them - none missing (also those subscribed during a pass or during a
\*     reconnect), and (P2) this holds again on every later link (the restore)
NotifyComplete == Settled(s) => (s.subs \ NoEv) \subseteq s.act
\*     ... and for no others: only for characteristics the application wanted at some moment of the current link (an
\*     unsubscribe need not stop notifications on the current link, but the next link must not start them again)
NotifyExact == s.act \subseteq s.everw
WantedComplete == Settled(s) => (s.want \ NoEv) \subseteq s.act
RestoredAfterReconnect == (Settled(s) /\ s.ln > 1) => (s.subs \ NoEv) \subseteq s.act
\*     broadcasts enabled on the current link for the subscribed characteristics that have them
BroadcastComplete == Settled(s) => (s.subs \cap BChars) \subseteq s.bcn
\*     unsubscribe is honoured: the pairing's subscription set is what the application asked for, and no start_notify is
\*     issued for a characteristic that was not wanted when the pass took its snapshot
UnsubscribeHonoured == s.subs = s.want
PassOnlyWanted == [][\A e \in Evs(out', "sn_req") : e.i \in HeadOp(s').ws]_vars
\* P4  _notifications is exactly what is active on the current link; start_notify is never issued twice for a
\*     characteristic on one link, never on a dead link, never after close() / shutdown() have returned
NtfIsActive == s.ntf = s.act /\ (~s.up => s.act = {})
SnOncePerLink == [][\A e \in Evs(out', "sn_req") : e.i \notin s.act]_vars
SnOnlyOnLiveLink == [][\A e \in Evs(out', "sn_req") : s.up /\ ~s.cnull /\ e.l = s.ln]_vars
BcastOncePerLink == [][\A e \in Evs(out', "bcen") : e.i \notin s.bcn /\ s.up]_vars
NothingAfterShutdown == [][(s.shut /\ s.cl.st = "idle") => \A j \in 1..Len(out') : out'[j].ev \notin {"sn_req", "conn_req", "bcen", "read", "told"}]_vars
\* P3  a notification is never lost while the link lasts: a task that has not read yet is in flight; at most two tasks per
\*     characteristic; one read per task; the value read reaches every registered listener exactly once (a raising one
\*     does not starve the others) and nothing a listener does ends the session
NotifyNotLost == \A i \in s.owed : \E k \in EvTasks(s, i) : s.opq[k].pc \in {"start", "e_w"}
TwoTasks == \A i \in Chars : Cardinality(EvTasks(s, i)) <= 2
EveryListenerOnce == [][Evs(out', "told") # {} =>
                          /\ Running(s) /\ HeadOp(s).pc = "e_r" /\ Len(out') = Cardinality(s.lsn)
                          /\ \A l \in s.lsn : \E j \in 1..Len(out') : out'[j] = [ev |-> "told", l |-> l, i |-> HeadOp(s).i, v |-> HeadOp(s).v]
                          /\ s'.up = s.up /\ s'.lsn = s.lsn]_vars
ReadPerNotification == [][\A e \in Evs(out', "read") : Running(s) /\ HeadOp(s).pc \in {"g_w", "e_w"} /\ HeadOp(s).i = e.i /\ e.v = s.aval[e.i]]_vars
\*     no background task dies of anything but the loss of the connection
NoBackgroundCrash == [][\A e \in Evs(out', "bgfail") : e.cls = "disc" /\ ~s'.up]_vars
\* P5  one debounce timer; a subscribe of new characteristics on a connected client (re)starts it with the full delay
OneTimer == s.timer \in {-1} \cup 0..Debounce
TimerRestarted == [][(\E e \in Evs(out', "sub") : TRUE) /\ Conn(s) /\ s'.subs # s.subs => s'.timer = Debounce]_vars
TypeOk == /\ s.subs \subseteq Chars /\ s.ntf \subseteq Chars /\ s.act \subseteq Chars \ NoEv /\ Len(s.opq) <= MaxOps
          /\ s.bcn \subseteq BChars /\ (s.cnl = "op") = (Running(s) /\ HeadOp(s).pc = "connecting") /\ (s.cnl = "cl") = (s.cl.st = "disc")
          /\ (s.rpend => s.up) /\ (s.cl.st = "disc" => Conn(s))

\* liveness (small instance): if from some point on the link stays up and the application leaves the pairing alone,
\* notifications become and stay active for every subscribed characteristic that supports them
Fair == WF_vars(Internal) /\ WF_vars(Answer) /\ WF_vars(AnyTimer) /\ WF_vars(ConnRes("ok"))
        /\ WF_vars(\E cf, cr \in BOOLEAN : DiscRes(cf, cr))
LiveSpec == Spec /\ Fair
EventuallyNotified == <>[](s.up /\ ~s.shut) => <>[]((s.subs \ NoEv) \subseteq s.act)
=============================================================================
