-------------------------- MODULE BleBroadcast_Trace --------------------------
(* Code -> spec: histories of advertisements fed to the real BleController._device_detected.  The
   harness logs, for every advertisement, its symbolic description (it sealed / forged / damaged it
   itself), the listener calls it caused (translated back to (pairing, iid, value) indices) and
   description.state_num of every pairing afterwards.  The recorded step becomes the transition of
   the specification's variables; the action properties of BleBroadcast (the requirement StepOK and
   the named properties of C18) are then checked by TLC on every recorded step, with the history
   variable `acc` (what was accepted before) maintained by the specification.

   One JSON object per line: {"start": {"A": n, "B": n}, "keys": {"A": bool, "B": bool},
   "events": [{"ev": "adv", "a": {...}, "del": [[to, iid, val] ...], "after": {"A": n, "B": n}} |
              {"ev": "key", "p": "A"}]} *)
EXTENDS BleBroadcast, Json, IOUtils, TLCExt

Traces == ndJsonDeserialize(IOEnv.TRACE_FILE)

VARIABLES tid, l
tvars == <<vars, tid, l>>

Ev == Traces[tid].events
HasEv == l <= Len(Ev)
E == Ev[l]
IsEvent(k) == HasEv /\ E.ev = k /\ l' = l + 1 /\ UNCHANGED tid
Fn(r) == [p \in Pairings |-> r[p]]

TInit == /\ tid \in 1..Len(Traces)
         /\ l = 1
         /\ last = Fn(Traces[tid].start)
         /\ key = Fn(Traces[tid].keys)
         /\ acc = {} /\ steps = 0
         /\ out = [kind |-> "init", a |-> NoAdv, why |-> "init", del |-> << >>, may |-> FALSE, must |-> FALSE]

\* the recorded step, as observed
TrAdv == /\ IsEvent("adv")
         /\ last' = Fn(E.after)
         /\ out' = [kind |-> "adv", a |-> E.a, why |-> "observed", del |-> E.del,
                   may |-> MayAccept(E.a, last, key), must |-> MustAccept(E.a, last, key)]
         /\ acc' = IF E.del # << >> THEN acc \cup {Tup(E.a)} ELSE acc
         /\ steps' = steps + 1
         /\ UNCHANGED key
\* the harness ran the real key derivation for pairing p and it produced the accessory's key
TrKey == /\ IsEvent("key")
         /\ key' = [key EXCEPT ![E.p] = TRUE]
         /\ out' = [kind |-> "key", a |-> NoAdv, why |-> E.p, del |-> << >>, may |-> FALSE, must |-> FALSE]
         /\ steps' = steps + 1
         /\ UNCHANGED <<last, acc>>

TNext == TrAdv \/ TrKey
TSpec == TInit /\ [][TNext]_tvars

\* Batch form: a recorded step that breaks a property cannot be taken, so the trace is reported as
\* REJECTED at that event by the post-condition (all rejected traces of a batch in one run); the
\* harness re-runs a rejected trace alone under TSpec with the PROPERTY lines to name the property.
Checks == OnlyAuthenticFreshA /\ AcceptedDeliveredA /\ MonotoneLastA /\ ReplayNeverAcceptedA /\ StepAllowedA
TNextChecked == (TrAdv /\ Checks) \/ TrKey
TSpecChecked == TInit /\ [][TNextChecked]_tvars

\* properties of the recorded steps (same formulas as in BleBroadcast, over tvars)
TOnlyAuthenticFresh == [][OnlyAuthenticFreshA]_tvars
TAcceptedDelivered == [][AcceptedDeliveredA]_tvars
TMonotoneLast == [][MonotoneLastA]_tvars
TReplayNeverAccepted == [][ReplayNeverAcceptedA]_tvars
TStepAllowed == [][StepAllowedA]_tvars

\* ---- acceptance bookkeeping (workers = 1)
Progress == TLCSet(tid, IF TLCGet(tid) < l THEN l ELSE TLCGet(tid))
TConstraint == Progress
ASSUME \A i \in 1..Len(Traces) : TLCSet(i, 0)
Accepted ==
    /\ TLCGet("stats").generated >= 0
    /\ \A i \in 1..Len(Traces) :
          IF TLCGet(i) = Len(Traces[i].events) + 1 THEN TRUE
          ELSE PrintT(<<"REJECTED", i, TLCGet(i)>>)
DbgL == CHOOSE n \in 0..100000 : ToString(n) = IOEnv.DBG_L
DebugNotReached == l < DbgL
=============================================================================
