SPECIFICATION Spec
CONSTANTS
  Chars = {1, 2}
  NoEv = {2}
  BChars = {1}
  Vals = {0}
  Listeners = {}
  Raising = {}
  Callers = {1}
  MaxOps = 3
  MaxLinks = 2
  Debounce = 2
  Backoff = 1
  Off = {"Change", "Ind", "Listen", "close", "payload", "shutdown"}
  Deviations = {"extblesub-unsubscribe-ignored"}
INVARIANT NotifyExact
VIEW View
CHECK_DEADLOCK FALSE
