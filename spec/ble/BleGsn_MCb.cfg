SPECIFICATION Spec
CONSTANTS
  MaxGsn = 3
  MaxCn = 1
  Vals = {1, 2}
  InitCaches = {"entry"}
  MaxOps = 2
  MaxConns = 2
  MaxRestarts = 0
  MaxKeys = 0
  Callers = {1}
  StaleBcast = FALSE
  Guarded = TRUE
  Off = {"Tick", "Restart", "CfgChange", "CallForce", "bfail", "ntf", "fail"}
  Coarse = TRUE
  Deviations = {}
INVARIANT OnePoll
INVARIANT NoPollBeforeConnect
INVARIANT NoLostChange
INVARIANT CachedIsLastAdopted
INVARIANT NoRedundantAvailability
INVARIANT CfgFollowed
INVARIANT TypeOk
PROPERTY CacheIsState
PROPERTY RestartFromCache
PROPERTY AvailCbOnlyFromAdv
PROPERTY FetchOnlyOnChange
VIEW View
CHECK_DEADLOCK FALSE
