SPECIFICATION Spec
CONSTANTS
  MaxGsn = 3
  MaxCn = 1
  Vals = {1, 2}
  InitCaches = {"entry"}
  MaxOps = 2
  MaxConns = 3
  MaxRestarts = 0
  MaxKeys = 0
  Callers = {1}
  StaleBcast = FALSE
  Guarded = TRUE
  Off = {"Bcast", "Tick", "Restart", "CfgChange", "CallForce", "bfail", "ntf"}
  Coarse = TRUE
  Deviations = {"extgsn-restore-adopts-state-number-without-poll"}
INVARIANT OnePoll
INVARIANT NoPollBeforeConnect
INVARIANT NoLostChange
INVARIANT CachedIsLastAdopted
INVARIANT TypeOk
PROPERTY CacheIsState
VIEW View
CHECK_DEADLOCK FALSE
