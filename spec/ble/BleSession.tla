----------------------------- MODULE BleSession -----------------------------
(* Session life-cycle of one BlePairing (aiohomekit/controller/ble/pairing.py, client.py, key.py).

   Controller side (one action per run of a coroutine between two suspension points):
     operation lock (@operation_lock, FIFO asyncio.Lock)  ->  connect on demand (_ensure_connected under
     _connection_lock)  ->  pair-verify if no keys are installed (_async_pair_verify: full M1..M4, or
     pair-resume M1r/M2r when a session is stored)  ->  requests (_async_request_under_lock -> ble_request:
     all request fragments are encrypted first, then written one by one, then response fragments are read
     and decrypted one by one)  ->  on ANY exception out of ble_request, including cancellation:
     _close_while_locked (disconnect, client := None, keys dropped)  ->  the exception leaves the operation,
     retry_bluetooth_connection_error may run the whole operation once more (get_characteristics: outside
     the operation lock; put_characteristics: inside).  close() / shutdown() take only _connection_lock.
     The _config_lock and _ble_request_lock are always taken inside the operation lock and are therefore
     never contended; they are not modelled.

   Environment: the accessory (per link: pair-verify state, session epoch, receive / send counters), the
   Bluetooth stack (connection attempt succeeds / fails, a GATT operation fails with or without loss of
   the link, disconnect completes), an attacker on the air (response fragment corrupted, an earlier fragment
   replayed, wrong transaction id), the peer dropping the link at any moment (bleak then marks the client
   disconnected and runs the disconnected callback, which drops the keys), callers (several concurrent
   get / put / close / shutdown, cancellation while suspended).

   Epochs: every completed pair-verify / pair-resume on the accessory side creates a fresh session epoch
   (fresh keys).  The controller's keys are identified by the epoch they were derived in. *)
EXTENDS Naturals, FiniteSets, Sequences, TLC

CONSTANTS Callers,      \* caller ids
          MaxCalls,     \* calls per caller (0 = unbounded)
          MaxLinks,     \* GATT connections ever made (0 = unbounded)
          MaxEp,        \* session epochs ever created (0 = unbounded)
          MaxReq,       \* requests per operation
          MaxW,         \* request fragments per request
          MaxR,         \* response fragments per request
          MaxAtt,       \* attempts of retry_bluetooth_connection_error (2 in the library)
          MaxFaults,    \* injected faults overall (0 = unbounded)
          SubsInit,     \* initial values of `subs` ({FALSE}, {TRUE} or BOOLEAN)
          MaySubscribe, \* subscribe() may be called during the run
          RestoreReqs,  \* how many requests the restore of subscriptions makes ({2} in the library)
          Loose,        \* TRUE (trace validation only): choices of the library that no property depends on are left open
          Guarded       \* TRUE: keys are installed only if the link the pair-verify ran on is still up

VARIABLES links, cur, enc, sctr, rctr, stored, shut, subs, rpend, opH, opQ, cnH, cnQ, cl, nextEp, hw, ahw, instd, dead, bad, faults

vars == <<links, cur, enc, sctr, rctr, stored, shut, subs, rpend, opH, opQ, cnH, cnQ, cl, nextEp, hw, ahw, instd, dead, bad, faults>>

OpKinds == {"get", "put"}
CloseKinds == {"close", "shutdown"}
NoFrag == <<0, 0>>

NewLink == [up |-> TRUE, pvs |-> "none", ae |-> 0, rc |-> 0, sc |-> 0, got |-> 0, resp |-> FALSE]
Idle == [kind |-> "none", pc |-> "idle", att |-> 0, n |-> 0, nw |-> 0, ri |-> 0, j |-> 0, je |-> 0, ln |-> 0, wake |-> "none",
         exc |-> "none", res |-> "none", cw |-> 0, ep |-> 0, c0 |-> 0, frag |-> NoFrag, tidok |-> TRUE, more |-> FALSE, calls |-> 0, rst |-> FALSE, rk |-> 0]

Links == 1..Len(links)
Up(S, n) == n # 0 /\ S.links[n].up
Connected(S) == Up(S, S.cur)

St == [links |-> links, cur |-> cur, enc |-> enc, sctr |-> sctr, rctr |-> rctr, stored |-> stored, shut |-> shut, subs |-> subs, rpend |-> rpend,
       opH |-> opH, opQ |-> opQ, cnH |-> cnH, cnQ |-> cnQ, cl |-> cl, nextEp |-> nextEp, hw |-> hw, ahw |-> ahw,
       instd |-> instd, dead |-> dead, bad |-> bad, faults |-> faults]
Commit(S) == /\ links' = S.links /\ cur' = S.cur /\ enc' = S.enc /\ sctr' = S.sctr /\ rctr' = S.rctr /\ stored' = S.stored
             /\ shut' = S.shut /\ subs' = S.subs /\ rpend' = S.rpend /\ opH' = S.opH /\ opQ' = S.opQ /\ cnH' = S.cnH /\ cnQ' = S.cnQ /\ cl' = S.cl
             /\ nextEp' = S.nextEp /\ hw' = S.hw /\ ahw' = S.ahw /\ instd' = S.instd /\ dead' = S.dead /\ bad' = S.bad
             /\ faults' = S.faults

Flag(S, f) == [S EXCEPT !.bad = @ \cup {f}]
Fault(S) == [S EXCEPT !.faults = @ + 1]
FaultOk == MaxFaults = 0 \/ faults < MaxFaults

\* ------------------------------------------------------------------ locks (asyncio.Lock: FIFO, hand-over on release)
Without(q, c) == SelectSeq(q, LAMBDA x : x # c)
AcquireOp(S, c) ==
    IF S.opH = 0 /\ S.opQ = << >> THEN [S EXCEPT !.opH = c, !.cl[c].pc = "start", !.cl[c].wake = "none"]
    ELSE [S EXCEPT !.opQ = Append(@, c), !.cl[c].pc = "opwait", !.cl[c].wake = "none"]
ReleaseOp(S) ==
    IF S.opQ = << >> THEN [S EXCEPT !.opH = 0]
    ELSE LET h == Head(S.opQ) IN [S EXCEPT !.opH = h, !.opQ = Tail(@), !.cl[h].wake = IF @ = "none" THEN "lock" ELSE @]
AcquireCn(S, c, pcGot) ==
    IF S.cnH = 0 /\ S.cnQ = << >> THEN [S EXCEPT !.cnH = c, !.cl[c].pc = pcGot, !.cl[c].wake = "none"]
    ELSE [S EXCEPT !.cnQ = Append(@, c), !.cl[c].pc = "cnwait", !.cl[c].wake = "none"]
ReleaseCn(S) ==
    IF S.cnQ = << >> THEN [S EXCEPT !.cnH = 0]
    ELSE LET h == Head(S.cnQ) IN [S EXCEPT !.cnH = h, !.cnQ = Tail(@), !.cl[h].wake = IF @ = "none" THEN "lock" ELSE @]

\* _async_reset_connection_state (disconnected callback, _close_while_locked)
ResetKeys(S) == [S EXCEPT !.enc = 0, !.rpend = FALSE]
\* the link is gone: bleak marks the client disconnected, runs the callback, pending operations on it fail
LinkDown(S, n) ==
    LET S1 == ResetKeys([S EXCEPT !.links[n].up = FALSE, !.links[n].pvs = "none"]) IN
    [S1 EXCEPT !.cl = [c \in Callers |->
        IF S1.cl[c].ln = n /\ S1.cl[c].wake = "none" /\ S1.cl[c].pc \in {"pv1", "pv3", "wr", "rd"} THEN [S1.cl[c] EXCEPT !.wake = "gerr"]
        ELSE IF S1.cl[c].ln = n /\ S1.cl[c].wake = "none" /\ S1.cl[c].pc = "disc" THEN [S1.cl[c] EXCEPT !.wake = "ok"]
        ELSE S1.cl[c]]]

\* the operation ends with an exception / normally
Ends(S, c, res) == [S EXCEPT !.cl[c].pc = "ret", !.cl[c].res = res, !.cl[c].wake = "none"]
ToRaise(S, c, exc) == [S EXCEPT !.cl[c].pc = "raise", !.cl[c].exc = exc, !.cl[c].wake = "none"]
ToFail(S, c, exc) == [S EXCEPT !.cl[c].pc = "fail", !.cl[c].exc = exc, !.cl[c].wake = "none",
                               !.dead = IF S.cl[c].ep # 0 THEN @ \cup {S.cl[c].ep} ELSE @]
ExcOf(w) == IF w = "cancel" THEN "cancel" ELSE "err"

\* ------------------------------------------------------------------ callers
Call(c, kind, n, nw) ==
    /\ cl[c].pc = "idle" /\ (MaxCalls = 0 \/ cl[c].calls < MaxCalls)
    /\ kind \in OpKinds \cup CloseKinds
    /\ n \in 1..MaxReq /\ nw \in 1..MaxW
    /\ kind \in CloseKinds => n = 1 /\ nw = 1
    /\ kind = "get" => nw = 1
    /\ LET S0 == [St EXCEPT !.cl[c] = [Idle EXCEPT !.kind = kind, !.n = n, !.nw = nw, !.att = 1, !.calls = cl[c].calls + 1],
                            !.shut = IF kind = "shutdown" THEN TRUE ELSE @]
       IN Commit(IF kind \in OpKinds THEN AcquireOp(S0, c) ELSE AcquireCn(S0, c, "cstart"))

\* cancellation reaches a caller only while it is suspended and nothing has been delivered to it yet
Cancellable(c) == /\ cl[c].wake = "none"
                  /\ \/ cl[c].pc \in {"opwait", "connecting", "pv1", "pv3", "wr", "rd", "backoff"}
                     \/ cl[c].pc = "cnwait"
                  /\ cl[c].exc = "none"
CallerCancel(c) ==
    /\ Cancellable(c)
    /\ LET S == [St EXCEPT !.cl[c].wake = "cancel"] IN
       Commit(CASE cl[c].pc = "opwait" -> Ends([S EXCEPT !.opQ = Without(@, c)], c, "cancelled")
                [] cl[c].pc = "cnwait" /\ cl[c].kind \in CloseKinds -> Ends([S EXCEPT !.cnQ = Without(@, c)], c, "cancelled")
                [] cl[c].pc = "cnwait" /\ cl[c].kind \in OpKinds -> ToRaise([S EXCEPT !.cnQ = Without(@, c)], c, "cancel")
                [] OTHER -> S)

\* a lock was handed to a waiter
OpGranted(c) ==
    /\ cl[c].pc = "opwait" /\ cl[c].wake = "lock" /\ opH = c
    /\ Commit([St EXCEPT !.cl[c].pc = "start", !.cl[c].wake = "none"])

\* restore_connection_and_resume / _populate_accessories_and_characteristics / _ensure_connected (first check)
Start(c) ==
    /\ cl[c].pc = "start" /\ opH = c /\ ~shut
    /\ LET S == St IN
       Commit(IF S.shut THEN S          \* see StartShut
              ELSE IF Connected(S) THEN [S EXCEPT !.cl[c].pc = "pvchk"]
              ELSE AcquireCn(S, c, "conn0"))
\* after shutdown() an operation does nothing (the library returns None; raising would be just as good): no attempt is made
StartShut(c, raises) ==
    /\ cl[c].pc = "start" /\ opH = c /\ shut
    /\ raises => Loose
    /\ Commit(IF raises THEN Ends(ReleaseOp(St), c, "err") ELSE [St EXCEPT !.cl[c].pc = "fin"])
CnGranted(c) ==
    /\ cl[c].pc = "cnwait" /\ cl[c].wake = "lock" /\ cnH = c
    /\ Commit([St EXCEPT !.cl[c].pc = IF cl[c].kind \in OpKinds THEN "conn0" ELSE "cstart", !.cl[c].wake = "none"])
\* second check under the connection lock, then establish_connection
ConnReq(c) ==
    /\ cl[c].pc = "conn0" /\ cnH = c
    /\ LET S == St IN
       Commit(IF S.shut \/ Connected(S) THEN [ReleaseCn(S) EXCEPT !.cl[c].pc = "pvchk"]
              ELSE [S EXCEPT !.cl[c].pc = "connecting", !.cl[c].wake = "none"])
IssuesConnect(c) == cl[c].pc = "conn0" /\ ~(shut \/ Connected(St))

ConnOk(c) ==
    /\ cl[c].pc = "connecting" /\ cl[c].wake = "none"
    /\ MaxLinks = 0 \/ Len(links) < MaxLinks
    /\ Commit([St EXCEPT !.links = Append(@, NewLink), !.cl[c].wake = "ok", !.cl[c].ln = Len(links) + 1])
ConnFail(c) ==
    /\ cl[c].pc = "connecting" /\ cl[c].wake = "none" /\ FaultOk
    /\ Commit(Fault([St EXCEPT !.cl[c].wake = "cfail"]))
ConnDone(c) ==
    /\ cl[c].pc = "connecting" /\ cl[c].wake # "none"
    /\ LET S == St
           w == cl[c].wake IN
       Commit(IF w = "ok" THEN [ReleaseCn([S EXCEPT !.cur = cl[c].ln, !.rpend = TRUE]) EXCEPT !.cl[c].pc = "pvchk", !.cl[c].wake = "none"]
              ELSE ToRaise(ReleaseCn(S), c, ExcOf(w)))

\* _async_pair_verify: M1 (or the resume request) is written to the Pair-Verify characteristic
PvStart(c, m) ==
    /\ cl[c].pc = "pvchk" /\ enc = 0 /\ Connected(St)
    /\ m \in {"m1", "m1r"} /\ (m = "m1r" => stored)
    /\ Commit([St EXCEPT !.links[cur].pvs = m, !.cl[c].pc = "pv1", !.cl[c].ln = cur, !.cl[c].wake = "none"])
\* no client / client not connected: the first GATT access raises
PvNoLink(c) ==
    /\ cl[c].pc = "pvchk" /\ enc = 0 /\ ~Connected(St)
    /\ Commit(ToRaise(St, c, "err"))
PvSkip(c) ==
    /\ cl[c].pc = "pvchk" /\ enc # 0
    /\ Commit([St EXCEPT !.cl[c].pc = "req", !.cl[c].ri = 1])

NewSession(S, n) == [S EXCEPT !.nextEp = @ + 1, !.links[n].ae = S.nextEp + 1, !.links[n].rc = 0, !.links[n].sc = 0,
                              !.links[n].got = 0, !.links[n].resp = FALSE, !.links[n].pvs = "none"]
EpOk == MaxEp = 0 \/ nextEp < MaxEp
\* the accessory answers the pending pair-verify request of link n
PvReply(c, kind) ==
    LET n == cl[c].ln IN
    /\ cl[c].pc \in {"pv1", "pv3"} /\ cl[c].wake = "none" /\ links[n].up
    /\ kind \in {"m2", "m2r", "m4", "err"}
    /\ kind = "m2" => links[n].pvs \in {"m1", "m1r"}
    /\ kind = "m2r" => links[n].pvs = "m1r" /\ EpOk
    /\ kind = "m4" => links[n].pvs = "m3" /\ EpOk
    /\ kind = "err" => FaultOk
    /\ Commit(CASE kind = "m2" -> [St EXCEPT !.links[n].pvs = "mid", !.cl[c].wake = "m2"]
                [] kind \in {"m2r", "m4"} -> [NewSession(St, n) EXCEPT !.cl[c].wake = "fin"]
                [] kind = "err" -> Fault([St EXCEPT !.links[n].pvs = "none", !.cl[c].wake = "perr"]))
\* M3 is written after M2 was processed
PvM3(c) ==
    /\ cl[c].pc = "pv1" /\ cl[c].wake = "m2"
    /\ LET n == cl[c].ln IN
       Commit(IF links[n].up THEN [St EXCEPT !.links[n].pvs = "m3", !.cl[c].pc = "pv3", !.cl[c].wake = "none"]
              ELSE ToRaise(St, c, "err"))
\* keys are installed from the completed exchange; the session is stored for resumption
PvInstall(c) ==
    /\ cl[c].pc \in {"pv1", "pv3"} /\ cl[c].wake = "fin"
    /\ LET n == cl[c].ln
           ep == links[n].ae
           S == St IN
       Commit(IF Guarded /\ ~(cur = n /\ links[n].up) THEN ToRaise(S, c, "err")
              ELSE [(IF ep \in S.instd THEN Flag(S, "reinstall") ELSE S)
                        EXCEPT !.enc = ep, !.sctr = 0, !.rctr = 0, !.stored = TRUE, !.instd = @ \cup {ep},
                               !.cl[c].pc = "req", !.cl[c].ri = 1, !.cl[c].wake = "none"])
PvFailed(c) ==
    /\ cl[c].pc \in {"pv1", "pv3"} /\ cl[c].wake \in {"perr", "gerr", "cancel"}
    /\ Commit(ToRaise(St, c, ExcOf(cl[c].wake)))

\* _async_request_under_lock: connected check; ble_request captures the key objects
\* (the first request of an operation has nw fragments, the others one)
ReqStart(c) ==
    /\ cl[c].pc = "req"
    /\ LET S == St IN
       Commit(IF ~Connected(S) THEN ToRaise(S, c, "err")
              ELSE [(IF S.enc = 0 THEN Flag(S, "plaintext") ELSE S)
                        EXCEPT !.cl[c].pc = "encr", !.cl[c].cw = (IF cl[c].ri = 1 THEN cl[c].nw ELSE 1), !.cl[c].ep = S.enc, !.cl[c].c0 = S.sctr, !.cl[c].ln = S.cur, !.cl[c].j = 0, !.cl[c].je = 0])
\* _write_pdu encrypts the fragments (the library: all of them before the first write; encrypting each one just before it
\* is written is the same protocol and equally allowed here): je fragments encrypted, j written so far
Encrypt(c) ==
    /\ cl[c].pc = "encr" /\ cl[c].je < cl[c].cw
    /\ LET ep == cl[c].ep
           S == St
           S1 == IF ep = 0 THEN S
                 ELSE [(IF S.sctr < S.hw[ep] THEN Flag(S, "noncereuse") ELSE S) EXCEPT !.hw[ep] = IF S.sctr + 1 > @ THEN S.sctr + 1 ELSE @,
                                                                                      !.sctr = @ + 1]
       IN Commit([S1 EXCEPT !.cl[c].je = @ + 1])
WriteNext(c) ==
    /\ cl[c].pc = "encr" /\ cl[c].je > cl[c].j
    /\ Commit(IF Up(St, cl[c].ln) THEN [St EXCEPT !.cl[c].pc = "wr", !.cl[c].j = @ + 1, !.cl[c].wake = "none"]
              ELSE ToFail(St, c, "err"))
\* the Bluetooth stack delivers request fragment j to the accessory, which opens it with its own next counter
WrOk(c) ==
    LET n == cl[c].ln
        L == links[n]
        opens == cl[c].ep # 0 /\ L.ae = cl[c].ep /\ L.rc = cl[c].c0 + cl[c].j - 1
        last == cl[c].j = cl[c].cw IN
    /\ cl[c].pc = "wr" /\ cl[c].wake = "none" /\ L.up
    /\ Commit([(IF opens THEN St ELSE Flag(St, "desync"))
                  EXCEPT !.links[n].rc = IF opens THEN @ + 1 ELSE @,
                         !.links[n].got = IF opens /\ ~last THEN @ + 1 ELSE 0,
                         !.links[n].resp = IF last THEN opens /\ L.got + 1 = cl[c].cw ELSE @,
                         !.cl[c].wake = "ok"])
WrDone(c) ==
    /\ cl[c].pc = "wr" /\ cl[c].wake = "ok"
    /\ LET S == St IN
       Commit(IF ~Up(S, cl[c].ln) THEN ToFail(S, c, "err")
              ELSE IF cl[c].j < cl[c].cw THEN [S EXCEPT !.cl[c].pc = "encr", !.cl[c].wake = "none"]
              ELSE [S EXCEPT !.cl[c].pc = "rd", !.cl[c].j = 1, !.cl[c].wake = "none"])
\* a response fragment arrives: honest, honest with a wrong transaction id, corrupted on the air, a replay of an
\* earlier fragment of this session, or garbage because the accessory has no response ("none")
RdOk(c, kind, more, k) ==
    LET n == cl[c].ln
        L == links[n] IN
    /\ cl[c].pc = "rd" /\ cl[c].wake = "none" /\ L.up
    /\ kind \in {"honest", "wrongtid", "corrupt", "replay", "none"}
    /\ kind # "honest" => FaultOk
    /\ kind \in {"honest", "wrongtid", "corrupt"} => L.resp
    /\ kind = "none" <=> ~L.resp /\ kind # "replay"
    /\ kind = "replay" => k < L.sc
    /\ more => kind \in {"honest", "wrongtid", "corrupt"} /\ cl[c].j < MaxR
    /\ LET S == IF kind = "honest" THEN St ELSE Fault(St) IN
       Commit([S EXCEPT !.links[n].sc = IF kind \in {"honest", "wrongtid", "corrupt"} THEN @ + 1 ELSE @,
                        !.links[n].resp = IF kind \in {"honest", "wrongtid", "corrupt"} THEN more ELSE @,
                        !.cl[c].wake = "frag", !.cl[c].more = more, !.cl[c].tidok = kind # "wrongtid",
                        !.cl[c].frag = CASE kind \in {"honest", "wrongtid"} -> <<L.ae, L.sc>>
                                         [] kind = "replay" -> <<L.ae, k>>
                                         [] OTHER -> NoFrag])
DecOk(c) == cl[c].ep # 0 /\ cl[c].frag = <<cl[c].ep, rctr>>
\* _read_pdu: decrypt with the captured key object, check the PDU header, read on / finish
Decrypt(c, chk, k) ==
    /\ cl[c].pc = "rd" /\ cl[c].wake = "frag" /\ (chk \/ Loose) /\ k \in RestoreReqs
    /\ LET S == St
           ep == cl[c].ep IN
       Commit(IF ~DecOk(c) THEN ToFail(S, c, "err")
              ELSE LET S1 == [(IF S.rctr # S.ahw[ep] THEN Flag(S, "reaccept") ELSE S) EXCEPT !.rctr = @ + 1, !.ahw[ep] = S.rctr + 1] IN
                   IF ~cl[c].tidok THEN ToFail(S1, c, "err")
                   ELSE IF cl[c].more THEN (IF Up(S1, cl[c].ln) THEN [S1 EXCEPT !.cl[c].j = @ + 1, !.cl[c].wake = "none"]
                                            ELSE ToFail(S1, c, "err"))
                   ELSE IF chk /\ ~Connected(S1) THEN ToRaise(S1, c, "err")  \* the check after ble_request (no close: nothing is out of step)
                   ELSE IF cl[c].ri < cl[c].n THEN
                        [S1 EXCEPT !.cl[c].pc = "req", !.cl[c].ri = @ + 1, !.cl[c].wake = "none"]
                   ELSE IF ~cl[c].rst /\ S1.rpend /\ ~S1.shut /\ Connected(S1) THEN
                        \* restore_connection_and_resume: the first operation that completes on a new connection restores the
                        \* subscriptions: generate broadcast key + read protocol parameters (k = 2 more requests); nothing if none.
                        \* (_restore_pending is cleared between the two; the moment is not observable: a failure closes the connection)
                        IF S1.subs THEN [S1 EXCEPT !.rpend = FALSE, !.cl[c].pc = "req", !.cl[c].ri = @ + 1, !.cl[c].n = @ + k, !.cl[c].rk = k,
                                                   !.cl[c].rst = TRUE, !.cl[c].wake = "none"]
                        ELSE [S1 EXCEPT !.rpend = FALSE, !.cl[c].pc = "fin", !.cl[c].wake = "none"]
                   ELSE [S1 EXCEPT !.cl[c].pc = "fin", !.cl[c].wake = "none"])
ReqFailed(c) ==
    /\ cl[c].pc \in {"wr", "rd"} /\ cl[c].wake \in {"gerr", "cancel"}
    /\ Commit(ToFail(St, c, ExcOf(cl[c].wake)))

\* a GATT operation fails in the Bluetooth stack (error, time-out), with or without loss of the link
GattErr(c, drop) ==
    /\ cl[c].pc \in {"pv1", "pv3", "wr", "rd"} /\ cl[c].wake = "none" /\ FaultOk
    /\ LET S == Fault([St EXCEPT !.cl[c].wake = "gerr"]) IN
       Commit(IF drop /\ Up(S, cl[c].ln) THEN LinkDown(S, cl[c].ln) ELSE S)
\* the peer drops the link
Drop(n) ==
    /\ n \in Links /\ links[n].up /\ FaultOk
    /\ Commit(LinkDown(Fault(St), n))

\* _close_while_locked after a failed request
CloseStart(c) ==
    /\ cl[c].pc = "fail"
    /\ LET S == St IN
       Commit(IF ~Connected(S) THEN [S EXCEPT !.cl[c].pc = "raise"]
              ELSE [S EXCEPT !.cl[c].pc = "disc", !.cl[c].ln = S.cur, !.cl[c].wake = "none"])
IssuesDisconnect(c) == cl[c].pc \in {"fail", "cstart"} /\ Connected(St)
\* client.disconnect() completes: the link is down (the callback has run)
DiscOk(n) ==
    /\ n \in Links /\ links[n].up
    /\ \E c \in Callers : cl[c].pc = "disc" /\ cl[c].ln = n /\ cl[c].wake = "none"
    /\ Commit(LinkDown(St, n))
DiscDone(c) ==
    /\ cl[c].pc = "disc" /\ cl[c].wake = "ok"
    /\ LET S == ResetKeys([St EXCEPT !.cur = 0]) IN
       Commit(IF cl[c].kind \in OpKinds THEN [S EXCEPT !.cl[c].pc = "raise", !.cl[c].wake = "none"]
              ELSE Ends(ReleaseCn(S), c, "ok"))

\* the exception leaves the operation: cancelled, given up, or retried by retry_bluetooth_connection_error
\* (get_characteristics retries outside the operation lock, put_characteristics inside: hold)
Raise(c, retry, hold) ==
    /\ cl[c].pc = "raise"
    /\ retry => cl[c].exc = "err" /\ cl[c].att < MaxAtt /\ (Loose \/ (hold <=> cl[c].kind = "put"))
    /\ ~retry => ~hold
    /\ LET S == St IN
       Commit(IF retry THEN [(IF hold THEN S ELSE ReleaseOp(S))
                                 EXCEPT !.cl[c].pc = "backoff", !.cl[c].att = @ + 1, !.cl[c].exc = "none", !.cl[c].wake = "none", !.cl[c].ep = 0,
                                        !.cl[c].n = IF cl[c].rst THEN @ - cl[c].rk ELSE @, !.cl[c].rst = FALSE]
              ELSE Ends(ReleaseOp(S), c, IF cl[c].exc = "cancel" THEN "cancelled" ELSE "err"))
\* the back-off sleep of the retry wrapper ends (timer) / is cancelled
BackoffTimer(c) ==
    /\ cl[c].pc = "backoff" /\ cl[c].wake = "none"
    /\ Commit(IF opH = c THEN [St EXCEPT !.cl[c].pc = "start"] ELSE AcquireOp(St, c))
BackoffCancelled(c) ==
    /\ cl[c].pc = "backoff" /\ cl[c].wake = "cancel"
    /\ Commit(Ends(IF opH = c THEN ReleaseOp(St) ELSE St, c, "cancelled"))
Finish(c) ==
    /\ cl[c].pc = "fin"
    /\ Commit(Ends(ReleaseOp(St), c, "ok"))
Return(c) ==
    /\ cl[c].pc = "ret"
    /\ Commit([St EXCEPT !.cl[c] = [Idle EXCEPT !.calls = cl[c].calls]])

\* close() / shutdown() under the connection lock
CStart(c) ==
    /\ cl[c].pc = "cstart" /\ cnH = c
    /\ LET S == St IN
       Commit(IF ~Connected(S) THEN Ends(ReleaseCn(S), c, "ok")
              ELSE [S EXCEPT !.cl[c].pc = "disc", !.cl[c].ln = S.cur, !.cl[c].wake = "none"])

\* subscribe() while not connected only records the subscription ("Don't force a new connection")
Subscribe == /\ MaySubscribe /\ ~subs /\ ~Connected(St) /\ Commit([St EXCEPT !.subs = TRUE])

\* ------------------------------------------------------------------
Init == /\ links = << >> /\ cur = 0 /\ enc = 0 /\ sctr = 0 /\ rctr = 0 /\ stored = FALSE /\ shut = FALSE /\ subs \in SubsInit /\ rpend = FALSE
        /\ opH = 0 /\ opQ = << >> /\ cnH = 0 /\ cnQ = << >> /\ cl = [c \in Callers |-> Idle] /\ nextEp = 0
        /\ hw = [e \in 1..(IF MaxEp = 0 THEN 64 ELSE MaxEp) |-> 0] /\ ahw = [e \in 1..(IF MaxEp = 0 THEN 64 ELSE MaxEp) |-> 0]
        /\ instd = {} /\ dead = {} /\ bad = {} /\ faults = 0

CtrlStep(c) == \/ OpGranted(c) \/ Start(c) \/ StartShut(c, TRUE) \/ StartShut(c, FALSE) \/ CnGranted(c) \/ ConnReq(c) \/ ConnDone(c)
               \/ PvStart(c, "m1") \/ PvStart(c, "m1r") \/ PvNoLink(c) \/ PvSkip(c) \/ PvM3(c) \/ PvInstall(c) \/ PvFailed(c)
               \/ ReqStart(c) \/ Encrypt(c) \/ WriteNext(c) \/ WrDone(c) \/ (\E chk \in BOOLEAN, k \in RestoreReqs : Decrypt(c, chk, k)) \/ ReqFailed(c)
               \/ CloseStart(c) \/ DiscDone(c) \/ (\E retry, hold \in BOOLEAN : Raise(c, retry, hold)) \/ BackoffCancelled(c) \/ Finish(c) \/ CStart(c)
EnvAnswer(c) == \/ ConnOk(c) \/ PvReply(c, "m2") \/ PvReply(c, "m2r") \/ PvReply(c, "m4") \/ WrOk(c)
                \/ \E more \in BOOLEAN : RdOk(c, "honest", more, 0)
EnvFault(c) == \/ ConnFail(c) \/ PvReply(c, "err") \/ GattErr(c, TRUE) \/ GattErr(c, FALSE)
               \/ \E kind \in {"wrongtid", "corrupt", "none"}, more \in BOOLEAN : RdOk(c, kind, more, 0)
               \/ \E k \in 0..8 : RdOk(c, "replay", FALSE, k)
Next ==
    \/ \E c \in Callers : CtrlStep(c) \/ BackoffTimer(c) \/ EnvAnswer(c) \/ EnvFault(c) \/ CallerCancel(c) \/ Return(c)
    \/ \E c \in Callers, kind \in OpKinds \cup CloseKinds, n \in 1..MaxReq, nw \in 1..MaxW : Call(c, kind, n, nw)
    \/ \E n \in 1..Len(links) : Drop(n) \/ DiscOk(n)
    \/ Subscribe
Spec == Init /\ [][Next]_vars

\* ------------------------------------------------------------------ properties
\* P1  at most one GATT connection at a time ("Only allow one attempt to aquire the connection at a time")
AtMostOneLink == Cardinality({n \in Links : links[n].up}) <= 1
\* ... and a live link is the one the pairing holds, or the one a connection attempt is just handing over
NoLeakedLink == \A n \in Links : links[n].up => \/ n = cur
                                                \/ \E c \in Callers : cl[c].pc = "connecting" /\ cl[c].ln = n /\ cl[c].wake = "ok"
\* P2  at most one request on the air ("We don't want to read/write from characteristics in parallel")
OnAir(c) == cl[c].pc \in {"pv1", "pv3", "wr", "rd", "encr"}
OneRequestOnAir == Cardinality({c \in Callers : OnAir(c)}) <= 1
\* P3  under one session key no nonce is used twice for encryption
NoNonceReuse == "noncereuse" \notin bad
\* P4  incoming fragments are accepted once and in order, and only under the keys of their own session
AcceptOnceInOrder == "reaccept" \notin bad
\* P5  "the encryption counters" cannot get out of sync: whatever the controller sends encrypted, the accessory can open
\*     with its next counter under the session verified on that link
CountersInSync == "desync" \notin bad
NoPlaintextRequest == "plaintext" \notin bad
\* P6  a failed or cancelled request ends the session: its keys are never used for a later request
DeadEpochUnused == \A c \in Callers : cl[c].pc = "encr" => cl[c].ep \notin dead
\* ... once the failure has been handled the pairing holds neither the link nor keys
ClosedAfterFailure == \A c \in Callers : (cl[c].pc = "raise" /\ cl[c].ep # 0 /\ cl[c].ep \in dead) => enc = 0 /\ ~Connected(St)
\* P7  keys are fresh (one installation per pair-verify) and belong to the link in use: installed keys imply a live link on
\*     which the accessory holds exactly that session
FreshKeys == "reinstall" \notin bad
KeysMatchLink == enc # 0 => Connected(St) /\ links[cur].ae = enc
\* P8  resume is attempted only with a stored session
ResumeOnlyStored == \A n \in Links : links[n].pvs = "m1r" => stored
\* P9  close() leaves no connection: when it returns the pairing holds none (and by NoLeakedLink none exists)
CloseLeavesNone == [][\A c \in Callers : (cl[c].pc # "ret" /\ cl'[c].pc = "ret" /\ cl'[c].kind \in CloseKinds /\ cl'[c].res = "ok")
                                            => ~(cur' # 0 /\ links'[cur'].up)]_vars
\*     no connection attempt starts after shutdown() was called
NoConnectAfterShutdown == [][\A c \in Callers : (cl[c].pc # "connecting" /\ cl'[c].pc = "connecting") => ~shut]_vars
\* P10 nothing hangs: locks are held by callers that are running, waiters are queued
LocksConsistent == /\ opH # 0 => cl[opH].kind \in OpKinds /\ cl[opH].pc # "idle" /\ (cl[opH].pc = "backoff" => Loose \/ cl[opH].kind = "put")
                   /\ cnH # 0 => cl[cnH].pc \in {"conn0", "connecting", "cstart", "disc", "cnwait"}
                   /\ \A i \in 1..Len(opQ) : cl[opQ[i]].pc = "opwait"
                   /\ \A i \in 1..Len(cnQ) : cl[cnQ[i]].pc = "cnwait"
                   /\ \A c \in Callers : cl[c].pc = "opwait" => (opH = c \/ \E i \in 1..Len(opQ) : opQ[i] = c)
                   /\ \A c \in Callers : cl[c].pc = "cnwait" => (cnH = c \/ \E i \in 1..Len(cnQ) : cnQ[i] = c)
\*     a caller that is not idle can always make progress, by its own step or by an answer of the environment
Busy(c) == cl[c].pc # "idle"
NotStuck == ((\E c \in Callers : Busy(c)) /\ FaultOk /\ EpOk /\ (MaxLinks = 0 \/ Len(links) < MaxLinks)) =>
               ENABLED (\/ \E c \in Callers : CtrlStep(c) \/ BackoffTimer(c) \/ Return(c) \/ EnvAnswer(c) \/ EnvFault(c)
                        \/ \E n \in 1..Len(links) : DiscOk(n))
\*     liveness: with fair scheduling and a Bluetooth stack that answers (or fails) every operation, every call returns
Fairness == /\ \A c \in Callers : WF_vars(CtrlStep(c)) /\ WF_vars(Return(c)) /\ WF_vars(BackoffTimer(c))
                                  /\ WF_vars(ConnOk(c) \/ ConnFail(c) \/ WrOk(c) \/ GattErr(c, FALSE))
                                  /\ WF_vars(\E more \in BOOLEAN, kind \in {"honest", "none"} : RdOk(c, kind, more, 0))
                                  /\ WF_vars(PvReply(c, "m2") \/ PvReply(c, "m4") \/ PvReply(c, "err"))
            /\ \A n \in 1..4 : WF_vars(DiscOk(n))
LiveSpec == Spec /\ Fairness
EveryCallReturns == \A c \in Callers : (cl[c].pc # "idle") ~> (cl[c].pc = "idle")

\* caller identities are interchangeable (used by the larger exhaustive configurations)
Sym == Permutations(Callers)
Quiescent == ~ENABLED (\E c \in Callers : CtrlStep(c))
=============================================================================
