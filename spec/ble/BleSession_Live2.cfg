SPECIFICATION LiveSpec
CONSTANTS
  Callers = {1, 2}
  MaxCalls = 1
  MaxLinks = 0
  MaxEp = 0
  MaxReq = 1
  MaxW = 1
  MaxR = 1
  MaxAtt = 2
  MaxFaults = 2
  SubsInit = {FALSE}
  MaySubscribe = FALSE
  RestoreReqs = {2}
  Loose = FALSE
  Guarded = TRUE
PROPERTY EveryCallReturns
CHECK_DEADLOCK FALSE
