SPECIFICATION TSpec
CONSTANTS
  Chars = {1, 2, 3}
  NoEv = {3}
  BChars = {2}
  Vals = {0, 1}
  Listeners = {1, 2, 3}
  Raising = {3}
  Callers = {1, 2}
  MaxOps = 60
  MaxLinks = 0
  Debounce = 1500
  Backoff = 100
  Off = {}
  Deviations = {"extblesub-pass-crashes-on-closed-client", "extblesub-stale-notify-entry-after-link-loss", "extblesub-unsubscribe-ignored"}
INVARIANT NotifyComplete
CONSTRAINT TConstraint
VIEW TView
POSTCONDITION Accepted
CHECK_DEADLOCK FALSE
