SPECIFICATION LiveSpec
CONSTANTS
  Chars = {1, 2}
  NoEv = {}
  BChars = {2}
  Vals = {0}
  Listeners = {}
  Raising = {}
  Callers = {1}
  MaxOps = 4
  MaxLinks = 2
  Debounce = 2
  Backoff = 1
  Off = {"Change", "Ind", "Listen", "Unsubscribe", "Wait", "fail", "payload", "shutdown"}
  Deviations = {"restore-skipped"}
PROPERTY EventuallyNotified
VIEW View
CHECK_DEADLOCK FALSE
