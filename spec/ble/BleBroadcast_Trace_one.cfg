SPECIFICATION TSpec
CONSTANTS
  W = 99
  Back = {}
  Fwd = {}
  AbsLow = {}
  Pairings = {"A", "B"}
  Foreign = {"X"}
  Iids = {1}
  Vals = {1}
  Starts = {0}
  KeyAtStart = {TRUE}
  MaxSteps = 0
PROPERTY TOnlyAuthenticFresh
PROPERTY TAcceptedDelivered
PROPERTY TMonotoneLast
PROPERTY TReplayNeverAccepted
PROPERTY TStepAllowed
CHECK_DEADLOCK FALSE
