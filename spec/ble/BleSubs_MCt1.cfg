SPECIFICATION Spec
CONSTANTS
  Chars = {1, 2, 3}
  NoEv = {3}
  BChars = {2}
  Vals = {0}
  Listeners = {}
  Raising = {}
  Callers = {1}
  MaxOps = 4
  MaxLinks = 3
  Debounce = 2
  Backoff = 1
  Off = {"Change", "Ind", "Listen", "Unsubscribe", "close", "payload", "shutdown"}
  Deviations = {}
INVARIANT NotifyComplete
INVARIANT NotifyExact
INVARIANT WantedComplete
INVARIANT RestoredAfterReconnect
INVARIANT BroadcastComplete
INVARIANT UnsubscribeHonoured
INVARIANT NtfIsActive
INVARIANT NotifyNotLost
INVARIANT TwoTasks
INVARIANT OneTimer
INVARIANT TypeOk
PROPERTY PassOnlyWanted
PROPERTY SnOncePerLink
PROPERTY SnOnlyOnLiveLink
PROPERTY BcastOncePerLink
PROPERTY NothingAfterShutdown
PROPERTY EveryListenerOnce
PROPERTY ReadPerNotification
PROPERTY NoBackgroundCrash
PROPERTY TimerRestarted
VIEW View
CHECK_DEADLOCK FALSE
