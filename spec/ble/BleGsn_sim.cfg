SPECIFICATION SimSpec
CONSTANTS
  MaxGsn = 5
  MaxCn = 3
  Vals = {1, 2, 3}
  InitCaches = {"entry", "nosn", "none"}
  MaxOps = 4
  MaxConns = 0
  MaxRestarts = 2
  MaxKeys = 0
  Callers = {1, 2}
  StaleBcast = FALSE
  Guarded = TRUE
  Off = {}
  Coarse = FALSE
  Deviations = {"extgsn-restore-adopts-state-number-without-poll"}
CHECK_DEADLOCK FALSE
