SPECIFICATION Spec
CONSTANTS
  Chars = {1, 2}
  NoEv = {}
  BChars = {2}
  Vals = {0}
  Listeners = {1}
  Raising = {}
  Callers = {1}
  MaxOps = 3
  MaxLinks = 2
  Debounce = 2
  Backoff = 1
  Off = {"Change", "Unsubscribe", "Wait", "fail", "payload", "shutdown"}
  Deviations = {}
INVARIANT NotifyComplete
INVARIANT NotifyExact
INVARIANT WantedComplete
INVARIANT RestoredAfterReconnect
INVARIANT BroadcastComplete
INVARIANT UnsubscribeHonoured
INVARIANT NtfIsActive
INVARIANT NotifyNotLost
INVARIANT TwoTasks
INVARIANT OneTimer
INVARIANT TypeOk
PROPERTY PassOnlyWanted
PROPERTY SnOncePerLink
PROPERTY SnOnlyOnLiveLink
PROPERTY BcastOncePerLink
PROPERTY NothingAfterShutdown
PROPERTY EveryListenerOnce
PROPERTY ReadPerNotification
PROPERTY NoBackgroundCrash
PROPERTY TimerRestarted
VIEW View
CHECK_DEADLOCK FALSE
