SPECIFICATION TSpec
CONSTANTS
  MaxGsn = 65535
  MaxCn = 255
  Vals <- TVals
  InitCaches = {"entry"}
  MaxOps = 80
  MaxConns = 0
  MaxRestarts = 0
  MaxKeys = 0
  Callers = {1, 2}
  StaleBcast = TRUE
  Guarded = FALSE
  Off = {}
  Coarse = FALSE
  Deviations = {"extgsn-restore-adopts-state-number-without-poll"}
CONSTRAINT TConstraint
VIEW TView
INVARIANT OnePoll
INVARIANT NoPollBeforeConnect
INVARIANT CachedIsLastAdopted
INVARIANT NoRedundantAvailability
INVARIANT CfgFollowed
POSTCONDITION Accepted
CHECK_DEADLOCK FALSE
