---------------------------- MODULE BleSubs_Trace ----------------------------
(* Trace validation for BleSubs: an execution of the real BlePairing recorded by harness/extblesub_driver.py (stimuli,
   start_notify at the fake GATT client, what reached the accessory, listener calls, returns of the public API, timers,
   background tasks that died, the observable state after every stimulus) is accepted iff its event sequence is the
   concatenation of the `out` sequences of a behaviour of BleSubs (steps without visible effect are inferred).  The
   invariants of BleSubs stay on: an execution that drives the model into a state violating one of them is reported with
   the property's name. *)
EXTENDS BleSubs, Json, IOUtils, TLCExt

Traces == ndJsonDeserialize(IOEnv.TRACE_FILE)
VARIABLES tid, l
tvars == <<vars, tid, l>>
Ev == Traces[tid].events
Has == l <= Len(Ev)
E == Ev[l]
ToSet(sq) == {sq[i] : i \in 1..Len(sq)}

\* the visible effects of the step are exactly the next recorded events
Match == /\ l + Len(out') - 1 <= Len(Ev)
         /\ \A i \in 1..Len(out') : Ev[l + i - 1] = out'[i]
         /\ l' = l + Len(out') /\ UNCHANGED tid

TInit == /\ tid \in 1..Len(Traces) /\ l = 1
         /\ s = Init0([i \in Chars |-> 0])
         /\ out = << >>

\* stimuli with parameters are taken from the record, everything else is tried
Stimulus == /\ Has
            /\ CASE E.ev = "sub" -> Subscribe(ToSet(E.S))
                 [] E.ev = "unsub" -> Unsubscribe(ToSet(E.S))
                 [] E.ev = "listen" -> Listen(E.l)
                 [] E.ev = "unlisten" -> Unlisten(E.l)
                 [] E.ev = "call" -> Call(E.c, E.i)
                 [] E.ev \in {"close", "shutdown"} -> CloseCall(E.ev)
                 [] E.ev = "ind" -> Ind(E.i, E.d)
                 [] E.ev = "chg" -> Change(E.i, E.v)
                 [] E.ev = "conn_res" -> ConnRes(E.out)
                 [] E.ev = "sn_res" -> \E cr \in BOOLEAN : SnRes(E.out, cr)
                 [] E.ev = "wait" -> Wait(E.d)
                 [] E.ev = "timer" -> AnyTimer
                 [] E.ev = "drop" -> \E cf, cr \in BOOLEAN : Drop(cf, cr)
                 [] E.ev = "disc_res" -> \E cf, cr \in BOOLEAN : DiscRes(cf, cr)
                 [] E.ev = "obs" -> Obs
                 [] E.ev = "wb" -> Wb
                 [] OTHER -> FALSE
Silent == Internal \/ PvDone \/ GReq \/ GRes \/ KeyDone \/ (\E i \in Chars : BcReq(i)) \/ BcRes \/ ParDone \/ EvReq \/ EvDone
          \/ EvRes
\* the end of a run after an honest tail: nothing is left to do, every call has returned
TrEnd == /\ Has /\ E.ev = "end" /\ E.hung = << >> /\ ~E.closer
         /\ Quiescent /\ s.opq = << >> /\ Timers(s) = {} /\ s.cl.st = "idle" /\ \A c \in Callers : s.cst[c].st = "idle"
         /\ l' = l + 1 /\ UNCHANGED <<vars, tid>>

TNext == ((Stimulus \/ Silent) /\ Match) \/ TrEnd
TSpec == TInit /\ [][TNext]_tvars

ASSUME \A i \in 1..Len(Traces) : TLCSet(i, 0)
TConstraint == TLCSet(tid, IF TLCGet(tid) < l THEN l ELSE TLCGet(tid))
Accepted == /\ TLCGet("stats").generated >= 0
            /\ \A i \in 1..Len(Traces) :
                  IF TLCGet(i) = Len(Traces[i].events) + 1 THEN TRUE ELSE PrintT(<<"REJECTED", i, TLCGet(i)>>)
DbgL == CHOOSE n \in 0..100000 : ToString(n) = IOEnv.DBG_L
DebugNotReached == l < DbgL
TView == <<s, tid, l>>
=============================================================================
