---------------------------- MODULE BleGsn_Trace ----------------------------
(* Trace validation for BleGsn: an execution of the real BleController / BlePairing recorded by
   harness/extgsn_driver.py (stimuli, what reached the accessory, connection attempts, listener calls, cache writes,
   the public attributes after every stimulus) is accepted iff its event sequence is the concatenation of the `out`
   sequences of a behaviour of BleGsn (steps without visible effect are inferred).  All invariants of BleGsn stay on:
   an execution that drives the model into a state violating one of them is reported with the property's name. *)
EXTENDS BleGsn, Json, IOUtils, TLCExt

Traces == ndJsonDeserialize(IOEnv.TRACE_FILE)
VARIABLES tid, l
tvars == <<vars, tid, l>>
Ev == Traces[tid].events
Has == l <= Len(Ev)
E == Ev[l]

\* the visible effects of the step are exactly the next recorded events
Match == /\ l + Len(out') - 1 <= Len(Ev)
         /\ \A i \in 1..Len(out') : Ev[l + i - 1] = out'[i]
         /\ l' = l + Len(out') /\ UNCHANGED tid

TInit == /\ tid \in 1..Len(Traces) /\ l = 1
         /\ LET i == Traces[tid].init IN s = Init0(i.cache, i.gsn, i.cn, i.aval)
         /\ out = << >>

\* stimuli with parameters are taken from the record, everything else is tried
Stimulus == /\ Has
            /\ CASE E.ev = "adv" -> Adv(E.g, E.c)
                 [] E.ev = "bcast" -> Bcast(E.g, E.v)
                 [] E.ev = "change" -> Change(E.v)
                 [] E.ev = "call" -> Call(E.c, E.force)
                 [] E.ev = "conn_res" -> ConnRes(E.out)
                 [] E.ev = "timer" -> \E w \in {"backoff", "find", "ntf"} : Timer(w)
                 [] OTHER -> FALSE
Plain == CfgChange \/ Drop \/ Tick \/ Subscribe \/ Restart \/ FetchDone \/ Internal \/ Answer \/ Obs
\* the end of a run after an honest tail: nothing is left to do, every call has returned
TrEnd == /\ Has /\ E.ev = "end" /\ E.hung = << >>
         /\ Quiescent /\ s.opq = << >> /\ ~s.ntimer /\ \A c \in Callers : s.cst[c] = "idle"
         /\ l' = l + 1 /\ UNCHANGED <<vars, tid>>

TNext == ((Stimulus \/ Plain) /\ Match) \/ TrEnd
TSpec == TInit /\ [][TNext]_tvars

ASSUME \A i \in 1..Len(Traces) : TLCSet(i, 0)
TConstraint == TLCSet(tid, IF TLCGet(tid) < l THEN l ELSE TLCGet(tid))
Accepted == /\ TLCGet("stats").generated >= 0
            /\ \A i \in 1..Len(Traces) :
                  IF TLCGet(i) = Len(Traces[i].events) + 1 THEN TRUE ELSE PrintT(<<"REJECTED", i, TLCGet(i)>>)
DbgL == CHOOSE n \in 0..100000 : ToString(n) = IOEnv.DBG_L
DebugNotReached == l < DbgL
TView == <<s, tid, l>>
TVals == 0..255
=============================================================================
