SPECIFICATION TSpecChecked
CONSTANTS
  W = 99
  Back = {}
  Fwd = {}
  AbsLow = {}
  Pairings = {"A", "B"}
  Foreign = {"X"}
  Iids = {1}
  Vals = {1}
  Starts = {0}
  KeyAtStart = {TRUE}
  MaxSteps = 0
CONSTRAINT TConstraint
POSTCONDITION Accepted
CHECK_DEADLOCK FALSE
