SPECIFICATION Spec
CONSTANTS
  c1 = c1
  c2 = c2
  Callers = {c1, c2}
  MaxCalls = 1
  MaxLinks = 2
  MaxEp = 2
  MaxReq = 2
  MaxW = 2
  MaxR = 2
  MaxAtt = 2
  MaxFaults = 1
  SubsInit = {FALSE}
  MaySubscribe = FALSE
  RestoreReqs = {2}
  Loose = FALSE
  Guarded = TRUE
SYMMETRY Sym
INVARIANT AtMostOneLink
INVARIANT NoLeakedLink
INVARIANT OneRequestOnAir
INVARIANT NoNonceReuse
INVARIANT AcceptOnceInOrder
INVARIANT CountersInSync
INVARIANT NoPlaintextRequest
INVARIANT DeadEpochUnused
INVARIANT ClosedAfterFailure
INVARIANT FreshKeys
INVARIANT KeysMatchLink
INVARIANT ResumeOnlyStored
INVARIANT LocksConsistent
CHECK_DEADLOCK FALSE
