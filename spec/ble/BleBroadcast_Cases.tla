-------------------------- MODULE BleBroadcast_Cases --------------------------
(* Spec -> code: every history of length <= CaseDepth over an alphabet of advertisement classes
   (relative to the state the specification is in when the advertisement is sent) is exported with
   the outcome of the specification's algorithm after every advertisement (listener calls, last
   accepted state number) and with the requirement-level verdicts may / must.  The harness seals
   each advertisement with an independent ChaCha20-Poly1305 and feeds it to the real
   BleController._device_detected.

   Classes (all addressed to pairing "A" unless said otherwise; "B" is a second loaded pairing with
   its own key, "X" a key / identifier of no loaded pairing):
     gen(d)      genuine, nonce and inner state number = last + d          (d over Offsets)
     abs(v)      genuine, nonce and inner state number = v (absolute, small): a recording from early in the key
                 epoch; with the start states at the top of the 16-bit range it is far older than `last`
     wrongkey    sealed with B's key          foreignkey  sealed with X's key
     wrongaad    sealed for B's identifier, header says A
     toB         sealed by A for A, header rewritten to B (routed to the other pairing)
     payload/tag one bit of the sealed payload / of the 4-byte tag flipped
     innerp/innerm(d)  inner state number = nonce state number +1 / -1
     rep(i)      bit-for-bit replay of the i-th advertisement of the same history
     fromB/fromX genuine, received from the address on record for pairing B / from an unrelated address
     unkA        header id X (no pairing loaded), sealed with A's key for identifier X, received from A's address
     unkAa       header id X, sealed with A's key for A's identifier, received from A's address
     unkB        header id X, sealed with A's key for identifier X, received from B's address *)
EXTENDS BleBroadcast, Json, IOUtils, SequencesExt

CONSTANT CaseDepth

AllKeys == [p \in Pairings |-> TRUE]

Rel == {[c |-> "gen", d |-> d] : d \in Offsets}
       \cup {[c |-> "abs", d |-> v] : v \in AbsLow}          \* genuine, absolute small state number (an early recording)
       \cup {[c |-> x, d |-> 1] : x \in {"wrongkey", "foreignkey", "wrongaad", "toB", "payload", "tag",
                                         "fromB", "fromX", "unkA", "unkAa", "unkB"}}
       \cup {[c |-> x, d |-> d] : x \in {"innerp", "innerm"}, d \in {1, 2}}
       \cup {[c |-> "rep", d |-> i] : i \in 1..(CaseDepth - 1)}

Base(l, d, pos) == [from |-> "A", to |-> "A", k |-> "A", aad |-> "A", n |-> l["A"] + d, g |-> l["A"] + d,
                    iid |-> ((pos - 1) % Cardinality(Iids)) + 1, val |-> ((pos - 1) % Cardinality(Vals)) + 1,
                    dmg |-> "none"]
Abs(r, l, prev, pos) ==
    LET b == Base(l, r.d, pos)
    IN CASE r.c = "gen"        -> b
         [] r.c = "abs"        -> [Base(l, 0, pos) EXCEPT !.n = r.d, !.g = r.d]
         [] r.c = "wrongkey"   -> [b EXCEPT !.k = "B"]
         [] r.c = "foreignkey" -> [b EXCEPT !.k = "X"]
         [] r.c = "wrongaad"   -> [b EXCEPT !.aad = "B"]
         [] r.c = "toB"        -> [b EXCEPT !.to = "B"]
         [] r.c = "payload"    -> [b EXCEPT !.dmg = "payload"]
         [] r.c = "tag"        -> [b EXCEPT !.dmg = "tag"]
         [] r.c = "fromB"      -> [b EXCEPT !.from = "B"]
         [] r.c = "fromX"      -> [b EXCEPT !.from = "X"]
         [] r.c = "unkA"       -> [b EXCEPT !.to = "X", !.aad = "X"]
         [] r.c = "unkAa"      -> [b EXCEPT !.to = "X"]
         [] r.c = "unkB"       -> [b EXCEPT !.to = "X", !.aad = "X", !.from = "B"]
         [] r.c = "innerp"     -> [b EXCEPT !.g = b.n + 1]
         [] r.c = "innerm"     -> [b EXCEPT !.g = b.n - 1]
         [] r.c = "rep"        -> IF r.d < pos THEN prev[r.d] ELSE NoAdv

RECURSIVE Run(_, _, _, _)
Run(h, i, l, prev) ==
    IF i > Len(h) THEN << >>
    ELSE LET a == Abs(h[i], l, prev, i)
             why == Decide(a, l, AllKeys)
             l2 == LastAfter(a, l, why)
         IN << [a |-> a, why |-> why, del |-> DelAfter(a, why), after |-> l2,
                may |-> MayAccept(a, l, AllKeys), must |-> MustAccept(a, l, AllKeys)] >>
            \o Run(h, i + 1, l2, Append(prev, a))

Hists == UNION {[1..d -> Rel] : d \in 1..CaseDepth}
Cases == {c \in {[start |-> s, steps |-> Run(h, 1, [p \in Pairings |-> s], << >>)] : h \in Hists, s \in Starts} :
            \A i \in 1..Len(c.steps) : c.steps[i].a.to # "-" /\ c.steps[i].a.n >= 0 /\ c.steps[i].a.g >= 0
                                       /\ c.steps[i].a.n <= MAXGSN /\ c.steps[i].a.g <= MAXGSN}

\* the exported outcomes satisfy the requirement (the algorithm refines it on every exported step)
CasesConform == \A c \in Cases : \A i \in 1..Len(c.steps) :
                   LET pre == IF i = 1 THEN [p \in Pairings |-> c.start] ELSE c.steps[i - 1].after
                   IN StepOK(c.steps[i].a, pre, AllKeys, c.steps[i].after, c.steps[i].del)

\* the export is a constant-level computation; the behaviour specification of this configuration is a single
\* stuttering state (the state machine itself is model-checked by the BleBroadcast configurations)
CInit == /\ last = [p \in Pairings |-> Min(Starts)] /\ key = AllKeys /\ acc = {} /\ steps = 0
         /\ out = [kind |-> "init", a |-> NoAdv, why |-> "init", del |-> << >>, may |-> FALSE, must |-> FALSE]
CSpec == CInit /\ [][UNCHANGED vars]_vars

ExportCases ==
    /\ TLCGet("stats").generated >= 0
    /\ CasesConform
    /\ ndJsonSerialize(IOEnv.CASES_OUT, SetToSeq(Cases))
=============================================================================
