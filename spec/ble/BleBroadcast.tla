----------------------------- MODULE BleBroadcast -----------------------------
(* Encrypted broadcast notifications of HAP-BLE as processed by aiohomekit
   (BleController._device_detected -> BlePairing._async_notification,
   controller/ble/pairing.py, key.py, crypto/chacha20poly1305.py, manufacturer_data.py).

   An advertisement is symbolic (ideal AEAD with a 4-byte tag):
     from - the BLE address the advertisement was received from: the address on record for a loaded
            pairing, or an unrelated one (an identifier of Ids stands for "the address of that
            accessory").  The property does not mention it: acceptance depends on the advertising
            identifier only, whoever the advertiser is,
     to   - the advertising identifier in the header (it routes the advertisement to a pairing and
            is the associated data the *receiver* uses); it may belong to no loaded pairing (Foreign),
     k    - whose broadcast key sealed the payload,
     aad  - the identifier the *sender* used as associated data,
     n    - the state number the nonce was built from,
     g    - the state number inside the payload ("inner counter"),
     iid, val - characteristic instance id and (abstract) value,
     dmg  - "none" | "payload" | "tag": a bit of the sealed payload / of the 4-byte tag was flipped
            ("payload" also stands for a truncated or extended payload).
   The scanner callback is synchronous, hence one action per advertisement.

   Two layers:
     * Decide/Notify  - the algorithm of the code (candidate state numbers last+1, last, last+2 ..
                        last+W tried in that order; stale; inner-counter check);
     * StepOK         - what the property demands of one step, independent of the algorithm:
                        MustAccept (authentic, consistent, last < n <= last+W), MayAccept (authentic,
                        consistent, n > last: beyond the window the property text allows either),
                        everything else is ignored.
   TLC checks that the algorithm satisfies the requirement on every history (A); recorded runs of
   the real code are validated against StepOK by BleBroadcast_Trace (C); BleBroadcast_Cases exports
   histories with the outcome of Decide for replay on the real code (B). *)
EXTENDS Integers, Sequences, FiniteSets, TLC

CONSTANTS W,          \* window of the code: 99
          Back, Fwd,  \* state numbers the environment uses, relative to a pairing's current `last`:
                      \* last - b (b \in Back) and last + f (f \in Fwd)   (cfg files have no negative numbers)
          AbsLow,     \* absolute small state numbers the environment also uses (recordings from early in the key
                      \* epoch, offered again when `last` is near the top of the 16-bit range)
          Pairings,   \* ids of the loaded pairings; each has its own broadcast key
          Foreign,    \* ids / keys that belong to no loaded pairing
          Iids, Vals, \* characteristic ids and abstract values
          Starts,     \* initial values of `last`
          KeyAtStart, \* subset of BOOLEAN: is the broadcast key already installed (cache) at start
          MaxSteps    \* bound on the length of histories (0 = unbounded)

VARIABLES last,       \* [Pairings -> Nat]      description.state_num = last accepted state number
          key,        \* [Pairings -> BOOLEAN]  _broadcast_decryption_key is set
          acc,        \* history: advertisements accepted so far (Replay picks from it)
          steps,
          out         \* observation of the last step (what the listener log / state_num show)
vars == <<last, key, acc, steps, out>>
\* `out` only reports what the step did; the future depends on the rest.  The properties below are
\* action properties (TLC evaluates them on every transition, also on those into a state whose view
\* was seen before), so hiding `out` from the fingerprint loses nothing.
View == <<last, key, acc, steps>>

Ids == Pairings \cup Foreign
Offsets == {0 - b : b \in Back} \cup Fwd
Dmg == {"none", "payload", "tag"}
MAXGSN == 65535                                   \* the inner counter is 16 bit
\* advertisements are kept in the history set as tuples (printable / parsable by the harness); the tuple
\* is what was on the air - the advertiser's address is not part of it
Tup(a) == <<a.to, a.k, a.aad, a.n, a.g, a.iid, a.val, a.dmg>>
Rec(t, f) == [from |-> f, to |-> t[1], k |-> t[2], aad |-> t[3], n |-> t[4], g |-> t[5], iid |-> t[6], val |-> t[7], dmg |-> t[8]]
NoAdv == [from |-> "-", to |-> "-", k |-> "-", aad |-> "-", n |-> 0, g |-> 0, iid |-> 0, val |-> 0, dmg |-> "none"]

Min(S) == CHOOSE x \in S : \A y \in S : x <= y

\* ------------------------------------------------------------------ requirement level
Authentic(a) == a.to \in Pairings /\ a.k = a.to /\ a.aad = a.to /\ a.dmg = "none"
MayAccept(a, l, ky) == Authentic(a) /\ ky[a.to] /\ a.g = a.n /\ a.n > l[a.to]
MustAccept(a, l, ky) == MayAccept(a, l, ky) /\ a.n <= l[a.to] + W
Delivery(a) == << <<a.to, a.iid, a.val>> >>
\* one step: state (l, ky) before, advertisement a, state l2 after, listener calls del
StepOK(a, l, ky, l2, del) ==
    \/ /\ MayAccept(a, l, ky)                       \* accepted: right id, right value, exactly once
       /\ l2 = [l EXCEPT ![a.to] = a.n]
       /\ del = Delivery(a)
    \/ /\ ~MustAccept(a, l, ky)                     \* ignored: no state change, no listener call
       /\ l2 = l
       /\ del = << >>

\* ------------------------------------------------------------------ the algorithm of the code
\* ChaCha20Poly1305PartialTag.open with nonce built from c, associated data = receiver's id
Opens(a, p, c) == a.k = p /\ a.aad = p /\ a.dmg = "none" /\ a.n = c
\* start+1, start, start+2 .. start+W   (pairing.py: the for loop over candidate state numbers)
Cand(l) == <<l + 1, l>> \o [i \in 1..(W - 1) |-> l + 1 + i]
FirstHit(a, p, l) == IF ~(a.k = p /\ a.aad = p /\ a.dmg = "none") THEN -1      \* no candidate can open it
                     ELSE LET cs == Cand(l)
                              hits == {i \in DOMAIN cs : Opens(a, p, cs[i])}
                          IN IF hits = {} THEN -1 ELSE cs[Min(hits)]
Decide(a, l, ky) ==
    IF a.to \notin Pairings THEN "unrouted"           \* controller.py: self.pairings.get(data.id) - by the
                                                     \* advertising identifier only, never by a.from
    ELSE IF ~ky[a.to] THEN "nokey"
    ELSE LET c == FirstHit(a, a.to, l[a.to])
         IN IF c = -1 THEN "undecryptable"
            ELSE IF c = l[a.to] THEN "stale"
            ELSE IF a.g # c THEN "mismatch"
            ELSE "accept"
LastAfter(a, l, why) == IF why = "accept" THEN [l EXCEPT ![a.to] = a.g] ELSE l
DelAfter(a, why) == IF why = "accept" THEN Delivery(a) ELSE << >>

\* ------------------------------------------------------------------ environment
Bounded == MaxSteps = 0 \/ steps < MaxSteps
\* State numbers are real 16-bit numbers: Starts may sit at the top of the range (65437 .. 65535), where
\* last+W exceeds MAXGSN.  The code does not wrap its candidates (a candidate above MAXGSN never matches), and
\* the requirement is the property's plain "newer than the last accepted one": a small state number offered
\* while `last` is large is an older one - it is ignored, however it is sealed.
NSet == {x \in {last[p] + d : p \in Pairings, d \in Offsets} \cup AbsLow : x >= 0 /\ x <= MAXGSN}
GSet(n) == {x \in {n, n + 1, n - 1} : x >= 0 /\ x <= MAXGSN}
\* environment restriction (keeps the alphabet small without losing a class of the quantifier):
\* advertisements that cannot be accepted do not need every (iid, val), and a payload sealed with the
\* wrong key or for the wrong identifier is not additionally damaged / made inconsistent
Canon(a) == /\ (a.k = a.to /\ a.aad = a.to /\ a.dmg = "none" /\ a.g = a.n) \/ (a.iid = Min(Iids) /\ a.val = Min(Vals))
            /\ (a.k # a.to \/ a.aad # a.to) => (a.dmg = "none" /\ a.g = a.n)
            /\ a.from # a.to => (a.dmg = "none" /\ a.g = a.n /\ a.iid = Min(Iids) /\ a.val = Min(Vals))
                                                       \* other advertisers: intact payloads, one (iid, val)

Notify(a) ==
    LET why == Decide(a, last, key)
    IN /\ last' = LastAfter(a, last, why)
       /\ acc' = IF why = "accept" THEN acc \cup {Tup(a)} ELSE acc
       /\ steps' = steps + 1
       /\ out' = [kind |-> "adv", a |-> a, why |-> why, del |-> DelAfter(a, why),
                  may |-> MayAccept(a, last, key), must |-> MustAccept(a, last, key)]
       /\ UNCHANGED key

\* a freshly sealed or forged advertisement
Adv == /\ Bounded
       /\ \E from \in Ids, to \in Ids, k \in Ids, aad \in Ids, n \in NSet, iid \in Iids, val \in Vals, dmg \in Dmg :
            \E g \in GSet(n) :
              LET a == [from |-> from, to |-> to, k |-> k, aad |-> aad, n |-> n, g |-> g, iid |-> iid, val |-> val, dmg |-> dmg]
              IN Canon(a) /\ Notify(a)
\* the attacker re-broadcasts, bit for bit and from any address, an advertisement that was accepted before
\* (re-broadcasts of advertisements that were not accepted are instances of Adv: the symbolic record is the same)
Replay == /\ Bounded
          /\ \E t \in acc, f \in Ids : Notify(Rec(t, f))
\* the session derives the broadcast key (pairing.py: _async_set_broadcast_encryption_key)
InstallKey == /\ Bounded
              /\ \E p \in Pairings :
                   /\ ~key[p]
                   /\ key' = [key EXCEPT ![p] = TRUE]
                   /\ steps' = steps + 1
                   /\ out' = [kind |-> "key", a |-> NoAdv, why |-> p, del |-> << >>, may |-> FALSE, must |-> FALSE]
                   /\ UNCHANGED <<last, acc>>

Init == /\ last \in [Pairings -> Starts]
        /\ key \in [Pairings -> KeyAtStart]
        /\ acc = {} /\ steps = 0
        /\ out = [kind |-> "init", a |-> NoAdv, why |-> "init", del |-> << >>, may |-> FALSE, must |-> FALSE]
Next == Adv \/ Replay \/ InstallKey
Spec == Init /\ [][Next]_vars

\* ------------------------------------------------------------------ properties (C18)
\* All are properties of one step: unprimed = before the advertisement, primed = after; out' is what
\* the step showed to the outside (listener calls `del`).
IsAdv == out'.kind = "adv"
\* state changes / listeners are reached only by authentic, consistent, fresh advertisements
OnlyAuthenticFreshA == IsAdv /\ (out'.del # << >> \/ last' # last) => MayAccept(out'.a, last, key)
\* an authentic fresh advertisement inside the window is accepted; whatever is accepted is delivered
\* once, under the right id, with the right value, and `last` becomes its state number
AcceptedDeliveredA == IsAdv => /\ MustAccept(out'.a, last, key) => out'.del # << >>
                               /\ out'.del # << >> => /\ out'.del = Delivery(out'.a)
                                                      /\ last'[out'.a.to] = out'.a.n
\* the last accepted state number never decreases, only the addressed pairing's moves, and it moves
\* only together with a delivery
MonotoneLastA == /\ \A p \in Pairings : last'[p] >= last[p]
                 /\ IsAdv => \A p \in Pairings : p # out'.a.to => last'[p] = last[p]
                 /\ out'.del = << >> => last' = last
\* history: what was accepted once is never accepted again, at any later position
ReplayNeverAcceptedA == ~(IsAdv /\ out'.del # << >> /\ Tup(out'.a) \in acc)
\* the algorithm refines the requirement
StepAllowedA == IsAdv => StepOK(out'.a, last, key, last', out'.del)
NoKeyNoAcceptA == IsAdv /\ out'.del # << >> => key[out'.a.to]

OnlyAuthenticFresh == [][OnlyAuthenticFreshA]_vars
AcceptedDelivered == [][AcceptedDeliveredA]_vars
MonotoneLast == [][MonotoneLastA]_vars
ReplayNeverAccepted == [][ReplayNeverAcceptedA]_vars
StepAllowed == [][StepAllowedA]_vars
NoKeyNoAccept == [][NoKeyNoAcceptA]_vars
\* vacuity witnesses (expected to be violated; used once by hand, not part of the check)
NeverAccepts == [][~(IsAdv /\ out'.del # << >>)]_vars
=============================================================================
