SPECIFICATION Spec
CONSTANTS
  Callers = {1, 2}
  MaxCalls = 1
  MaxLinks = 2
  MaxEp = 2
  MaxReq = 1
  MaxW = 1
  MaxR = 1
  MaxAtt = 2
  MaxFaults = 2
  SubsInit = {FALSE}
  MaySubscribe = FALSE
  RestoreReqs = {2}
  Loose = FALSE
  Guarded = FALSE
INVARIANT AtMostOneLink
INVARIANT NoLeakedLink
INVARIANT OneRequestOnAir
INVARIANT NoNonceReuse
INVARIANT AcceptOnceInOrder
INVARIANT CountersInSync
INVARIANT NoPlaintextRequest
INVARIANT DeadEpochUnused
INVARIANT ClosedAfterFailure
INVARIANT FreshKeys
INVARIANT KeysMatchLink
INVARIANT ResumeOnlyStored
INVARIANT LocksConsistent
PROPERTY CloseLeavesNone
PROPERTY NoConnectAfterShutdown
CHECK_DEADLOCK FALSE
