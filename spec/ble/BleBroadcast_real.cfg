SPECIFICATION Spec
VIEW View
CONSTANTS
  W = 99
  Back = {1, 50, 1000}
  Fwd = {0, 1, 2, 50, 98, 99, 100, 1000}
  AbsLow = {1, 5, 104}
  Pairings = {"A", "B"}
  Foreign = {"X"}
  Iids = {1, 2}
  Vals = {1, 2}
  Starts = {1000, 65500}
  KeyAtStart = {TRUE}
  MaxSteps = 3
PROPERTY OnlyAuthenticFresh
PROPERTY AcceptedDelivered
PROPERTY MonotoneLast
PROPERTY ReplayNeverAccepted
PROPERTY StepAllowed
PROPERTY NoKeyNoAccept
CHECK_DEADLOCK FALSE
