------------------------------- MODULE BleGsn -------------------------------
(* Advertisement-driven state of ONE BLE pairing (extension EXTGSN): global state number (GSN), disconnected events,
   availability, configuration number, the cached state number.

   Code modelled (aiohomekit/controller/ble/pairing.py, controller/abstract.py, controller/ble/controller.py):
     BleController._device_detected        pairing update first (_async_description_update, _async_ble_update), then
                                           the waiters of async_find are woken
     BlePairing._async_description_update  availability (time.monotonic, AVAILABILITY_INTERVAL, listeners told True only
                                           when the pairing was NOT available), AbstractPairing._async_description_update
                                           (c# above the held one -> _process_config_changed task; else no description yet
                                           or s# different -> _process_disconnected_events), _update_cached_state_num
     _async_process_disconnected_events    not before the first connection attempt has completed
                                           (_tried_to_connect_once), not while another one holds _disconnected_events_lock;
                                           _process_disconnected_events_with_retry under the operation lock: connect on
                                           demand, protocol parameters (GSN), subscribed characteristics read and listeners
                                           told, restore of subscriptions; afterwards _update_state_num(GSN read first)
     _populate_accessories_and_characteristics / _populate_char_values / async_populate_accessories_state /
     _process_config_changed / _async_restore_subscriptions / _async_set_broadcast_encryption_key /
     _async_schedule_start_notify_subscriptions / _async_notification (encrypted broadcast) / __init__ (from_cache)
     retry_bluetooth_connection_error (2 attempts, BleakError only), AbstractPairing._load_accessories_from_cache

   One action = one run of the library between two suspension points (or one stimulus of the environment).  `out` is
   the sequence of externally visible effects of the step, in order: the stimulus itself, listener calls, cache writes,
   what reaches the accessory, connection attempts (records with field ev).  BleGsn_Trace accepts an execution of the
   real code iff its event sequence is the concatenation of the `out`s of a behaviour of this module.

   The accessory (environment): value of one characteristic; GSN 1..MaxGsn, MaxGsn -> 1, incremented by the first change
   of a connection cycle (connected or disconnected), by EVERY disconnected change once broadcasts are enabled for the
   characteristic (the GSN is the nonce of the encrypted broadcast); configuration number (only grows here).
   Advertisements carry ANY state number (stale, repeated, out of order, after wrap-around every number is an old one)
   and any configuration number up to the current one.  GATT indications (connected events) are not modelled.

   Time: `age` counts half availability intervals since the last advertisement (2 = interval elapsed / never seen).

   Deviations = {} is the intended behaviour, on which TLC checks the properties below.  D_ADOPT is the one departure of
   the released library (recorded finding).  The other members of AllDeviations are in no version of the library: each
   is refuted by one of the properties (the vacuity guard of the check) and corresponds to a mutant of the real code
   that the trace validation must reject.
   Off: names of environment actions switched off in a configuration; Coarse: the three steps of the key generation
   during the restore are one step (exhaustive configurations only). *)
EXTENDS Integers, Sequences, FiniteSets, TLC

CONSTANTS MaxGsn, MaxCn, Vals, InitCaches, MaxOps, MaxConns, MaxRestarts, MaxKeys, Callers, StaleBcast, Guarded, Off, Coarse, Deviations

\* the one departure of the released library (recorded finding, proposed_fixes/EXTGSN-1): _async_restore_subscriptions
\* adopts the state number it reads after every new connection (description + cache) although the subscribed
\* characteristics were not read: a change the advertisement of which has not been processed yet is never followed up
D_ADOPT == "extgsn-restore-adopts-state-number-without-poll"
D_UNTRIED == "poll-before-first-connect"     \* _tried_to_connect_once ignored
D_NOLOCK  == "no-disconnected-events-lock"   \* a second catch-up poll is queued while one is in flight
D_NOREWIND == "no-state-number-after-poll"   \* the GSN read at the start of the poll is not written back
D_GREATER == "state-number-compared-with-greater"  \* s# change detected with > (wrap-around missed)
D_CBALWAYS == "availability-callback-on-every-advertisement"
AllDeviations == {D_ADOPT, D_UNTRIED, D_NOLOCK, D_NOREWIND, D_GREATER, D_CBALWAYS}
ASSUME Deviations \subseteq AllDeviations

(* s is one record (fields):
     accessory    agsn, acn (state / configuration number), aval (value), bumped (GSN already incremented in this
                  connection cycle), akey (broadcast keys generated so far), bcen (broadcasts enabled), lastb (last
                  broadcast <<g, v>>), link (GATT connection up)
     pairing      has (accessories state exists), ccn / asn / pk (its config_num, state_num, broadcast key epoch), hasd
                  (description exists), dsn / dcn (description.state_num / config_num), dev (BLE device known), age, sess
                  (session keys installed), tried (_tried_to_connect_once), rpend (_restore_pending), ntfd (notifications
                  started on this connection), subs (listener registered + characteristic subscribed), delock
                  (_disconnected_events_lock held), opq (operations on the operation lock, FIFO, the head runs: kind k in
                  poll / cfg / pop (async_populate_accessories_state) / ntf, program counter pc, attempt att, GSN read g0 / gv,
                  value read rv), ntimer (start-notify debounce pending), cst (application callers), cache (<<>> or
                  <<config_num, state_num, key epoch>>), conns / gen (bounds)
     ghosts       lval (value the listener was told last, 0 = none), excused (see NoLostChange), ahead (description ahead of
                  the accessories state after a bulk read / broadcast), badcb, cfgfail *)
VARIABLES s, out
vars == <<s, out>>

NextGsn(g) == IF g >= MaxGsn THEN 1 ELSE g + 1
\* how many increments ago the accessory's state number a was x
Dist(a, x) == (a - x) % MaxGsn
Op(k, c, force) == [k |-> k, c |-> c, pc |-> "start", att |-> 1, force |-> force, cchg |-> FALSE, upd |-> force,
                    g0 |-> 0, gv |-> 0, rv |-> 0, inv |-> FALSE]
E1(e) == [ev |-> e]
CacheEv(S) == [ev |-> "cache", cn |-> S.ccn, sn |-> S.asn, k |-> S.pk]
R(S, o) == [s |-> S, o |-> o]

CcnOf(S) == IF S.has THEN S.ccn ELSE -1
Avail(S) == (S.link /\ S.sess) \/ S.age < 2
HeadOp(S) == S.opq[1]
Running(S) == S.opq # << >>
SetHead(S, h) == [S EXCEPT !.opq[1] = h]
Polls(S) == {i \in 1..Len(S.opq) : S.opq[i].k = "poll"}
GattPcs == {"fetch", "pv", "v_params", "v_read", "v_done", "b_params", "b_read", "b_told", "r_key", "r_keyd", "r_cfg", "r_params", "r_upd"}

\* ------------------------------------------------------------------ the pairing's cache / state number
Wr(S) == [S EXCEPT !.cache = <<S.ccn, S.asn, S.pk>>]
\* _update_cached_state_num
UpdCached(S, g) ==
    IF ~S.has THEN R(S, << >>)
    ELSE LET S1 == [S EXCEPT !.asn = g] IN
         IF S.asn # g THEN R(Wr(S1), <<CacheEv(S1)>>) ELSE R(S1, << >>)
\* _update_state_num
UpdStateNum(S, g) == UpdCached([S EXCEPT !.dsn = g, !.ahead = FALSE], g)

\* _process_disconnected_events -> task -> _async_process_disconnected_events up to the operation lock
SpawnPoll(S) ==
    IF ~S.tried /\ D_UNTRIED \notin Deviations THEN [S EXCEPT !.excused = TRUE]
    ELSE IF S.delock /\ D_NOLOCK \notin Deviations THEN S
    ELSE [S EXCEPT !.delock = TRUE, !.opq = Append(@, Op("poll", 0, FALSE))]

\* ------------------------------------------------------------------ an operation runs on to its next suspension
\* the operation ends (normally): the operation lock goes to the next one
Fin(S, o) ==
    LET h == HeadOp(S)
        S1 == [S EXCEPT !.opq = Tail(@)] IN
    CASE h.k = "poll" ->
            LET S2 == [S1 EXCEPT !.delock = FALSE]
                u == IF D_NOREWIND \in Deviations THEN R(S2, << >>) ELSE UpdStateNum(S2, h.g0) IN
            R(u.s, o \o u.o)
      [] h.k = "pop" -> R([S1 EXCEPT !.cst[h.c] = "idle"], o \o <<[ev |-> "ret", c |-> h.c, res |-> "ok"]>>)
      [] OTHER -> R(S1, o)
\* ... with an exception that is not retried
Fail(S, o) ==
    LET h == HeadOp(S)
        S1 == [S EXCEPT !.opq = Tail(@)] IN
    CASE h.k = "poll" -> R([S1 EXCEPT !.delock = FALSE, !.excused = TRUE], o)
      [] h.k = "pop" -> R([S1 EXCEPT !.cst[h.c] = "idle"], o \o <<[ev |-> "ret", c |-> h.c, res |-> "err"]>>)
      [] h.k = "cfg" -> R([S1 EXCEPT !.cfgfail = TRUE], o)
      [] OTHER -> R(S1, o)
\* ... with a BleakError: retry_bluetooth_connection_error sleeps and runs the operation once more (operation lock held)
Retry(S, o) ==
    IF HeadOp(S).att < 2 THEN R(SetHead(S, [HeadOp(S) EXCEPT !.pc = "backoff", !.att = @ + 1, !.cchg = FALSE, !.upd = HeadOp(S).force]), o)
    ELSE Fail(S, o)

\* _async_restore_subscriptions (pending after a new connection)
Rest(S, o) ==
    IF ~(S.rpend /\ S.link) THEN Fin(S, o)
    ELSE IF ~S.subs THEN Fin([S EXCEPT !.rpend = FALSE], o)
    ELSE R(SetHead(S, [HeadOp(S) EXCEPT !.pc = "r_key"]), o)
Body(S, o) ==
    IF HeadOp(S).k = "poll" THEN R(SetHead(S, [HeadOp(S) EXCEPT !.pc = "b_params"]), o) ELSE Rest(S, o)
AfterPv(S, o) ==
    IF HeadOp(S).upd THEN R(SetHead(S, [HeadOp(S) EXCEPT !.pc = "v_params"]), o) ELSE Body(S, o)
AfterFetch(S, o) ==
    IF ~S.sess THEN R(SetHead(S, [HeadOp(S) EXCEPT !.pc = "pv"]), o) ELSE AfterPv(S, o)
\* _populate_accessories_and_characteristics after _ensure_connected
AfterConn(S, o) ==
    LET cchg == S.hasd /\ CcnOf(S) # S.dcn IN
    IF ~S.has \/ cchg THEN R(SetHead(S, [HeadOp(S) EXCEPT !.pc = "fetch", !.cchg = cchg]), o \o <<E1("fetch")>>)
    ELSE AfterFetch(S, o)

Commit(r) == s' = r.s /\ out' = r.o
On(a) == a \notin Off

\* ------------------------------------------------------------------ the library runs by itself
\* the operation at the head of the operation lock starts: connect on demand
Begin ==
    /\ Running(s) /\ HeadOp(s).pc = "start" /\ HeadOp(s).k # "ntf"
    /\ Commit(IF s.link THEN AfterConn([s EXCEPT !.tried = TRUE], << >>)
              ELSE IF ~s.dev THEN R(SetHead(s, [HeadOp(s) EXCEPT !.pc = "find"]), << >>)
              ELSE R(SetHead(s, [HeadOp(s) EXCEPT !.pc = "connecting"]), <<E1("conn_req")>>))
\* the advertisement async_find waited for has been processed
Found ==
    /\ Running(s) /\ HeadOp(s).pc = "find" /\ s.dev
    /\ Commit(R(SetHead(s, [HeadOp(s) EXCEPT !.pc = "connecting"]), <<E1("conn_req")>>))
\* _async_start_notify_subscriptions (after the debounce timer, under the operation lock)
NtfRun ==
    /\ Running(s) /\ HeadOp(s).k = "ntf"
    /\ LET S1 == [s EXCEPT !.opq = Tail(@)] IN
       Commit(IF s.link /\ s.subs /\ ~s.ntfd THEN R([S1 EXCEPT !.ntfd = TRUE], <<E1("notify")>>) ELSE R(S1, << >>))
Internal == Begin \/ Found \/ NtfRun

\* ------------------------------------------------------------------ Bluetooth answers
ConnsOk == MaxConns = 0 \/ s.conns < MaxConns
ConnRes(res) ==
    /\ On(res) /\ ConnsOk /\ Running(s) /\ HeadOp(s).pc = "connecting" /\ res \in {"ok", "fail", "bfail"}
    /\ LET S1 == [s EXCEPT !.tried = TRUE, !.conns = IF MaxConns = 0 THEN 0 ELSE @ + 1]
           ev == <<[ev |-> "conn_res", out |-> res]>> IN
       Commit(CASE res = "ok" -> AfterConn([S1 EXCEPT !.link = TRUE, !.rpend = TRUE, !.bumped = FALSE], ev)
                [] res = "fail" -> Fail(S1, ev)
                [] OTHER -> Retry(S1, ev))
\* the stand-in for _async_fetch_gatt_database returns; the database is filed under the c# of the description
FetchDone ==
    /\ Running(s) /\ HeadOp(s).pc = "fetch"
    /\ LET S1 == [s EXCEPT !.has = TRUE, !.ccn = IF s.hasd THEN s.dcn ELSE 0, !.asn = 0]
       IN Commit(AfterFetch(SetHead(S1, [HeadOp(S1) EXCEPT !.upd = TRUE]), <<E1("fetch_done")>>))
\* pair-verify / pair-resume done
Keys ==
    /\ Running(s) /\ HeadOp(s).pc = "pv"
    /\ Commit(AfterPv([s EXCEPT !.sess = TRUE], <<E1("keys")>>))
\* _populate_char_values: protocol parameters, all readable characteristics, then description.state_num := GSN read
VParams ==
    /\ Running(s) /\ HeadOp(s).pc = "v_params"
    /\ Commit(R(SetHead(s, [HeadOp(s) EXCEPT !.pc = "v_read", !.gv = s.agsn]), <<[ev |-> "params", g |-> s.agsn]>>))
VRead ==
    /\ Running(s) /\ HeadOp(s).pc = "v_read"
    /\ Commit(R(SetHead(s, [HeadOp(s) EXCEPT !.pc = "v_done"]), <<[ev |-> "read", v |-> s.aval]>>))
VDone ==
    /\ Running(s) /\ HeadOp(s).pc = "v_done" /\ s.hasd
    /\ LET h == HeadOp(s)
           S1 == Wr([s EXCEPT !.dsn = h.gv, !.ahead = (h.gv # s.asn), !.excused = TRUE])
           o1 == <<CacheEv(S1)>>
           o2 == IF h.cchg THEN o1 \o <<[ev |-> "cfg_cb", c |-> S1.ccn], CacheEv(S1)>> ELSE o1 IN
       Commit(Body(S1, o2))
\* _process_disconnected_events_with_retry: protocol parameters, subscribed characteristics, listeners
BParams ==
    /\ Running(s) /\ HeadOp(s).pc = "b_params"
    /\ LET S1 == SetHead(s, [HeadOp(s) EXCEPT !.g0 = s.agsn, !.pc = "b_read"])
           o == <<[ev |-> "params", g |-> s.agsn]>> IN
       Commit(IF s.subs THEN R(S1, o) ELSE R(SetHead(S1, [HeadOp(S1) EXCEPT !.pc = "b_nosub"]), o))
\* (no subscription: the response of the parameter read ends the body)
BNoSub ==
    /\ Running(s) /\ HeadOp(s).pc = "b_nosub"
    /\ Commit(Rest(s, << >>))
BRead ==
    /\ Running(s) /\ HeadOp(s).pc = "b_read"
    /\ Commit(R(SetHead(s, [HeadOp(s) EXCEPT !.pc = "b_told", !.rv = s.aval, !.inv = FALSE]), <<[ev |-> "read", v |-> s.aval]>>))
BTold ==
    /\ Running(s) /\ HeadOp(s).pc = "b_told"
    /\ LET v == HeadOp(s).rv IN
       Commit(Rest([s EXCEPT !.lval = v, !.excused = IF v = s.aval THEN FALSE ELSE (@ \/ HeadOp(s).inv)], <<[ev |-> "told", v |-> v]>>))
\* restore: the accessory generates a broadcast key, the pairing derives and files it, broadcasts are enabled for the
\* subscribed characteristic, the GSN is read once more and written through
KeysOk == MaxKeys = 0 \/ s.akey < MaxKeys
RKey ==
    /\ Running(s) /\ HeadOp(s).pc = "r_key" /\ KeysOk
    /\ LET S1 == [s EXCEPT !.akey = @ + 1]
           ev == <<[ev |-> "genkey", k |-> s.akey + 1]>> IN
       Commit(IF Coarse THEN R(SetHead([(IF s.has THEN Wr([S1 EXCEPT !.pk = S1.akey]) ELSE [S1 EXCEPT !.pk = S1.akey]) EXCEPT !.bcen = TRUE],
                                       [HeadOp(s) EXCEPT !.pc = "r_params"]), ev)
              ELSE R(SetHead(S1, [HeadOp(s) EXCEPT !.pc = "r_keyd"]), ev))
RKeyd ==
    /\ Running(s) /\ HeadOp(s).pc = "r_keyd"
    /\ LET S1 == [s EXCEPT !.pk = s.akey]
           S2 == IF s.has THEN Wr(S1) ELSE S1
           o == IF s.has THEN <<[ev |-> "cfg_cb", c |-> S1.ccn], CacheEv(S1)>> ELSE << >> IN
       Commit(R(SetHead(S2, [HeadOp(S2) EXCEPT !.pc = "r_cfg"]), o))
RCfg ==
    /\ Running(s) /\ HeadOp(s).pc = "r_cfg"
    /\ Commit(R(SetHead([s EXCEPT !.bcen = TRUE], [HeadOp(s) EXCEPT !.pc = "r_params"]), <<E1("bcen")>>))
RParams ==
    /\ Running(s) /\ HeadOp(s).pc = "r_params"
    /\ Commit(R(SetHead([s EXCEPT !.rpend = FALSE], [HeadOp(s) EXCEPT !.pc = "r_upd", !.gv = s.agsn]), <<[ev |-> "params", g |-> s.agsn]>>))
RUpd ==
    /\ Running(s) /\ HeadOp(s).pc = "r_upd" /\ s.hasd
    /\ LET g == HeadOp(s).gv IN
       IF D_ADOPT \in Deviations \/ g = s.dsn
       THEN LET u == UpdStateNum(s, g) IN Commit(Fin([u.s EXCEPT !.ntimer = TRUE], u.o))
       ELSE \* intended: catch up first; the task starts when this operation is over (after a catch-up poll: a second one)
            LET f == Fin([s EXCEPT !.ntimer = TRUE], << >>) IN Commit(R(SpawnPoll(f.s), f.o))
Answer == Keys \/ VParams \/ VRead \/ VDone \/ BParams \/ BNoSub \/ BRead \/ BTold \/ RKey \/ RKeyd \/ RCfg \/ RParams \/ RUpd

\* the link is lost (the disconnected callback resets the connection state; the pending GATT operation fails)
Drop ==
    /\ s.link
    /\ LET S1 == [s EXCEPT !.link = FALSE, !.sess = FALSE, !.rpend = FALSE, !.ntfd = FALSE, !.bumped = FALSE]
           ev == <<E1("drop")>> IN
       Commit(IF Running(S1) /\ HeadOp(S1).pc \in GattPcs \cup {"b_nosub"} THEN Retry(S1, ev) ELSE R(S1, ev))

\* ------------------------------------------------------------------ timers
TimerPending == \/ s.ntimer
                \/ Running(s) /\ HeadOp(s).pc \in {"backoff", "find"}
Timer(which) ==
    /\ which \in {"backoff", "find", "ntf"} /\ On(which)
    /\ LET ev == <<E1("timer")>> IN
       CASE which = "backoff" -> /\ Running(s) /\ HeadOp(s).pc = "backoff"
                                 /\ Commit(R(SetHead(s, [HeadOp(s) EXCEPT !.pc = "start"]), ev))
         [] which = "find" -> /\ Running(s) /\ HeadOp(s).pc = "find" /\ ~s.dev
                              /\ Commit(Fail([s EXCEPT !.tried = TRUE], ev))
         [] OTHER -> /\ s.ntimer /\ Len(s.opq) < MaxOps
                     /\ Commit(R([s EXCEPT !.ntimer = FALSE, !.opq = Append(@, Op("ntf", 0, FALSE))], ev))
\* half an availability interval passes (no timer pending)
Tick ==
    /\ On("Tick") /\ ~TimerPending
    /\ Commit(R([s EXCEPT !.age = IF @ < 2 THEN @ + 1 ELSE 2], <<E1("tick")>>))

\* ------------------------------------------------------------------ the air
\* BleController._device_detected with a regular advertisement (state number g, configuration number c)
Adv(g, c) ==
    /\ g \in 1..MaxGsn /\ c \in 1..s.acn /\ (Guarded => Dist(s.agsn, g) <= MaxGsn - 2)
    /\ LET cb == ~Avail(s) \/ D_CBALWAYS \in Deviations
           spawnCfg == c > CcnOf(s)
           changed == IF D_GREATER \in Deviations THEN g > s.dsn ELSE g # s.dsn
           spawnPoll == ~spawnCfg /\ (~s.hasd \/ changed)
           S1 == [s EXCEPT !.age = 0, !.badcb = @ \/ (cb /\ Avail(s))]
           S2 == IF spawnCfg THEN [S1 EXCEPT !.opq = Append(@, Op("cfg", 0, FALSE)), !.cfgfail = FALSE,
                                             !.excused = @ \/ (~s.hasd \/ g # s.dsn)]
                 ELSE IF spawnPoll THEN SpawnPoll(S1) ELSE S1
           S3 == [S2 EXCEPT !.hasd = TRUE, !.dsn = g, !.dcn = c, !.dev = TRUE, !.ahead = FALSE]
           u == UpdCached(S3, g) IN
       /\ spawnCfg \/ spawnPoll => Len(s.opq) < MaxOps
       /\ Commit(R(u.s, <<[ev |-> "adv", g |-> g, c |-> c]>> \o (IF cb THEN <<[ev |-> "avail_cb", v |-> 1]>> ELSE << >>) \o u.o))

\* BleController._device_detected with an encrypted broadcast (state number g, value v) sealed under the accessory's key
Bcast(g, v) ==
    /\ On("Bcast") /\ s.akey > 0 /\ g \in 1..MaxGsn /\ v \in Vals /\ Len(s.opq) < MaxOps
    \* the accessory repeats its last broadcast while it still describes its state; older ones only with StaleBcast
    /\ (s.lastb = <<g, v>> /\ g = s.agsn /\ v = s.aval) \/ StaleBcast
    /\ LET ev == <<[ev |-> "bcast", g |-> g, v |-> v]>> IN
       Commit(IF s.pk = 0 THEN R(SpawnPoll(s), ev)
              ELSE IF ~s.hasd THEN R(s, ev)
              ELSE IF s.pk # s.akey THEN R(SpawnPoll(s), ev)
              ELSE IF g = s.dsn THEN R(s, ev)
              ELSE IF g > s.dsn /\ g < s.dsn + 100 THEN
                   LET S1 == [s EXCEPT !.dsn = g, !.ahead = TRUE] IN
                   IF s.subs THEN R([S1 EXCEPT !.lval = v, !.excused = IF v = s.aval THEN FALSE ELSE @], ev \o <<[ev |-> "told", v |-> v]>>)
                   ELSE R(S1, ev)
              ELSE R(SpawnPoll(s), ev))

\* ------------------------------------------------------------------ the accessory
\* State numbers repeat after MaxGsn increments.  A number the pairing holds (or has read and not yet written back) must
\* not come round again before the pairing has caught up: 65535 unseen increments in reality, MaxGsn - 1 in the model.
Live(S) == (IF S.hasd THEN {S.dsn} ELSE {}) \cup (IF S.has /\ S.asn # 0 THEN {S.asn} ELSE {})
           \cup (IF S.cache # << >> /\ S.cache[2] # 0 THEN {S.cache[2]} ELSE {})
           \cup {S.opq[i].g0 : i \in 1..Len(S.opq)} \cup {S.opq[i].gv : i \in 1..Len(S.opq)} \cup {S.lastb[1]}
NoAlias(S) == \A x \in Live(S) \ {0} : Dist(S.agsn, x) <= MaxGsn - 2
Change(v) ==
    /\ v \in Vals /\ v # s.aval
    /\ Guarded /\ ((~s.link /\ s.bcen) \/ ~s.bumped) => NoAlias(s)
    /\ LET bc == ~s.link /\ s.bcen
           bump == bc \/ ~s.bumped
           g == IF bump THEN NextGsn(s.agsn) ELSE s.agsn
           \* (ghost) a value read and not yet told is out of date without the GSN showing it
           S0 == IF ~bump /\ Running(s) /\ HeadOp(s).pc = "b_told" THEN SetHead(s, [HeadOp(s) EXCEPT !.inv = TRUE]) ELSE s IN
       Commit(R([S0 EXCEPT !.aval = v, !.agsn = g, !.bumped = TRUE,
                          !.lastb = IF bc THEN <<g, v>> ELSE @,
                          !.excused = @ \/ (~bump /\ s.link)],
                <<[ev |-> "change", v |-> v, g |-> g]>>))
CfgChange ==
    /\ On("CfgChange") /\ s.acn < MaxCn
    /\ Commit(R([s EXCEPT !.acn = @ + 1], <<[ev |-> "cfgchg", c |-> s.acn + 1]>>))

\* ------------------------------------------------------------------ the application
Call(c, force) ==
    /\ On(IF force THEN "CallForce" ELSE "Call") /\ c \in Callers /\ s.cst[c] = "idle" /\ Len(s.opq) < MaxOps
    /\ Commit(R([s EXCEPT !.cst[c] = "busy", !.opq = Append(@, Op("pop", c, force))], <<[ev |-> "call", c |-> c, force |-> force]>>))
\* a listener is registered and the characteristic subscribed (only while there is no connection)
Subscribe ==
    /\ ~s.subs /\ ~s.link
    /\ Commit(R([s EXCEPT !.subs = TRUE, !.lval = 0, !.excused = TRUE], <<E1("sub")>>))

\* the controller process dies and is started again over the same cache (load_pairing without a discovery)
FromCache(S) ==
    LET has == S.cache # << >>
        sn == IF has THEN S.cache[2] ELSE 0 IN
    [S EXCEPT !.has = has, !.ccn = IF has THEN S.cache[1] ELSE 0, !.asn = sn, !.pk = IF has THEN S.cache[3] ELSE 0,
              !.hasd = (has /\ sn # 0), !.dsn = sn, !.dcn = IF has /\ sn # 0 THEN S.cache[1] ELSE 0,
              !.dev = FALSE, !.age = 2, !.sess = FALSE, !.tried = FALSE, !.rpend = FALSE, !.ntfd = FALSE, !.subs = FALSE,
              !.delock = FALSE, !.opq = << >>, !.ntimer = FALSE, !.cst = [c \in Callers |-> "idle"], !.link = FALSE, !.bumped = (~S.link /\ S.bumped),
              !.lval = 0, !.excused = TRUE, !.ahead = FALSE, !.cfgfail = FALSE]
Restart ==
    /\ On("Restart") /\ (MaxRestarts = 0 \/ s.gen < MaxRestarts)
    /\ Commit(R(FromCache([s EXCEPT !.gen = IF MaxRestarts = 0 THEN 0 ELSE @ + 1]), <<E1("restart")>>))

\* what is visible from outside when the library has nothing left to run
ObsRec(S) == [ev |-> "obs", dsn |-> IF S.hasd THEN S.dsn ELSE 0, dcn |-> IF S.hasd THEN S.dcn ELSE 0, has |-> S.has,
              asn |-> IF S.has THEN S.asn ELSE 0, ccn |-> CcnOf(S), avail |-> Avail(S), conn |-> (S.link /\ S.sess),
              k |-> IF S.has THEN S.pk ELSE 0, cache |-> S.cache]
Quiescent == ~ENABLED Internal
Obs == /\ Quiescent /\ s' = s /\ out' = <<ObsRec(s)>>

\* ------------------------------------------------------------------
Init0(ic, g, c, v) ==
    FromCache([agsn |-> g, acn |-> c, aval |-> v, bumped |-> FALSE, akey |-> 0, bcen |-> FALSE, lastb |-> <<0, 0>>, link |-> FALSE,
               cache |-> CASE ic = "none" -> << >> [] ic = "nosn" -> <<c, 0, 0>> [] OTHER -> <<c, g, 0>>,
               has |-> FALSE, ccn |-> 0, asn |-> 0, pk |-> 0, hasd |-> FALSE, dsn |-> 0, dcn |-> 0, dev |-> FALSE, age |-> 2,
               sess |-> FALSE, tried |-> FALSE, rpend |-> FALSE, ntfd |-> FALSE, subs |-> FALSE, delock |-> FALSE, opq |-> << >>,
               ntimer |-> FALSE, cst |-> [x \in Callers |-> "idle"], conns |-> 0, gen |-> 0,
               lval |-> 0, excused |-> TRUE, ahead |-> FALSE, badcb |-> FALSE, cfgfail |-> FALSE])
Init == /\ \E ic \in InitCaches, g \in 1..MaxGsn, v \in Vals : s = Init0(ic, g, 1, v)
        /\ out = << >>

Env == \/ \E g \in 1..MaxGsn, c \in 1..MaxCn : Adv(g, c)
       \/ \E g \in 1..MaxGsn, v \in Vals : Bcast(g, v)
       \/ \E v \in Vals : Change(v)
       \/ CfgChange \/ Drop \/ Tick \/ Subscribe \/ Restart
       \/ \E w \in {"backoff", "find", "ntf"} : Timer(w)
       \/ \E c \in Callers, f \in BOOLEAN : Call(c, f)
       \/ \E r \in {"ok", "fail", "bfail"} : ConnRes(r)
       \/ FetchDone
Next == Internal \/ Answer \/ Env
Spec == Init /\ [][Next]_vars
\* for `tlc -simulate` (behaviours replayed on the real code): the library runs on when it can, the Bluetooth side
\* mostly answers, the other stimuli are drawn with similar weights (uniform choice would be all advertisements)
Progress == Answer \/ FetchDone \/ \E r \in {"ok", "ok", "fail", "bfail"} : ConnRes(r)
SimEnv == LET k == RandomElement(1..9) IN
          CASE k <= 2 -> \E g \in 1..MaxGsn, c \in 1..MaxCn : Adv(g, c)
            [] k = 3 -> \E v \in Vals : Change(v)
            [] k = 4 -> IF s.link THEN Drop ELSE \E g \in 1..MaxGsn, c \in 1..MaxCn : Adv(g, c)
            [] k = 5 -> IF ~s.subs /\ ~s.link THEN Subscribe ELSE \E v \in Vals : Change(v)
            [] k = 6 -> IF TimerPending THEN \E w \in {"backoff", "find", "ntf"} : Timer(w) ELSE Tick
            [] k = 7 -> IF \E c \in Callers : s.cst[c] = "idle" /\ Len(s.opq) < MaxOps THEN \E c \in Callers, f \in BOOLEAN : Call(c, f) ELSE Tick
            [] k = 8 -> IF ENABLED (\E g \in 1..MaxGsn, v \in Vals : Bcast(g, v)) THEN \E g \in 1..MaxGsn, v \in Vals : Bcast(g, v) ELSE Env
            [] OTHER -> IF RandomElement(1..3) = 1 /\ ENABLED (CfgChange \/ Restart) THEN CfgChange \/ Restart ELSE Env
SimNext == IF ENABLED Internal THEN Internal
           ELSE IF RandomElement(1..5) <= 3 /\ ENABLED Progress THEN Progress
           ELSE SimEnv
SimSpec == Init /\ [][SimNext]_vars
View == s
\* the same with the observation steps of the trace validation
NextObs == Next \/ Obs

\* ------------------------------------------------------------------ properties
\* P1  at most one catch-up poll in flight or queued
OnePoll == Cardinality(Polls(s)) <= 1 /\ (Polls(s) # {} => s.delock)
\*     no catch-up poll before the first connection attempt has completed
NoPollBeforeConnect == Polls(s) # {} => s.tried
\* P1' no change is lost: when the pairing holds the accessory's CURRENT state number (so that a further advertisement
\*     with it starts nothing) and no catch-up poll is in flight or queued, the listener has been told the current
\*     value - unless the change is one the
\*     library by design does not follow up (`excused`: seen before the first connection attempt, the poll failed on the
\*     connection, a configuration change or a bulk read of all values by the application (values go to the accessories model,
\*     listeners are not called) took precedence, a second change inside one connection - connected events are
\*     not modelled -, nothing told yet since the listener was registered / the process started)
Quiet == Polls(s) = {}
NoLostChange == (Quiet /\ s.subs /\ s.hasd /\ s.dsn = s.agsn /\ ~s.excused) => s.lval = s.aval
\* P2  the cache is written only with accessories state, and with the state number the pairing holds for that state;
\*     that number is the last one the pairing adopted, except after a bulk read / broadcast (description ahead)
CacheIsState == [][s'.cache # s.cache => s'.has /\ s'.cache = <<s'.ccn, s'.asn, s'.pk>>]_vars
CachedIsLastAdopted == (s.has /\ s.hasd /\ s.asn # 0 /\ ~s.ahead) => s.asn = s.dsn
\*     a restart starts from the cached number
RestartFromCache == [][(\E i \in 1..Len(out') : out'[i].ev = "restart") =>
                          /\ s'.hasd = (s.cache # << >> /\ s.cache[2] # 0)
                          /\ s'.hasd => s'.dsn = s.cache[2] /\ s'.dcn = s.cache[1]]_vars
\* P3  availability listeners are told True only when the pairing was not available
NoRedundantAvailability == ~s.badcb
AvailCbOnlyFromAdv == [][(\E i \in 1..Len(out') : out'[i].ev = "avail_cb") => out'[1].ev = "adv" /\ ~Avail(s) /\ Avail(s')]_vars
\* P4  a configuration number above the held one leads to a re-read filed under the advertised number, unless the
\*     operation failed on the connection; the database is never fetched when the held number equals the advertised one
CfgFollowed == (s.opq = << >> /\ s.hasd /\ s.dcn > CcnOf(s)) => s.cfgfail
FetchOnlyOnChange == [][(\E i \in 1..Len(out') : out'[i].ev = "fetch") => ~s.has \/ (s.hasd /\ s.ccn # s.dcn)]_vars
\* P5  is covered by NoLostChange with MaxGsn small (wrap-around happens within the explored depth)
TypeOk == /\ s.agsn \in 1..MaxGsn /\ s.dsn \in 0..(MaxGsn + 99) /\ s.age \in 0..2 /\ Len(s.opq) <= MaxOps + 1
=============================================================================
