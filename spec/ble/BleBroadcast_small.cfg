SPECIFICATION Spec
VIEW View
CONSTANTS
  W = 3
  Back = {1, 2}
  Fwd = {0, 1, 2, 3, 4, 5}
  AbsLow = {1, 2}
  Pairings = {"A", "B"}
  Foreign = {"X"}
  Iids = {1, 2}
  Vals = {1, 2}
  Starts = {2, 65534}
  KeyAtStart = {TRUE, FALSE}
  MaxSteps = 3
PROPERTY OnlyAuthenticFresh
PROPERTY AcceptedDelivered
PROPERTY MonotoneLast
PROPERTY ReplayNeverAccepted
PROPERTY StepAllowed
PROPERTY NoKeyNoAccept
CHECK_DEADLOCK FALSE
