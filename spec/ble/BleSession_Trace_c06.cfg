SPECIFICATION TSpec
CONSTANTS
  Callers = {1, 2, 3, 4}
  MaxCalls = 0
  MaxLinks = 0
  MaxEp = 0
  MaxReq = 3
  MaxW = 2
  MaxR = 2
  MaxAtt = 10
  MaxFaults = 0
  SubsInit = {FALSE}
  MaySubscribe = TRUE
  RestoreReqs = {1, 2, 3}
  Loose = TRUE
  Guarded = FALSE
CONSTRAINT TConstraint
INVARIANT NoNonceReuse
INVARIANT AcceptOnceInOrder
INVARIANT FreshKeys
INVARIANT DeadEpochUnused
POSTCONDITION Accepted
CHECK_DEADLOCK FALSE
