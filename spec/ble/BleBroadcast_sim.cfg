SPECIFICATION Spec
CONSTANTS
  W = 99
  Back = {1, 50}
  Fwd = {0, 1, 2, 99, 100}
  AbsLow = {5}
  Pairings = {"A", "B"}
  Foreign = {"X"}
  Iids = {1, 2}
  Vals = {1}
  Starts = {1, 1000, 65437, 65500, 65535}
  KeyAtStart = {TRUE, FALSE}
  MaxSteps = 0
CHECK_DEADLOCK FALSE
