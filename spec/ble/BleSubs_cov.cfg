SPECIFICATION Spec
CONSTANTS
  Chars = {1}
  NoEv = {}
  BChars = {1}
  Vals = {0, 1}
  Listeners = {1}
  Raising = {}
  Callers = {1}
  MaxOps = 2
  MaxLinks = 1
  Debounce = 2
  Backoff = 1
  Off = {"payload", "shutdown"}
  Deviations = {}
INVARIANT NotifyComplete
INVARIANT NotifyExact
INVARIANT WantedComplete
INVARIANT RestoredAfterReconnect
INVARIANT BroadcastComplete
INVARIANT UnsubscribeHonoured
INVARIANT NtfIsActive
INVARIANT NotifyNotLost
INVARIANT TwoTasks
INVARIANT OneTimer
INVARIANT TypeOk
PROPERTY PassOnlyWanted
PROPERTY SnOncePerLink
PROPERTY SnOnlyOnLiveLink
PROPERTY BcastOncePerLink
PROPERTY NothingAfterShutdown
PROPERTY EveryListenerOnce
PROPERTY ReadPerNotification
PROPERTY NoBackgroundCrash
PROPERTY TimerRestarted
VIEW View
CHECK_DEADLOCK FALSE
