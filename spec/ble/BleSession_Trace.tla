-------------------------- MODULE BleSession_Trace --------------------------
(* Trace validation for BleSession: executions of the real BlePairing recorded by harness/extble_driver.py at
   the Bluetooth boundary (connection attempts, GATT operations, disconnects, the accessory's view of every
   pair-verify exchange and of every encrypted fragment), at the AEAD boundary (key installation, every
   encrypt / decrypt with the counter used) and at the public API are accepted iff they are behaviours of
   BleSession.  Steps of the library that have no observable effect are inferred by TLC. *)
EXTENDS BleSession, Json, IOUtils, TLCExt

Traces == ndJsonDeserialize(IOEnv.TRACE_FILE)
VARIABLES tid, l
tvars == <<vars, tid, l>>
Ev == Traces[tid].events
ToSet(seq) == {seq[i] : i \in 1..Len(seq)}
HasEv == l <= Len(Ev)
E == Ev[l]
IsEvent(k) == HasEv /\ E.ev = k /\ l' = l + 1 /\ UNCHANGED tid

TInit == /\ tid \in 1..Len(Traces) /\ l = 1 /\ Init

TrCall == IsEvent("call") /\ Call(E.c, E.kind, E.n, E.nw)
TrCancel == IsEvent("cancel") /\ CallerCancel(E.c)
TrRet == IsEvent("ret") /\ cl[E.c].res = E.res /\ Return(E.c)
TrConnReq == IsEvent("conn_req") /\ \E c \in Callers : IssuesConnect(c) /\ ConnReq(c)
TrConnRes == /\ IsEvent("conn_res")
             /\ \E c \in Callers : IF E.out = "ok" THEN ConnOk(c) /\ Len(links') = E.n ELSE ConnFail(c)
TrPvRx == /\ IsEvent("pv_rx")
          /\ \E c \in Callers : IF E.m = "m3" THEN PvM3(c) /\ cl[c].ln = E.n /\ links[E.n].up
                                ELSE PvStart(c, E.m) /\ cur = E.n
TrPvTx == IsEvent("pv_tx") /\ \E c \in Callers : cl[c].ln = E.n /\ PvReply(c, E.kind)
\* the library created a pair of key objects: they must be the keys of the session the accessory holds on the link in
\* use (E.ep # 0 says the key bytes equal the accessory's), never seen before, and installation must be due
TrKeys == /\ IsEvent("keys") /\ E.ep # 0 /\ E.fresh
          /\ \E c \in Callers : PvInstall(c) /\ cl'[c].pc = "req" /\ enc' = E.ep
TrEnc == IsEvent("enc") /\ \E c \in Callers : cl[c].ep = E.ep /\ sctr = E.ctr /\ Encrypt(c)
TrWr == /\ IsEvent("wr")
        /\ \E c \in Callers : cl[c].ln = E.n /\ WrOk(c) /\ (E.open <=> links'[E.n].rc = links[E.n].rc + 1)
TrRd == IsEvent("rd") /\ \E c \in Callers, k \in 0..40 : cl[c].ln = E.n /\ RdOk(c, E.kind, E.more, k)
TrDec == IsEvent("dec") /\ \E c \in Callers : cl[c].ep = E.ep /\ rctr = E.ctr /\ (E.ok <=> DecOk(c)) /\ \E chk \in BOOLEAN, k \in RestoreReqs : Decrypt(c, chk, k)
TrGattErr == IsEvent("gatt_err") /\ \E c \in Callers : cl[c].ln = E.n /\ GattErr(c, E.drop)
TrDrop == IsEvent("drop") /\ Drop(E.n)
TrDiscReq == /\ IsEvent("disc_req")
             /\ \E c \in Callers : IssuesDisconnect(c) /\ cur = E.n /\ (CloseStart(c) \/ CStart(c))
TrDiscRes == IsEvent("disc_res") /\ DiscOk(E.n)
TrSubscribe == IsEvent("subscribe") /\ Subscribe
\* the debounced background task started GATT notifications (it never suspends while it holds the operation lock)
TrNotify == IsEvent("notify") /\ subs /\ links[E.n].up /\ UNCHANGED vars
\* what is visible from outside once everything that can run has run
Visible == /\ ToSet(E.up) = {n \in Links : links[n].up}
           /\ E.connected = (Connected(St) /\ enc # 0)
TrObs == IsEvent("obs") /\ Quiescent /\ Visible /\ UNCHANGED vars
\* the end of a run, after an honest tail: every caller has returned, no lock is held, nobody waits
TrEnd == /\ IsEvent("end") /\ Quiescent /\ Visible /\ UNCHANGED vars
         /\ E.hung = << >>
         /\ \A c \in Callers : cl[c].pc = "idle"
         /\ opH = 0 /\ cnH = 0 /\ opQ = << >> /\ cnQ = << >>

\* unobservable steps of the library
Silent ==
    /\ \E c \in Callers :
          \/ OpGranted(c) \/ Start(c) \/ StartShut(c, TRUE) \/ StartShut(c, FALSE) \/ CnGranted(c) \/ (ConnReq(c) /\ ~IssuesConnect(c)) \/ ConnDone(c)
          \/ PvNoLink(c) \/ PvSkip(c) \/ (PvM3(c) /\ ~links[cl[c].ln].up) \/ (PvInstall(c) /\ cl'[c].pc # "req") \/ PvFailed(c)
          \/ ReqStart(c) \/ WriteNext(c) \/ WrDone(c) \/ ReqFailed(c) \/ (CloseStart(c) /\ ~IssuesDisconnect(c)) \/ DiscDone(c)
          \/ (\E retry, hold \in BOOLEAN : Raise(c, retry, hold)) \/ BackoffTimer(c) \/ BackoffCancelled(c) \/ Finish(c) \/ (CStart(c) /\ ~IssuesDisconnect(c))
    /\ UNCHANGED <<tid, l>>

TNext == TrCall \/ TrCancel \/ TrRet \/ TrConnReq \/ TrConnRes \/ TrPvRx \/ TrPvTx \/ TrKeys \/ TrEnc \/ TrWr \/ TrRd \/ TrDec
         \/ TrGattErr \/ TrDrop \/ TrDiscReq \/ TrDiscRes \/ TrSubscribe \/ TrNotify \/ TrObs \/ TrEnd \/ Silent
TSpec == TInit /\ [][TNext]_tvars

ASSUME \A i \in 1..Len(Traces) : TLCSet(i, 0)
TConstraint == TLCSet(tid, IF TLCGet(tid) < l THEN l ELSE TLCGet(tid))
Accepted == /\ TLCGet("stats").generated >= 0
            /\ \A i \in 1..Len(Traces) :
                  IF TLCGet(i) = Len(Traces[i].events) + 1 THEN TRUE ELSE PrintT(<<"REJECTED", i, TLCGet(i)>>)
DbgL == CHOOSE n \in 0..100000 : ToString(n) = IOEnv.DBG_L
DebugNotReached == l < DbgL
=============================================================================
