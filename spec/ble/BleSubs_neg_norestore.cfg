SPECIFICATION Spec
CONSTANTS
  Chars = {1, 2}
  NoEv = {}
  BChars = {2}
  Vals = {0}
  Listeners = {}
  Raising = {}
  Callers = {1}
  MaxOps = 3
  MaxLinks = 2
  Debounce = 2
  Backoff = 1
  Off = {"Change", "Ind", "Listen", "Unsubscribe", "close", "payload", "shutdown"}
  Deviations = {"restore-skipped"}
INVARIANT RestoredAfterReconnect
VIEW View
CHECK_DEADLOCK FALSE
