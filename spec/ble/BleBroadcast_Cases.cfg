SPECIFICATION Spec
VIEW View
CONSTANTS
  W = 99
  Back = {1, 50}
  Fwd = {0, 1, 2, 50, 98, 99, 100, 1000}
  Pairings = {"A", "B"}
  Foreign = {"X"}
  Iids = {1, 2, 3}
  Vals = {1, 2, 3}
  Starts = {1, 300, 60000}
  KeyAtStart = {TRUE}
  MaxSteps = 1
  CaseDepth = 2
PROPERTY StepAllowed
POSTCONDITION ExportCases
CHECK_DEADLOCK FALSE
