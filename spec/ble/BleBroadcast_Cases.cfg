SPECIFICATION CSpec
CONSTANTS
  W = 99
  Back = {1, 50}
  Fwd = {0, 1, 2, 50, 98, 99, 100, 1000}
  AbsLow = {1, 5, 104}
  Pairings = {"A", "B"}
  Foreign = {"X"}
  Iids = {1, 2, 3}
  Vals = {1, 2, 3}
  Starts = {1, 2, 100, 65436, 65437, 65500, 65534, 65535}
  KeyAtStart = {TRUE}
  MaxSteps = 1
  CaseDepth = 2
POSTCONDITION ExportCases
CHECK_DEADLOCK FALSE
