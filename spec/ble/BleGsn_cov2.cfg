SPECIFICATION Spec
CONSTANTS
  MaxGsn = 2
  MaxCn = 1
  Vals = {1}
  InitCaches = {"entry", "nosn", "none"}
  MaxOps = 2
  MaxConns = 1
  MaxRestarts = 1
  MaxKeys = 0
  Callers = {1}
  StaleBcast = FALSE
  Guarded = TRUE
  Off = {"Bcast", "Tick", "CfgChange", "bfail", "ntf", "CallForce", "fail"}
  Coarse = TRUE
  Deviations = {}
INVARIANT OnePoll
INVARIANT NoPollBeforeConnect
INVARIANT NoLostChange
INVARIANT CachedIsLastAdopted
INVARIANT NoRedundantAvailability
INVARIANT CfgFollowed
INVARIANT TypeOk
PROPERTY CacheIsState
PROPERTY RestartFromCache
PROPERTY AvailCbOnlyFromAdv
PROPERTY FetchOnlyOnChange
VIEW View
CHECK_DEADLOCK FALSE
