SPECIFICATION Spec
CONSTANTS
  Chars = {1}
  NoEv = {}
  BChars = {}
  Vals = {0, 1}
  Listeners = {1, 2}
  Raising = {2}
  Callers = {1}
  MaxOps = 3
  MaxLinks = 2
  Debounce = 2
  Backoff = 1
  Off = {"Unsubscribe", "Wait", "close", "fail", "shutdown"}
  Deviations = {"callback-does-not-read"}
INVARIANT NotifyNotLost
VIEW View
CHECK_DEADLOCK FALSE
