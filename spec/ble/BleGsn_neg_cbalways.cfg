SPECIFICATION Spec
CONSTANTS
  MaxGsn = 2
  MaxCn = 1
  Vals = {1}
  InitCaches = {"entry"}
  MaxOps = 2
  MaxConns = 2
  MaxRestarts = 0
  MaxKeys = 0
  Callers = {1}
  StaleBcast = FALSE
  Guarded = TRUE
  Off = {"Bcast", "CfgChange", "Restart", "CallForce", "bfail", "ntf"}
  Coarse = TRUE
  Deviations = {"availability-callback-on-every-advertisement"}
INVARIANT OnePoll
INVARIANT NoPollBeforeConnect
INVARIANT NoLostChange
INVARIANT CachedIsLastAdopted
INVARIANT NoRedundantAvailability
INVARIANT CfgFollowed
INVARIANT TypeOk
PROPERTY CacheIsState
PROPERTY RestartFromCache
PROPERTY AvailCbOnlyFromAdv
PROPERTY FetchOnlyOnChange
VIEW View
CHECK_DEADLOCK FALSE
