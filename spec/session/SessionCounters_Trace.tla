------------------------ MODULE SessionCounters_Trace ------------------------
(* Trace validation for SessionCounters: sequences of AEAD-boundary observations recorded from the real
   session layers (IP: SecureHomeKitProtocol; BLE: EncryptionKey/DecryptionKey; COAP: EncryptionContext
   and EventResource).  Events:
     enc      {c0, n}        the controller encrypted n messages, the first with counter c0
     produce  / produce_ev   the accessory sealed its next genuine message
     deliver  {k, ok}        the genuine message with counter k was handed to the controller; ok = its
                             plaintext was accepted
     deliver_ev {k, ok}      same on the CoAP event channel
     corrupt  {ok}           a corrupted message was handed over
     abandon                 the in-flight request was cancelled / timed out
     rekey   {fresh}         fresh keys were installed (fresh, when logged: the controller's ephemeral key of this
                             pair-verify differs from those of all earlier ones) *)
EXTENDS SessionCounters, Json, IOUtils, TLCExt

Traces == ndJsonDeserialize(IOEnv.TRACE_FILE)
VARIABLES tid, l
tvars == <<vars, tid, l>>
Ev == Traces[tid].events
HasEv == l <= Len(Ev)
E == Ev[l]
IsEvent(k) == HasEv /\ E.ev = k /\ l' = l + 1 /\ UNCHANGED tid
TInit == tid \in 1..Len(Traces) /\ l = 1 /\ Init

Grew == Len(accepted') > Len(accepted)
TrEnc == IsEvent("enc") /\ Request(E.n) /\ sendCtr = E.c0
TrProduce == IsEvent("produce") /\ AccProduce
TrProduceEv == IsEvent("produce_ev") /\ AccProduceEvent
TrDeliver == IsEvent("deliver") /\ Deliver(E.k) /\ (E.ok = Grew)
TrDeliverEv == IsEvent("deliver_ev") /\ DeliverEvent(E.k) /\ (E.ok = Grew)
TrCorrupt == IsEvent("corrupt") /\ ~E.ok /\ DeliverCorrupt
TrAbandon == IsEvent("abandon") /\ Abandon
\* a re-key installs keys no earlier epoch used (that is what makes the per-epoch nonce bookkeeping sound): where the
\* harness can observe the controller's contribution to the session key it logs whether it is new
TrRekey == IsEvent("rekey") /\ Rekey /\ (("fresh" \in DOMAIN E) => E.fresh)
TNext == TrEnc \/ TrProduce \/ TrProduceEv \/ TrDeliver \/ TrDeliverEv \/ TrCorrupt \/ TrAbandon \/ TrRekey
TSpec == TInit /\ [][TNext]_tvars

ASSUME \A i \in 1..Len(Traces) : TLCSet(i, 0)
TConstraint == TLCSet(tid, IF TLCGet(tid) < l THEN l ELSE TLCGet(tid))
Accepted == /\ TLCGet("stats").generated >= 0
            /\ \A i \in 1..Len(Traces) :
                  IF TLCGet(i) = Len(Traces[i].events) + 1 THEN TRUE ELSE PrintT(<<"REJECTED", i, TLCGet(i)>>)
DbgL == CHOOSE n \in 0..100000 : ToString(n) = IOEnv.DBG_L
DebugNotReached == l < DbgL
=============================================================================
