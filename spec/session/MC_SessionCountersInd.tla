---------------------- MODULE MC_SessionCountersInd ----------------------
(* Apalache wrapper: the inductive invariant IndInv of SessionCounters for UNBOUNDED counters and epochs.
     apalache-mc check --init=IndInit --inv=IndInv --next=Next --length=1 MC_SessionCountersInd.tla   (consecution)
     apalache-mc check --init=Init --inv=IndInv --length=0 MC_SessionCountersInd.tla                 (initiation)
     apalache-mc check --init=IndInit --inv=Safety --length=0 MC_SessionCountersInd.tla              (IndInv => properties)
   The constants MaxEpoch / MaxCtr only bound the state space for TLC; here they are set beyond anything
   the symbolic states can reach within one step, i.e. they do not constrain the argument.  TransportC and
   DeviationsC select the instance: IP / BLE with no deviation, COAP with only "forward". *)
EXTENDS Integers, Sequences, FiniteSets, Apalache

CONSTANTS
    \* @type: Str;
    TransportC,
    \* @type: Set(Str);
    DeviationsC

VARIABLES
    \* @type: Int;
    epoch,
    \* @type: Bool;
    open,
    \* @type: Int;
    sendCtr,
    \* @type: Int;
    recvCtr,
    \* @type: Int;
    evCtr,
    \* @type: Int;
    accSent,
    \* @type: Int;
    accEvSent,
    \* @type: Set(<<Int, Int>>);
    usedEnc,
    \* @type: Bool;
    reused,
    \* @type: Seq(<<Int, Str, Int>>);
    accepted,
    \* @type: Str;
    lastDev

INSTANCE SessionCounters WITH Transport <- TransportC, Deviations <- DeviationsC,
                              MaxEpoch <- 1000000000, MaxCtr <- 1000000000, MaxFrames <- 3

ConstInit == TransportC \in {"IP", "BLE", "COAP"} /\ DeviationsC \in {{}, {"forward"}}
             /\ (DeviationsC = {"forward"} => TransportC = "COAP")

\* sanity instance: with the "reset" / "rewind" heuristics the invariant is NOT inductive (Apalache must say so)
ConstInitReset == TransportC = "COAP" /\ DeviationsC = {"forward", "reset"}
ConstInitRewind == TransportC = "COAP" /\ DeviationsC = {"forward", "rewind"}

\* an arbitrary state satisfying the invariant (bounded only in the number of history entries)
IndInit ==
    /\ epoch = Gen(1) /\ open \in BOOLEAN /\ sendCtr = Gen(1) /\ recvCtr = Gen(1) /\ evCtr = Gen(1)
    /\ accSent = Gen(1) /\ accEvSent = Gen(1)
    /\ usedEnc = Gen(4) /\ reused \in BOOLEAN /\ accepted = Gen(4)
    /\ lastDev \in {"none", "forward"}
    /\ sendCtr < 900000000 /\ epoch < 900000000 /\ accSent < 900000000 /\ accEvSent < 900000000
    /\ \A i \in DOMAIN accepted : accepted[i][2] \in {"resp", "event"}
    /\ IndInv

Safety == IndInv => (NoNonceReuse /\ AcceptOnceInOrder)
=============================================================================
