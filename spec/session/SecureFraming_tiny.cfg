SPECIFICATION Spec
CONSTANTS BLOCK = 4  TAG = 2  LENB = 2  Sizes = {1, 2, 3, 4}  MaxFrames = 3  CutClasses = FALSE  OutLens = {1, 3, 4, 5, 8, 9, 12, 13}
INVARIANT InboundExact
INVARIANT NeverEarly
INVARIANT CounterIsFrameIndex
INVARIANT CorruptNeverDelivered
INVARIANT DeadOnlyByCorruption
INVARIANT AuthFailureEndsSession
INVARIANT AlignedInvariant
INVARIANT OutboundExact
CHECK_DEADLOCK FALSE
