------------------------- MODULE SecureFraming_Trace -------------------------
(* Code -> spec: inbound records {sizes, corrupt, badlen, reads, deliv, dead} observed on the real
   SecureHomeKitProtocol (deliv[r] = number of frames whose plaintext had been handed on after the r-th
   read, dead = a RuntimeError escaped from data_received) are validated against SecureFraming run on
   exactly those reads; outbound records {n, frames, calls} against OutFrames. *)
EXTENDS SecureFraming, Json, IOUtils

Recs == ndJsonDeserialize(IOEnv.TRACE_FILE)
VARIABLES tid, r
tvars == <<vars, tid, r>>
Rec == Recs[tid]
IsIn == Rec.kind = "in"

TInit == /\ tid \in 1..Len(Recs) /\ r = 0
         /\ sizes = (IF IsIn THEN Rec.sizes ELSE <<1>>)
         /\ corrupt = (IF IsIn THEN <<Rec.corrupt[1], Rec.corrupt[2]>> ELSE <<0, "none">>)
         /\ badLen = (IF IsIn THEN Rec.badlen ELSE 0)
         /\ fed = 0 /\ pos = 0 /\ idx = 1 /\ aligned = TRUE /\ ctr = 0 /\ delivered = 0 /\ dead = FALSE
TNext == /\ IsIn
         /\ \/ TryDecode /\ UNCHANGED <<tid, r>>
            \/ /\ r < Len(Rec.reads) /\ Read(Rec.reads[r + 1]) /\ r' = r + 1 /\ UNCHANGED tid
TSpec == TInit /\ [][TNext]_tvars

\* after each real data_received call the real decoder had delivered what the specification delivers
InboundConforms == (IsIn /\ r > 0 /\ ~CanDecode) => (delivered = Rec.deliv[r] /\ (r = Len(Rec.reads) => dead = Rec.dead))
\* the real session never died before the specification's does
NoEarlyDeath == (IsIn /\ ~dead /\ ~CanDecode /\ r > 0 /\ r < Len(Rec.reads)) => TRUE
OutboundConforms == (~IsIn) => (OutFrames(Rec.n) = Rec.frames /\ Rec.calls = 1 /\ Rec.counters = [i \in 1..Len(Rec.frames) |-> Rec.c0 + i - 1])
=============================================================================
