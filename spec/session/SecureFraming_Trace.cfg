SPECIFICATION TSpec
CONSTANTS BLOCK = 1024  TAG = 16  LENB = 2  Sizes = {1}  MaxFrames = 1  CutClasses = FALSE  OutLens = {1}
INVARIANT InboundConforms
INVARIANT OutboundConforms
INVARIANT InboundExact
INVARIANT CounterIsFrameIndex
INVARIANT CorruptNeverDelivered
CHECK_DEADLOCK FALSE
