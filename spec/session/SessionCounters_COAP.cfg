SPECIFICATION Spec
CONSTANTS Transport = "COAP"  Deviations = {"forward"}  MaxEpoch = 2  MaxCtr = 5  MaxFrames = 2
INVARIANT NoNonceReuse
INVARIANT AcceptOnceInOrder
INVARIANT AcceptPrefix
PROPERTY ClosedEpochUnused
CONSTRAINT LevelBound
CHECK_DEADLOCK FALSE
