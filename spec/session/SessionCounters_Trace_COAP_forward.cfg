SPECIFICATION TSpec
CONSTANTS Transport = "COAP"  Deviations = {"forward"}  MaxEpoch = 1000  MaxCtr = 100000  MaxFrames = 64
CONSTRAINT TConstraint
INVARIANT NoNonceReuse
INVARIANT AcceptOnceInOrder
POSTCONDITION Accepted
CHECK_DEADLOCK FALSE
