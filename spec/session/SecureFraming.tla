---------------------------- MODULE SecureFraming ----------------------------
(* Encrypted IP session framing (SecureHomeKitProtocol.send_bytes / data_received in
   controller/ip/connection.py), at byte-count level with the real constants BLOCK = 1024, TAG = 16,
   LENB = 2 (also instantiated with tiny values to explore every segmentation exhaustively).

   Inbound: the accessory emits frames with plaintext sizes sizes[1..N]; frame i occupies
   LENB + sizes[i] + TAG bytes of the stream.  The environment feeds the stream in arbitrary reads and
   may have flipped one bit in one frame (length prefix / ciphertext / tag).  The decoder is the code's
   algorithm: a buffer, a position, a counter.

   Outbound: a request of n bytes is cut into frames of at most BLOCK plaintext bytes. *)
EXTENDS Naturals, Sequences, FiniteSets, TLC

CONSTANTS BLOCK, TAG, LENB,
          Sizes,        \* plaintext sizes the accessory may choose (subset of 1..BLOCK)
          MaxFrames,
          CutClasses,   \* TRUE: reads end only at "interesting" offsets (boundaries +-1); FALSE: anywhere
          OutLens       \* request lengths for the outbound part

VARIABLES sizes,      \* chosen frame sizes
          corrupt,    \* <<frame, site>> with site \in {"len", "ct", "tag"}, or <<0, "none">>
          badLen,     \* the value the decoder reads from a corrupted length prefix
          fed,        \* bytes of the stream handed to data_received so far
          pos,        \* stream offset of the first undecoded byte (buffer = stream[pos+1..fed])
          idx,        \* index of the frame that starts at pos (meaningful while aligned)
          aligned,    \* pos is a frame boundary
          ctr,        \* a2c counter
          delivered,  \* number of frames whose plaintext was handed to the HTTP layer
          dead        \* decryption failed: RuntimeError raised, session torn down

vars == <<sizes, corrupt, badLen, fed, pos, idx, aligned, ctr, delivered, dead>>

N == Len(sizes)
FrameLen(i) == LENB + sizes[i] + TAG
RECURSIVE StartOf(_)
StartOf(i) == IF i = 1 THEN 0 ELSE StartOf(i - 1) + FrameLen(i - 1)
EndOf(i) == StartOf(i) + FrameLen(i)
Total == IF N = 0 THEN 0 ELSE EndOf(N)

RECURSIVE SeqsUpTo(_)
SeqsUpTo(k) == IF k = 0 THEN { << >> }
               ELSE SeqsUpTo(k - 1) \cup { Append(s, x) : s \in { y \in SeqsUpTo(k - 1) : Len(y) = k - 1 }, x \in Sizes }

Interesting == UNION { { StartOf(i) + d : d \in {0, 1, LENB - 1, LENB, LENB + 1} } \cup
                       { EndOf(i) - d : d \in {0, 1, TAG - 1, TAG, TAG + 1} } : i \in 1..N }

Init == /\ sizes \in (SeqsUpTo(MaxFrames) \ { << >> })
        /\ corrupt \in ({<<0, "none">>} \cup { <<i, s>> : i \in 1..MaxFrames, s \in {"len", "ct", "tag"} })
        /\ corrupt[1] <= Len(sizes)
        /\ badLen \in (IF corrupt[2] = "len" THEN {0, 1, sizes[corrupt[1]] + 1, sizes[corrupt[1]] + 2 + TAG, 3 * (BLOCK + TAG + LENB)}
                                                     \ {sizes[corrupt[1]]}
                       ELSE {0})
        /\ fed = 0 /\ pos = 0 /\ idx = 1 /\ aligned = TRUE /\ ctr = 0 /\ delivered = 0 /\ dead = FALSE

\* the length the decoder reads at pos
LenAtPos == IF aligned /\ idx <= N THEN (IF corrupt = <<idx, "len">> THEN badLen ELSE sizes[idx])
            ELSE 0        \* misaligned: whatever bytes are there (any value; authentication fails anyway)
Need == LENB + LenAtPos + TAG
CanDecode == ~dead /\ fed - pos >= LENB /\ fed - pos >= Need

\* asyncio hands the next k bytes to data_received (only when the previous call's loop has finished)
Read(k) ==
    /\ ~dead /\ ~CanDecode /\ k >= 1 /\ fed + k <= Total
    /\ CutClasses => (fed + k) \in Interesting \cup {Total}
    /\ fed' = fed + k
    /\ UNCHANGED <<sizes, corrupt, badLen, pos, idx, aligned, ctr, delivered, dead>>

\* one iteration of the while loop in data_received
TryDecode ==
    /\ CanDecode
    /\ IF aligned /\ idx <= N /\ corrupt[1] # idx
       THEN \* the frame that really is at pos, authenticated under the current counter
            /\ delivered' = delivered + 1 /\ ctr' = ctr + 1
            /\ pos' = pos + Need /\ idx' = idx + 1
            /\ UNCHANGED <<aligned, dead>>
       ELSE \* corrupted (or misaligned) bytes never authenticate: RuntimeError, nothing delivered
            /\ dead' = TRUE /\ pos' = pos + Need /\ aligned' = FALSE
            /\ UNCHANGED <<idx, ctr, delivered>>
    /\ UNCHANGED <<sizes, corrupt, badLen, fed>>

ReadSizes == IF CutClasses THEN {x - fed : x \in {y \in Interesting \cup {Total} : y > fed}} ELSE 1..(Total - fed)
Next == TryDecode \/ \E k \in ReadSizes : Read(k)
Spec == Init /\ [][Next]_vars

\* ------------------------------------------------------------------ properties (inbound)
\* observer: the frames completely fed, up to (not including) the corrupted one
CompleteFrames == Cardinality({i \in 1..N : EndOf(i) <= fed})
Good == IF corrupt[1] = 0 THEN N ELSE corrupt[1] - 1
Expected == IF CompleteFrames <= Good THEN CompleteFrames ELSE Good
\* after each data_received call (loop finished) exactly the complete authentic frames were delivered
InboundExact == ~CanDecode => delivered = Expected
NeverEarly == delivered <= Expected
CounterIsFrameIndex == ctr = delivered
CorruptNeverDelivered == corrupt[1] # 0 => delivered < corrupt[1]
DeadOnlyByCorruption == dead => corrupt[1] # 0
\* a corrupted frame that has been read completely (together with whatever a corrupted length makes the
\* decoder wait for) ends the session
AuthFailureEndsSession ==
    (corrupt[1] # 0 /\ corrupt[2] # "len" /\ EndOf(corrupt[1]) <= fed /\ ~CanDecode) => dead
AlignedInvariant == (~dead /\ aligned) => pos = (IF idx <= N THEN StartOf(idx) ELSE Total)

\* ------------------------------------------------------------------ outbound (pure)
RECURSIVE OutFrames(_)
OutFrames(n) == IF n = 0 THEN << >> ELSE IF n <= BLOCK THEN <<n>> ELSE <<BLOCK>> \o OutFrames(n - BLOCK)
OutboundExact ==
    \A n \in OutLens :
        LET f == OutFrames(n) IN
        /\ \A i \in 1..Len(f) : f[i] >= 1 /\ f[i] <= BLOCK /\ (i < Len(f) => f[i] = BLOCK)
        /\ Len(f) = (n + BLOCK - 1) \div BLOCK
=============================================================================
