SPECIFICATION TSpec
CONSTANTS Transport = "BLE"  Deviations = {}  MaxEpoch = 1000  MaxCtr = 100000  MaxFrames = 64
CONSTRAINT TConstraint
INVARIANT NoNonceReuse
INVARIANT AcceptOnceInOrder
INVARIANT AcceptPrefix
POSTCONDITION Accepted
CHECK_DEADLOCK FALSE
