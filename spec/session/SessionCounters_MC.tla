------------------------- MODULE SessionCounters_MC -------------------------
(* TLC-only additions for bounded exploration of SessionCounters (kept apart so that the core module stays
   acceptable to Apalache). *)
EXTENDS SessionCounters
LevelBound == TLCGet("level") <= 12
=============================================================================
