SPECIFICATION Spec
CONSTANTS BLOCK = 1024  TAG = 16  LENB = 2  Sizes = {1, 2, 1023, 1024}  MaxFrames = 3  CutClasses = TRUE  OutLens = {1, 1023, 1024, 1025, 2047, 2048, 2049, 5000}
INVARIANT InboundExact
INVARIANT NeverEarly
INVARIANT CounterIsFrameIndex
INVARIANT CorruptNeverDelivered
INVARIANT DeadOnlyByCorruption
INVARIANT AuthFailureEndsSession
INVARIANT AlignedInvariant
INVARIANT OutboundExact
CHECK_DEADLOCK FALSE
