--------------------------- MODULE SessionCounters ---------------------------
(* Nonce / counter discipline of the three encrypted session layers:
     IP    - SecureHomeKitProtocol (controller/ip/connection.py): c2a / a2c counters per frame; any
             decrypt failure raises out of data_received (session torn down); time-out / cancel / error
             closes the connection;
     BLE   - EncryptionKey / DecryptionKey (controller/ble/key.py) as used by _write_pdu / _read_pdu:
             one AEAD message per fragment; a failed decrypt does not advance the counter; BlePairing
             closes the connection (drops the keys) when a request fails or is cancelled;
     COAP  - EncryptionContext (controller/coap/connection.py): send / receive counters for
             request / response and a separate event counter; the receive path contains
             *resynchronisation heuristics* which are modelled as named deviation actions and enabled by
             the constant Deviations: "rewind" (retry the last 5 receive counters), "forward" (the next 5),
             "reset" (set receive AND send counter to 0).

   An epoch is one installed session key.  The accessory's genuine messages of an epoch carry the
   counters 0, 1, 2 ... in the order it sent them; the attacker may deliver any genuine message of the
   current epoch at any time (next / replay / future), or a corrupted one. *)
EXTENDS Naturals, FiniteSets, Sequences, TLC

CONSTANTS
    \* @type: Str;
    Transport,      \* "IP" | "BLE" | "COAP"
    \* @type: Set(Str);
    Deviations,     \* subset of {"rewind", "forward", "reset"} (COAP)
    \* @type: Int;
    MaxEpoch,
    \* @type: Int;
    MaxCtr,
    \* @type: Int;
    MaxFrames

VARIABLES
    \* @type: Int;
    epoch,
    \* @type: Bool;
    open,
    \* @type: Int;
    sendCtr,
    \* @type: Int;
    recvCtr,
    \* @type: Int;
    evCtr,
    \* @type: Int;
    accSent,
    \* @type: Int;
    accEvSent,
    \* @type: Set(<<Int, Int>>);
    usedEnc,      \* history: set of <<epoch, counter>> passed to encrypt
    \* @type: Bool;
    reused,       \* history: some (epoch, counter) was encrypted twice
    \* @type: Seq(<<Int, Str, Int>>);
    accepted,     \* history: sequence of <<epoch, channel, counter>> whose plaintext was delivered
    \* @type: Str;
    lastDev       \* which deviation action the last step took ("none" otherwise)

vars == <<epoch, open, sendCtr, recvCtr, evCtr, accSent, accEvSent, usedEnc, reused, accepted, lastDev>>

Init == /\ epoch = 1 /\ open = TRUE /\ sendCtr = 0 /\ recvCtr = 0 /\ evCtr = 0 /\ accSent = 0 /\ accEvSent = 0
        /\ usedEnc = {} /\ reused = FALSE /\ accepted = << >> /\ lastDev = "none"

\* the controller encrypts a request of n frames / fragments (CoAP: always one message)
Request(n) ==
    \* (encrypting on an abandoned session is harmless - nothing is sent - and the code does it: IP encrypts
    \* before it notices that the transport is closing)
    \* On CoAP a context that shut itself down is not used again (the connection builds a new one).
    /\ n \in 1..MaxFrames /\ (Transport = "COAP" => (n = 1 /\ open)) /\ sendCtr + n <= MaxCtr
    /\ LET \* @type: Set(<<Int, Int>>);
           new == {<<epoch, sendCtr + i>> : i \in {k \in 0..(MaxFrames - 1) : k < n}} IN
       /\ reused' = (reused \/ new \cap usedEnc # {})
       /\ usedEnc' = usedEnc \cup new
    /\ sendCtr' = sendCtr + n
    /\ lastDev' = "none"
    /\ UNCHANGED <<epoch, open, recvCtr, evCtr, accSent, accEvSent, accepted>>

\* the accessory produces its next genuine message (response frame / fragment / PDU; or CoAP event)
AccProduce == /\ accSent < MaxCtr /\ accSent' = accSent + 1 /\ lastDev' = "none"
              /\ UNCHANGED <<epoch, open, sendCtr, recvCtr, evCtr, accEvSent, usedEnc, reused, accepted>>
AccProduceEvent == /\ Transport = "COAP" /\ accEvSent < MaxCtr /\ accEvSent' = accEvSent + 1 /\ lastDev' = "none"
                   /\ UNCHANGED <<epoch, open, sendCtr, recvCtr, evCtr, accSent, usedEnc, reused, accepted>>

Accept(ch, c) == accepted' = Append(accepted, <<epoch, ch, c>>)

\* a genuine message with counter c of this epoch reaches the controller's decrypt
Deliver(c) ==
    /\ open /\ c < accSent
    /\ IF c = recvCtr
       THEN /\ Accept("resp", c) /\ recvCtr' = recvCtr + 1 /\ lastDev' = "none"
            /\ UNCHANGED <<open, sendCtr, evCtr>>
       ELSE CASE Transport = "IP" ->
                   \* RuntimeError out of data_received: the transport is torn down
                   /\ open' = FALSE /\ lastDev' = "none" /\ UNCHANGED <<recvCtr, sendCtr, evCtr, accepted>>
              [] Transport = "BLE" ->
                   \* DecryptionError: counter unchanged (key level); the pairing closes the connection
                   /\ open' \in BOOLEAN /\ lastDev' = "none" /\ UNCHANGED <<recvCtr, sendCtr, evCtr, accepted>>
              [] Transport = "COAP" ->
                   IF "rewind" \in Deviations /\ c < recvCtr /\ c + 5 >= recvCtr
                   THEN /\ Accept("resp", c) /\ recvCtr' = c + 1 /\ lastDev' = "rewind"
                        /\ UNCHANGED <<open, sendCtr, evCtr>>
                   ELSE IF "forward" \in Deviations /\ c > recvCtr /\ c <= recvCtr + 5
                   THEN /\ Accept("resp", c) /\ recvCtr' = c + 1 /\ lastDev' = "forward"
                        /\ UNCHANGED <<open, sendCtr, evCtr>>
                   ELSE IF "reset" \in Deviations /\ c = 0
                   THEN /\ Accept("resp", c) /\ recvCtr' = 1 /\ sendCtr' = 0 /\ lastDev' = "reset"
                        /\ UNCHANGED <<open, evCtr>>
                   ELSE \* nothing verifies: the context shuts itself down (counters are left zeroed if the
                        \* reset attempt was made)
                        /\ open' = FALSE /\ lastDev' = "none"
                        /\ recvCtr' = (IF "reset" \in Deviations THEN 0 ELSE recvCtr)
                        /\ sendCtr' = (IF "reset" \in Deviations THEN 0 ELSE sendCtr)
                        /\ UNCHANGED <<evCtr, accepted>>
    /\ UNCHANGED <<epoch, accSent, accEvSent, usedEnc, reused>>

\* a corrupted / forged message: never verifies under any counter
DeliverCorrupt ==
    /\ open
    /\ (IF Transport = "BLE" THEN open' \in BOOLEAN ELSE open' = FALSE) /\ lastDev' = "none"
    /\ recvCtr' = (IF Transport = "COAP" /\ "reset" \in Deviations THEN 0 ELSE recvCtr)
    /\ sendCtr' = (IF Transport = "COAP" /\ "reset" \in Deviations THEN 0 ELSE sendCtr)
    /\ UNCHANGED <<epoch, evCtr, accSent, accEvSent, usedEnc, reused, accepted>>

\* CoAP event channel: no resynchronisation; a message that does not verify is answered 4.04 and ignored
DeliverEvent(c) ==
    /\ Transport = "COAP" /\ open /\ c < accEvSent
    /\ IF c = evCtr THEN Accept("event", c) /\ evCtr' = evCtr + 1 ELSE UNCHANGED <<accepted, evCtr>>
    /\ lastDev' = "none"
    /\ UNCHANGED <<epoch, open, sendCtr, recvCtr, accSent, accEvSent, usedEnc, reused>>

\* the in-flight request is cancelled or times out: the session is abandoned
Abandon == /\ open /\ open' = FALSE /\ lastDev' = "none"
           /\ UNCHANGED <<epoch, sendCtr, recvCtr, evCtr, accSent, accEvSent, usedEnc, reused, accepted>>

\* a new pair-verify installs fresh keys: all counters restart at 0
Rekey == /\ epoch < MaxEpoch
         /\ epoch' = epoch + 1 /\ open' = TRUE /\ sendCtr' = 0 /\ recvCtr' = 0 /\ evCtr' = 0 /\ accSent' = 0 /\ accEvSent' = 0
         /\ lastDev' = "none"
         /\ UNCHANGED <<usedEnc, reused, accepted>>

Next == \/ \E n \in 1..MaxFrames : Request(n)
        \/ AccProduce \/ AccProduceEvent \/ DeliverCorrupt \/ Abandon \/ Rekey
        \/ \E c \in 0..MaxCtr : Deliver(c) \/ DeliverEvent(c)
Spec == Init /\ [][Next]_vars

\* ------------------------------------------------------------------ properties (C06)
NoNonceReuse == ~reused
\* per epoch and channel the accepted counters are strictly increasing: nothing twice, nothing out of order
AcceptOnceInOrder ==
    \A i, j \in 1..Len(accepted) :
        (i < j /\ accepted[i][1] = accepted[j][1] /\ accepted[i][2] = accepted[j][2]) => accepted[i][3] < accepted[j][3]
\* IP and BLE accept exactly a prefix of what the accessory sent
AcceptPrefix ==
    Transport \in {"IP", "BLE"} =>
        \A i \in 1..Len(accepted) : accepted[i][3] = Cardinality({j \in 1..(i - 1) : accepted[j][1] = accepted[i][1]})
\* a closed epoch is never used again (action property): once open is false only Rekey changes anything
ClosedEpochUnused == [][~open => (epoch' # epoch \/ accepted' = accepted)]_vars

\* ------------------------------------------------------------------ inductive invariant (unbounded counters)
\* Checked with Apalache (spec/session/MC_SessionCountersInd.tla): IndInv holds initially and is preserved
\* by every step, for counters and epochs of ANY size, and implies NoNonceReuse and AcceptOnceInOrder.
IndInv ==
    /\ epoch >= 1 /\ sendCtr >= 0 /\ recvCtr >= 0 /\ evCtr >= 0 /\ accSent >= 0 /\ accEvSent >= 0
    /\ ~reused
    /\ \A u \in usedEnc : u[1] < epoch \/ (u[1] = epoch /\ u[2] < sendCtr)
    /\ \A i \in DOMAIN accepted :
          /\ accepted[i][1] <= epoch
          /\ (accepted[i][1] = epoch /\ accepted[i][2] = "resp") => accepted[i][3] < recvCtr
          /\ (accepted[i][1] = epoch /\ accepted[i][2] = "event") => accepted[i][3] < evCtr
          /\ \A j \in DOMAIN accepted :
                (i < j /\ accepted[i][1] = accepted[j][1] /\ accepted[i][2] = accepted[j][2]) => accepted[i][3] < accepted[j][3]
    /\ \A i \in DOMAIN accepted : \A j \in DOMAIN accepted : i < j => accepted[i][1] <= accepted[j][1]
=============================================================================
