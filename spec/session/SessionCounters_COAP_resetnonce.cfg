SPECIFICATION Spec
CONSTANTS Transport = "COAP"  Deviations = {"forward", "rewind", "reset"}  MaxEpoch = 1  MaxCtr = 8  MaxFrames = 1
INVARIANT NoNonceReuse
CHECK_DEADLOCK FALSE
