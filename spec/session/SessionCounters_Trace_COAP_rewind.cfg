SPECIFICATION TSpec
CONSTANTS Transport = "COAP"  Deviations = {"forward", "rewind"}  MaxEpoch = 1000  MaxCtr = 100000  MaxFrames = 64
CONSTRAINT TConstraint
POSTCONDITION Accepted
CHECK_DEADLOCK FALSE
