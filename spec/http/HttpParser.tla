------------------------------ MODULE HttpParser ------------------------------
(* Incremental HTTP/EVENT response parser of the IP transport:
     aiohomekit/http/response.py   HttpResponse.parse / is_read_completely
     aiohomekit/controller/ip/connection.py   InsecureHomeKitProtocol.data_received (feed loop)

   The accessory's byte stream is a sequence of *classified bytes*  <<cls, m, role, k>> :
     cls   "CR" | "LF" | "D" (hex digit of a chunk-size line) | "X" (any other byte)
     m     message the byte carries content of (0 for pure framing bytes)
     role  0 body byte, 1 status line, 1+h header line h;  for cls "D": k is the digit value
   Framing bytes carry no identity (the parser rebuilds some of them when it puts an incomplete
   chunk back); content bytes are all distinct so loss, duplication and reordering are visible.

   Messages are built from *shapes* (kind, status code, status-line length, header lines with a
   meaning CL / TE / X and a length, framing mode none / cl / chunked, body byte classes - a body
   may contain CR LF -, chunk-size lines as hex digit strings).

   Algorithm layer: one action per step of the code (feed loop, buffer append, header loop
   iteration, chunk loop iteration with put-back, counted body, completion test + leftover
   return + delivery).  A read is `Feed(n)` for ANY n, so TLC explores every segmentation.

   Observer: after `fed` bytes the delivered messages are exactly the messages whose last byte
   has index <= fed, with kind, code, headers and body as sent. *)
EXTENDS Naturals, Sequences, FiniteSets, TLC

CONSTANTS Shapes,      \* set of message shapes of the bounded model
          MaxMsgs      \* streams are sequences of 1..MaxMsgs shapes

\* ------------------------------------------------------------------ bytes and messages
CRb == <<"CR", 0, 0, 0>>
LFb == <<"LF", 0, 0, 0>>
CRLF == <<CRb, LFb>>
Dig(v) == <<"D", 0, 0, v>>

RECURSIVE Flat(_)
Flat(ss) == IF ss = << >> THEN << >> ELSE Head(ss) \o Flat(Tail(ss))

RECURSIVE HexVal(_)          \* int(line, 16) on a sequence of digit values
HexVal(ds) == IF ds = << >> THEN 0 ELSE 16 * HexVal(SubSeq(ds, 1, Len(ds) - 1)) + ds[Len(ds)]

RECURSIVE SumTo(_, _)
SumTo(f, n) == IF n = 0 THEN 0 ELSE SumTo(f, n - 1) + f[n]

StatusLine(m, sh) == [i \in 1..sh.sl |-> <<"X", m, 1, i>>]
HeaderLine(m, h, sh) == [i \in 1..sh.hdrs[h].len |-> <<"X", m, 1 + h, i>>]
BodyBytes(m, sh) == [k \in 1..Len(sh.body) |-> <<sh.body[k], m, 0, k>>]

HeadBytes(m, sh) ==
    StatusLine(m, sh) \o CRLF
      \o Flat([h \in 1..Len(sh.hdrs) |-> HeaderLine(m, h, sh) \o CRLF])
      \o CRLF

ChunkLens(sh) == [c \in 1..Len(sh.chunks) |-> HexVal(sh.chunks[c])]
ChunkOff(sh, c) == SumTo(ChunkLens(sh), c - 1)
ChunkedBody(m, sh) ==
    LET bb == BodyBytes(m, sh) IN
    Flat([c \in 1..Len(sh.chunks) |->
             [i \in 1..Len(sh.chunks[c]) |-> Dig(sh.chunks[c][i])] \o CRLF
               \o SubSeq(bb, ChunkOff(sh, c) + 1, ChunkOff(sh, c) + ChunkLens(sh)[c]) \o CRLF])
      \o <<Dig(0)>> \o CRLF \o CRLF

MsgBytes(m, sh) ==
    HeadBytes(m, sh) \o (IF sh.mode = "chunked" THEN ChunkedBody(m, sh) ELSE BodyBytes(m, sh))

\* the quantifier of the property: well-formed messages only
Sems(sh) == [h \in 1..Len(sh.hdrs) |-> sh.hdrs[h].sem]
Count(seq, x) == Cardinality({i \in 1..Len(seq) : seq[i] = x})
WellFormedShape(sh) ==
    /\ sh.kind \in {"HTTP", "EVENT"}
    /\ sh.sl >= 1
    /\ \A h \in 1..Len(sh.hdrs) : sh.hdrs[h].len >= 1 /\ sh.hdrs[h].sem \in {"CL", "TE", "X"}
    /\ \A k \in 1..Len(sh.body) : sh.body[k] \in {"X", "CR", "LF"}
    /\ CASE sh.mode = "none"    -> Count(Sems(sh), "CL") = 0 /\ Count(Sems(sh), "TE") = 0
                                   /\ sh.body = << >> /\ sh.chunks = << >>
         [] sh.mode = "cl"      -> Count(Sems(sh), "CL") = 1 /\ Count(Sems(sh), "TE") = 0 /\ sh.chunks = << >>
         [] sh.mode = "chunked" -> /\ Count(Sems(sh), "CL") = 0 /\ Count(Sems(sh), "TE") = 1
                                   /\ \A c \in 1..Len(sh.chunks) :
                                         /\ Len(sh.chunks[c]) >= 1
                                         /\ \A i \in 1..Len(sh.chunks[c]) : sh.chunks[c][i] \in 0..15
                                         /\ HexVal(sh.chunks[c]) >= 1
                                   /\ SumTo(ChunkLens(sh), Len(sh.chunks)) = Len(sh.body)
         [] OTHER -> FALSE

StreamOf(ms) == Flat([m \in 1..Len(ms) |-> MsgBytes(m, ms[m])])
EndsOf(ms) == LET lens == [m \in 1..Len(ms) |-> Len(MsgBytes(m, ms[m]))]
              IN [m \in 1..Len(ms) |-> SumTo(lens, m)]

RECURSIVE SeqsUpTo(_, _)
SeqsUpTo(S, n) == IF n = 0 THEN {<< >>}
                  ELSE LET P == SeqsUpTo(S, n - 1)
                       IN P \cup {Append(p, s) : p \in {q \in P : Len(q) = n - 1}, s \in S}
Streams == {ms \in SeqsUpTo(Shapes, MaxMsgs) : Len(ms) >= 1}

\* ------------------------------------------------------------------ observer
\* what was sent, as the parser's output vocabulary
Sent(ms, k) == [kind |-> ms[k].kind, code |-> ms[k].code,
                hdrs |-> [h \in 1..Len(ms[k].hdrs) |-> <<k, h>>],
                body |-> BodyBytes(k, ms[k])]
NComplete(es, f) == Cardinality({k \in 1..Len(es) : es[k] <= f})
Expected(ms, es, f) == [k \in 1..NComplete(es, f) |-> Sent(ms, k)]

\* ------------------------------------------------------------------ the parser (algorithm layer)
VARIABLES msgs, stream, ends,      \* the experiment: shapes, their bytes, last-byte index of every message
          fed,                     \* bytes handed to data_received so far
          pc,                      \* idle | loop | parse | hdr | chunk | counted | ret | error
          data,                    \* data_received's local `data` (the read, later the leftover)
          raw,                     \* HttpResponse._raw_response
          st,                      \* _state: pre | hdr | body | done
          chunked,                 \* _is_chunked
          cl, hascl,               \* _content_length: hascl = FALSE models the initial -1, else the value is cl
          skind, scode, hdrs, body,\* version/code/headers/body of current_response
          delivered,               \* completed messages in delivery order
          consumed                 \* history: bytes removed from the buffers for good
vars == <<msgs, stream, ends, fed, pc, data, raw, st, chunked, cl, hascl, skind, scode, hdrs, body,
          delivered, consumed>>
exper == <<msgs, stream, ends>>
resp == <<st, chunked, cl, hascl, skind, scode, hdrs, body>>

FreshResp == /\ st = "pre" /\ chunked = FALSE /\ cl = 0 /\ hascl = FALSE
             /\ skind = "" /\ scode = 0 /\ hdrs = << >> /\ body = << >>

InitWith(ms) ==
    /\ msgs = ms /\ stream = StreamOf(ms) /\ ends = EndsOf(ms)
    /\ fed = 0 /\ pc = "idle" /\ data = << >> /\ raw = << >>
    /\ FreshResp
    /\ delivered = << >> /\ consumed = 0

Init == \E ms \in Streams : InitWith(ms)

\* bytes.find(b"\r\n") + 1  (0 = not found)
FindCRLF(s) ==
    IF \E i \in 1..(Len(s) - 1) : s[i][1] = "CR" /\ s[i + 1][1] = "LF"
    THEN CHOOSE i \in 1..(Len(s) - 1) :
            /\ s[i][1] = "CR" /\ s[i + 1][1] = "LF"
            /\ \A j \in 1..(i - 1) : ~(s[j][1] = "CR" /\ s[j + 1][1] = "LF")
    ELSE 0

\* what a line means to the parser -----------------------------------------------------
\* a status line is recognised iff it is, byte for byte, the status line of some message
IsStatusLine(line) ==
    /\ Len(line) >= 1
    /\ line[1][1] = "X" /\ line[1][3] = 1
    /\ line[1][2] \in 1..Len(msgs)
    /\ line = StatusLine(line[1][2], msgs[line[1][2]])
\* a header line is recognised iff it is, byte for byte, header line h of some message
IsHeaderLine(line) ==
    /\ Len(line) >= 1
    /\ line[1][1] = "X" /\ line[1][3] >= 2
    /\ line[1][2] \in 1..Len(msgs)
    /\ (line[1][3] - 1) \in 1..Len(msgs[line[1][2]].hdrs)
    /\ line = HeaderLine(line[1][2], line[1][3] - 1, msgs[line[1][2]])
IsSizeLine(line) == Len(line) >= 1 /\ \A i \in 1..Len(line) : line[i][1] = "D"
SizeOf(line) == HexVal([i \in 1..Len(line) |-> line[i][4]])

\* ---- InsecureHomeKitProtocol.data_received(data): one socket read of n bytes
Feed(n) ==
    /\ pc = "idle"
    /\ n \in 1..(Len(stream) - fed)
    /\ data' = SubSeq(stream, fed + 1, fed + n)
    /\ fed' = fed + n
    /\ pc' = "loop"
    /\ UNCHANGED <<exper, raw, resp, delivered, consumed>>

\* ---- `while data:`
LoopTest ==
    /\ pc = "loop"
    /\ pc' = IF data # << >> THEN "parse" ELSE "idle"
    /\ UNCHANGED <<exper, fed, data, raw, resp, delivered, consumed>>

\* ---- parse(): `self._raw_response += part`
ParseAppend ==
    /\ pc = "parse"
    /\ raw' = raw \o data
    /\ pc' = "hdr"
    /\ UNCHANGED <<exper, fed, data, resp, delivered, consumed>>

\* ---- one iteration of `while pos != -1 and self._state < STATE_BODY`
HeaderLoopGuard == st \in {"pre", "hdr"} /\ FindCRLF(raw) # 0
HeaderLoopStep ==
    /\ pc = "hdr" /\ HeaderLoopGuard
    /\ LET pos == FindCRLF(raw)
           line == SubSeq(raw, 1, pos - 1)
       IN /\ raw' = SubSeq(raw, pos + 2, Len(raw))
          /\ consumed' = consumed + pos + 1
          /\ IF st = "pre"
             THEN IF IsStatusLine(line)
                  THEN /\ skind' = msgs[line[1][2]].kind /\ scode' = msgs[line[1][2]].code
                       /\ st' = "hdr" /\ pc' = pc
                       /\ UNCHANGED <<chunked, cl, hascl, hdrs, body>>
                  ELSE /\ pc' = "error" /\ UNCHANGED resp          \* HttpException / ValueError
             ELSE IF line = << >>
                  THEN /\ st' = "body" /\ pc' = pc
                       /\ UNCHANGED <<chunked, cl, hascl, skind, scode, hdrs, body>>
                  ELSE IF IsHeaderLine(line)
                       THEN LET m == line[1][2]
                                h == line[1][3] - 1
                                sem == msgs[m].hdrs[h].sem
                            IN /\ chunked' = (chunked \/ sem = "TE")
                               /\ hascl' = (hascl \/ sem = "CL")
                               /\ cl' = IF sem = "CL" THEN Len(msgs[m].body) ELSE cl
                               /\ hdrs' = Append(hdrs, <<m, h>>)
                               /\ pc' = pc
                               /\ UNCHANGED <<st, skind, scode, body>>
                       ELSE /\ pc' = "error" /\ UNCHANGED resp      \* IndexError on a line without ':'
    /\ UNCHANGED <<exper, fed, data, delivered>>

HeaderLoopExit ==
    /\ pc = "hdr" /\ ~HeaderLoopGuard
    /\ pc' = "chunk"
    /\ UNCHANGED <<exper, fed, data, raw, resp, delivered, consumed>>

\* ---- `if self._state == STATE_BODY and self._is_chunked:` one iteration of `while pos > -1`
ChunkLoopGuard == st = "body" /\ chunked /\ FindCRLF(raw) # 0
ChunkLoopStep ==
    /\ pc = "chunk" /\ ChunkLoopGuard
    /\ LET pos == FindCRLF(raw)
           line == SubSeq(raw, 1, pos - 1)
           rest == SubSeq(raw, pos + 2, Len(raw))
       IN IF ~IsSizeLine(line)
          THEN /\ pc' = "error" /\ UNCHANGED <<raw, st, body, consumed>>        \* int(line, 16) raises
          ELSE LET n == SizeOf(line) IN
               IF n + 2 > Len(rest)
               THEN \* put the size line back and wait for another call
                    /\ raw' = line \o CRLF \o rest
                    /\ pc' = "counted"
                    /\ UNCHANGED <<st, body, consumed>>
               ELSE IF n = 0
               THEN /\ st' = "done"
                    /\ raw' = SubSeq(rest, 3, Len(rest))
                    /\ consumed' = consumed + pos + 1 + 2
                    /\ pc' = "counted"
                    /\ UNCHANGED body
               ELSE /\ body' = body \o SubSeq(rest, 1, n)
                    /\ raw' = SubSeq(rest, n + 3, Len(rest))
                    /\ consumed' = consumed + pos + 1 + n + 2
                    /\ pc' = pc
                    /\ UNCHANGED st
    /\ UNCHANGED <<exper, fed, data, chunked, cl, hascl, skind, scode, hdrs, delivered>>

ChunkLoopExit ==
    /\ pc = "chunk" /\ ~ChunkLoopGuard
    /\ pc' = "counted"
    /\ UNCHANGED <<exper, fed, data, raw, resp, delivered, consumed>>

\* ---- `if self._state == STATE_BODY and self._content_length > 0:`
CountedBody ==
    /\ pc = "counted"
    /\ IF st = "body" /\ hascl /\ cl > 0
       THEN LET remaining == cl - Len(body)        \* never negative: the body only grows here
                take == IF remaining <= Len(raw) THEN remaining ELSE Len(raw)
            IN /\ body' = body \o SubSeq(raw, 1, take)
               /\ raw' = SubSeq(raw, take + 1, Len(raw))
               /\ consumed' = consumed + take
       ELSE UNCHANGED <<body, raw, consumed>>
    /\ pc' = "ret"
    /\ UNCHANGED <<exper, fed, data, st, chunked, cl, hascl, skind, scode, hdrs, delivered>>

\* is_read_completely()
Complete ==
    IF chunked THEN st = "done"
    ELSE IF st \in {"pre", "hdr"} THEN FALSE
    ELSE IF hascl THEN Len(body) = cl
    ELSE TRUE

\* ---- parse() returns the leftover (or nothing); the feed loop delivers a complete message
\*      (HTTP -> result_cbs.pop(0), EVENT -> connection.event_received) and starts a fresh one
ReturnAndDeliver ==
    /\ pc = "ret"
    /\ IF Complete
       THEN /\ data' = raw
            /\ delivered' = Append(delivered, [kind |-> skind, code |-> scode, hdrs |-> hdrs, body |-> body])
            /\ raw' = << >>
            /\ st' = "pre" /\ chunked' = FALSE /\ cl' = 0 /\ hascl' = FALSE
            /\ skind' = "" /\ scode' = 0 /\ hdrs' = << >> /\ body' = << >>
       ELSE /\ data' = << >>
            /\ UNCHANGED <<raw, resp, delivered>>
    /\ pc' = "loop"
    /\ UNCHANGED <<exper, fed, consumed>>

ParserStep == \/ LoopTest \/ ParseAppend \/ HeaderLoopStep \/ HeaderLoopExit
              \/ ChunkLoopStep \/ ChunkLoopExit \/ CountedBody \/ ReturnAndDeliver
Next == (\E n \in 1..Len(stream) : Feed(n)) \/ ParserStep
Spec == Init /\ [][Next]_vars

\* ------------------------------------------------------------------ properties
\* C07: whenever data_received has returned, exactly the messages whose last byte was fed have
\* been delivered, as sent, in order - for every way of cutting the stream into reads
SegmentationInvariant == pc = "idle" => delivered = Expected(msgs, ends, fed)

\* never early, never altered - in every intermediate state too
NeverEarly ==
    /\ Len(delivered) <= NComplete(ends, fed)
    /\ \A k \in 1..Len(delivered) : delivered[k] = Sent(msgs, k)

\* bytes that follow a complete message are carried over: nothing lost, nothing duplicated
NoLossNoDup ==
    pc = "idle" => /\ consumed + Len(raw) = fed
                   /\ raw = SubSeq(stream, consumed + 1, fed)

\* a well-formed stream never drives the parser into an exception
NoParserError == pc # "error"

\* at the end of the stream the parser is back in its initial state
CleanAtEnd == (pc = "idle" /\ fed = Len(stream)) => (raw = << >> /\ FreshResp)
=============================================================================
