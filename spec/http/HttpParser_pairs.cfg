SPECIFICATION Spec
CONSTANTS Shapes <- ShapesPairs  MaxMsgs = 2
INVARIANT SegmentationInvariant
INVARIANT NeverEarly
INVARIANT NoLossNoDup
INVARIANT NoParserError
INVARIANT CleanAtEnd
CHECK_DEADLOCK FALSE
POSTCONDITION ExportCases
