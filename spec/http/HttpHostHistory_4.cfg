SPECIFICATION HSpec
CONSTANTS BLOCK = 1024  TAG = 16  LENB = 2  MaxConnects = 4  HHosts <- HHostsReal
INVARIANT HostIsCurrent
INVARIANT HostLineMatchesPeer
INVARIANT CanonicalForm
INVARIANT HeaderDiscipline
INVARIANT SingleCall
POSTCONDITION ExportHistories
CHECK_DEADLOCK FALSE
