-------------------------- MODULE HttpRequestFormat --------------------------
(* Outbound HTTP requests of the IP transport:
     aiohomekit/controller/ip/connection.py   HomeKitConnection.request/get/put/post/put_json/
                                               post_json/post_tlv, host_header construction,
                                               Insecure/SecureHomeKitProtocol.send_bytes/_send_lines
     aiohomekit/hkjson.py                     dump_bytes (compact JSON)
     aiohomekit/controller/ip/pairing.py      characteristics URL and payload shapes

   Two layers.
   * The declarative canonical form (what an iPhone sends, README "Contributing"):
     request line, Host header (IPv6 literal bracketed, scope id kept, no port), then - iff
     there is a body - Content-Length and Content-Type in that order, every line ended by CR LF,
     an empty line, the body; JSON bodies are the token sequence of the value with nothing in
     between (Compact); read targets are /characteristics?id= aid.iid joined by commas.
   * The algorithm of request(): build the list of lines, join with CR LF, append the body, hand
     the whole request to the transport in ONE call (plain: one buffer; secure session: the
     complete list of length-prefixed encrypted frames of <= BLOCK plaintext bytes).
   Bytes are TLC strings, one character per byte (the harness maps byte b to U+00b). *)
EXTENDS Integers, Sequences, FiniteSets, TLC

CONSTANTS BLOCK,      \* plaintext bytes per encrypted frame (1024)
          TAG,        \* authentication tag bytes per frame (16)
          LENB        \* length prefix bytes per frame (2)

CRLF == "\r\n"

\* (balanced recursion: token sequences of deeply nested values are thousands of tokens long)
RECURSIVE JoinStr(_, _)
JoinStr(ss, sep) == IF Len(ss) = 0 THEN ""
                    ELSE IF Len(ss) = 1 THEN ss[1]
                    ELSE LET m == Len(ss) \div 2
                         IN JoinStr(SubSeq(ss, 1, m), sep) \o sep \o JoinStr(SubSeq(ss, m + 1, Len(ss)), sep)
Concat(ss) == JoinStr(ss, "")

RECURSIVE FlatSeq(_)
FlatSeq(ss) == IF Len(ss) = 0 THEN << >>
               ELSE IF Len(ss) = 1 THEN ss[1]
               ELSE LET m == Len(ss) \div 2
                    IN FlatSeq(SubSeq(ss, 1, m)) \o FlatSeq(SubSeq(ss, m + 1, Len(ss)))
RECURSIVE JoinTok(_, _)     \* sequences of tokens joined by a separator token
JoinTok(ss, sep) == IF Len(ss) = 0 THEN << >>
                    ELSE IF Len(ss) = 1 THEN ss[1]
                    ELSE LET m == Len(ss) \div 2
                         IN JoinTok(SubSeq(ss, 1, m), sep) \o <<sep>> \o JoinTok(SubSeq(ss, m + 1, Len(ss)), sep)
RECURSIVE SumSeq(_)
SumSeq(s) == IF Len(s) = 0 THEN 0
             ELSE IF Len(s) = 1 THEN s[1]
             ELSE LET m == Len(s) \div 2 IN SumSeq(SubSeq(s, 1, m)) + SumSeq(SubSeq(s, m + 1, Len(s)))

\* ------------------------------------------------------------------ JSON values and Compact
\* tagged JSON universe; scalars carry their literal text, object keys their quoted text
Lit(s)  == [t |-> "lit", s |-> s]
Arr(vs) == [t |-> "arr", v |-> vs]
Obj(kv) == [t |-> "obj", v |-> kv]            \* kv: sequence of <<quoted key, value>>
Quoted(s) == "\"" \o s \o "\""
JStr(s)  == Lit(Quoted(s))                     \* plain strings (nothing to escape)
JInt(n)  == Lit(ToString(n))
JBool(b) == Lit(IF b THEN "true" ELSE "false")
JNull    == Lit("null")

Punct == {"[", "]", "{", "}", ",", ":"}

\* (a value may also be given flat, as its token sequence [t |-> "toks", v |-> <<tokens>>]: used by
\*  the trace module for values nested too deeply to be shipped as a tree)
RECURSIVE Tokens(_)
Tokens(v) ==
    CASE v.t = "lit" -> <<v.s>>
      [] v.t = "toks" -> v.v
      [] v.t = "arr" -> <<"[">> \o JoinTok([i \in 1..Len(v.v) |-> Tokens(v.v[i])], ",") \o <<"]">>
      [] v.t = "obj" -> <<"{">> \o JoinTok([i \in 1..Len(v.v) |-> <<v.v[i][1], ":">> \o Tokens(v.v[i][2])], ",")
                           \o <<"}">>
\* compact encoding: the tokens and nothing else (no insignificant white space, no line breaks)
Compact(v) == Concat(Tokens(v))

RECURSIVE Leaves(_)
Leaves(v) ==
    CASE v.t = "lit" -> {v.s}
      [] v.t = "toks" -> {v.v[i] : i \in 1..Len(v.v)} \ Punct
      [] v.t = "arr" -> UNION {Leaves(v.v[i]) : i \in 1..Len(v.v)}
      [] v.t = "obj" -> UNION {{v.v[i][1]} \cup Leaves(v.v[i][2]) : i \in 1..Len(v.v)}

\* same JSON value: arrays in order, objects as unordered maps (the statement fixes no key order)
RECURSIVE JsonEquiv(_, _)
JsonEquiv(a, b) ==
    /\ a.t = b.t
    /\ CASE a.t = "lit" -> a.s = b.s
         [] a.t = "arr" -> /\ Len(a.v) = Len(b.v)
                           /\ \A i \in 1..Len(a.v) : JsonEquiv(a.v[i], b.v[i])
         [] a.t = "obj" -> /\ Len(a.v) = Len(b.v)
                           /\ \A i, j \in 1..Len(a.v) : a.v[i][1] = a.v[j][1] => i = j
                           /\ \A i \in 1..Len(a.v) : \E j \in 1..Len(b.v) :
                                   a.v[i][1] = b.v[j][1] /\ JsonEquiv(a.v[i][2], b.v[j][2])

\* ------------------------------------------------------------------ canonical request
\* host: [text |-> "fe80::1%eth0", v6 |-> TRUE]   (v6: the literal contains ':')
HostHeader(h) == "Host: " \o (IF h.v6 THEN "[" \o h.text \o "]" ELSE h.text)
RequestLine(method, target) == method \o " " \o target \o " HTTP/1.1"

\* r: [api, method, target, host, ctype, bkind, text, len, json]
\*    bkind "none" | "text" (bytes given as string) | "opaque" (only the length is known) | "json"
BodyText(r) == CASE r.bkind = "json" -> Compact(r.json)
                 [] r.bkind = "text" -> r.text
                 [] OTHER -> ""
BodyLen(r) == CASE r.bkind = "json"   -> Len(Compact(r.json))
                [] r.bkind = "text"   -> Len(r.text)
                [] r.bkind = "opaque" -> r.len
                [] OTHER -> 0

CanonHead(r, withBody) ==
    RequestLine(r.method, r.target) \o CRLF
      \o HostHeader(r.host) \o CRLF
      \o (IF withBody THEN "Content-Length: " \o ToString(BodyLen(r)) \o CRLF
                           \o "Content-Type: " \o r.ctype \o CRLF
                      ELSE "")
      \o CRLF

\* "only when there is a body": a non-empty body needs both headers, no body argument forbids
\* them; for an explicitly given EMPTY body the statement leaves both forms open
PermittedHeads(r) ==
    IF BodyLen(r) > 0 THEN {CanonHead(r, TRUE)}
    ELSE IF r.bkind = "none" THEN {CanonHead(r, FALSE)}
    ELSE {CanonHead(r, TRUE), CanonHead(r, FALSE)}

\* ------------------------------------------------------------------ single transport call
\* lengths of the buffers handed over in the one call
RECURSIVE FrameLens(_)
FrameLens(n) == IF n <= 0 THEN << >>
                ELSE IF n <= BLOCK THEN <<LENB, n + TAG>>
                ELSE <<LENB, BLOCK + TAG>> \o FrameLens(n - BLOCK)
CallPayload(n, secure) == IF secure THEN FrameLens(n) ELSE <<n>>
WireLen(n, secure) == SumSeq(CallPayload(n, secure))

\* ------------------------------------------------------------------ pairing API -> requests
ReadTarget(order) ==
    "/characteristics?id=" \o JoinStr([i \in 1..Len(order) |-> ToString(order[i][1]) \o "." \o ToString(order[i][2])], ",")

RECURSIVE PermsOf(_)
PermsOf(S) == IF S = {} THEN {<< >>} ELSE UNION {{<<x>> \o p : p \in PermsOf(S \ {x})} : x \in S}
ReadTargets(ids) == {ReadTarget(o) : o \in PermsOf(ids)}

RangeOf(s) == {s[i] : i \in 1..Len(s)}
\* witness form: `order` (as read off the observed target) must enumerate exactly the requested ids
ReadTargetOk(target, ids, order) ==
    /\ target = ReadTarget(order)
    /\ RangeOf(order) = ids
    /\ Len(order) = Cardinality(ids)

CharsPayload(entries) == Obj(<< <<Quoted("characteristics"), Arr(entries)>> >>)
WriteEntry(w) == Obj(<< <<Quoted("aid"), JInt(w[1])>>, <<Quoted("iid"), JInt(w[2])>>, <<Quoted("value"), w[3]>> >>)
EvEntry(id, on) == Obj(<< <<Quoted("aid"), JInt(id[1])>>, <<Quoted("iid"), JInt(id[2])>>, <<Quoted("ev"), JBool(on)>> >>)
ImagePayload(aid, w, h) == Obj(<< <<Quoted("aid"), JInt(aid)>>, <<Quoted("resource-type"), JStr("image")>>,
                                  <<Quoted("image-width"), JInt(w)>>, <<Quoted("image-height"), JInt(h)>> >>)

IsCharsPayload(tree) == /\ tree.t = "obj" /\ Len(tree.v) = 1
                        /\ tree.v[1][1] = Quoted("characteristics") /\ tree.v[1][2].t = "arr"
CharsOf(tree) == tree.v[1][2].v

\* ------------------------------------------------------------------ request() as a state machine
VARIABLES req, secure, pc, lines, head, calls
vars == <<req, secure, pc, lines, head, calls>>

NoReq == [api |-> "", method |-> "", target |-> "", host |-> [text |-> "", v6 |-> FALSE], ctype |-> "",
          bkind |-> "none", text |-> "", len |-> 0, json |-> JNull]

InitWith(r, s) == /\ req = r /\ secure = s /\ pc = "lines" /\ lines = << >> /\ head = "" /\ calls = << >>

\* put()/post() always pass the two headers (with the length of the body argument);
\* get()/request() without headers pass none
HeaderArgs(r) == IF r.api \in {"put", "post"}
                 THEN <<"Content-Length: " \o ToString(BodyLen(r)), "Content-Type: " \o r.ctype>>
                 ELSE << >>

\* buffer = [request line, host header] + headers + ["", ""]
BuildLines ==
    /\ pc = "lines"
    /\ lines' = <<RequestLine(req.method, req.target), HostHeader(req.host)>> \o HeaderArgs(req) \o <<"", "">>
    /\ pc' = "join"
    /\ UNCHANGED <<req, secure, head, calls>>

\* request_bytes = "\r\n".join(buffer) (+ body)
JoinLines ==
    /\ pc = "join"
    /\ head' = JoinStr(lines, CRLF)
    /\ pc' = "send"
    /\ UNCHANGED <<req, secure, lines, calls>>

\* protocol.send_bytes(request_bytes): one transport.writelines call
Send ==
    /\ pc = "send"
    /\ calls' = Append(calls, CallPayload(Len(head) + BodyLen(req), secure))
    /\ pc' = "sent"
    /\ UNCHANGED <<req, secure, lines, head>>

Next == BuildLines \/ JoinLines \/ Send

\* ------------------------------------------------------------------ properties
CanonicalForm == pc \in {"send", "sent"} => head \in PermittedHeads(req)

HeaderDiscipline ==
    pc \in {"join", "send", "sent"} =>
        /\ lines[1] = RequestLine(req.method, req.target)
        /\ lines[2] = HostHeader(req.host)
        /\ lines[Len(lines)] = "" /\ lines[Len(lines) - 1] = ""
        /\ \/ Len(lines) = 4
           \/ /\ Len(lines) = 6 /\ req.bkind # "none"
              /\ lines[3] = "Content-Length: " \o ToString(BodyLen(req))
              /\ lines[4] = "Content-Type: " \o req.ctype
        /\ BodyLen(req) > 0 => Len(lines) = 6

SingleCall ==
    /\ Len(calls) <= 1
    /\ pc = "sent" => /\ Len(calls) = 1
                      /\ SumSeq(calls[1]) = WireLen(Len(head) + BodyLen(req), secure)
                      /\ ~secure => calls[1] = <<Len(head) + BodyLen(req)>>
                      /\ secure => /\ Len(calls[1]) = 2 * ((Len(head) + BodyLen(req) + BLOCK - 1) \div BLOCK)
                                   /\ \A i \in 1..Len(calls[1]) :
                                         IF i % 2 = 1 THEN calls[1][i] = LENB
                                         ELSE calls[1][i] <= BLOCK + TAG /\ calls[1][i] > TAG

CompactNoWhitespace ==
    req.bkind = "json" =>
        /\ \A i \in 1..Len(Tokens(req.json)) : Tokens(req.json)[i] \in Punct \cup Leaves(req.json)
        /\ BodyText(req) = Concat(Tokens(req.json))
=============================================================================
