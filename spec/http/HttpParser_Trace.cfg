SPECIFICATION TSpec
CONSTANTS Shapes = {}  MaxMsgs = 0
INVARIANT RecordConsistent
INVARIANT DeliveriesConform
INVARIANT SegmentationInvariant
INVARIANT NeverEarly
INVARIANT NoLossNoDup
INVARIANT NoParserError
INVARIANT CleanAtEnd
CHECK_DEADLOCK FALSE
