SPECIFICATION Spec
CONSTANTS BLOCK = 1024  TAG = 16  LENB = 2  ReqSpace <- ReqSpaceReal
INVARIANT CanonicalForm
INVARIANT HeaderDiscipline
INVARIANT SingleCall
INVARIANT CompactNoWhitespace
POSTCONDITION ExportCases
CHECK_DEADLOCK FALSE
