SPECIFICATION Spec
CONSTANTS BLOCK = 8  TAG = 3  LENB = 2  ReqSpace <- ReqSpaceTiny
INVARIANT CanonicalForm
INVARIANT HeaderDiscipline
INVARIANT SingleCall
INVARIANT CompactNoWhitespace
CHECK_DEADLOCK FALSE
