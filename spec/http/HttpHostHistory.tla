--------------------------- MODULE HttpHostHistory ---------------------------
(* The Host header over the life of ONE connection object (HomeKitConnection): the object
   connects, serves requests, loses the socket, reconnects by itself - possibly to ANOTHER of the
   advertised addresses (address change, next address after a failure, other address family) -
   and serves requests again.  _connect_once() stores the Host line of the host it reached;
   request() writes the stored line.  Property: every request names the host of the connection
   it is written on (HttpRequestFormat.HostHeader of the CURRENT peer: IPv6 literal bracketed,
   scope id kept, no port), whatever was connected before.

   The request itself is the request() machine of HttpRequestFormat (BuildLines with the stored
   Host line, JoinLines, Send). *)
EXTENDS HttpRequestFormat, Json, IOUtils, SequencesExt

CONSTANTS HHosts,        \* host records [text, v6]
          MaxConnects    \* connections per history

NoHost == [text |-> "", v6 |-> FALSE]
\* instantiation used by the cfg files: two IPv4, a global and a scoped link-local IPv6 address
HHostsReal == {[text |-> "10.0.0.1", v6 |-> FALSE], [text |-> "192.168.178.214", v6 |-> FALSE],
               [text |-> "2001:db8::7", v6 |-> TRUE], [text |-> "fe80::aede:48ff:fe00:1122%eth0", v6 |-> TRUE]}

VARIABLES peer,      \* host of the open socket, NoHost when disconnected
          hostLine,  \* HomeKitConnection.host_header as stored by the last _connect_once()
          route,     \* history: hosts reached so far, in order
          sent       \* history: [at |-> index into route, head |-> bytes before the body] per request
hvars == <<vars, peer, hostLine, route, sent>>

GetReq(h) == [api |-> "get", method |-> "GET", target |-> "/accessories", host |-> h, ctype |-> "",
              bkind |-> "none", text |-> "", len |-> 0, json |-> JNull]

HInit == /\ req = NoReq /\ secure \in BOOLEAN /\ pc = "idle" /\ lines = << >> /\ head = "" /\ calls = << >>
         /\ peer = NoHost /\ hostLine = "" /\ route = << >> /\ sent = << >>

\* _connect_once(): socket to h, host_header := Host line of h
Connect(h) ==
    /\ pc = "idle" /\ peer = NoHost /\ Len(route) < MaxConnects
    /\ peer' = h /\ hostLine' = HostHeader(h) /\ route' = Append(route, h)
    /\ UNCHANGED <<vars, sent>>

\* the socket is lost (the stored line is not touched)
Lose ==
    /\ pc = "idle" /\ peer # NoHost
    /\ peer' = NoHost
    /\ UNCHANGED <<vars, hostLine, route, sent>>

\* request(): at most one per connection in the bounded model
StartRequest ==
    /\ pc = "idle" /\ peer # NoHost
    /\ IF Len(sent) = 0 THEN TRUE ELSE sent[Len(sent)].at < Len(route)
    /\ req' = GetReq(peer) /\ pc' = "lines"
    /\ UNCHANGED <<secure, lines, head, calls, peer, hostLine, route, sent>>

\* buffer = [request line, self.host_header] + headers + ["", ""]
HBuildLines ==
    /\ pc = "lines"
    /\ lines' = <<RequestLine(req.method, req.target), hostLine>> \o HeaderArgs(req) \o <<"", "">>
    /\ pc' = "join"
    /\ UNCHANGED <<req, secure, head, calls, peer, hostLine, route, sent>>

Finish ==
    /\ pc = "sent"
    /\ sent' = Append(sent, [at |-> Len(route), head |-> head])
    /\ pc' = "idle" /\ calls' = << >> /\ lines' = << >> /\ head' = "" /\ req' = NoReq
    /\ UNCHANGED <<secure, peer, hostLine, route>>

HNext == \/ \E h \in HHosts : Connect(h)
         \/ Lose \/ StartRequest \/ HBuildLines \/ Finish
         \/ ((JoinLines \/ Send) /\ UNCHANGED <<peer, hostLine, route, sent>>)
HSpec == HInit /\ [][HNext]_hvars

\* every request written names the host of the connection it was written on
HostIsCurrent ==
    \A i \in 1..Len(sent) : sent[i].head = CanonHead(GetReq(route[sent[i].at]), FALSE)
HostLineMatchesPeer == peer # NoHost => hostLine = HostHeader(peer)

\* ---- export: every route of 2..MaxConnects hosts, with the request written on every connection or
\*      on every connection but the first, and the head the specification prescribes for each
RECURSIVE Routes(_)
Routes(n) == IF n = 0 THEN {<< >>}
             ELSE LET P == Routes(n - 1) IN P \cup {Append(p, h) : p \in {q \in P : Len(q) = n - 1}, h \in HHosts}
ExportHistories ==
    /\ TLCGet("stats").generated >= 0
    /\ ndJsonSerialize(IOEnv.HIST_OUT,
          SetToSeq({ [route |-> r,
                      mask  |-> [i \in 1..Len(r) |-> (i > 1 \/ first)],
                      heads |-> [i \in 1..Len(r) |-> CanonHead(GetReq(r[i]), FALSE)]]
                     : r \in {x \in Routes(MaxConnects) : Len(x) >= 2}, first \in BOOLEAN }))
=============================================================================
