------------------------ MODULE HttpRequestFormat_Trace ------------------------
(* Code -> spec: requests observed at the accessory end of real sessions (after decryption on
   secure sessions) and the transport calls that carried them are validated against
   HttpRequestFormat.  One record = one call made by the harness (a HomeKitConnection method or
   a pairing-API method, or the pair-verify the library performs on its own) with
     call    what was called (api, arguments)
     secure  whether the session was encrypted;  host: the connected host
     reqs    the requests the accessory received during the call, each with
               raw     the exact request bytes (one character per byte)
               text    the body bytes;  json: the body as a token tree read by an independent
                       JSON tokenizer (literals verbatim);  order: the ids read off a read target
               tcalls  the buffer lengths of every transport.write/writelines call made for it
   For every request the specification's request() machine is run on the request the call must
   produce (method / target / content type from the table below, body as observed) and its
   output is compared with the observation; per call the payload content is compared with what
   was asked (objects as unordered maps). *)
EXTENDS HttpRequestFormat, Json, IOUtils

Recs == ndJsonDeserialize(IOEnv.TRACE_FILE)

JSONT == "application/hap+json"
TLVT  == "application/pairing+tlv8"

VARIABLES tid, k
tvars == <<vars, tid, k>>

Call(t) == Recs[t].call
Obs(t, i) == Recs[t].reqs[i]

ReadApis == {"get_characteristics", "list_accessories"}
CharPutApis == {"put_characteristics", "subscribe", "unsubscribe", "identify"}
TlvApis == {"list_pairings", "add_pairing", "remove_pairing", "pair_verify"}

ApiMethod(c) == CASE c.api \in ReadApis -> "GET"
                  [] c.api \in CharPutApis -> "PUT"
                  [] c.api \in TlvApis \cup {"image"} -> "POST"
                  [] c.api = "conn" -> c.method
ApiTarget(c, o) == CASE c.api = "get_characteristics" -> ReadTarget(o.order)
                     [] c.api = "list_accessories" -> "/accessories"
                     [] c.api \in CharPutApis -> "/characteristics"
                     [] c.api = "image" -> "/resource"
                     [] c.api = "pair_verify" -> "/pair-verify"
                     [] c.api \in TlvApis -> "/pairings"
                     [] c.api = "conn" -> c.target
ApiCtype(c) == CASE c.api \in ReadApis -> ""
                 [] c.api \in CharPutApis \cup {"image"} -> JSONT
                 [] c.api \in TlvApis -> TLVT
                 [] c.api = "conn" -> c.ctype
ApiBodyKind(c) == CASE c.api \in ReadApis -> "none"
                    [] c.api \in CharPutApis \cup {"image"} -> "json"
                    [] c.api \in TlvApis -> "text"
                    [] c.api = "conn" -> c.bkind

\* the request the call must produce, with the body as observed
ExpectedReq(t, i) ==
    LET c == Call(t)
        o == Obs(t, i)
        m == ApiMethod(c)
    IN [api |-> IF ApiBodyKind(c) = "none" THEN "get" ELSE IF m = "PUT" THEN "put" ELSE "post",
        method |-> m, target |-> ApiTarget(c, o), host |-> Recs[t].host, ctype |-> ApiCtype(c),
        bkind |-> ApiBodyKind(c), text |-> o.text, len |-> 0, json |-> o.json]

TInit == /\ tid \in 1..Len(Recs)
         /\ k \in 1..Len(Recs[tid].reqs)
         /\ InitWith(ExpectedReq(tid, k), Recs[tid].secure)
TNext == Next /\ UNCHANGED <<tid, k>>
TSpec == TInit /\ [][TNext]_tvars

\* ---- per request
\* byte-for-byte: the observed request is a permitted head followed by the body, and (whenever
\* the form is unique) exactly what the specification's request() produces
FormatConforms ==
    pc = "sent" =>
        /\ \E h \in PermittedHeads(req) : Obs(tid, k).raw = h \o BodyText(req)
        /\ BodyLen(req) > 0 \/ req.bkind = "none" => Obs(tid, k).raw = head \o BodyText(req)

\* one transport call carrying the whole request
TransportConforms ==
    pc = "sent" =>
        /\ Len(Obs(tid, k).tcalls) = 1
        /\ Obs(tid, k).tcalls[1] = CallPayload(Len(Obs(tid, k).raw), secure)
        /\ (BodyLen(req) > 0 \/ req.bkind = "none") => Obs(tid, k).tcalls = calls

\* ---- per call: the right number of requests carrying what was asked
IdSet(s) == {<<s[i][1], s[i][2]>> : i \in 1..Len(s)}
AllEntries(t) == FlatSeq([i \in 1..Len(Recs[t].reqs) |-> CharsOf(Obs(t, i).json)])

CallConforms ==
    LET c == Call(tid)
        n == Len(Recs[tid].reqs)
    IN CASE c.api = "get_characteristics" ->
                \* one GET or several (the statement does not forbid splitting a long read): every target is
                \* ReadTarget of a non-empty id sequence (FormatConforms compares the bytes with exactly that
                \* string, so an empty element / stray comma is rejected there) and together the requests
                \* enumerate exactly the requested ids, none twice
                /\ n >= 1
                /\ \A i \in 1..n : /\ Len(Obs(tid, i).order) >= 1
                                    /\ Obs(tid, i).raw = CanonHead(ExpectedReq(tid, i), FALSE)
                /\ LET all == FlatSeq([i \in 1..n |-> [j \in 1..Len(Obs(tid, i).order) |->
                                          <<Obs(tid, i).order[j][1], Obs(tid, i).order[j][2]>>]])
                   IN /\ RangeOf(all) = IdSet(c.ids)
                      /\ Len(all) = Cardinality(IdSet(c.ids))
                /\ n = 1 => ReadTargetOk(ApiTarget(c, Obs(tid, 1)), IdSet(c.ids), [i \in 1..Len(Obs(tid, 1).order) |->
                                    <<Obs(tid, 1).order[i][1], Obs(tid, 1).order[i][2]>>])
         [] c.api = "put_characteristics" ->
                /\ n = 1
                /\ JsonEquiv(Obs(tid, 1).json,
                             CharsPayload([i \in 1..Len(c.writes) |-> WriteEntry(<<c.writes[i][1], c.writes[i][2], c.writes[i][3]>>)]))
         [] c.api \in {"subscribe", "unsubscribe"} ->
                /\ n >= 1
                /\ \A i \in 1..n : IsCharsPayload(Obs(tid, i).json)
                /\ LET es == AllEntries(tid) IN
                      /\ Len(es) = Cardinality(IdSet(c.ids))
                      /\ \A id \in IdSet(c.ids) : \E j \in 1..Len(es) : JsonEquiv(es[j], EvEntry(id, c.on))
         [] c.api = "identify" ->
                /\ n >= 1
                /\ \A i \in 1..n : \E id \in IdSet(c.ids) :
                       JsonEquiv(Obs(tid, i).json, CharsPayload(<<WriteEntry(<<id[1], id[2], JBool(TRUE)>>)>>))
         [] c.api = "image" ->
                /\ n = 1
                /\ JsonEquiv(Obs(tid, 1).json, ImagePayload(c.aid, c.w, c.h))
         [] c.api = "pair_verify" -> n = 2
         [] c.api = "conn" ->
                /\ n = 1
                /\ (c.bkind = "json" /\ c.cmp) => JsonEquiv(Obs(tid, 1).json, c.json)
         [] OTHER -> n = 1
=============================================================================
