------------------------ MODULE HttpRequestFormat_Cases ------------------------
(* Bounded request universe for HttpRequestFormat, checked by TLC (request() algorithm against
   the canonical form, single transport call, compact JSON) and exported - every request with
   the byte string(s) the specification permits and the buffer lengths of the one transport
   call - so the harness can issue each of them through the real HomeKitConnection on insecure
   and secure sessions and compare what the accessory end received. *)
EXTENDS HttpRequestFormat, Json, IOUtils, SequencesExt

CONSTANTS ReqSpace

JSONT == "application/hap+json"
TLVT  == "application/pairing+tlv8"

H4a == [text |-> "10.0.0.1", v6 |-> FALSE]
H4b == [text |-> "192.168.178.214", v6 |-> FALSE]
H6a == [text |-> "fe80::1", v6 |-> TRUE]
H6s == [text |-> "fe80::aede:48ff:fe00:1122%eth0", v6 |-> TRUE]
H6g == [text |-> "2001:db8::7", v6 |-> TRUE]
Hosts == {H4a, H4b, H6a, H6s, H6g}

R(api, via, method, target, host, ctype, bkind, text, len, json) ==
    [api |-> api, via |-> via, method |-> method, target |-> target, host |-> host, ctype |-> ctype,
     bkind |-> bkind, text |-> text, len |-> len, json |-> json]

\* ---- JSON universe (depth <= 3)
Atoms  == {JNull, JBool(TRUE), JBool(FALSE), JInt(0), JInt(-1), JInt(15), JInt(2147483647), JStr(""), JStr("a b"), JStr("on")}
AtomsN == {JNull, JBool(TRUE), JInt(15), JInt(-1), JStr("a b")}
Keys   == {Quoted("aid"), Quoted("value"), Quoted("a b")}
D1arr  == {Arr(<< >>)} \cup {Arr(<<x>>) : x \in AtomsN} \cup {Arr(<<x, y>>) : x \in AtomsN, y \in AtomsN}
D1obj  == {Obj(<< >>)} \cup {Obj(<< <<k, x>> >>) : k \in Keys, x \in AtomsN}
            \cup UNION {{Obj(<< <<k1, x>>, <<k2, y>> >>) : k2 \in Keys \ {k1}, x \in AtomsN, y \in AtomsN} : k1 \in Keys}
D1     == Atoms \cup D1arr \cup D1obj
D1s    == {JNull, JInt(15), JStr("a b"), Arr(<< >>), Arr(<<JInt(-1), JNull>>), Obj(<< >>),
           Obj(<< <<Quoted("aid"), JInt(15)>>, <<Quoted("a b"), JStr("a b")>> >>)}
D2     == {Arr(<<x>>) : x \in D1} \cup {Arr(<<x, y>>) : x \in D1s, y \in D1s}
            \cup {Obj(<< <<k, x>> >>) : k \in {Quoted("value"), Quoted("a b")}, x \in D1}
D3     == {CharsPayload(<<x>>) : x \in D1obj} \cup {CharsPayload(<<x, y>>) : x \in D1s, y \in D1s}
JsonUniverse == D1 \cup D2 \cup D3

\* ---- requests through HomeKitConnection
Targets == {"/accessories", "/characteristics?id=1.9,2.10", "/pair-verify", "/resource", "/characteristics"}
NoBodyReqs ==
    {R("get", "get", "GET", t, h, "", "none", "", 0, JNull) : t \in Targets, h \in Hosts}
      \cup {R("request", "request", m, t, h, "", "none", "", 0, JNull) : m \in {"GET", "POST", "DELETE"},
                                                                         t \in {"/accessories", "/pairings"}, h \in {H4a, H6s}}
TextBodies == {"", "x", "{\"aid\": 1}", "0123456789abcdef0123456789abcdef0123456789abcdef0123456789abcdef0123456789abcdef0123456789abcdefXYZ"}
TextReqs ==
    {R(a, a, IF a = "put" THEN "PUT" ELSE "POST", t, h, c, "text", b, 0, JNull) :
        a \in {"put", "post"}, t \in {"/characteristics", "/resource"}, h \in Hosts, c \in {JSONT, TLVT}, b \in TextBodies}
OpaqueLens == {1, 2, 37, 255, 256, 900, 1023, 1024, 1025, 2047, 2048, 2049, 3000}
OpaqueReqs ==
    {R("post", "post", "POST", t, h, TLVT, "opaque", "", n, JNull) :
        t \in {"/pair-verify", "/pairings"}, h \in {H4a, H6s}, n \in OpaqueLens}
      \cup {R("put", "put", "PUT", "/characteristics", h, JSONT, "opaque", "", n, JNull) : h \in {H4b, H6g}, n \in OpaqueLens}
JsonReqs ==
    {R("put", "put_json", "PUT", "/characteristics", H4a, JSONT, "json", "", 0, v) : v \in JsonUniverse}
      \cup {R("post", "post_json", "POST", "/resource", H6s, JSONT, "json", "", 0, v) : v \in D1 \cup D3}
ReqSpaceReal == NoBodyReqs \cup TextReqs \cup OpaqueReqs \cup JsonReqs

\* tiny framing constants: every body length around several frame boundaries
ReqSpaceTiny ==
    {R("post", "post", "POST", "/p", H4a, TLVT, "opaque", "", n, JNull) : n \in 0..40}
      \cup {R("get", "get", "GET", "/p", h, "", "none", "", 0, JNull) : h \in Hosts}

Init == \E r \in ReqSpace, s \in BOOLEAN : InitWith(r, s)
Spec == Init /\ [][Next]_vars

\* ---- pairing API: read targets
IdPool == {<<1, 9>>, <<1, 10>>, <<2, 9>>, <<1, 3>>, <<12, 345>>}
ReadSets == {S \in SUBSET IdPool : Cardinality(S) \in 1..4}

Form(r, h) == [head |-> h,
               plain |-> CallPayload(Len(h) + BodyLen(r), FALSE),
               sec   |-> CallPayload(Len(h) + BodyLen(r), TRUE)]

ExportCases ==
    /\ TLCGet("stats").generated >= 0
    /\ ndJsonSerialize(IOEnv.CASES_OUT,
          SetToSeq({ [req |-> r, body |-> BodyText(r), blen |-> BodyLen(r),
                      forms |-> SetToSeq({Form(r, h) : h \in PermittedHeads(r)})] : r \in ReqSpace }))
    /\ ndJsonSerialize(IOEnv.API_OUT,
          SetToSeq({ [ids |-> SetToSeq(S), targets |-> SetToSeq(ReadTargets(S))] : S \in ReadSets }))
=============================================================================
