SPECIFICATION TSpec
CONSTANTS BLOCK = 1024  TAG = 16  LENB = 2
INVARIANT FormatConforms
INVARIANT TransportConforms
INVARIANT CallConforms
INVARIANT CanonicalForm
INVARIANT HeaderDiscipline
INVARIANT SingleCall
INVARIANT CompactNoWhitespace
CHECK_DEADLOCK FALSE
