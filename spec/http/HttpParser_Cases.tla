--------------------------- MODULE HttpParser_Cases ---------------------------
(* Spec -> code: export every stream of the bounded model (the message sequences TLC explored
   under EVERY segmentation) with the byte layout and the observer's verdict data the
   specification prescribes: the classified bytes, the index of the last byte of every message
   and what must be delivered for it.  The harness concretises the bytes and feeds the real
   parser under enumerated cut sets; expected deliveries after a read of `fed` bytes are the
   messages k with ends[k] <= fed. *)
EXTENDS HttpParser_MC, Json, IOUtils, SequencesExt

ExportCases ==
    /\ TLCGet("stats").generated >= 0
    /\ ndJsonSerialize(IOEnv.CASES_OUT,
          SetToSeq({ [msgs   |-> ms,
                      stream |-> StreamOf(ms),
                      ends   |-> EndsOf(ms),
                      nhdrs  |-> [k \in 1..Len(ms) |-> Len(ms[k].hdrs)],
                      bodies |-> [k \in 1..Len(ms) |-> BodyBytes(k, ms[k])]]
                     : ms \in Streams }))
=============================================================================
