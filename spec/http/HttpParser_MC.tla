---------------------------- MODULE HttpParser_MC ----------------------------
(* Bounded instantiations of HttpParser: the shape universe of the exhaustive runs.
   Lines are two bytes long (so a cut inside a line exists), bodies 0..5 bytes and may contain
   CR LF, chunk-size lines have one or two hex digits. *)
EXTENDS HttpParser

H(sem) == [sem |-> sem, len |-> 2]
Sh(kind, code, hs, mode, bd, chs) ==
    [kind |-> kind, code |-> code, sl |-> 2, hdrs |-> hs, mode |-> mode, body |-> bd, chunks |-> chs]

\* framings: (headers, mode, body, chunks)
FNone0   == <<<< >>, "none", << >>, << >>>>
FNone1   == <<<<H("X")>>, "none", << >>, << >>>>
FCl0     == <<<<H("CL")>>, "cl", << >>, << >>>>
FCl1     == <<<<H("CL")>>, "cl", <<"X">>, << >>>>
FCl2crlf == <<<<H("X"), H("CL")>>, "cl", <<"CR", "LF">>, << >>>>
FCl5     == <<<<H("CL"), H("X")>>, "cl", <<"X", "CR", "LF", "X", "X">>, << >>>>
FCl2cr   == <<<<H("CL")>>, "cl", <<"X", "CR">>, << >>>>
FCl1lf   == <<<<H("CL")>>, "cl", <<"LF">>, << >>>>
FCh0     == <<<<H("TE")>>, "chunked", << >>, << >>>>
FCh1     == <<<<H("TE")>>, "chunked", <<"X">>, <<<<1>>>>>>
FCh23    == <<<<H("X"), H("TE")>>, "chunked", <<"X", "X", "X", "CR", "LF">>, <<<<2>>, <<3>>>>>>
FCh01    == <<<<H("TE")>>, "chunked", <<"X">>, <<<<0, 1>>>>>>
FCh2crlf == <<<<H("TE"), H("X")>>, "chunked", <<"CR", "LF">>, <<<<2>>>>>>
FCh11    == <<<<H("TE")>>, "chunked", <<"CR", "X">>, <<<<1>>, <<1>>>>>>

Mk(kind, code, f) == Sh(kind, code, f[1], f[2], f[3], f[4])

AllFramings == {FNone0, FNone1, FCl0, FCl1, FCl2crlf, FCl5, FCl2cr, FCl1lf,
                FCh0, FCh1, FCh23, FCh01, FCh2crlf, FCh11}
CodeOf(f) == IF f[2] = "none" THEN 204 ELSE IF f = FCl5 THEN 207 ELSE IF f = FCl2cr THEN 404 ELSE 200

\* every framing as an HTTP response, three of them also as EVENT
ShapesPairs == {Mk("HTTP", CodeOf(f), f) : f \in AllFramings}
                 \cup {Mk("EVENT", 200, f) : f \in {FCl1, FCh1, FNone0}}
\* quick tier: the same without the lone-CR / lone-LF / extra-header variants
ShapesPairsQuick == {Mk("HTTP", CodeOf(f), f) : f \in {FNone0, FCl0, FCl1, FCl2crlf, FCl5, FCh0, FCh1, FCh23, FCh01, FCh2crlf}}
                 \cup {Mk("EVENT", 200, f) : f \in {FCl1, FCh1}}
\* a smaller universe for streams of three messages
ShapesTriples == {Mk("HTTP", CodeOf(f), f) : f \in {FNone0, FCl1, FCh1}}
                   \cup {Mk("EVENT", 200, f) : f \in {FCl2crlf, FCh0}}
\* thorough tier: triples over a larger universe
ShapesTriplesBig == {Mk("HTTP", CodeOf(f), f) : f \in {FNone0, FCl0, FCl1, FCl2crlf, FCh0, FCh1, FCh01, FCh2crlf}}
                   \cup {Mk("EVENT", 200, f) : f \in {FCl1, FCh1}}

ASSUME \A sh \in ShapesPairs \cup ShapesPairsQuick \cup ShapesTriples \cup ShapesTriplesBig : WellFormedShape(sh)
=============================================================================
