SPECIFICATION Spec
CONSTANTS Shapes <- ShapesTriplesBig  MaxMsgs = 3
INVARIANT SegmentationInvariant
INVARIANT NeverEarly
INVARIANT NoLossNoDup
INVARIANT NoParserError
INVARIANT CleanAtEnd
CHECK_DEADLOCK FALSE
POSTCONDITION ExportCases
