SPECIFICATION Spec
CONSTANTS Kind = "pairings"  Strategy = "inplace"  MaxSaves = 3  SerLen = 3  NJunk = 2
INVARIANT RoundTrip
INVARIANT CrashSafePairings
INVARIANT CacheCorruptionIsCold
INVARIANT HandleSane
CHECK_DEADLOCK FALSE
