SPECIFICATION Spec
CONSTANTS Kind = "pairings"  Strategy = "early"  MaxSaves = 3  SerLen = 3  NJunk = 2
INVARIANT RoundTrip
INVARIANT CrashSafePairings
INVARIANT CacheCorruptionIsCold
INVARIANT HandleSane
CHECK_DEADLOCK FALSE
