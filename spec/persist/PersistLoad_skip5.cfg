SPECIFICATION Spec
CONSTANTS Kinds = {"IP", "IP0", "BLE", "CoAP"}  MaxLen = 5  Loader = "skip"
  EnabledSets = {{"IP", "BLE", "CoAP"}, {"IP", "CoAP"}, {"IP", "BLE"}, {"IP"}}
INVARIANT AvailableAllLoaded
POSTCONDITION ExportCases
CHECK_DEADLOCK FALSE
