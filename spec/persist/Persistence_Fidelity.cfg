SPECIFICATION FSpec
CONSTANTS Kind = "pairings"  Strategy = "trace"  MaxSaves = 0  SerLen = 0  NJunk = 0
INVARIANT Fidelity
CHECK_DEADLOCK FALSE
