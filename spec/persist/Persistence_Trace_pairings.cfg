SPECIFICATION TSpec
CONSTANTS Kind = "pairings"  Strategy = "trace"  MaxSaves = 0  SerLen = 0  NJunk = 0
INVARIANT NotStuck
INVARIANT HandleSane
INVARIANT RoundTrip
INVARIANT CrashSafePairings
INVARIANT CacheCorruptionIsCold
CHECK_DEADLOCK FALSE
