------------------------------ MODULE PersistLoad ------------------------------
(* Controller.load_data over a pairing file that mixes transports, in a process in which only some
   transports are available (BLE needs bleak / AIOHOMEKIT_TRANSPORT_BLE, CoAP needs aiocoap), followed by
   the load -> save -> restart cycle the command line tool performs after most commands.

   The file is a sequence of entries [id, k]; k is the kind of the entry: "IP", "IP0" (an entry written by
   an old version: no "Connection" field, means IP), "BLE", "CoAP".  load_data walks the entries in file
   order, one action per entry: an entry of an available transport becomes a pairing (LoadPairing), an entry
   of an unavailable one is logged and skipped (SkipUnsupported).  Resave writes the file back: the entries
   that were loaded, in order; whether the entries of unavailable transports are kept is left open (the tree
   drops them; nothing is claimed about them).  Then the next process loads again.

   AvailableAllLoaded: whenever a start-up has finished, every entry of the ORIGINAL file whose transport is
   available has been loaded - wherever it sits in the file and whatever else the file contains.

   Loader = "skip" is the algorithm of the code; Loader = "stop" (the first unavailable entry ends the
   loop) is kept as a self-test: TLC must find the loss.  ExportCases writes every (file, enabled set) of
   the bounded model with the entries that must be loaded; the harness builds the real file with the real
   save_data, restarts a Controller that has exactly the enabled transports and compares. *)
EXTENDS Naturals, Sequences, FiniteSets, TLC, Json, IOUtils, SequencesExt

CONSTANTS Kinds,        \* entry kinds used by the bounded model
          MaxLen,       \* entries per file
          EnabledSets,  \* the sets of transports a process may have
          Loader        \* "skip" | "stop"

TransportOf(k) == IF k = "IP0" THEN "IP" ELSE k
Available(k, en) == TransportOf(k) \in en

Orders == UNION {[1..n -> Kinds] : n \in 0..MaxLen}
FileOf(o) == [j \in 1..Len(o) |-> [id |-> j, k |-> o[j]]]
\* the entries the property speaks about
Must(f, en) == {f[j].id : j \in {x \in 1..Len(f) : Available(f[x].k, en)}}

VARIABLES orig, file, enabled, i, loaded, pc, round
vars == <<orig, file, enabled, i, loaded, pc, round>>

Init ==
    /\ \E o \in Orders : orig = FileOf(o)
    /\ file = orig
    /\ enabled \in EnabledSets
    /\ i = 1 /\ loaded = {} /\ pc = "load" /\ round = 1

LoadPairing ==
    /\ pc = "load" /\ i <= Len(file) /\ Available(file[i].k, enabled)
    /\ loaded' = loaded \cup {file[i].id} /\ i' = i + 1
    /\ UNCHANGED <<orig, file, enabled, pc, round>>
SkipUnsupported ==
    /\ pc = "load" /\ i <= Len(file) /\ ~Available(file[i].k, enabled)
    /\ i' = IF Loader = "skip" THEN i + 1 ELSE Len(file) + 1
    /\ UNCHANGED <<orig, file, enabled, loaded, pc, round>>
LoadDone ==
    /\ pc = "load" /\ i > Len(file)
    /\ pc' = "up"
    /\ UNCHANGED <<orig, file, enabled, i, loaded, round>>
\* the process writes the file back and the next one starts
Resave ==
    /\ pc = "up" /\ round = 1
    /\ \E keep \in BOOLEAN : file' = IF keep THEN file ELSE SelectSeq(file, LAMBDA e : e.id \in loaded)
    /\ i' = 1 /\ loaded' = {} /\ pc' = "load" /\ round' = 2
    /\ UNCHANGED <<orig, enabled>>

Next == LoadPairing \/ SkipUnsupported \/ LoadDone \/ Resave
Spec == Init /\ [][Next]_vars

AvailableAllLoaded == pc = "up" => Must(orig, enabled) \subseteq loaded

ExportCases ==
    /\ TLCGet("stats").generated >= 0
    /\ ndJsonSerialize(IOEnv.CASES_OUT,
          SetToSeq({[order |-> o, enabled |-> en, must |-> Must(FileOf(o), en)] : o \in Orders, en \in EnabledSets}))
=============================================================================
