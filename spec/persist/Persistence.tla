----------------------------- MODULE Persistence -----------------------------
(* Persistence of the pairing file (Controller.save_data / load_data) and of the accessory
   cache (CharacteristicCacheFile) across process restarts and interrupted saves.

   The process that saves is a *program*: the sequence of file-system calls the code issues
   (one action per call).  Today save_data and CharacteristicCacheFile._do_save issue

        open(T, "w") [truncate]   write ...   close                       ("inplace")

   and after the repair save_data issues

        open(X, "w")  write ...  flush  fsync  close   replace(X, T)      ("atomic")

   The file system applies the calls in the order in which they are issued.  Bytes handed to
   write() sit in a buffer of unknown flushing policy, so when the process dies the file of the
   open handle holds *some* prefix between what was certainly flushed and what was written.
   Crash is enabled between any two calls (and at the normal end of the process), Restart is a
   fresh process loading T:
        pairing file : absent -> no pairings, complete document -> its value, anything else -> start-up fails
        cache        : absent -> cold,        complete document -> its value, anything else -> cold
   A file content is [v, n]: the first n bytes of stream v (stream 0 = what was on disk at the
   start, stream h = the bytes written through handle h); it is a complete document iff
   n = SLen(v), and then it carries the value SVal(v).  Values are small integers (0 = what was
   loaded at start, k = what save k saves); NONE doubles as the value "no data".

   The operators below are pure (explicit environment e, explicit state s) so that the same
   definitions drive (i) the exhaustive model (Strategy, MaxSaves, SerLen small), (ii) the
   validation of call traces recorded from the real code (Persistence_Trace: prog = the recorded
   calls) and (iii) the export of every crash image with the outcome the specification
   prescribes, which the harness materialises on disk and loads with the real code. *)
EXTENDS Integers, Sequences, FiniteSets, TLC

CONSTANTS Kind,        \* "pairings" | "cache": which file T is (decides the loader and the property)
          Strategy,    \* "inplace" | "atomic": save procedure of the exhaustive model
          MaxSaves,    \* successive saves in the exhaustive model
          SerLen,      \* bytes of a serialised value in the exhaustive model
          NJunk        \* number of unparsable-content classes Corrupt may choose from

NONE  == -1      \* outcome: nothing loaded (no pairing file / cold cache)
ERR   == -2      \* outcome: start-up failed
ALIEN == -3      \* value carried by a complete document that no save of this history produced
IDLE  == -9      \* cur: no save in progress

Absent   == [v |-> -1, n |-> 0]
Junk(j)  == [v |-> -2, n |-> j]            \* unparsable content of class j
NoHandle == [f |-> "", v |-> -1, w |-> 0]

\* ------------------------------------------------------------------ pure definitions
SLen(e, v) == e.slen[v + 1]
SVal(e, v) == e.sval[v + 1]
IsWhole(e, c) == c.v >= 0 /\ c.n = SLen(e, c.v)

\* one file-system call / save marker applied to s = [disk, h, cur, done]
ApplyOp(s, o) ==
    CASE o.op = "begin"   -> [s EXCEPT !.cur = o.k]
      [] o.op = "end"     -> [s EXCEPT !.cur = IDLE, !.done = o.k]
      [] o.op = "open"    -> [s EXCEPT !.disk[o.f] = [v |-> o.h, n |-> 0],          \* O_TRUNC / new file
                                       !.h = [f |-> o.f, v |-> o.h, w |-> 0]]
      [] o.op = "write"   -> [s EXCEPT !.h.w = @ + o.n]                             \* buffered
      [] o.op = "flush"   -> [s EXCEPT !.disk[s.h.f].n = s.h.w]
      [] o.op = "fsync"   -> s                                                      \* calls are applied in order anyway
      [] o.op = "close"   -> [s EXCEPT !.disk[s.h.f].n = s.h.w, !.h = NoHandle]
      [] o.op = "replace" -> [s EXCEPT !.disk = [@ EXCEPT ![o.dst] = s.disk[o.src], ![o.src] = Absent],
                                       !.h = IF s.h.f = o.src THEN [s.h EXCEPT !.f = o.dst] ELSE s.h]
      [] o.op = "unlink"  -> [s EXCEPT !.disk[o.f] = Absent]
      [] OTHER -> s

OpEnabled(s, o) ==
    CASE o.op \in {"write", "flush", "fsync", "close"} -> s.h.v = o.h
      [] o.op = "open"    -> s.h = NoHandle
      [] o.op = "replace" -> s.disk[o.src] # Absent
      [] o.op = "unlink"  -> s.h.f # o.f
      [] OTHER -> TRUE

\* what may be on disk if the process dies now
CrashImages(e, s) ==
    IF s.h = NoHandle THEN {s.disk}
    ELSE LET lo == s.disk[s.h.f].n
             hi == s.h.w
             ns == {lo, hi} \cup {c \in e.cuts : lo <= c /\ c <= hi}
         IN {[s.disk EXCEPT ![s.h.f].n = n] : n \in ns}

\* a valid file damaged afterwards: truncated to a shorter prefix or made unparsable
Corruptions(e, c) ==
    IF ~IsWhole(e, c) THEN {}
    ELSE {[v |-> c.v, n |-> n] : n \in {k \in e.cuts : k < c.n}} \cup {Junk(j) : j \in 1..e.njunk}

\* the loader of a fresh process
LoadSet(e, c) ==
    IF c = Absent THEN {NONE}
    ELSE IF IsWhole(e, c) THEN {SVal(e, c.v)}
    ELSE {IF Kind = "pairings" THEN ERR ELSE NONE}

\* ---- the property, as a predicate on the outcome r of a restart from disk image T = c, when the dead
\* process had completed the save of value `done` (NONE: nothing was on disk) and was saving `cur` (IDLE: none)
RoundTripOK(s, corrupted, r) == (s.cur = IDLE /\ ~corrupted) => r = s.done
CrashSafeOK(s, corrupted, r) ==
    (Kind = "pairings" /\ s.done # NONE /\ ~corrupted) => r \in ({s.done} \cup (IF s.cur # IDLE THEN {s.cur} ELSE {}))
ColdOK(e, c, r) == Kind = "cache" => (r # ERR /\ r # ALIEN /\ (~IsWhole(e, c) => r = NONE))
SafeOutcome(e, s, corrupted, c, r) == RoundTripOK(s, corrupted, r) /\ CrashSafeOK(s, corrupted, r) /\ ColdOK(e, c, r)

\* ------------------------------------------------------------------ save procedures of the exhaustive model
Mark(o, k) == [op |-> o, k |-> k]
HOp(o, h)  == [op |-> o, h |-> h]
InPlace(k) == << Mark("begin", k), [op |-> "open", f |-> "T", h |-> k], [op |-> "write", h |-> k, n |-> 1],
                 [op |-> "write", h |-> k, n |-> SerLen - 1], HOp("close", k), Mark("end", k) >>
Atomic(k)  == << Mark("begin", k), [op |-> "open", f |-> "X", h |-> k], [op |-> "write", h |-> k, n |-> 1],
                 [op |-> "write", h |-> k, n |-> SerLen - 1], HOp("flush", k), HOp("fsync", k), HOp("close", k),
                 [op |-> "replace", src |-> "X", dst |-> "T"], Mark("end", k) >>
\* a plausible wrong repair (kept as a self-test of the model): the rename is issued before the data is flushed
EarlyReplace(k) == << Mark("begin", k), [op |-> "open", f |-> "X", h |-> k], [op |-> "write", h |-> k, n |-> SerLen],
                      [op |-> "replace", src |-> "X", dst |-> "T"], HOp("close", k), Mark("end", k) >>
Proc(k) == CASE Strategy = "inplace" -> InPlace(k) [] Strategy = "atomic" -> Atomic(k) [] OTHER -> EarlyReplace(k)
RECURSIVE Procs(_)
Procs(k) == IF k > MaxSaves THEN << >> ELSE Proc(k) \o Procs(k + 1)

\* ------------------------------------------------------------------ state machine
VARIABLES env,       \* [slen, sval, cuts, njunk]: stream lengths / carried values / prefix lengths considered
          prog,      \* the calls of the process(es), with begin/end markers around each save
          fs,        \* [disk, h, cur, done]
          pc, phase, \* "run" -> (Crash) "down" -> (Restart) "up"
          loaded,    \* outcome of the restart
          corrupt    \* the file was damaged while the process was down
vars == <<env, prog, fs, pc, phase, loaded, corrupt>>

Init ==
    /\ env = [slen |-> [i \in 1..(MaxSaves + 1) |-> SerLen], sval |-> [i \in 1..(MaxSaves + 1) |-> i - 1],
              cuts |-> 0..SerLen, njunk |-> NJunk]
    /\ prog = Procs(1)
    /\ \E present \in BOOLEAN :
          fs = [disk |-> [f \in {"T", "X"} |-> IF f = "T" /\ present THEN [v |-> 0, n |-> SerLen] ELSE Absent],
                h |-> NoHandle, cur |-> IDLE, done |-> IF present THEN 0 ELSE NONE]
    /\ pc = 1 /\ phase = "run" /\ loaded = NONE /\ corrupt = FALSE

Exec(name) ==
    /\ phase = "run" /\ pc <= Len(prog) /\ prog[pc].op = name /\ OpEnabled(fs, prog[pc])
    /\ fs' = ApplyOp(fs, prog[pc]) /\ pc' = pc + 1
    /\ UNCHANGED <<env, prog, phase, loaded, corrupt>>
BeginSave == Exec("begin")
EndSave   == Exec("end")
DoOpen    == Exec("open")
DoWrite   == Exec("write")
DoFlush   == Exec("flush")
DoFsync   == Exec("fsync")
DoClose   == Exec("close")
DoReplace == Exec("replace")
DoUnlink  == Exec("unlink")

\* the process dies (or ends normally when pc is past the last call)
Crash ==
    /\ phase = "run"
    /\ \E img \in CrashImages(env, fs) : fs' = [fs EXCEPT !.disk = img, !.h = NoHandle]
    /\ phase' = "down"
    /\ UNCHANGED <<env, prog, pc, loaded, corrupt>>

Corrupt ==
    /\ Kind = "cache" /\ phase = "down" /\ ~corrupt
    /\ \E c \in Corruptions(env, fs.disk["T"]) : fs' = [fs EXCEPT !.disk["T"] = c]
    /\ corrupt' = TRUE
    /\ UNCHANGED <<env, prog, pc, phase, loaded>>

Restart ==
    /\ phase = "down"
    /\ \E r \in LoadSet(env, fs.disk["T"]) : loaded' = r
    /\ phase' = "up"
    /\ UNCHANGED <<env, prog, fs, pc, corrupt>>

\* the new process goes on with the next save (what it loaded is what it considers saved)
Resume ==
    /\ phase = "up" /\ loaded # ERR
    /\ LET nb == {i \in pc..Len(prog) : prog[i].op = "begin"}
       IN /\ nb # {}
          /\ pc' = CHOOSE i \in nb : \A j \in nb : i <= j
    /\ fs' = [fs EXCEPT !.cur = IDLE, !.done = loaded]
    /\ phase' = "run" /\ loaded' = NONE /\ corrupt' = FALSE
    /\ UNCHANGED <<env, prog>>

Steps == BeginSave \/ EndSave \/ DoOpen \/ DoWrite \/ DoFlush \/ DoFsync \/ DoClose \/ DoReplace \/ DoUnlink
Next == Steps \/ Crash \/ Corrupt \/ Restart \/ Resume
Spec == Init /\ [][Next]_vars

\* ------------------------------------------------------------------ properties (one INVARIANT line each)
Up == phase = "up"
\* a restart when no save was in progress gives back exactly what was saved last
RoundTrip == Up => RoundTripOK(fs, corrupt, loaded)
\* a restart after an interrupted save of the pairing file gives the previous or the new data
CrashSafePairings == Up => CrashSafeOK(fs, corrupt, loaded)
\* a truncated / unparsable cache is a cold cache and start-up succeeds
CacheCorruptionIsCold == Up => ColdOK(env, fs.disk["T"], loaded)
\* sanity: at most one handle, and its file holds a prefix of its own stream
HandleSane == fs.h # NoHandle => (fs.disk[fs.h.f].v = fs.h.v /\ fs.disk[fs.h.f].n <= fs.h.w /\ fs.h.w <= SLen(env, fs.h.v))
=============================================================================
