SPECIFICATION FSpec
CONSTANTS Kind = "cache"  Strategy = "trace"  MaxSaves = 0  SerLen = 0  NJunk = 0
POSTCONDITION ExportCases
CHECK_DEADLOCK FALSE
