SPECIFICATION Spec
CONSTANTS Kinds = {"IP", "IP0", "BLE", "CoAP"}  MaxLen = 3  Loader = "stop"
  EnabledSets = {{"IP", "BLE", "CoAP"}, {"IP", "CoAP"}, {"IP", "BLE"}, {"IP"}}
INVARIANT AvailableAllLoaded
CHECK_DEADLOCK FALSE
