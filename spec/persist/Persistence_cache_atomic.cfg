SPECIFICATION Spec
CONSTANTS Kind = "cache"  Strategy = "atomic"  MaxSaves = 3  SerLen = 3  NJunk = 2
INVARIANT RoundTrip
INVARIANT CrashSafePairings
INVARIANT CacheCorruptionIsCold
INVARIANT HandleSane
CHECK_DEADLOCK FALSE
