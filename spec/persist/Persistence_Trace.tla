-------------------------- MODULE Persistence_Trace --------------------------
(* Code -> spec and spec -> code for Persistence.

   One record = one process life of the real code, observed by the harness at the file-system
   boundary (builtins.open / io.open / os.open, file write/flush/close, os.fsync, os.replace,
   os.rename, os.unlink ... for the directory under test):
       files   roles of the files touched ("T" = the file under test, "X1".. = any other file)
       init    what was on disk when the process started   (role -> [v, n])
       done0   value carried by T at the start (NONE if there was no file or it held the empty document)
       ops     the calls the real save procedure(s) issued, in order, with begin/end markers
       vals    the value ids of this life: 0 = loaded at start, k = value of save k; equal documents share an
               id and the empty document (no pairings / no cache entries) is NONE - loading it and loading
               nothing are the same observation
       slen, sval   per stream: number of bytes written through the handle / which saved value
                    the complete byte string is a serialisation of (decided by an independent reader)
       cuts    the prefix lengths to consider (every byte for small files, boundary classes above)
       njunk   > 0: also damage the final file (Corrupt)
       before, after   projection of the controller at the end of the process / after the next start

   (C) the recorded program is run on the file-system model with Crash enabled at every point and
       TLC checks the invariants of Persistence on it - the order of the recorded calls is what
       the crash argument rests on;  Fidelity compares the two projections structurally.
   (B) ExportCases writes every crash image (and every corruption) with the set of outcomes the
       specification prescribes for a restart from it (`expect`) and the set of outcomes the
       property allows there (`safe`); the harness materialises each image and restarts the real
       code from it. *)
EXTENDS Persistence, Json, IOUtils, SequencesExt

Recs == ndJsonDeserialize(IOEnv.TRACE_FILE)

VARIABLE tid
tvars == <<vars, tid>>

EnvOf(r) == [slen |-> r.slen, sval |-> r.sval, cuts |-> ToSet(r.cuts), njunk |-> r.njunk]
Init0(r) == [disk |-> r.init, h |-> NoHandle, cur |-> IDLE, done |-> r.done0]

TInit ==
    /\ tid \in 1..Len(Recs)
    /\ env = EnvOf(Recs[tid]) /\ prog = Recs[tid].ops /\ fs = Init0(Recs[tid])
    /\ pc = 1 /\ phase = "run" /\ loaded = NONE /\ corrupt = FALSE
\* damage is applied to the file the process left behind when it ended normally
CorruptFinal == pc > Len(prog) /\ Corrupt
TNext == (Steps \/ Crash \/ CorruptFinal \/ Restart) /\ UNCHANGED tid
TSpec == TInit /\ [][TNext]_tvars
\* only the initial states (one per record): what Fidelity needs
FSpec == TInit /\ [][UNCHANGED tvars]_tvars

\* every recorded call could be interpreted (otherwise the harness has recorded something the model
\* has no semantics for: a machinery failure, not a verdict)
Stuck == phase = "run" /\ pc <= Len(prog) /\ ~OpEnabled(fs, prog[pc])
NotStuck == ~Stuck

\* round-trip fidelity: the projection logged before the process ended = the one logged after the restart
Fidelity == Recs[tid].after = Recs[tid].before

\* ------------------------------------------------------------------ case export
RECURSIVE RunTo(_, _, _)
RunTo(s0, p, k) == IF k = 0 THEN s0 ELSE ApplyOp(RunTo(s0, p, k - 1), p[k])

\* (the light environment keeps TLC from rebuilding the set of cuts for every exported case)
Light(r) == [slen |-> r.slen, sval |-> r.sval, vals |-> r.vals]
Outcomes(el) == {NONE, ERR, ALIEN} \cup ToSet(el.sval) \cup ToSet(el.vals)
CaseOf(t, el, s, img, corrupted, final) ==
    [tid |-> t, disk |-> img, cur |-> s.cur, done |-> s.done, corrupt |-> corrupted, final |-> final,
     expect |-> LoadSet(el, img["T"]),
     safe |-> {r \in Outcomes(el) : SafeOutcome(el, s, corrupted, img["T"], r)}]
\* Sequences, not one big set: TLC removes duplicates from UNION / \cup by linear search, which is quadratic in
\* the number of images.  The same image may therefore be listed for two consecutive calls; harmless.
ImagesAt(t, e, el, s, final) == SetToSeq({CaseOf(t, el, s, img, FALSE, final) : img \in CrashImages(e, s)})
RECURSIVE Walk(_, _, _, _, _, _, _)
Walk(t, ops, e, el, s, k, acc) ==          \* s = state after the first k calls
    IF k = Len(ops) THEN acc \o ImagesAt(t, e, el, s, TRUE)
    ELSE Walk(t, ops, e, el, ApplyOp(s, ops[k + 1]), k + 1, acc \o ImagesAt(t, e, el, s, FALSE))
Damage(t, e, el, fin) ==
    IF Kind # "cache" THEN << >>
    ELSE SetToSeq({CaseOf(t, el, fin, img, TRUE, FALSE)
                      : img \in {[fin.disk EXCEPT !["T"] = c] : c \in Corruptions(e, fin.disk["T"])}})
CasesOf(t) ==
    LET r == Recs[t] IN Walk(t, r.ops, EnvOf(r), Light(r), Init0(r), 0, << >>)
                        \o Damage(t, EnvOf(r), Light(r), RunTo(Init0(r), r.ops, Len(r.ops)))
RECURSIVE Cat(_, _)           \* balanced, so that the recursion depth stays logarithmic in the number of records
Cat(lo, hi) == IF lo > hi THEN << >>
               ELSE IF lo = hi THEN CasesOf(lo)
               ELSE Cat(lo, (lo + hi) \div 2) \o Cat((lo + hi) \div 2 + 1, hi)
AllCases == Cat(1, Len(Recs))
ExportCases ==
    /\ TLCGet("stats").generated >= 0
    /\ ndJsonSerialize(IOEnv.CASES_OUT, AllCases)
=============================================================================
