--------------------------- MODULE TlvStruct_Trace ---------------------------
(* Code -> spec: records observed from the real TLVStruct.encode / TLVStruct.decode are validated
   against the pipeline of TlvStruct.  One record = one value chosen by the driver (class c, abstract
   value val), the producer (mode "lib": the bytes are what the real encode() returned; mode "acc":
   the bytes were written by the independent reference encoder of the harness, field order `pol`),
   the bytes `enc`, and the abstract value `dec` of what the real decode(enc) returned.
   The record is accepted iff it is the behaviour of the specification started from that value:
   the wire image is the specified one and the decoder's result is the specified one. *)
EXTENDS TlvStruct, SequencesExt

Recs == ndJsonDeserialize(IOEnv.TRACE_FILE)

VARIABLE tid
tvars == <<vars, tid>>

TInit == /\ tid \in 1..Len(Recs)
         /\ PInit([c |-> Recs[tid].c, mode |-> Recs[tid].mode, pol |-> Recs[tid].pol, val |-> Recs[tid].val])
TNext == Next /\ UNCHANGED tid
TSpec == TInit /\ [][TNext]_tvars

\* the driver stays inside the property's domain (a violation is a harness error, not a verdict)
InDomain == WF(cs.mode, cs.c, cs.val)
\* the bytes on the wire are the specified ones (real encoder / reference accessory)
EncoderConforms == pc \in {"dec", "done"} => wire = Recs[tid].enc
\* the real decoder returned what the specification's decoder returns
DecoderConforms == pc = "done" => kw = Recs[tid].dec

\* every rejected record at once (the invariants above stop at the first one): evaluated as a
\* postcondition, also after a violation
Verdict(k) == LET r == Recs[k]
                  w == EncStruct(r.mode, r.pol, r.c, r.val)
              IN [tid |-> k, enc |-> (w = r.enc), dec |-> (DecStruct(r.c, w) = r.dec), rt |-> (DecStruct(r.c, w) = r.val)]
ExportVerdicts ==
    /\ TLCGet("stats").generated >= 0
    /\ ndJsonSerialize(IOEnv.VERDICTS_OUT,
          SelectSeq([k \in 1..Len(Recs) |-> Verdict(k)], LAMBDA v : ~(v.enc /\ v.dec /\ v.rt)))
=============================================================================
