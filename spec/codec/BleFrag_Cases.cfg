SPECIFICATION Spec
CONSTANTS Lens = {0, 3, 20, 40, 60, 100, 255, 256, 384, 500, 510, 1000}  FragSizes = {20, 50, 100, 128, 255, 512}  MAXR = 50
INVARIANT Reassembled
INVARIANT AcksMatch
INVARIANT Bounded
INVARIANT ErrorOnlyWhenTooMany
POSTCONDITION ExportCases
CHECK_DEADLOCK FALSE
