SPECIFICATION Spec
CONSTANTS FRAG = 3  SEP = 255  Types = {1, 6, 7}  Lens = {0, 1, 2, 3, 4, 5, 6, 7, 9, 10}  MaxItems = 3
INVARIANT RoundTrip
INVARIANT Canonical
INVARIANT WireLenExact
CHECK_DEADLOCK FALSE
