--------------------------- MODULE TlvStruct_Toy ---------------------------
(* Generic schemas exercising every field kind of aiohomekit/tlv8.py, three levels of nesting,
   lists of messages and packed id lists.  Used with FRAG = 3 (every value crosses fragment
   boundaries; exhaustive within the bounds of the profiles) and with FRAG = 255 on the
   property's boundary sizes; in the second use the cases are exported and replayed on the real
   TLVStruct machinery through dataclasses that the harness builds from these very schemas
   (IOEnv.SCHEMA_OUT). *)
EXTENDS TlvStruct, SequencesExt

CONSTANTS Runs         \* set of bound profile names (the root class is part of the profile)

ClassIdx(n) == CHOOSE c \in 1..Len(Schemas) : Schemas[c].name = n

A3 == {"pat", "zero", "ff"}
Params(pr) ==
    CASE \* ---------------- FRAG = 3
         pr = "s_leaf" -> [BaseP EXCEPT !.lens = D3(1..10), !.fills = D3(A3), !.ifills = D3(A3)]
      [] pr = "s_ids4" -> [BaseP EXCEPT !.idc = D3(4), !.idbytes = D3({0, 2}), !.unset = D3(VARK)]
      [] pr = "s_ids6" -> [BaseP EXCEPT !.idc = D3(6), !.idbytes = D3({0, 2}), !.unset = D3(VARK)]
      [] pr = "s_idsb2" -> [BaseP EXCEPT !.idc = D3(2), !.idbytes = D3({0, 1, 3}), !.ifills = D3({"ff"}), !.unset = D3(VARK)]
      [] pr = "s_idsb4" -> [BaseP EXCEPT !.idc = D3(4), !.idbytes = D3({0, 1, 3}), !.ifills = D3({"ff"}), !.unset = D3(VARK)]
      [] pr = "s_mid_a2" -> [BaseP EXCEPT !.depth = 2, !.lens = <<{1, 2, 3, 4, 6, 7}, {1, 2, 4}, {}>>, !.counts = <<2, 0, 0>>,
                                          !.off = <<{"struct", "enum"}, {}, {}>>]
      [] pr = "s_mid_a3" -> [BaseP EXCEPT !.depth = 2, !.lens = <<{1, 2, 3, 4, 6, 7}, {1, 2, 4}, {}>>, !.counts = <<3, 0, 0>>,
                                          !.off = <<{"struct", "enum"}, {}, {}>>]
      [] pr = "s_mid_e" ->  \* lists of 1..4 items, any non-last item may be the item without fields (zero bytes)
                            [BaseP EXCEPT !.depth = 2, !.lens = <<{}, {1}, {}>>, !.cmin = <<1, 0, 0>>, !.counts = <<4, 0, 0>>,
                                          !.off = <<{"str", "struct", "enum"}, {}, {}>>]
      [] pr = "s_top_e" ->  [BaseP EXCEPT !.depth = 2, !.cmin = <<1, 0, 0>>, !.counts = <<4, 0, 0>>,
                                          !.off = <<{"int", "struct"}, {"str", "seq", "struct"}, {}>>]
      [] pr = "s_mid_b2" -> [BaseP EXCEPT !.depth = 2, !.lens = <<{}, {1, 2, 4}, {}>>, !.counts = <<2, 0, 0>>,
                                          !.unset = <<VARK, ALLK, {}>>, !.off = <<{"str"}, {}, {}>>]
      [] pr = "s_mid_b3" -> [BaseP EXCEPT !.depth = 2, !.lens = <<{}, {1, 2, 4}, {}>>, !.counts = <<3, 0, 0>>,
                                          !.off = <<{"str"}, {}, {}>>]
      [] pr = "s_top2" -> [BaseP EXCEPT !.depth = 3, !.lens = <<{}, {}, {1, 2}>>, !.fills = D3({"zero"}), !.counts = <<2, 2, 0>>,
                                        !.ifills = <<{"pat"}, {"pat"}, {"ff"}>>, !.unset = <<VARK, VARK, {}>>,
                                        !.off = <<{"struct"}, {"str", "struct"}, {}>>]
      [] pr = "s_top3" -> [BaseP EXCEPT !.depth = 3, !.lens = <<{}, {}, {1, 2}>>, !.fills = D3({"zero"}), !.counts = <<3, 2, 0>>,
                                        !.ifills = <<{"pat"}, {"pat"}, {"ff"}>>, !.unset = <<VARK, VARK, {}>>,
                                        !.off = <<{"struct"}, {"str", "struct"}, {}>>]
      [] pr = "s_top_h" -> [BaseP EXCEPT !.depth = 2, !.idc = <<0, 3, 0>>, !.idbytes = D3({0, 3}), !.unset = <<ALLK, VARK, {}>>,
                                         !.off = <<{"seq"}, {}, {}>>]
         \* ---------------- FRAG = 255: the property's boundary sizes
      [] pr = "r_leaf" -> [BaseP EXCEPT !.lens = D3({1, 2, 254, 255, 256, 509, 510, 511, 765, 766}), !.fills = D3(A3), !.ifills = D3(A3)]
      [] pr = "r_ids4" -> [BaseP EXCEPT !.idc = D3(4), !.idbytes = D3({0, 2}), !.unset = D3(VARK)]
      [] pr = "r_ids6" -> [BaseP EXCEPT !.idc = D3(6), !.idbytes = D3({0, 2}), !.unset = D3(VARK)]
      [] pr = "r_idsb2" -> [BaseP EXCEPT !.idc = D3(2), !.idbytes = D3({0, 1, 16, 255}), !.ifills = D3({"ff"}), !.unset = D3(VARK)]
      [] pr = "r_idsb3" -> [BaseP EXCEPT !.idc = D3(3), !.idbytes = D3({0, 1, 16, 255}), !.ifills = D3({"ff"}), !.unset = D3(VARK)]
      [] pr = "r_mid_a" -> [BaseP EXCEPT !.depth = 2, !.lens = <<{1, 255, 256}, {1, 121, 122, 249, 250, 251}, {}>>, !.counts = <<2, 0, 0>>,
                                         !.fills = <<{}, {"zero"}, {}>>, !.unset = <<ALLK, {"bytes"}, {}>>, !.off = <<{"struct", "enum"}, {}, {}>>]
      [] pr = "r_mid_e" ->  [BaseP EXCEPT !.depth = 2, !.lens = <<{}, {1}, {}>>, !.cmin = <<1, 0, 0>>, !.counts = <<4, 0, 0>>,
                                          !.off = <<{"str", "struct", "enum"}, {}, {}>>]
      [] pr = "r_top_e" ->  [BaseP EXCEPT !.depth = 2, !.cmin = <<1, 0, 0>>, !.counts = <<4, 0, 0>>,
                                          !.off = <<{"int", "struct"}, {"str", "seq", "struct"}, {}>>]
      [] pr = "r_mid_b" -> [BaseP EXCEPT !.depth = 2, !.lens = <<{}, {1, 121, 122, 249, 250, 251}, {}>>, !.counts = <<2, 0, 0>>,
                                         !.unset = <<ALLK, {"bytes"}, {}>>, !.off = <<{"str"}, {}, {}>>]
      [] pr = "r_top" -> [BaseP EXCEPT !.depth = 3, !.lens = <<{}, {}, {1, 244, 245, 246}>>, !.fills = D3({"zero"}), !.counts = <<2, 1, 0>>,
                                       !.ifills = <<{"pat"}, {"pat"}, {"ff"}>>, !.unset = <<VARK, VARK, {}>>,
                                       !.off = <<{"struct"}, {"str", "struct"}, {}>>]
      [] pr = "r_top_h" -> [BaseP EXCEPT !.depth = 2, !.idc = <<0, 3, 0>>, !.idbytes = D3({0, 255}), !.unset = <<ALLK, VARK, {}>>,
                                         !.off = <<{"seq"}, {}, {}>>]

RootOf(pr) ==
    CASE pr \in {"s_leaf", "r_leaf"} -> "Leaf"
      [] pr \in {"s_ids4", "s_ids6", "s_idsb2", "s_idsb4", "r_ids4", "r_ids6", "r_idsb2", "r_idsb3"} -> "Ids"
      [] pr \in {"s_mid_a2", "s_mid_a3", "s_mid_b2", "s_mid_b3", "r_mid_a", "r_mid_b", "s_mid_e", "r_mid_e"} -> "Mid"
      [] pr \in {"s_top2", "s_top3", "s_top_h", "r_top", "r_top_h", "s_top_e", "r_top_e"} -> "Top"

ModePols == { <<"lib", "decl">>, <<"acc", "decl">>, <<"acc", "rev">>, <<"acc", "rot">> }

CasesOf(pr) ==
    LET c == ClassIdx(RootOf(pr)) IN
    { cse \in { [c |-> c, mode |-> mp[1], pol |-> mp[2], val |-> v] : v \in GenStruct(c, 1, Params(pr)), mp \in ModePols }
        : WF(cse.mode, cse.c, cse.val) }

Init == \E pr \in Runs : \E cse \in CasesOf(pr) : PInit(cse)
Spec == Init /\ [][Next]_vars

ExportCases ==
    LET rs == SetToSeq(Runs)
        Exp(pr) == SetToSeq({ [c |-> cse.c, mode |-> cse.mode, pol |-> cse.pol, val |-> cse.val,
                               wire |-> EncStruct(cse.mode, cse.pol, cse.c, cse.val)] : cse \in CasesOf(pr) })
    IN /\ TLCGet("stats").generated >= 0
       /\ ndJsonSerialize(IOEnv.SCHEMA_OUT, Schemas)
       /\ ndJsonSerialize(IOEnv.CASES_OUT, Flat([k \in 1..Len(rs) |-> Exp(rs[k])]))
=============================================================================
