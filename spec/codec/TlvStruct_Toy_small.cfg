SPECIFICATION Spec
CONSTANTS FRAG = 3
  Runs = { "s_leaf", "s_ids4", "s_idsb2", "s_mid_a2", "s_mid_b2", "s_top2", "s_top_h", "s_mid_e", "s_top_e" }
CONSTANT SchemaSource = "toy"
INVARIANT StructRoundTrip
INVARIANT Canonical
INVARIANT OnBoundary

CHECK_DEADLOCK FALSE
