----------------------------- MODULE TlvStruct -----------------------------
(* Structured TLV8 messages (aiohomekit/tlv8.py): TLVStruct.encode / TLVStruct.decode with the
   per-type serialisers, tlv_iterator (fragment re-joining with look-ahead) and tlv_array (list
   splitting on separator items).

   Byte level.  A byte string is a sequence of 0..255.  A *schema* describes one TLVStruct class:
       Schemas[c] = [name |-> "...", fields |-> << field >>]
       field      = [name, tag, kind, w, be, inner, vals]
   kind: "int"    w-byte integer, little endian (be = 0) or big endian (be = 1)
         "enum"   1-byte IntEnum, member values vals
         "bytes" / "str"
         "struct" nested message of class inner
         "seq"    list of messages of class inner, joined by the zero-length separator item 00 00
         "ids"    packed list of w-byte integers (Sequence[u16]: linked services)
         "none"   annotation without a serialiser (float): the library cannot encode the field
   The schemas of the real classes are derived by reflection at check time and read from a file
   (SchemaSource = "file"); ToySchemas are generic ones that exercise every kind.

   A *value* of class c is a tuple with one entry per declared field: << >> (unset, None in the
   code) or << x >> where x is
       int / enum / bytes / str : the value's bytes (integers: least significant byte first)
       struct : a value of the inner class;  seq : a tuple of such values;  ids : a tuple of integers.

   Two producers are modelled.  mode = "lib" is TLVStruct.encode: fields in declaration order, a
   value that serialises to nothing is not emitted at all.  mode = "acc" is a conformant
   accessory: canonical TLV8 (an empty value is one empty fragment), fields in any order
   (policy "decl" / "rev" / "rot", applied at every nesting level).

   FRAG is 255 in the code and 3 in the exhaustive instantiation. *)
EXTENDS Naturals, Sequences, FiniteSets, TLC, Json, IOUtils

CONSTANTS FRAG,
          SchemaSource     \* "toy": the generic schemas below; "file": IOEnv.SCHEMA_FILE (real classes, by reflection)

F(name, tag, kind, w, be, inner, vals) ==
    [name |-> name, tag |-> tag, kind |-> kind, w |-> w, be |-> be, inner |-> inner, vals |-> vals]

\* generic schemas exercising every field kind, three levels of nesting, lists of messages, packed ids
ToySchemas == <<
    [name |-> "Leaf", rx |-> 1, fields |-> << F("a", 1, "int", 1, 0, 0, << >>),
                                              F("b", 2, "bytes", 0, 0, 0, << >>) >>],
    [name |-> "Ids",  rx |-> 1, fields |-> << F("p", 1, "int", 2, 0, 0, << >>),
                                              F("ids", 2, "ids", 2, 0, 0, << >>),
                                              F("q", 3, "int", 2, 1, 0, << >>) >>],
    [name |-> "Mid",  rx |-> 1, fields |-> << F("x", 1, "str", 0, 0, 0, << >>),
                                              F("kids", 2, "seq", 0, 0, 1, << >>),
                                              F("one", 3, "struct", 0, 0, 1, << >>),
                                              F("e", 4, "enum", 1, 0, 0, <<0, 1, 2>>) >>],
    [name |-> "Top",  rx |-> 1, fields |-> << F("m", 1, "seq", 0, 0, 3, << >>),
                                              F("w", 2, "int", 4, 0, 0, << >>),
                                              F("h", 3, "struct", 0, 0, 2, << >>),
                                              F("g", 4, "int", 8, 0, 0, << >>),
                                              F("u", 5, "int", 16, 0, 0, << >>) >>]
>>

\* a constant-level definition: TLC evaluates it once (a cfg substitution `Schemas <- ...` would be
\* re-evaluated, i.e. the file re-read, at every use)
Schemas == IF SchemaSource = "toy" THEN ToySchemas ELSE ndJsonDeserialize(IOEnv.SCHEMA_FILE)

Fields(c) == Schemas[c].fields
NF(c)     == Len(Fields(c))

Min2(a, b) == IF a < b THEN a ELSE b
Slice(bs, off, n) == SubSeq(bs, off + 1, Min2(off + n, Len(bs)))     \* python bs[off:][:n]
From(bs, off)     == SubSeq(bs, off + 1, Len(bs))                   \* python bs[off:]
Rev(s)            == [k \in 1..Len(s) |-> s[Len(s) + 1 - k]]
RECURSIVE Flat(_)
Flat(ss) == IF ss = << >> THEN << >> ELSE Head(ss) \o Flat(Tail(ss))

Order(policy, n) ==                                                  \* field order of a producer
    CASE policy = "decl" -> [k \in 1..n |-> k]
      [] policy = "rev"  -> [k \in 1..n |-> n + 1 - k]
      [] policy = "rot"  -> [k \in 1..n |-> (k % n) + 1]

\* ------------------------------------------------------------------ encoder
RECURSIVE Chunks(_, _)          \* TLVStruct.encode: `for offset in range(0, len(encoded), 255)`
Chunks(tag, v) ==
    IF Len(v) = 0 THEN << >>
    ELSE IF Len(v) <= FRAG THEN <<tag, Len(v)>> \o v
    ELSE <<tag, FRAG>> \o SubSeq(v, 1, FRAG) \o Chunks(tag, SubSeq(v, FRAG + 1, Len(v)))

RECURSIVE EncStruct(_, _, _, _), SerVal(_, _, _, _), JoinItems(_, _, _, _, _), EncOrd(_, _, _, _, _, _)

SerVal(mode, pol, f, x) ==      \* serialize_* : bytes of a set field
    CASE f.kind = "int"                     -> IF f.be = 1 THEN Rev(x) ELSE x
      [] f.kind \in {"enum", "bytes", "str"} -> x
      [] f.kind = "struct"                  -> EncStruct(mode, pol, f.inner, x)
      [] f.kind = "seq"                     -> JoinItems(mode, pol, f.inner, x, 1)
      [] f.kind = "ids"                     -> Flat([k \in 1..Len(x) |-> IF f.be = 1 THEN Rev(x[k]) ELSE x[k]])

JoinItems(mode, pol, c, xs, k) ==   \* serialize_typing_sequence: items joined by 00 00
    IF k > Len(xs) THEN << >>
    ELSE (IF k > 1 THEN <<0, 0>> ELSE << >>) \o EncStruct(mode, pol, c, xs[k]) \o JoinItems(mode, pol, c, xs, k + 1)

FieldBytes(mode, pol, f, opt) ==    \* one iteration of encode's loop over the dataclass fields
    IF opt = << >> THEN << >>
    ELSE LET v == SerVal(mode, pol, f, opt[1]) IN
         IF v = << >> /\ mode = "acc" THEN <<f.tag, 0>> ELSE Chunks(f.tag, v)

EncOrd(mode, pol, c, val, ord, k) ==
    IF k > Len(ord) THEN << >>
    ELSE FieldBytes(mode, pol, Fields(c)[ord[k]], val[ord[k]]) \o EncOrd(mode, pol, c, val, ord, k + 1)

EncStruct(mode, pol, c, val) == EncOrd(mode, pol, c, val, Order(pol, NF(c)), 1)

\* ------------------------------------------------------------------ decoder
RECURSIVE JoinFrom(_, _, _, _, _)   \* tlv_iterator's inner `while length == 255` look-ahead loop
JoinFrom(bs, off, t, n, v) ==
    IF n # FRAG THEN [off |-> off, n |-> n, v |-> v]
    ELSE LET peek == off + 2 + n IN
         IF peek >= Len(bs) THEN [off |-> off, n |-> n, v |-> v]
         ELSE IF bs[peek + 1] # t THEN [off |-> off, n |-> n, v |-> v]
         ELSE LET n2 == bs[peek + 2] IN JoinFrom(bs, peek, t, n2, v \o Slice(bs, peek + 2, n2))

TlvAt(bs, off) ==                   \* one iteration of tlv_iterator's outer loop
    LET t == bs[off + 1]
        n == bs[off + 2]
        j == JoinFrom(bs, off, t, n, Slice(bs, off + 2, n))
    IN [off |-> j.off, t |-> t, n |-> j.n, v |-> j.v, next |-> j.off + 2 + j.n]

RECURSIVE IterAll(_, _)
IterAll(bs, off) == IF off >= Len(bs) THEN << >> ELSE LET e == TlvAt(bs, off) IN <<e>> \o IterAll(bs, e.next)

RECURSIVE ArrFrom(_, _, _, _)       \* tlv_array: split on items of type 0
ArrFrom(bs, its, k, start) ==
    IF k > Len(its) THEN (IF start < Len(bs) THEN << From(bs, start) >> ELSE << >>)
    ELSE IF its[k].t = 0 THEN << SubSeq(bs, start + 1, its[k].off) >> \o ArrFrom(bs, its, k + 1, its[k].off + 2)
    ELSE ArrFrom(bs, its, k + 1, start)
TlvArray(bs) == ArrFrom(bs, IterAll(bs, 0), 1, 0)

RECURSIVE PackedFrom(_, _, _, _)    \* fixed-width elements back to back
PackedFrom(v, w, be, off) ==
    IF off >= Len(v) THEN << >>
    ELSE << IF be = 1 THEN Rev(Slice(v, off, w)) ELSE Slice(v, off, w) >> \o PackedFrom(v, w, be, off + w)

FieldIdx(c, t) ==                   \* _tlv_types: {tag: field}; a later field with the same tag wins
    LET S == { i \in 1..NF(c) : Fields(c)[i].tag = t } IN
    IF S = {} THEN 0 ELSE CHOOSE i \in S : \A j \in S : j <= i

RECURSIVE DecStruct(_, _), DesVal(_, _), DecFrom(_, _, _, _)

DesVal(f, v) ==                     \* deserialize_*
    CASE f.kind = "int"                     -> IF f.be = 1 THEN Rev(v) ELSE v
      [] f.kind \in {"enum", "bytes", "str"} -> v
      [] f.kind = "struct"                  -> DecStruct(f.inner, v)
      [] f.kind = "seq"                     -> LET a == TlvArray(v) IN [k \in 1..Len(a) |-> DecStruct(f.inner, a[k])]
      [] f.kind = "ids"                     -> PackedFrom(v, f.w, f.be, 0)

Assign(c, kw, e) ==                 \* body of decode's for loop for one re-joined item e
    LET i == FieldIdx(c, e.t) IN
    IF i = 0 \/ Fields(c)[i].kind = "none"
    THEN Assert(FALSE, <<"TlvParseException: unknown TLV type", e.t, Schemas[c].name>>)
    ELSE [kw EXCEPT ![i] = << DesVal(Fields(c)[i], e.v) >>]

DecFrom(c, bs, off, kw) ==
    IF off >= Len(bs) THEN kw
    ELSE LET e == TlvAt(bs, off) IN DecFrom(c, bs, e.next, Assign(c, kw, e))

Empty(c) == [k \in 1..NF(c) |-> << >>]
DecStruct(c, bs) == DecFrom(c, bs, 0, Empty(c))

\* ------------------------------------------------------------------ the property's domain
\* A list item without any field set encodes to zero bytes.  In first or middle position it is
\* carried by its separators (<nothing> 00 00 <B> is two items) and is part of the claim; as the LAST
\* item it cannot be told from no item (the list splitter ignores an empty tail), so the last item of
\* a list has a non-empty encoding.  On the library side a value that serialises to nothing is not
\* emitted at all and is not part of the claim (DESIGN 4.2).
RECURSIVE WF(_, _, _)
WFField(mode, f, x) ==
    /\ f.kind # "none"
    /\ f.kind = "struct" => WF(mode, f.inner, x)
    /\ f.kind = "seq" => /\ \A k \in 1..Len(x) : WF(mode, f.inner, x[k])
                         /\ Len(x) > 0 => EncStruct(mode, "decl", f.inner, x[Len(x)]) # << >>
    /\ mode = "lib" => SerVal(mode, "decl", f, x) # << >>
WF(mode, c, val) == \A i \in 1..NF(c) : val[i] # << >> => WFField(mode, Fields(c)[i], val[i][1])

\* ------------------------------------------------------------------ pipeline state machine
VARIABLES cs,      \* the case: [c, mode, pol, val]
          pc, i, wire, off, kw
vars == <<cs, pc, i, wire, off, kw>>

PInit(case) == /\ cs = case
               /\ pc = "enc" /\ i = 1 /\ wire = << >> /\ off = 0 /\ kw = Empty(case.c)

EncodeField ==           \* one iteration of encode's loop over fields(self)
    /\ pc = "enc" /\ i <= NF(cs.c)
    /\ LET k == Order(cs.pol, NF(cs.c))[i] IN
         wire' = wire \o FieldBytes(cs.mode, cs.pol, Fields(cs.c)[k], cs.val[k])
    /\ i' = i + 1
    /\ UNCHANGED <<cs, pc, off, kw>>

EncodeDone ==
    /\ pc = "enc" /\ i > NF(cs.c)
    /\ pc' = "dec"
    /\ UNCHANGED <<cs, i, wire, off, kw>>

DecodeItem ==            \* one iteration of decode's loop over tlv_iterator
    /\ pc = "dec" /\ off < Len(wire)
    /\ LET e == TlvAt(wire, off) IN
         /\ kw' = Assign(cs.c, kw, e)
         /\ off' = e.next
    /\ UNCHANGED <<cs, pc, i, wire>>

DecodeDone ==
    /\ pc = "dec" /\ off >= Len(wire)
    /\ pc' = "done"
    /\ UNCHANGED <<cs, i, wire, off, kw>>

Next == EncodeField \/ EncodeDone \/ DecodeItem \/ DecodeDone

\* ------------------------------------------------------------------ properties
\* decoding the encoding returns an equal message
StructRoundTrip == pc = "done" => kw = cs.val

\* raw fragments of a byte string: << [t, n] >> (no re-joining); the string must be exactly consumed
RECURSIVE RawFrags(_, _)
RawFrags(bs, o) ==
    IF o >= Len(bs) THEN << >>
    ELSE IF o + 2 > Len(bs) \/ o + 2 + bs[o + 2] > Len(bs) THEN << [t |-> 0 - 1, n |-> 0] >>      \* malformed
    ELSE << [t |-> bs[o + 1], n |-> bs[o + 2]] >> \o RawFrags(bs, o + 2 + bs[o + 2])

\* canonical TLV8 at one nesting level: fragments never exceed FRAG and only the last fragment of a
\* value may be short; the library emits no empty fragment and its fields appear in declaration order
TagPos(c, t) == FieldIdx(c, t)
CanonLevel(mode, c, bs) ==
    LET fr == RawFrags(bs, 0) IN
    /\ \A k \in 1..Len(fr) : fr[k].t >= 0 /\ fr[k].n <= FRAG /\ FieldIdx(c, fr[k].t) # 0
    /\ \A k \in 1..(Len(fr) - 1) : fr[k].t = fr[k + 1].t => fr[k].n = FRAG
    /\ mode = "lib" => \A k \in 1..Len(fr) : fr[k].n > 0
    /\ mode = "lib" => \A k \in 1..(Len(fr) - 1) :
            \/ fr[k].t = fr[k + 1].t
            \/ \E a, b \in 1..NF(c) : a < b /\ Fields(c)[a].tag = fr[k].t /\ Fields(c)[b].tag = fr[k + 1].t

\* list values of n items: exactly n - 1 zero-length separators (an item without fields leaves two
\* separators next to each other / a leading one), none trailing
SepCanon(bs, n) ==
    LET its == IterAll(bs, 0) IN
    /\ Cardinality({ k \in 1..Len(its) : its[k].t = 0 }) = (IF n = 0 THEN 0 ELSE n - 1)
    /\ \A k \in 1..Len(its) : its[k].t = 0 => its[k].n = 0
    /\ Len(its) > 0 => its[Len(its)].t # 0

RECURSIVE CanonDeep(_, _, _, _)
CanonDeep(mode, pol, c, val) ==
    /\ CanonLevel(mode, c, EncStruct(mode, pol, c, val))
    /\ \A k \in 1..NF(c) : val[k] # << >> =>
          LET f == Fields(c)[k]  x == val[k][1] IN
          /\ f.kind = "struct" => CanonDeep(mode, pol, f.inner, x)
          /\ f.kind = "seq" => /\ SepCanon(SerVal(mode, pol, f, x), Len(x))
                               /\ \A q \in 1..Len(x) : CanonDeep(mode, pol, f.inner, x[q])

Canonical == (pc = "dec" /\ off = 0) => /\ CanonLevel(cs.mode, cs.c, wire)
                                       /\ wire = EncStruct(cs.mode, cs.pol, cs.c, cs.val)
                                       /\ CanonDeep(cs.mode, cs.pol, cs.c, cs.val)

\* the decoder consumes the wire exactly: every item it takes starts on a fragment header
OnBoundary == pc = "dec" => off <= Len(wire)

\* ------------------------------------------------------------------ value generators (bounded models)
\* byte patterns: "pat" = position dependent, "zero" = looks like separators, "ff" = looks like
\* maximal-length headers; strings stay ASCII
Byte(fill, seed, k) == CASE fill = "pat"  -> (seed * 31 + k * 7) % 256
                         [] fill = "zero" -> 0
                         [] fill = "ff"   -> FRAG
                         [] fill = "txt"  -> 48 + ((seed + k) % 75)
Fill(fill, seed, n) == [k \in 1..n |-> Byte(fill, seed, k)]

RECURSIVE Prod(_, _)            \* cartesian product of a tuple of sets, as tuples
Prod(sets, k) == IF k = 0 THEN { << >> } ELSE { Append(p, x) : p \in Prod(sets, k - 1), x \in sets[k] }

RECURSIVE TuplesUpTo(_, _)      \* tuples over S with length in 0..n
TuplesOf(S, n) == Prod([k \in 1..n |-> S], n)
TuplesUpTo(S, n) == IF n = 0 THEN { << >> } ELSE TuplesUpTo(S, n - 1) \cup TuplesOf(S, n)
RECURSIVE TuplesRange(_, _, _)  \* lengths lo..hi  (no UNION: TLC's big union is quadratic)
TuplesRange(S, lo, hi) == IF lo > hi THEN {} ELSE TuplesRange(S, lo, hi - 1) \cup TuplesOf(S, hi)

\* generator of struct values.  P is a record of bounds, each a tuple indexed by nesting depth d (1 = root):
\*   lens / fills   lengths and byte patterns of bytes fields (str: lens, ASCII)      ifills  integer patterns
\*   cmin..counts   list lengths         idc / idbytes   packed id lists: 0..idc ids over these byte values
\*   en             number of enum members used (1 or 2)
\*   unset          kinds that may also be left unset       off   kinds that are always left unset
\* Nested messages / lists below depth P.depth are left unset.
RECURSIVE GenStruct(_, _, _)
GenSet(f, d, P) ==
    CASE f.kind \in P.off[d] -> {}
      [] f.kind = "int"    -> { Fill(fl, f.tag, f.w) : fl \in P.ifills[d] }
      [] f.kind = "enum"   -> IF P.en[d] = 1 THEN { <<f.vals[1]>> } ELSE { <<f.vals[1]>>, <<f.vals[Len(f.vals)]>> }
      [] f.kind = "bytes"  -> { Fill(fl, f.tag, n) : fl \in P.fills[d], n \in P.lens[d] }
      [] f.kind = "str"    -> { Fill("txt", f.tag, n) : n \in P.lens[d] }
      [] f.kind = "struct" -> IF d >= P.depth THEN {} ELSE GenStruct(f.inner, d + 1, P)
      [] f.kind = "seq"    -> IF d >= P.depth THEN {}
                              ELSE TuplesRange(GenStruct(f.inner, d + 1, P), P.cmin[d], P.counts[d])
      [] f.kind = "ids"    -> TuplesUpTo(TuplesOf(P.idbytes[d], f.w), P.idc[d])
      [] f.kind = "none"   -> {}
GenField(f, d, P) == (IF f.kind \in P.unset[d] \/ GenSet(f, d, P) = {} THEN { << >> } ELSE {}) \cup { <<x>> : x \in GenSet(f, d, P) }
GenStruct(c, d, P) == Prod([k \in 1..NF(c) |-> GenField(Fields(c)[k], d, P)], NF(c))

ALLK == {"int", "enum", "bytes", "str", "struct", "seq", "ids"}
VARK == {"bytes", "str", "struct", "seq", "ids"}
D3(x) == <<x, x, x>>
BaseP == [depth |-> 1, lens |-> D3({}), fills |-> D3({"pat"}), ifills |-> D3({"pat"}), cmin |-> D3(0), counts |-> D3(0),
          idc |-> D3(0), idbytes |-> D3({}), en |-> D3(2), unset |-> D3(ALLK), off |-> D3({})]
=============================================================================
