---------------------------- MODULE BleFrag_Cases ----------------------------
EXTENDS BleFrag, Json, IOUtils, SequencesExt
ExportCases ==
    /\ TLCGet("stats").generated >= 0
    /\ ndJsonSerialize(IOEnv.CASES_OUT,
          SetToSeq({ [l |-> l, f |-> f, le |-> le,
                      pieces |-> Plan(l, f, le),
                      outcome |-> IF Len(Plan(l, f, le)) > MAXR THEN "error" ELSE "done",
                      acks |-> Cardinality({i \in 1..Len(Plan(l, f, le)) : Plan(l, f, le)[i][1] = "data"})]
                     : l \in Lens, f \in FragSizes, le \in BOOLEAN }))
=============================================================================
