SPECIFICATION Spec
CONSTANTS FRAG = 255
  Runs = { "r_leaf", "r_ids4", "r_idsb2", "r_mid_a", "r_mid_b", "r_top", "r_top_h", "r_mid_e", "r_top_e" }
CONSTANT SchemaSource = "toy"
INVARIANT StructRoundTrip
INVARIANT Canonical
INVARIANT OnBoundary
POSTCONDITION ExportCases
CHECK_DEADLOCK FALSE
