SPECIFICATION Spec
CONSTANTS Alphabet = {0, 1, 2, 3, 6, 7, 255}  MaxLen = 5  Expected = {6, 7, 3}
INVARIANT Conservation
INVARIANT Total
INVARIANT NoMergeAcrossTypes
POSTCONDITION ExportCases
CHECK_DEADLOCK FALSE
