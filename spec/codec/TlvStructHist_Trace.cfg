SPECIFICATION TSpec
CONSTANTS FRAG = 255  Memo = FALSE  MaxDec = 0  MaxMut = 0  Msgs = {}
CONSTANT SchemaSource = "file"
INVARIANT ObservationConforms
POSTCONDITION ExportVerdicts
CHECK_DEADLOCK FALSE
