SPECIFICATION Spec
CONSTANTS FRAG = 255
  Lens = {1, 2, 254, 255, 256, 257, 509, 510, 511, 765, 766}
  Sweep = {225, 226, 227, 228, 229, 230, 231, 232, 233, 234, 235, 236, 237, 238, 239, 240, 241, 242, 243, 244, 245, 246, 247, 248, 249, 250, 251, 252, 253, 254, 255, 256, 480, 481, 482, 483, 484, 485, 486, 487, 488, 489, 490, 491, 492, 493, 494, 495, 496, 497, 498, 499, 500, 501, 502, 503, 504, 505, 506, 507, 508, 509, 510, 511}
  PairLens = {254, 255, 256, 510, 511}
  Depth = 8
  MaxIds = 6
CONSTANT SchemaSource = "file"
INVARIANT Canonical
INVARIANT OnBoundary
POSTCONDITION ExportCases
CHECK_DEADLOCK FALSE
