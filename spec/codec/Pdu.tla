------------------------------- MODULE Pdu -------------------------------
(* HAP PDUs on BLE and CoAP (aiohomekit/pdu.py, controller/ble/client.py _write_pdu/_read_pdu,
   controller/ble/key.py, controller/coap/pdu.py, result mapping of controller/coap/connection.py).

   Three machines, selected by the case record cs (cs.part):

   "req"   BLE request.  encode_pdu cuts a body of n bytes for a plaintext fragment size p: a 5-byte
           header alone when the body is empty, otherwise 7 header bytes (control 0, opcode, tid,
           iid LE16, body length LE16) + up to p-7 bytes, then continuation fragments of 2 header
           bytes (control 0x80, tid) + up to p-2 bytes.  With a session key every fragment is one AEAD
           message (+16) under consecutive counters; the negotiated (on-air) size is p + 16.  A
           conformant accessory (AccRecv) opens the writes in order under its own counter and
           reassembles them.
   "resp"  BLE response.  The accessory fragments (status, body of m bytes) as it likes (cs.split:
           bytes carried by the first fragment, >= 0, and by each continuation, >= 1); the reader is
           _read_pdu: header, then continuations until the declared length is there.  Faults: wrong
           transaction id in the first / a continuation fragment, continuation flag missing.
   "coap"  CoAP batch.  Request item i carries transaction id i-1; the accessory answers item by item
           (control, tid, status, LE16 length, body); decode_all_pdus walks the concatenation with
           offset += 5 + length and classifies every item.

   Content independent: bodies are byte ranges [lo, len]; header fields that the code copies
   (opcode, iid) are checked by the conformance harness, the model carries "as sent" flags. *)
EXTENDS Naturals, Sequences, FiniteSets, TLC

TAG       == 16      \* Poly1305 tag: KEY_OVERHEAD_SIZE
HDR_FIRST == 7       \* control, opcode, tid, iid(2), body length(2)
HDR_EMPTY == 5       \* the same without body length
HDR_CONT  == 2       \* control 0x80, tid
RSP_HDR   == 5       \* control, tid, status, body length(2)
RSP_SHORT == 3       \* control, tid, status          (response without body)
COAP_HDR  == 5       \* control, tid, status, body length(2)

Min(a, b) == IF a < b THEN a ELSE b
RECURSIVE SumLen(_, _)
SumLen(s, k) == IF k = 0 THEN 0 ELSE SumLen(s, k - 1) + s[k].len
\* ranges << [lo, len] >> that tile 0..n in order
Contig(rs, n) ==
    /\ SumLen(rs, Len(rs)) = n
    /\ \A k \in 1..Len(rs) : rs[k].lo = SumLen(rs, k - 1)

VARIABLES cs,        \* the case
          pc,
          frags,     \* req: fragments produced so far: [hdr, ctl, lo, len, declared, ctr, tidok, idok, alen]
          eoff,      \* req: body bytes already cut
          kctr,      \* req: EncryptionKey.counter / resp: DecryptionKey.counter
          air,       \* req: GATT writes so far: [len (bytes on air), frag]
          acc,       \* req: the accessory's reassembly state
          rd,        \* resp: the reader's state
          co         \* coap: request tids, decoder state
vars == <<cs, pc, frags, eoff, kctr, air, acc, rd, co>>

NullAcc == [next |-> 1, ctr |-> 0, phase |-> "idle", declared |-> 0, got |-> << >>, ok |-> TRUE]
NullRd  == [next |-> 1, status |-> 0, expected |-> 0, got |-> << >>]
NullCo  == [req |-> << >>, off |-> 0, idx |-> 0, res |-> << >>]

\* ====================================================================== BLE request
ReqInit(case) ==
    /\ cs = case /\ pc = "first" /\ frags = << >> /\ eoff = 0 /\ kctr = case.ctr0 /\ air = << >>
    /\ acc = [NullAcc EXCEPT !.ctr = case.ctr0] /\ rd = NullRd /\ co = NullCo

Frag(hdr, ctl, lo, len, declared) ==
    [hdr |-> hdr, ctl |-> ctl, lo |-> lo, len |-> len, declared |-> declared,
     ctr |-> IF cs.enc = 1 THEN kctr ELSE 0, tidok |-> TRUE, idok |-> TRUE,
     alen |-> hdr + len + TAG * cs.enc]                      \* bytes on the air: one AEAD message per fragment

EncFirst ==              \* encode_pdu up to its first yield (+ encryption_key.encrypt in _write_pdu's loop)
    /\ cs.part = "req" /\ pc = "first"
    /\ IF cs.n = 0
       THEN /\ frags' = << Frag(HDR_EMPTY, 0, 0, 0, 0) >>
            /\ eoff' = 0 /\ pc' = "write"
       ELSE LET k == Min(cs.n, cs.p - HDR_FIRST) IN
            /\ frags' = << Frag(HDR_FIRST, 0, 0, k, cs.n) >>
            /\ eoff' = k /\ pc' = "cont"
    /\ kctr' = kctr + cs.enc
    /\ UNCHANGED <<cs, air, acc, rd, co>>

EncCont ==               \* one iteration of encode_pdu's for loop
    /\ cs.part = "req" /\ pc = "cont" /\ eoff < cs.n
    /\ LET k == Min(cs.n - eoff, cs.p - HDR_CONT) IN
         /\ frags' = Append(frags, Frag(HDR_CONT, 128, eoff, k, 0))
         /\ eoff' = eoff + k
    /\ kctr' = kctr + cs.enc
    /\ UNCHANGED <<cs, pc, air, acc, rd, co>>

EncDone ==
    /\ cs.part = "req" /\ pc = "cont" /\ eoff = cs.n
    /\ pc' = "write"
    /\ UNCHANGED <<cs, frags, eoff, kctr, air, acc, rd, co>>

Write ==                 \* one iteration of _write_pdu's `for write in writes`
    /\ cs.part = "req" /\ pc = "write" /\ Len(air) < Len(frags)
    /\ LET k == Len(air) + 1 IN
         air' = Append(air, [len |-> frags[k].alen, frag |-> k])
    /\ UNCHANGED <<cs, pc, frags, eoff, kctr, acc, rd, co>>

WriteDone ==
    /\ cs.part = "req" /\ pc = "write" /\ Len(air) = Len(frags)
    /\ pc' = "sent"
    /\ UNCHANGED <<cs, frags, eoff, kctr, air, acc, rd, co>>

\* a conformant accessory takes the next write
AccStep(a, f) ==
    LET opened == (cs.enc = 0) \/ (f.ctr = a.ctr)           \* AEAD opens only under the expected counter
        a1 == [a EXCEPT !.next = @ + 1, !.ctr = @ + cs.enc]
        bad == [a1 EXCEPT !.ok = FALSE]
    IN IF ~opened THEN bad
       ELSE IF a.phase = "idle" THEN
            IF f.ctl # 0 \/ ~f.idok THEN bad
            ELSE IF f.hdr = HDR_EMPTY /\ f.len = 0 THEN [a1 EXCEPT !.phase = "complete", !.declared = 0]
            ELSE IF f.hdr # HDR_FIRST \/ f.len > f.declared THEN bad
            ELSE [a1 EXCEPT !.declared = f.declared, !.got = << [lo |-> f.lo, len |-> f.len] >>,
                            !.phase = IF f.len = f.declared THEN "complete" ELSE "more"]
       ELSE IF a.phase = "more" THEN
            IF f.ctl # 128 \/ f.hdr # HDR_CONT \/ ~f.tidok \/ SumLen(a.got, Len(a.got)) + f.len > a.declared THEN bad
            ELSE [a1 EXCEPT !.got = Append(@, [lo |-> f.lo, len |-> f.len]),
                            !.phase = IF SumLen(a.got, Len(a.got)) + f.len = a.declared THEN "complete" ELSE "more"]
       ELSE bad                                              \* a fragment after the body was complete

AccRecv ==
    /\ cs.part = "req" /\ acc.next <= Len(air)
    /\ acc' = AccStep(acc, frags[air[acc.next].frag])
    /\ UNCHANGED <<cs, pc, frags, eoff, kctr, air, rd, co>>

ReqDone ==
    /\ cs.part = "req" /\ pc = "sent" /\ acc.next > Len(air)
    /\ pc' = "done"
    /\ UNCHANGED <<cs, frags, eoff, kctr, air, acc, rd, co>>

\* ---------------------------------------------------------------------- properties (request)
\* no write is larger than the negotiated size
BleFragmentSize == cs.part = "req" => \A k \in 1..Len(air) : air[k].len <= cs.p + TAG * cs.enc
\* a conformant accessory reassembles the request: same header, declared length, body
BleReassembly ==
    (cs.part = "req" /\ pc = "done") =>
        /\ acc.ok /\ acc.phase = "complete"
        /\ acc.declared = cs.n
        /\ Contig(acc.got, cs.n)
\* every continuation fragment carries data (no busy writes)
NoEmptyContinuation == cs.part = "req" => \A k \in 1..Len(frags) : frags[k].hdr = HDR_CONT => frags[k].len >= 1

\* ====================================================================== BLE response
\* cs = [part "resp", m, st, short (1: 3-byte header, only with m = 0), split, fault, fpos, enc, ctr0]
\* fragment k of the accessory: k = 1 first (header + split[1] bytes), k > 1 continuation
RespInit(case) ==
    /\ cs = case /\ pc = "first" /\ frags = << >> /\ eoff = 0 /\ kctr = case.ctr0 /\ air = << >>
    /\ acc = NullAcc /\ rd = NullRd /\ co = NullCo

NFrags == Len(cs.split)
TidWrong(k)  == (cs.fault = "tid_first" /\ k = 1) \/ (cs.fault = "tid_cont" /\ k = cs.fpos)
FlagMissing(k) == cs.fault = "flag_cont" /\ k = cs.fpos
Lo(k) == LET RECURSIVE S(_)
             S(j) == IF j = 0 THEN 0 ELSE S(j - 1) + cs.split[j]
         IN S(k - 1)

ReadFirst ==             \* _read_pdu: read, decrypt, decode_pdu
    /\ cs.part = "resp" /\ pc = "first"
    /\ kctr' = kctr + cs.enc
    /\ IF TidWrong(1) THEN /\ pc' = "rejected" /\ rd' = [rd EXCEPT !.next = 2]
       ELSE LET declared == IF cs.short = 1 THEN 0 ELSE cs.m
                got == IF cs.short = 1 THEN << >> ELSE << [lo |-> 0, len |-> cs.split[1]] >>
            IN /\ rd' = [next |-> 2, status |-> cs.st, expected |-> declared, got |-> got]
               /\ pc' = IF SumLen(got, Len(got)) < declared THEN "more" ELSE "done"
    /\ UNCHANGED <<cs, frags, eoff, air, acc, co>>

ReadCont ==              \* one iteration of `while len(data) < expected_length`
    /\ cs.part = "resp" /\ pc = "more"
    /\ rd.next <= NFrags                  \* the accessory has another fragment (otherwise the read blocks)
    /\ kctr' = kctr + cs.enc
    /\ LET k == rd.next IN
       IF FlagMissing(k) \/ TidWrong(k) THEN /\ pc' = "rejected" /\ rd' = [rd EXCEPT !.next = k + 1]
       ELSE LET got == Append(rd.got, [lo |-> Lo(k), len |-> cs.split[k]]) IN
            /\ rd' = [rd EXCEPT !.next = k + 1, !.got = got]
            /\ pc' = IF SumLen(got, Len(got)) < rd.expected THEN "more" ELSE "done"
    /\ UNCHANGED <<cs, frags, eoff, air, acc, co>>

\* ---------------------------------------------------------------------- properties (response)
BleResponse ==
    cs.part = "resp" =>
        /\ pc = "done" => /\ cs.fault = "none"
                          /\ rd.status = cs.st
                          /\ Contig(rd.got, cs.m)
                          /\ rd.next = NFrags + 1                  \* every fragment consumed, none left behind
                          /\ kctr = cs.ctr0 + cs.enc * NFrags      \* one AEAD counter per fragment
        /\ pc = "rejected" => cs.fault # "none"                    \* only faulty responses are rejected
        /\ (pc = "more" /\ rd.next > NFrags) => FALSE              \* the reader never waits for a fragment that is not coming

\* ====================================================================== CoAP batch
\* cs = [part "coap", items]; item = [oc ("ok" | "err" | "tid" | "ctl"), s (status), len]
CoapInit(case) ==
    /\ cs = case /\ pc = "encode" /\ frags = << >> /\ eoff = 0 /\ kctr = 0 /\ air = << >>
    /\ acc = NullAcc /\ rd = NullRd /\ co = NullCo

NItems == Len(cs.items)

CoapEncodeItem ==        \* encode_all_pdus: enumerate(zip(iids, data)) -> tid = index
    /\ cs.part = "coap" /\ pc = "encode" /\ Len(co.req) < NItems
    /\ co' = [co EXCEPT !.req = Append(@, Len(co.req))]
    /\ UNCHANGED <<cs, pc, frags, eoff, kctr, air, acc, rd>>

CoapEncodeDone ==
    /\ cs.part = "coap" /\ pc = "encode" /\ Len(co.req) = NItems
    /\ pc' = "decode"
    /\ UNCHANGED <<cs, frags, eoff, kctr, air, acc, rd, co>>

\* the accessory's answer to request item i: it echoes the transaction id it received
ItemStart(i) == LET RECURSIVE S(_)
                    S(j) == IF j = 0 THEN 0 ELSE S(j - 1) + COAP_HDR + cs.items[j].len
                IN S(i - 1)
RespTotal == ItemStart(NItems + 1)
RespTid(i)  == IF cs.items[i].oc = "tid" THEN (co.req[i] + 1) % 256 ELSE co.req[i]
RespCtlOk(i) == cs.items[i].oc # "ctl"
RespStatus(i) == IF cs.items[i].oc = "err" THEN cs.items[i].s ELSE 0
ItemAt(off) == IF \E i \in 1..NItems : ItemStart(i) = off THEN CHOOSE i \in 1..NItems : ItemStart(i) = off ELSE 0

CoapDecodeItem ==        \* one iteration of decode_all_pdus' loop (decode_pdu + offset arithmetic)
    /\ cs.part = "coap" /\ pc = "decode"
    /\ LET i == ItemAt(co.off) IN
       IF i = 0 THEN /\ pc' = "lost" /\ co' = co              \* the walk left the item boundaries
       ELSE LET r == IF RespTid(i) # co.idx THEN [k |-> "tid", s |-> 256, item |-> 0, len |-> 0]
                     ELSE IF RespStatus(i) # 0 THEN [k |-> "err", s |-> RespStatus(i), item |-> 0, len |-> 0]
                     ELSE IF ~RespCtlOk(i) THEN [k |-> "ctl", s |-> 257, item |-> 0, len |-> 0]
                     ELSE [k |-> "ok", s |-> 0, item |-> i, len |-> cs.items[i].len]
                noff == co.off + COAP_HDR + cs.items[i].len
            IN /\ co' = [co EXCEPT !.res = Append(@, r), !.idx = @ + 1, !.off = noff]
               /\ pc' = IF noff >= RespTotal THEN "done" ELSE "decode"
    /\ UNCHANGED <<cs, frags, eoff, kctr, air, acc, rd>>

\* what the property demands for item i, from the outcome class alone
Expected(i) ==
    LET it == cs.items[i] IN
    CASE it.oc = "ok"  -> [k |-> "ok", s |-> 0, item |-> i, len |-> it.len]
      [] it.oc = "err" -> [k |-> "err", s |-> it.s, item |-> 0, len |-> 0]
      [] it.oc = "tid" -> [k |-> "tid", s |-> 256, item |-> 0, len |-> 0]
      [] it.oc = "ctl" -> [k |-> "ctl", s |-> 257, item |-> 0, len |-> 0]

\* ---------------------------------------------------------------------- properties (CoAP)
CoapAttribution ==
    cs.part = "coap" =>
        /\ pc # "lost"
        /\ pc = "done" => /\ Len(co.res) = NItems
                          /\ \A i \in 1..NItems : co.res[i] = Expected(i)
        \* the i-th result is produced from the i-th item, whatever happened before
        /\ pc = "decode" => /\ Len(co.res) < NItems
                            /\ co.off = ItemStart(Len(co.res) + 1)

\* ======================================================================
Next == \/ EncFirst \/ EncCont \/ EncDone \/ Write \/ WriteDone \/ AccRecv \/ ReqDone
        \/ ReadFirst \/ ReadCont
        \/ CoapEncodeItem \/ CoapEncodeDone \/ CoapDecodeItem

\* ====================================================================== bounded case spaces
RECURSIVE Compositions(_)       \* all tuples of positive numbers summing to m
Compositions(m) == IF m = 0 THEN { << >> }
                   ELSE UNION { { <<k>> \o c : c \in Compositions(m - k) } : k \in 1..m }
\* response fragmentations of a body of m bytes: the first fragment may carry no body byte
Splits(m) == { <<0>> \o c : c \in Compositions(m) } \cup (IF m > 0 THEN Compositions(m) ELSE {})

\* accessory fragment size q: first fragment carries min(m, q - 5), continuations q - 2
RECURSIVE ChunksOf(_, _)
ChunksOf(rest, sz) == IF rest = 0 THEN << >> ELSE << Min(rest, sz) >> \o ChunksOf(rest - Min(rest, sz), sz)
SplitBy(m, q) == << Min(m, q - RSP_HDR) >> \o ChunksOf(m - Min(m, q - RSP_HDR), q - HDR_CONT)

Faults(split) ==
    { [fault |-> "none", fpos |-> 0], [fault |-> "tid_first", fpos |-> 1] }
    \cup { [fault |-> f, fpos |-> k] : f \in {"tid_cont", "flag_cont"}, k \in 2..Len(split) }
=============================================================================
