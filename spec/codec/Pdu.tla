------------------------------- MODULE Pdu -------------------------------
(* HAP PDUs on BLE and CoAP (aiohomekit/pdu.py, controller/ble/client.py _write_pdu/_read_pdu,
   controller/ble/key.py, controller/coap/pdu.py, result mapping of controller/coap/connection.py).

   Three machines, selected by the case record cs (cs.part):

   "req"   BLE request.  encode_pdu cuts a body of n bytes for a plaintext fragment size p: a 5-byte
           header alone when the body is empty, otherwise 7 header bytes (control 0, opcode, tid,
           iid LE16, body length LE16) + up to p-7 bytes, then continuation fragments of 2 header
           bytes (control 0x80, tid) + up to p-2 bytes.  With a session key every fragment is one AEAD
           message (+16) under consecutive counters; the negotiated (on-air) size is p + 16.  A
           conformant accessory (AccRecv) opens the writes in order under its own counter and
           reassembles them.
   "resp"  BLE response.  The accessory fragments (status, body of m bytes) as it likes (cs.split:
           bytes carried by the first fragment, >= 0, and by each continuation, >= 1); the reader is
           _read_pdu: header, then continuations until the declared length is there.  Faults: wrong
           transaction id in the first / a continuation fragment, continuation flag missing.
   "coap"  CoAP batch.  Request item i carries transaction id i-1; the accessory answers item by item
           (control, tid, status, LE16 length, body); decode_all_pdus walks the concatenation with
           offset += 5 + length and classifies every item.  The caller's list may name the same
           characteristic more than once (cs.ids: the equality pattern of the requested ids, << >> =
           all distinct): the _..._exit functions of the connection fold the result vector into a
           dictionary keyed by characteristic (CoapMapItem).

   Content independent: bodies are byte ranges [lo, len]; header fields that the code copies
   (opcode, iid) are checked by the conformance harness, the model carries "as sent" flags.
   Every action is one application of a pure step operator (AccStep, RdStep, CoStep) so that the
   trace module can also evaluate whole runs as functions. *)
EXTENDS Naturals, Sequences, FiniteSets, TLC

TAG       == 16      \* Poly1305 tag: KEY_OVERHEAD_SIZE
HDR_FIRST == 7       \* control, opcode, tid, iid(2), body length(2)
HDR_EMPTY == 5       \* the same without body length
HDR_CONT  == 2       \* control 0x80, tid
RSP_HDR   == 5       \* control, tid, status, body length(2)
RSP_SHORT == 3       \* control, tid, status          (response without body)
COAP_HDR  == 5       \* control, tid, status, body length(2)

Min(a, b) == IF a < b THEN a ELSE b
RECURSIVE SumLen(_, _)
SumLen(s, k) == IF k = 0 THEN 0 ELSE SumLen(s, k - 1) + s[k].len
RECURSIVE TilesFrom(_, _, _)      \* ranges << [lo, len] >> that tile 0..n in order
TilesFrom(rs, k, at) == IF k > Len(rs) THEN at ELSE IF rs[k].lo # at THEN 0 - 1 ELSE TilesFrom(rs, k + 1, at + rs[k].len)
Contig(rs, n) == TilesFrom(rs, 1, 0) = n

VARIABLES cs,        \* the case
          pc,
          frags,     \* req: fragments produced so far: [hdr, ctl, lo, len, declared, ctr, tidok, idok, alen]
          eoff,      \* req: body bytes already cut
          kctr,      \* req: EncryptionKey.counter / resp: DecryptionKey.counter
          air,       \* req: GATT writes so far: [len (bytes on air), frag]
          acc,       \* req: the accessory's reassembly state
          rd,        \* resp: the reader's state
          co         \* coap: request tids, decoder state
vars == <<cs, pc, frags, eoff, kctr, air, acc, rd, co>>

NullAcc == [next |-> 1, ctr |-> 0, phase |-> "idle", declared |-> 0, have |-> 0, got |-> << >>, ok |-> TRUE]
NullRd  == [next |-> 1, status |-> 0, expected |-> 0, have |-> 0, got |-> << >>]
NullCo  == [req |-> << >>, off |-> 0, idx |-> 0, res |-> << >>, mi |-> 1, map |-> << >>]

\* ====================================================================== BLE request
ReqInit(case) ==
    /\ cs = case /\ pc = "first" /\ frags = << >> /\ eoff = 0 /\ kctr = case.ctr0 /\ air = << >>
    /\ acc = [NullAcc EXCEPT !.ctr = case.ctr0] /\ rd = NullRd /\ co = NullCo

Frag(hdr, ctl, lo, len, declared) ==
    [hdr |-> hdr, ctl |-> ctl, lo |-> lo, len |-> len, declared |-> declared,
     ctr |-> IF cs.enc = 1 THEN kctr ELSE 0, tidok |-> TRUE, idok |-> TRUE,
     alen |-> hdr + len + TAG * cs.enc]                      \* bytes on the air: one AEAD message per fragment

EncFirst ==              \* encode_pdu up to its first yield (+ encryption_key.encrypt in _write_pdu's loop)
    /\ cs.part = "req" /\ pc = "first"
    /\ IF cs.n = 0
       THEN /\ frags' = << Frag(HDR_EMPTY, 0, 0, 0, 0) >>
            /\ eoff' = 0 /\ pc' = "write"
       ELSE LET k == Min(cs.n, cs.p - HDR_FIRST) IN
            /\ frags' = << Frag(HDR_FIRST, 0, 0, k, cs.n) >>
            /\ eoff' = k /\ pc' = "cont"
    /\ kctr' = kctr + cs.enc
    /\ UNCHANGED <<cs, air, acc, rd, co>>

EncCont ==               \* one iteration of encode_pdu's for loop
    /\ cs.part = "req" /\ pc = "cont" /\ eoff < cs.n
    /\ LET k == Min(cs.n - eoff, cs.p - HDR_CONT) IN
         /\ frags' = Append(frags, Frag(HDR_CONT, 128, eoff, k, 0))
         /\ eoff' = eoff + k
    /\ kctr' = kctr + cs.enc
    /\ UNCHANGED <<cs, pc, air, acc, rd, co>>

EncDone ==
    /\ cs.part = "req" /\ pc = "cont" /\ eoff = cs.n
    /\ pc' = "write"
    /\ UNCHANGED <<cs, frags, eoff, kctr, air, acc, rd, co>>

Write ==                 \* one iteration of _write_pdu's `for write in writes`
    /\ cs.part = "req" /\ pc = "write" /\ Len(air) < Len(frags)
    /\ LET k == Len(air) + 1 IN
         air' = Append(air, [len |-> frags[k].alen, frag |-> k])
    /\ UNCHANGED <<cs, pc, frags, eoff, kctr, acc, rd, co>>

WriteDone ==
    /\ cs.part = "req" /\ pc = "write" /\ Len(air) = Len(frags)
    /\ pc' = "sent"
    /\ UNCHANGED <<cs, frags, eoff, kctr, air, acc, rd, co>>

\* a conformant accessory takes the next write
AccStep(c, a, f) ==
    LET opened == (c.enc = 0) \/ (f.ctr = a.ctr)           \* AEAD opens only under the expected counter
        a1 == [a EXCEPT !.next = @ + 1, !.ctr = @ + c.enc]
        bad == [a1 EXCEPT !.ok = FALSE]
    IN IF ~opened THEN bad
       ELSE IF a.phase = "idle" THEN
            IF f.ctl # 0 \/ ~f.idok THEN bad
            ELSE IF f.hdr = HDR_EMPTY /\ f.len = 0 THEN [a1 EXCEPT !.phase = "complete", !.declared = 0]
            ELSE IF f.hdr # HDR_FIRST \/ f.len > f.declared THEN bad
            ELSE [a1 EXCEPT !.declared = f.declared, !.have = f.len, !.got = << [lo |-> f.lo, len |-> f.len] >>,
                            !.phase = IF f.len = f.declared THEN "complete" ELSE "more"]
       ELSE IF a.phase = "more" THEN
            IF f.ctl # 128 \/ f.hdr # HDR_CONT \/ ~f.tidok \/ a.have + f.len > a.declared THEN bad
            ELSE [a1 EXCEPT !.got = Append(@, [lo |-> f.lo, len |-> f.len]), !.have = @ + f.len,
                            !.phase = IF a.have + f.len = a.declared THEN "complete" ELSE "more"]
       ELSE bad                                              \* a fragment after the body was complete

AccRecv ==
    /\ cs.part = "req" /\ acc.next <= Len(air)
    /\ acc' = AccStep(cs, acc, frags[air[acc.next].frag])
    /\ UNCHANGED <<cs, pc, frags, eoff, kctr, air, rd, co>>

ReqDone ==
    /\ cs.part = "req" /\ pc = "sent" /\ acc.next > Len(air)
    /\ pc' = "done"
    /\ UNCHANGED <<cs, frags, eoff, kctr, air, acc, rd, co>>

AccAccepts(c, a) == a.ok /\ a.phase = "complete" /\ a.declared = c.n /\ Contig(a.got, c.n)

\* ---------------------------------------------------------------------- properties (request)
\* no write is larger than the negotiated size
BleFragmentSize == cs.part = "req" => \A k \in 1..Len(air) : air[k].len <= cs.p + TAG * cs.enc
\* a conformant accessory reassembles the request: same header, declared length, body
BleReassembly == (cs.part = "req" /\ pc = "done") => AccAccepts(cs, acc)
\* every continuation fragment carries data (no busy writes)
NoEmptyContinuation == cs.part = "req" => \A k \in 1..Len(frags) : frags[k].hdr = HDR_CONT => frags[k].len >= 1

\* ====================================================================== BLE response
\* cs = [part "resp", m, st, short (1: 3-byte header, only with m = 0), split, fault, fpos, enc, ctr0]
\* fragment k of the accessory: k = 1 first (header + split[1] bytes), k > 1 continuation
RespInit(case) ==
    /\ cs = case /\ pc = "first" /\ frags = << >> /\ eoff = 0 /\ kctr = case.ctr0 /\ air = << >>
    /\ acc = NullAcc /\ rd = NullRd /\ co = NullCo

RECURSIVE SplitLo(_, _)           \* position in the accessory's body of the bytes carried by fragment k
SplitLo(c, k) == IF k = 1 THEN 0 ELSE SplitLo(c, k - 1) + c.split[k - 1]
TidWrong(c, k)    == (c.fault = "tid_first" /\ k = 1) \/ (c.fault = "tid_cont" /\ k = c.fpos)
FlagMissing(c, k) == c.fault = "flag_cont" /\ k = c.fpos

\* the reader: r = [pc, kctr, rd]
RdStep(c, r) ==
    IF r.pc = "first" THEN                \* _read_pdu: read, decrypt, decode_pdu
        IF TidWrong(c, 1) THEN [pc |-> "rejected", kctr |-> r.kctr + c.enc, rd |-> [r.rd EXCEPT !.next = 2]]
        ELSE LET declared == IF c.short = 1 THEN 0 ELSE c.m
                 n1 == IF c.short = 1 THEN 0 ELSE c.split[1]
             IN [pc |-> IF n1 < declared THEN "more" ELSE "done", kctr |-> r.kctr + c.enc,
                 rd |-> [next |-> 2, status |-> c.st, expected |-> declared, have |-> n1,
                         got |-> IF c.short = 1 THEN << >> ELSE << [lo |-> 0, len |-> n1] >>]]
    ELSE                                   \* one iteration of `while len(data) < expected_length`
        LET k == r.rd.next IN
        IF FlagMissing(c, k) \/ TidWrong(c, k) THEN [pc |-> "rejected", kctr |-> r.kctr + c.enc, rd |-> [r.rd EXCEPT !.next = k + 1]]
        ELSE [pc |-> IF r.rd.have + c.split[k] < r.rd.expected THEN "more" ELSE "done", kctr |-> r.kctr + c.enc,
              rd |-> [r.rd EXCEPT !.next = k + 1, !.have = @ + c.split[k],
                                  !.got = Append(@, [lo |-> SplitLo(c, k), len |-> c.split[k]])]]
RdEnabled(c, r) == r.pc = "first" \/ (r.pc = "more" /\ r.rd.next <= Len(c.split))   \* otherwise the read blocks

Read ==
    /\ cs.part = "resp" /\ RdEnabled(cs, [pc |-> pc, kctr |-> kctr, rd |-> rd])
    /\ LET r == RdStep(cs, [pc |-> pc, kctr |-> kctr, rd |-> rd]) IN
         pc' = r.pc /\ kctr' = r.kctr /\ rd' = r.rd
    /\ UNCHANGED <<cs, frags, eoff, air, acc, co>>

\* ---------------------------------------------------------------------- properties (response)
BleResponse ==
    cs.part = "resp" =>
        /\ pc = "done" => /\ cs.fault = "none"
                          /\ rd.status = cs.st
                          /\ Contig(rd.got, cs.m)
                          /\ rd.next = Len(cs.split) + 1                  \* every fragment consumed, none left behind
                          /\ kctr = cs.ctr0 + cs.enc * Len(cs.split)      \* one AEAD counter per fragment
        /\ pc = "rejected" => cs.fault # "none"                           \* only faulty responses are rejected
        /\ pc = "more" => rd.next <= Len(cs.split)                        \* the reader never waits for a fragment that is not coming

\* ====================================================================== CoAP batch
\* cs = [part "coap", items, ids, api]; item = [oc ("ok" | "err" | "tid" | "ctl"), s (status), len];
\* ids[i] = label of the characteristic item i asks for (equal labels = same characteristic), << >> = not mapped;
\* api = "read" (every characteristic gets an entry) | "other" (write / subscribe / unsubscribe: only failures get one)
NLabels(c) == IF c.ids = << >> THEN 0 ELSE CHOOSE m \in 1..Len(c.ids) : (\E i \in 1..Len(c.ids) : c.ids[i] = m) /\ \A i \in 1..Len(c.ids) : c.ids[i] <= m
CoapInit(case) ==
    /\ cs = case /\ pc = "encode" /\ frags = << >> /\ eoff = 0 /\ kctr = 0 /\ air = << >>
    /\ acc = NullAcc /\ rd = NullRd /\ co = [NullCo EXCEPT !.map = [l \in 1..NLabels(case) |-> << >>]]

CoapEncodeItem ==        \* encode_all_pdus: enumerate(zip(iids, data)) -> tid = index
    /\ cs.part = "coap" /\ pc = "encode" /\ Len(co.req) < Len(cs.items)
    /\ co' = [co EXCEPT !.req = Append(@, Len(co.req))]
    /\ UNCHANGED <<cs, pc, frags, eoff, kctr, air, acc, rd>>

CoapEncodeDone ==
    /\ cs.part = "coap" /\ pc = "encode" /\ Len(co.req) = Len(cs.items)
    /\ pc' = "decode"
    /\ UNCHANGED <<cs, frags, eoff, kctr, air, acc, rd, co>>

\* the accessory's answer to request item i: it echoes the transaction id it received
RECURSIVE ItemStart(_, _)
ItemStart(c, i) == IF i = 1 THEN 0 ELSE ItemStart(c, i - 1) + COAP_HDR + c.items[i - 1].len
RespTotal(c) == ItemStart(c, Len(c.items) + 1)
RespTid(c, req, i)  == IF c.items[i].oc = "tid" THEN (req[i] + 1) % 256 ELSE req[i]
RespStatus(c, i) == IF c.items[i].oc = "err" THEN c.items[i].s ELSE 0
ItemAt(c, off) == IF \E i \in 1..Len(c.items) : ItemStart(c, i) = off
                  THEN CHOOSE i \in 1..Len(c.items) : ItemStart(c, i) = off ELSE 0

\* one iteration of decode_all_pdus' loop (decode_pdu + offset arithmetic): d = [pc, co]
CoStep(c, d) ==
    LET i == ItemAt(c, d.co.off) IN
    IF i = 0 THEN [pc |-> "lost", co |-> d.co]               \* the walk left the item boundaries
    ELSE LET r == IF RespTid(c, d.co.req, i) # d.co.idx THEN [k |-> "tid", s |-> 256, item |-> 0, len |-> 0]
                  ELSE IF RespStatus(c, i) # 0 THEN [k |-> "err", s |-> RespStatus(c, i), item |-> 0, len |-> 0]
                  ELSE IF c.items[i].oc = "ctl" THEN [k |-> "ctl", s |-> 257, item |-> 0, len |-> 0]
                  ELSE [k |-> "ok", s |-> 0, item |-> i, len |-> c.items[i].len]
             noff == d.co.off + COAP_HDR + c.items[i].len
         IN [pc |-> IF noff >= RespTotal(c) THEN "done" ELSE "decode",
             co |-> [d.co EXCEPT !.res = Append(@, r), !.idx = @ + 1, !.off = noff]]

CoapDecodeItem ==
    /\ cs.part = "coap" /\ pc = "decode"
    /\ LET d == CoStep(cs, [pc |-> pc, co |-> co]) IN pc' = d.pc /\ co' = d.co
    /\ UNCHANGED <<cs, frags, eoff, kctr, air, acc, rd>>

\* what the property demands for item i, from the outcome class alone
Expected(c, i) ==
    LET it == c.items[i] IN
    CASE it.oc = "ok"  -> [k |-> "ok", s |-> 0, item |-> i, len |-> it.len]
      [] it.oc = "err" -> [k |-> "err", s |-> it.s, item |-> 0, len |-> 0]
      [] it.oc = "tid" -> [k |-> "tid", s |-> 256, item |-> 0, len |-> 0]
      [] it.oc = "ctl" -> [k |-> "ctl", s |-> 257, item |-> 0, len |-> 0]
Attributed(c, res) == Len(res) = Len(c.items) /\ \A i \in 1..Len(c.items) : res[i] = Expected(c, i)

\* ---------------------------------------------------------------------- properties (CoAP)
CoapAttribution ==
    cs.part = "coap" =>
        /\ pc # "lost"
        /\ pc = "done" => Attributed(cs, co.res)
        \* the i-th result is produced from the i-th item, whatever happened before
        /\ pc = "decode" => /\ Len(co.res) < Len(cs.items)
                            /\ co.off = ItemStart(cs, Len(co.res) + 1)

\* ---------------------------------------------------------------------- result dictionary (connection.py _..._exit)
\* one iteration of `for idx, result in enumerate(pdu_results)`: results[key of item idx] = ...; a read stores every
\* result (a later item of the same characteristic overwrites), the other calls store failures only
CoapMapItem ==
    /\ cs.part = "coap" /\ pc = "done" /\ cs.ids # << >> /\ co.mi <= Len(co.res)
    /\ LET r == co.res[co.mi]  L == cs.ids[co.mi] IN
         co' = [co EXCEPT !.mi = @ + 1, !.map[L] = IF cs.api = "read" \/ r.k # "ok" THEN << r >> ELSE @]
    /\ UNCHANGED <<cs, pc, frags, eoff, kctr, air, acc, rd>>
CoapMapDone ==
    /\ cs.part = "coap" /\ pc = "done" /\ cs.ids # << >> /\ co.mi > Len(co.res)
    /\ pc' = "mapped"
    /\ UNCHANGED <<cs, frags, eoff, kctr, air, acc, rd, co>>

\* What the property demands of the dictionary.  Every DISTINCT requested characteristic gets the result of one of
\* its OWN items - which one, when the same characteristic was asked twice with different outcomes, the property does
\* not say (the code lets the later result of a read win and keeps any failure of the other calls); no characteristic
\* gets the result of another one's item and none is missing.  For write / subscribe / unsubscribe "the result of a
\* successful item" is: no entry.
Own(c, L) == { i \in 1..Len(c.ids) : c.ids[i] = L }
EntryAllowed(c, L, e) ==
    IF e = << >> THEN c.api # "read" /\ \E i \in Own(c, L) : Expected(c, i).k = "ok"
    ELSE \E i \in Own(c, L) : e[1] = Expected(c, i) /\ (c.api = "read" \/ e[1].k # "ok")
IdAttributed(c, m) == Len(m) = NLabels(c) /\ \A L \in 1..NLabels(c) : EntryAllowed(c, L, m[L])
CoapIdAttribution == (cs.part = "coap" /\ pc = "mapped") => IdAttributed(cs, co.map)

\* ======================================================================
Next == \/ EncFirst \/ EncCont \/ EncDone \/ Write \/ WriteDone \/ AccRecv \/ ReqDone
        \/ Read
        \/ CoapEncodeItem \/ CoapEncodeDone \/ CoapDecodeItem \/ CoapMapItem \/ CoapMapDone

\* ====================================================================== bounded case spaces
RECURSIVE Compositions(_)       \* all tuples of positive numbers summing to m
Compositions(m) == IF m = 0 THEN { << >> }
                   ELSE UNION { { <<k>> \o c : c \in Compositions(m - k) } : k \in 1..m }
\* response fragmentations of a body of m bytes: the first fragment may carry no body byte
Splits(m) == { <<0>> \o c : c \in Compositions(m) } \cup (IF m > 0 THEN Compositions(m) ELSE {})

\* accessory fragment size q: first fragment carries min(m, q - 5), continuations q - 2
RECURSIVE ChunksOf(_, _)
ChunksOf(rest, sz) == IF rest = 0 THEN << >> ELSE << Min(rest, sz) >> \o ChunksOf(rest - Min(rest, sz), sz)
SplitBy(m, q) == << Min(m, q - RSP_HDR) >> \o ChunksOf(m - Min(m, q - RSP_HDR), q - HDR_CONT)

Faults(split) ==
    { [fault |-> "none", fpos |-> 0], [fault |-> "tid_first", fpos |-> 1] }
    \cup { [fault |-> f, fpos |-> k] : f \in {"tid_cont", "flag_cont"}, k \in 2..Len(split) }
=============================================================================
