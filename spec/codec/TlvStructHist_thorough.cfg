SPECIFICATION HSpec
CONSTANTS FRAG = 3  Memo = FALSE  MaxDec = 3  MaxMut = 3
  Msgs = {"twins", "mixed", "nested"}
CONSTANT SchemaSource = "toy"
INVARIANT DecodeIsFunctionOfBytes
INVARIANT FreshIsDecode
CHECK_DEADLOCK FALSE
