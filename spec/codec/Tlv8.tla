------------------------------- MODULE Tlv8 -------------------------------
(* Pairing TLV8 codec (aiohomekit/protocol/tlv.py): TLV.encode_list / TLV.decode_bytearray.

   Two layers.
   * Item layer (content independent): an item is [t |-> type, n |-> length]; the wire is a
     sequence of fragments [t, n, item, off] (fragment of item number `item`, carrying the value
     bytes off .. off+n-1).  The pipeline  items --Encode--> wire --Decode--> out  is a state
     machine with one step per item / fragment so TLC checks RoundTrip and Canonical in every
     reachable state and the conformance harness can replay each (items, wire).
   * Byte layer: the decoder over literal byte strings (module Tlv8Bytes).

   FRAG is 255 in the code; it is also instantiated with 3 to explore the algorithm
   exhaustively.  SEP (255) is the separator type: always zero length. *)
EXTENDS Naturals, Sequences, FiniteSets, TLC

CONSTANTS FRAG,        \* maximal fragment payload (255)
          SEP,         \* separator type (255)
          Types,       \* non-separator types used by the bounded model
          Lens,        \* value lengths used by the bounded model
          MaxItems

Item(t, n) == [t |-> t, n |-> n]

\* ------------------------------------------------------------------ pure definitions
RECURSIVE FragsOf(_, _, _, _)
FragsOf(t, n, off, idx) ==
    IF n <= FRAG
    THEN << [t |-> t, n |-> n, item |-> idx, off |-> off] >>
    ELSE << [t |-> t, n |-> FRAG, item |-> idx, off |-> off] >> \o FragsOf(t, n - FRAG, off + FRAG, idx)

RECURSIVE EncodeFrom(_, _)
EncodeFrom(its, idx) ==
    IF idx > Len(its) THEN << >>
    ELSE FragsOf(its[idx].t, its[idx].n, 0, idx) \o EncodeFrom(its, idx + 1)
Encode(its) == EncodeFrom(its, 1)

\* decoder: merge a fragment into the list of decoded items (same type as the previous item => append)
MergeFrag(acc, f) ==
    IF Len(acc) > 0 /\ acc[Len(acc)].t = f.t
    THEN [acc EXCEPT ![Len(acc)] = [t |-> f.t, n |-> @.n + f.n, parts |-> Append(@.parts, <<f.item, f.off, f.n>>)]]
    ELSE Append(acc, [t |-> f.t, n |-> f.n, parts |-> << <<f.item, f.off, f.n>> >>])

RECURSIVE DecodeFrom(_, _, _)
DecodeFrom(w, j, acc) == IF j > Len(w) THEN acc ELSE DecodeFrom(w, j + 1, MergeFrag(acc, w[j]))
Decode(w) == DecodeFrom(w, 1, << >>)

\* the quantifier of the property: separators have no data and keep equal-typed neighbours apart
WellFormed(its) ==
    /\ \A k \in 1..Len(its) : its[k].t = SEP => its[k].n = 0
    /\ \A k \in 1..(Len(its) - 1) : its[k].t # its[k + 1].t

ItemSpace == { Item(t, n) : t \in Types, n \in Lens } \cup { Item(SEP, 0) }
RECURSIVE ListsUpTo(_)
ListsUpTo(k) == IF k = 0 THEN { << >> }
                ELSE ListsUpTo(k - 1) \cup { Append(l, it) : l \in { x \in ListsUpTo(k - 1) : Len(x) = k - 1 }, it \in ItemSpace }
Inputs == { l \in ListsUpTo(MaxItems) : WellFormed(l) }

\* ------------------------------------------------------------------ pipeline state machine
VARIABLES items, pc, i, wire, j, out
vars == <<items, pc, i, wire, j, out>>

Init == /\ items \in Inputs
        /\ pc = "enc" /\ i = 1 /\ wire = << >> /\ j = 1 /\ out = << >>

EncodeItem ==            \* one iteration of encode_list's for loop
    /\ pc = "enc" /\ i <= Len(items)
    /\ wire' = wire \o FragsOf(items[i].t, items[i].n, 0, i)
    /\ i' = i + 1
    /\ UNCHANGED <<items, pc, j, out>>

EncodeDone ==
    /\ pc = "enc" /\ i > Len(items)
    /\ pc' = "dec"
    /\ UNCHANGED <<items, i, wire, j, out>>

DecodeFrag ==            \* one iteration of decode_bytearray's while loop
    /\ pc = "dec" /\ j <= Len(wire)
    /\ out' = MergeFrag(out, wire[j])
    /\ j' = j + 1
    /\ UNCHANGED <<items, pc, i, wire>>

DecodeDone ==
    /\ pc = "dec" /\ j > Len(wire)
    /\ pc' = "done"
    /\ UNCHANGED <<items, i, wire, j, out>>

Next == EncodeItem \/ EncodeDone \/ DecodeFrag \/ DecodeDone
Spec == Init /\ [][Next]_vars

\* ------------------------------------------------------------------ properties
\* every value comes back whole, from its own item, in order
Contiguous(parts, idx, n) ==
    /\ \A k \in 1..Len(parts) : parts[k][1] = idx
    /\ parts[1][2] = 0
    /\ \A k \in 1..(Len(parts) - 1) : parts[k + 1][2] = parts[k][2] + parts[k][3]
    /\ parts[Len(parts)][2] + parts[Len(parts)][3] = n

RoundTrip ==
    pc = "done" =>
        /\ Len(out) = Len(items)
        /\ \A k \in 1..Len(items) :
              /\ out[k].t = items[k].t /\ out[k].n = items[k].n
              /\ Contiguous(out[k].parts, k, items[k].n)

\* canonical TLV8: maximal fragments, only the last fragment of an item may be short,
\* an item of length 0 is one empty fragment, nothing else on the wire
Canonical ==
    \A k \in 1..Len(wire) :
        /\ wire[k].n <= FRAG
        /\ (k < Len(wire) /\ wire[k + 1].item = wire[k].item) => wire[k].n = FRAG
        /\ (wire[k].off = 0 /\ wire[k].n = 0) => items[wire[k].item].n = 0
        /\ (wire[k].n = 0) => wire[k].off = 0

WireLenExact ==      \* number of bytes on the wire: 2 per fragment + payload
    pc # "enc" =>
      LET nf(n) == IF n = 0 THEN 1 ELSE (n + FRAG - 1) \div FRAG
          RECURSIVE Sum(_)
          Sum(k) == IF k = 0 THEN 0 ELSE Sum(k - 1) + nf(items[k].n)
      IN Len(wire) = Sum(Len(items))
=============================================================================
