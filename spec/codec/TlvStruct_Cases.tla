--------------------------- MODULE TlvStruct_Cases ---------------------------
(* The real message types.  The schemas of every TLVStruct subclass of the package are derived by
   reflection at check time and read from IOEnv.SCHEMA_FILE (one class per line; `rx` = 1 marks
   the structures the library receives from accessories: BLE signatures, the CoAP database).

   For every class as root the model enumerates a covering family of values with FRAG = 255:
     Singles  every field alone, over all boundary sizes / byte patterns / enum members / id
              counts 0..6; nested messages and lists with inner fields swept across the 255 and 510
              byte boundaries of the *outer* fragmentation; lists long enough to cross them
     Pairs    every two neighbouring scalar fields with the first one ending exactly on / just
              after a fragment boundary (the iterator's look-ahead sees the neighbour's tag)
              lists of 2..4 items in which any subset of the non-last items has no field set
     AllSet   every field set, uniformly sized, lists of 1..3 items, nesting to depth Depth
   runs the pipeline of TlvStruct on each, checks the invariants and exports the value with the
   wire image the specification prescribes, for replay on the real classes. *)
EXTENDS TlvStruct, SequencesExt

CONSTANTS Lens,        \* boundary sizes of bytes / str fields
          Sweep,       \* sizes of inner fields of nested messages (outer boundary crossing)
          PairLens,    \* sizes of the first field of a neighbouring pair
          Depth,       \* nesting depth of the all-set family
          MaxIds       \* packed id lists have 0..MaxIds entries

A3 == {"pat", "zero", "ff"}
Scalar == {"int", "enum", "bytes", "str"}

\* ------------------------------------------------------------------ the all-set value of a class
RECURSIVE U(_, _, _, _, _)      \* class, depth, size of bytes fields, list length, seed
NonEmptyOpt(c, v) == IF EncStruct("lib", "decl", c, v) = << >> THEN << >> ELSE << v >>
UField(f, d, n, cnt, s) ==
    CASE f.kind = "int"    -> << Fill("pat", f.tag + s, f.w) >>
      [] f.kind = "enum"   -> << << f.vals[1 + ((s + f.tag) % Len(f.vals))] >> >>
      [] f.kind = "bytes"  -> << Fill("pat", f.tag + s, n) >>
      [] f.kind = "str"    -> << Fill("txt", f.tag + s, n) >>
      [] f.kind = "struct" -> IF d >= Depth THEN << >> ELSE NonEmptyOpt(f.inner, U(f.inner, d + 1, n, cnt, s + 1))
      [] f.kind = "seq"    -> IF d >= Depth \/ NonEmptyOpt(f.inner, U(f.inner, d + 1, n, cnt, s)) = << >> THEN << >>
                              ELSE << [k \in 1..cnt |-> U(f.inner, d + 1, n, cnt, s + 3 * k)] >>
      [] f.kind = "ids"    -> << [k \in 1..cnt |-> Fill("pat", f.tag + s + k, f.w)] >>
      [] f.kind = "none"   -> << >>
U(c, d, n, cnt, s) == [k \in 1..NF(c) |-> UField(Fields(c)[k], d, n, cnt, s)]

\* (every size with single-item lists; 2- and 3-item lists at every level with sizes 1 and FRAG: the
\* encodings stay below ~64 KB, realistic full-depth databases come from the recorded runs)
AllSet(c) == { U(c, 1, n, 1, 0) : n \in Lens } \cup { U(c, 1, n, cnt, 0) : n \in {1, FRAG}, cnt \in 2..3 }

\* ------------------------------------------------------------------ one field at a time
Only(c, k, x) == [Empty(c) EXCEPT ![k] = << x >>]

\* values of a nested class with a single bytes / str field of swept size (everything else unset)
InnerSweep(c) ==
    UNION { { Only(c, k, IF Fields(c)[k].kind = "str" THEN Fill("txt", k, n) ELSE Fill("zero", k, n)) : n \in Sweep }
            : k \in { j \in 1..NF(c) : Fields(c)[j].kind \in {"bytes", "str"} } }

\* list lengths whose encoding is just below / just above one and two fragments
CrossCounts(c, item) ==
    LET L == Len(EncStruct("lib", "decl", c, item)) + 2 IN
    IF L = 2 THEN {} ELSE { (FRAG \div L) + j : j \in 0..2 } \cup { ((2 * FRAG) \div L) + j : j \in 0..1 }

IdVals(f) == { Fill(fl, f.tag, f.w) : fl \in A3 } \cup { [k \in 1..f.w |-> IF k = 1 THEN f.tag ELSE 0], [k \in 1..f.w |-> IF k = 1 THEN 0 ELSE 1] }

WideSet(f) ==
    CASE f.kind = "int"    -> { Fill(fl, f.tag, f.w) : fl \in A3 }
      [] f.kind = "enum"   -> { << f.vals[k] >> : k \in 1..Len(f.vals) }
      [] f.kind = "bytes"  -> { Fill("pat", f.tag, n) : n \in Lens } \cup { Fill(fl, f.tag, n) : fl \in {"zero", "ff"}, n \in {FRAG, FRAG + 1} }
      [] f.kind = "str"    -> { Fill("txt", f.tag, n) : n \in Lens }
      [] f.kind = "struct" -> { U(f.inner, 2, n, cnt, 1) : n \in {1, FRAG}, cnt \in 1..2 } \cup InnerSweep(f.inner)
      [] f.kind = "seq"    ->
            LET it(s) == U(f.inner, 2, 1, 1, s) IN
            { << >> }
            \cup { [k \in 1..cnt |-> U(f.inner, 2, n, 1, 5 * k)] : n \in {1, FRAG}, cnt \in 1..3 }
            \cup { << v >> : v \in InnerSweep(f.inner) }
            \cup { << it(1), v >> : v \in InnerSweep(f.inner) }
            \cup { [k \in 1..cnt |-> it(k)] : cnt \in CrossCounts(f.inner, it(1)) }
            \* 2..4 items, every subset of the non-last items is the item without fields (zero bytes)
            \cup UNION { { [k \in 1..cnt |-> IF k \in Z THEN Empty(f.inner) ELSE it(k)] : Z \in SUBSET (1..(cnt - 1)) } : cnt \in 2..4 }
      [] f.kind = "ids"    ->
            { [k \in 1..cnt |-> Fill("pat", f.tag + k, f.w)] : cnt \in 0..MaxIds }
            \cup { [k \in 1..cnt |-> v] : v \in IdVals(f), cnt \in 1..3 }
            \cup { << v, w >> : v \in IdVals(f), w \in IdVals(f) }
      [] f.kind = "none"   -> {}

Singles(c) == UNION { { Only(c, k, x) : x \in WideSet(Fields(c)[k]) } : k \in 1..NF(c) }

\* ------------------------------------------------------------------ neighbouring scalar fields
PairVal(f, n) == CASE f.kind = "int"   -> Fill("ff", f.tag, f.w)
                   [] f.kind = "enum"  -> << f.vals[1] >>
                   [] f.kind = "bytes" -> Fill("ff", f.tag, n)
                   [] f.kind = "str"   -> Fill("txt", f.tag, n)
Pairs(c) ==
    UNION { { [Empty(c) EXCEPT ![k] = << PairVal(Fields(c)[k], n) >>, ![k + 1] = << PairVal(Fields(c)[k + 1], m) >>]
                : n \in PairLens, m \in {1, FRAG} }
            : k \in { j \in 1..(NF(c) - 1) : Fields(c)[j].kind \in Scalar /\ Fields(c)[j + 1].kind \in Scalar } }

RootVals(c) == { Empty(c) } \cup Singles(c) \cup Pairs(c) \cup AllSet(c)

ModePols(c) == IF Schemas[c].rx = 1 THEN { <<"lib", "decl">>, <<"acc", "decl">>, <<"acc", "rev">> } ELSE { <<"lib", "decl">> }

CasesOf(c) ==
    { cse \in { [c |-> c, mode |-> mp[1], pol |-> mp[2], val |-> v] : v \in RootVals(c), mp \in ModePols(c) }
        : WF(cse.mode, cse.c, cse.val) }

Init == \E c \in 1..Len(Schemas) : \E cse \in CasesOf(c) : PInit(cse)
Spec == Init /\ [][Next]_vars

ExportCases ==
    LET Exp(c) == SetToSeq({ [c |-> cse.c, mode |-> cse.mode, pol |-> cse.pol, val |-> cse.val,
                              wire |-> EncStruct(cse.mode, cse.pol, cse.c, cse.val)] : cse \in CasesOf(c) })
    IN /\ TLCGet("stats").generated >= 0
       /\ ndJsonSerialize(IOEnv.CASES_OUT, Flat([c \in 1..Len(Schemas) |-> Exp(c)]))
=============================================================================
