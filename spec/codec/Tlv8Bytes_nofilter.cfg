SPECIFICATION Spec
CONSTANTS Alphabet = {0, 1, 2, 3, 6, 7, 255}  MaxLen = 6  Expected = {}
INVARIANT Conservation
INVARIANT NoShortValue
INVARIANT Total
INVARIANT NoMergeAcrossTypes
POSTCONDITION ExportCases
CHECK_DEADLOCK FALSE
