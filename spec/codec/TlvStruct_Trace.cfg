SPECIFICATION TSpec
CONSTANTS FRAG = 255
CONSTANT SchemaSource = "file"
INVARIANT InDomain
INVARIANT EncoderConforms
INVARIANT DecoderConforms
INVARIANT StructRoundTrip
INVARIANT Canonical
POSTCONDITION ExportVerdicts
CHECK_DEADLOCK FALSE
