SPECIFICATION Spec
CONSTANTS
  ReqP = {8, 9, 10, 11, 12, 13, 14, 15, 16, 17, 18, 19, 20, 21, 22, 23, 24, 25, 26, 27, 28, 29, 30, 31, 32, 33, 34, 35, 36, 37, 38, 39, 40, 41, 42, 43, 44, 45, 46, 47, 48, 49, 50, 51, 52, 53, 54, 55, 56, 57, 58, 59, 60, 61, 62, 63, 64}
  ReqN = {0, 1, 2, 3, 4, 5, 6, 7, 8, 9, 10, 11, 12, 13, 14, 15, 16, 17, 18, 19, 20, 21, 22, 23, 24, 25, 26, 27, 28, 29, 30, 31, 32, 33, 34, 35, 36, 37, 38, 39, 40, 41, 42, 43, 44, 45, 46, 47, 48, 49, 50, 51, 52, 53, 54, 55, 56, 57, 58, 59, 60, 61, 62, 63, 64, 100, 128, 200}
  RealP = {20, 155, 244, 496, 512}
  RealMax = 5000
  Ctr0s = {0}
  RespM = {0, 1, 2, 3, 4, 5, 6}
  RespSt = {0, 6}
  RealQ = {20, 155, 512}
  CoapNsA = {1, 2, 3}   OkLensA = {0, 3, 300}  ErrStA = {1, 2, 3, 4, 5, 6}  ErrLensA = {0, 3}  FaultLensA = {0, 3, 300}
  CoapNsB = {4, 5, 6}   OkLensB = {0, 300}     ErrStB = {}                  ErrLensB = {0}     FaultLensB = {300}
  MapN = 4   OkLensM = {3}  ErrStM = {6}  FaultLensM = {3}
  MapLong = {5, 6}   OkLensL = {3}  ErrStL = {6}
INVARIANT BleFragmentSize
INVARIANT BleReassembly
INVARIANT NoEmptyContinuation
INVARIANT BleResponse
INVARIANT CoapAttribution
INVARIANT CoapIdAttribution
POSTCONDITION ExportCases
CHECK_DEADLOCK FALSE
