------------------------------ MODULE BleFrag ------------------------------
(* Reassembly of fragmented pairing replies on BLE (controller/ble/client.py _pairing_char_write), on top of the
   TLV8 codec: the accessory cuts a reply of L bytes into pieces carried in FragmentData (type 12) items and a
   final FragmentLast (type 13) item; the controller acknowledges every FragmentData with the bytes `0c 00`
   and returns the decoded concatenation.  A reply that fits is sent without fragment items.

   Content independent: a piece is <<offset, length>> of the reply. *)
EXTENDS Naturals, Sequences, FiniteSets, TLC

CONSTANTS Lens,        \* reply lengths
          FragSizes,   \* accessory fragment sizes
          MAXR         \* MAX_REASSEMBLY (50 in the code)

VARIABLES L, F, lastEmpty, pieces,   \* the accessory's plan: sequence of <<kind, off, len>>, kind \in {"data", "last", "whole"}
          k,            \* next piece to send
          buf,          \* bytes reassembled so far (as a sequence of <<off, len>>)
          acks,         \* number of `0c 00` acknowledgements written
          writes,       \* number of writes (first request + acks)
          st            \* "run" | "done" | "error"

vars == <<L, F, lastEmpty, pieces, k, buf, acks, writes, st>>

RECURSIVE Cut(_, _, _)
Cut(off, rem, f) == IF rem <= f THEN << <<off, rem>> >> ELSE << <<off, f>> >> \o Cut(off + f, rem - f, f)

\* how a conformant accessory may fragment: data pieces and a last piece; when the length is a multiple of the
\* fragment size it may also send everything as data and finish with an EMPTY last fragment
Plan(l, f, le) ==
    IF l <= f /\ ~le THEN << <<"whole", 0, l>> >>
    ELSE LET c == Cut(0, l, f)
             n == Len(c)
         IN IF le THEN [i \in 1..(n + 1) |-> IF i <= n THEN <<"data", c[i][1], c[i][2]>> ELSE <<"last", l, 0>>]
            ELSE [i \in 1..n |-> IF i < n THEN <<"data", c[i][1], c[i][2]>> ELSE <<"last", c[i][1], c[i][2]>>]

Init == /\ L \in Lens /\ F \in FragSizes /\ lastEmpty \in BOOLEAN
        /\ pieces = Plan(L, F, lastEmpty)
        /\ k = 1 /\ buf = << >> /\ acks = 0 /\ writes = 0 /\ st = "run"

\* one iteration of the for loop: write (request or acknowledgement), read the accessory's next piece
Step ==
    /\ st = "run"
    /\ writes' = writes + 1
    /\ IF writes >= MAXR THEN st' = "error" /\ UNCHANGED <<k, buf, acks>>       \* too many fragments: ValueError
       ELSE LET p == pieces[k] IN
            /\ k' = k + 1
            /\ acks' = IF writes > 0 THEN acks + 1 ELSE acks
            /\ CASE p[1] = "whole" -> buf' = << <<p[2], p[3]>> >> /\ st' = "done"
                 [] p[1] = "last"  -> buf' = Append(buf, <<p[2], p[3]>>) /\ st' = "done"
                 [] p[1] = "data"  -> buf' = Append(buf, <<p[2], p[3]>>) /\ st' = "run"
    /\ UNCHANGED <<L, F, lastEmpty, pieces>>

Next == Step
Spec == Init /\ [][Next]_vars

RECURSIVE Total(_)
Total(b) == IF b = << >> THEN 0 ELSE Head(b)[2] + Total(Tail(b))
Contiguous(b) == \A i \in 1..Len(b) : b[i][1] = (IF i = 1 THEN 0 ELSE b[i - 1][1] + b[i - 1][2])

\* the reply comes back whole, in order, whatever the fragment size - also when the last fragment is empty
Reassembled == st = "done" => (Total(buf) = L /\ Contiguous(buf))
\* every FragmentData is acknowledged exactly once; nothing else is written
AcksMatch == st = "done" => acks = Cardinality({i \in 1..Len(pieces) : pieces[i][1] = "data"})
\* the loop is bounded
Bounded == writes <= MAXR + 1
ErrorOnlyWhenTooMany == st = "error" => Len(pieces) > MAXR
=============================================================================
