SPECIFICATION Spec
CONSTANTS FRAG = 3
  Runs = { "s_leaf", "s_ids6", "s_idsb4", "s_mid_a3", "s_mid_b3", "s_top3", "s_top_h", "s_mid_e", "s_top_e" }
CONSTANT SchemaSource = "toy"
INVARIANT StructRoundTrip
INVARIANT Canonical
INVARIANT OnBoundary

CHECK_DEADLOCK FALSE
