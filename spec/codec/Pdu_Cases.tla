----------------------------- MODULE Pdu_Cases -----------------------------
(* Bounded case spaces for Pdu, checked exhaustively and exported (with the outcome the
   specification prescribes) for replay on the real code. *)
EXTENDS Pdu, Json, IOUtils, SequencesExt

CONSTANTS ReqP, ReqN,          \* BLE request: plaintext fragment sizes x body lengths, exhaustive
          RealP, RealMax,      \* realistic fragment sizes, boundary body lengths up to RealMax
          Ctr0s,               \* AEAD counters at the start of the exchange
          RespM,               \* BLE response: body lengths for which *every* fragmentation is taken
          RespSt,              \* statuses
          RealQ,               \* accessory fragment sizes for long bodies
          CoapNsA, OkLensA, ErrStA, ErrLensA, FaultLensA,      \* CoAP batches: sizes x item variants (A)
          CoapNsB, OkLensB, ErrStB, ErrLensB, FaultLensB       \* (B)

\* body lengths around every fragment boundary of size p, and the largest
Boundary(p) ==
    { n \in ( {0, 1, RealMax - 1, RealMax}
              \cup { (p - HDR_FIRST) + d : d \in {0, 1} } \cup { (p - HDR_FIRST) - 1 }
              \cup UNION { { (p - HDR_FIRST) + k * (p - HDR_CONT) + d : d \in {0, 1} } \cup { (p - HDR_FIRST) + k * (p - HDR_CONT) - 1 } : k \in 1..3 } )
        : n <= RealMax }

ReqCases ==
    { [part |-> "req", p |-> p, enc |-> e, n |-> n, ctr0 |-> IF e = 1 THEN c ELSE 0]
        : p \in ReqP, n \in ReqN, e \in {0, 1}, c \in Ctr0s }
    \cup UNION { { [part |-> "req", p |-> p, enc |-> e, n |-> n, ctr0 |-> IF e = 1 THEN c ELSE 0]
                    : n \in Boundary(p), e \in {0, 1}, c \in Ctr0s } : p \in RealP }

RespOf(m, st, short, split, f, e, c) ==
    [part |-> "resp", m |-> m, st |-> st, short |-> short, split |-> split, fault |-> f.fault, fpos |-> f.fpos,
     enc |-> e, ctr0 |-> IF e = 1 THEN c ELSE 0]

RespBoundary(q) ==
    { m \in ( {1, RealMax}
              \cup { (q - RSP_HDR) + d : d \in {0, 1} } \cup { (q - RSP_HDR) - 1 }
              \cup UNION { { (q - RSP_HDR) + k * (q - HDR_CONT) + d : d \in {0, 1} } \cup { (q - RSP_HDR) + k * (q - HDR_CONT) - 1 } : k \in 1..2 } )
        : m >= 1 /\ m <= RealMax }
\* for long bodies the faults sit in the second and in the last fragment
FewFaults(split) == { f \in Faults(split) : f.fpos \in {0, 1, 2, Len(split)} }

RespCases ==
    UNION { UNION { { RespOf(m, st, 0, sp, f, e, c) : f \in Faults(sp), st \in RespSt, e \in {0, 1}, c \in Ctr0s }
                    : sp \in Splits(m) } : m \in RespM }
    \cup { RespOf(0, st, 1, <<0>>, f, e, c) : f \in Faults(<<0>>), st \in RespSt, e \in {0, 1}, c \in Ctr0s }
    \cup UNION { UNION { { RespOf(m, st, 0, SplitBy(m, q), f, e, c) : f \in FewFaults(SplitBy(m, q)), st \in RespSt, e \in {0, 1}, c \in Ctr0s }
                         : m \in RespBoundary(q) } : q \in RealQ }

Variants(okL, errS, errL, fltL) ==
    { [oc |-> "ok", s |-> 0, len |-> l] : l \in okL }
    \cup { [oc |-> "err", s |-> s, len |-> l] : s \in errS, l \in errL }
    \cup { [oc |-> o, s |-> 0, len |-> l] : o \in {"tid", "ctl"}, l \in fltL }
VA == Variants(OkLensA, ErrStA, ErrLensA, FaultLensA)
VB == Variants(OkLensB, ErrStB, ErrLensB, FaultLensB)

Init ==
    \/ \E c \in ReqCases : ReqInit(c)
    \/ \E c \in RespCases : RespInit(c)
    \/ \E n \in CoapNsA : \E its \in [1..n -> VA] : CoapInit([part |-> "coap", items |-> its])
    \/ \E n \in CoapNsB : \E its \in [1..n -> VB] : CoapInit([part |-> "coap", items |-> its])
Spec == Init /\ [][Next]_vars

\* ---------------------------------------------------------------------- export
\* expected request layout: on-air length of every write
RECURSIVE ReqLens(_, _, _)
ReqLens(c, off, first) ==
    IF first THEN (IF c.n = 0 THEN << HDR_EMPTY + TAG * c.enc >>
                   ELSE << HDR_FIRST + Min(c.n, c.p - HDR_FIRST) + TAG * c.enc >> \o ReqLens(c, Min(c.n, c.p - HDR_FIRST), FALSE))
    ELSE IF off >= c.n THEN << >>
    ELSE << HDR_CONT + Min(c.n - off, c.p - HDR_CONT) + TAG * c.enc >> \o ReqLens(c, off + Min(c.n - off, c.p - HDR_CONT), FALSE)

CoapExp(its) == [i \in 1..Len(its) |->
                    LET it == its[i] IN
                    CASE it.oc = "ok"  -> <<"ok", 0, i, it.len>>
                      [] it.oc = "err" -> <<"err", it.s, 0, 0>>
                      [] it.oc = "tid" -> <<"tid", 256, 0, 0>>
                      [] it.oc = "ctl" -> <<"ctl", 257, 0, 0>>]
CoapRec(its) == [part |-> "coap", items |-> [i \in 1..Len(its) |-> <<its[i].oc, its[i].s, its[i].len>>], exp |-> CoapExp(its)]
RECURSIVE SeqOfFcns(_, _)
CoapSeq(ns, V) == LET RECURSIVE G(_)
                      G(s) == IF s = {} THEN << >>
                              ELSE LET n == CHOOSE x \in s : TRUE IN
                                   SetToSeq({ CoapRec(its) : its \in [1..n -> V] }) \o G(s \ {n})
                  IN G(ns)
SeqOfFcns(a, b) == << >>

ExportCases ==
    /\ TLCGet("stats").generated >= 0
    /\ ndJsonSerialize(IOEnv.CASES_OUT,
          SetToSeq({ [part |-> "req", p |-> c.p, enc |-> c.enc, n |-> c.n, ctr0 |-> c.ctr0, lens |-> ReqLens(c, 0, TRUE)] : c \in ReqCases })
          \o SetToSeq({ [part |-> "resp", m |-> c.m, st |-> c.st, short |-> c.short, split |-> c.split, fault |-> c.fault,
                         fpos |-> c.fpos, enc |-> c.enc, ctr0 |-> c.ctr0,
                         exp |-> IF c.fault = "none" THEN "done" ELSE "rejected"] : c \in RespCases })
          \o CoapSeq(CoapNsA, VA) \o CoapSeq(CoapNsB, VB))
=============================================================================
