----------------------------- MODULE Pdu_Cases -----------------------------
(* Bounded case spaces for Pdu, checked exhaustively and exported (with the outcome the
   specification prescribes) for replay on the real code. *)
EXTENDS Pdu, Json, IOUtils, SequencesExt

CONSTANTS ReqP, ReqN,          \* BLE request: plaintext fragment sizes x body lengths, exhaustive
          RealP, RealMax,      \* realistic fragment sizes, boundary body lengths up to RealMax
          Ctr0s,               \* AEAD counters at the start of the exchange
          RespM,               \* BLE response: body lengths for which *every* fragmentation is taken
          RespSt,              \* statuses
          RealQ,               \* accessory fragment sizes for long bodies
          CoapNsA, OkLensA, ErrStA, ErrLensA, FaultLensA,      \* CoAP batches: sizes x item variants (A)
          CoapNsB, OkLensB, ErrStB, ErrLensB, FaultLensB,      \* (B)
          MapN, OkLensM, ErrStM, FaultLensM,                   \* repeated ids: every equality pattern of 1..MapN items x variants (M)
          MapLong, OkLensL, ErrStL                             \* longer batches with one repeat at every pair of positions (L)

\* body lengths around every fragment boundary (first fragment carries a, continuations b), and the largest
Around(a, b, lo) ==
    { n \in ( {lo, 1, RealMax - 1, RealMax} \cup { a + d : d \in {0, 1} } \cup { a - 1 }
              \cup UNION { { a + k * b + d : d \in {0, 1} } \cup { a + k * b - 1 } : k \in 1..3 } )
        : n >= lo /\ n <= RealMax }
Boundary(p)     == Around(p - HDR_FIRST, p - HDR_CONT, 0)
RespBoundary(q) == Around(q - RSP_HDR, q - HDR_CONT, 1)
CtrsFor(e) == IF e = 1 THEN Ctr0s ELSE {0}

ReqCase(p, e, n, c) == [part |-> "req", p |-> p, enc |-> e, n |-> n, ctr0 |-> c]
RespCase(m, st, short, split, f, e, c) ==
    [part |-> "resp", m |-> m, st |-> st, short |-> short, split |-> split, fault |-> f.fault, fpos |-> f.fpos,
     enc |-> e, ctr0 |-> c]
\* for long bodies the faults sit in the second and in the last fragment
FewFaults(split) == { f \in Faults(split) : f.fpos \in {0, 1, 2, Len(split)} }

Variants(okL, errS, errL, fltL) ==
    { [oc |-> "ok", s |-> 0, len |-> l] : l \in okL }
    \cup { [oc |-> "err", s |-> s, len |-> l] : s \in errS, l \in errL }
    \cup { [oc |-> o, s |-> 0, len |-> l] : o \in {"tid", "ctl"}, l \in fltL }
VA == Variants(OkLensA, ErrStA, ErrLensA, FaultLensA)
VB == Variants(OkLensB, ErrStB, ErrLensB, FaultLensB)

VM == Variants(OkLensM, ErrStM, {0}, FaultLensM)
VL == Variants(OkLensL, ErrStL, {0}, {})
\* equality patterns of the requested ids as restricted growth strings (1, then at most one more than the maximum so far)
RECURSIVE RGS(_)
MaxOf(sq) == IF sq = << >> THEN 0 ELSE CHOOSE m \in 1..Len(sq) : (\E i \in 1..Len(sq) : sq[i] = m) /\ \A i \in 1..Len(sq) : sq[i] <= m
RGS(n) == IF n = 0 THEN { << >> } ELSE { Append(sq, l) : sq \in RGS(n - 1), l \in 1..n } \ { sq \in { Append(q, l) : q \in RGS(n - 1), l \in 1..n } : sq[n] > MaxOf(SubSeq(sq, 1, n - 1)) + 1 }
\* n items, all distinct except that item j repeats item i
OneRepeat(n) == { [k \in 1..n |-> IF k < ij[2] THEN k ELSE IF k = ij[2] THEN ij[1] ELSE k - 1] : ij \in { x \in (1..n) \X (1..n) : x[1] < x[2] } }
Apis == {"read", "other"}
MapCase(its, ids, api) == [part |-> "coap", items |-> its, ids |-> ids, api |-> api]

\* (nested quantifiers instead of one big set: TLC's UNION is quadratic)
Init ==
    \/ \E p \in ReqP, n \in ReqN, e \in {0, 1} : \E c \in CtrsFor(e) : ReqInit(ReqCase(p, e, n, c))
    \/ \E p \in RealP, e \in {0, 1} : \E n \in Boundary(p), c \in CtrsFor(e) : ReqInit(ReqCase(p, e, n, c))
    \/ \E m \in RespM, st \in RespSt, e \in {0, 1} : \E sp \in Splits(m), c \in CtrsFor(e) : \E f \in Faults(sp) :
            RespInit(RespCase(m, st, 0, sp, f, e, c))
    \/ \E st \in RespSt, e \in {0, 1} : \E c \in CtrsFor(e), f \in Faults(<<0>>) : RespInit(RespCase(0, st, 1, <<0>>, f, e, c))
    \/ \E q \in RealQ, st \in RespSt, e \in {0, 1} : \E m \in RespBoundary(q), c \in CtrsFor(e) : \E f \in FewFaults(SplitBy(m, q)) :
            RespInit(RespCase(m, st, 0, SplitBy(m, q), f, e, c))
    \/ \E n \in CoapNsA : \E its \in [1..n -> VA] : CoapInit(MapCase(its, << >>, "read"))
    \/ \E n \in CoapNsB : \E its \in [1..n -> VB] : CoapInit(MapCase(its, << >>, "read"))
    \/ \E n \in 1..MapN, api \in Apis : \E ids \in RGS(n), its \in [1..n -> VM] : CoapInit(MapCase(its, ids, api))
    \/ \E n \in MapLong, api \in Apis : \E ids \in OneRepeat(n), its \in [1..n -> VL] : CoapInit(MapCase(its, ids, api))
Spec == Init /\ [][Next]_vars

\* ---------------------------------------------------------------------- export
RECURSIVE Cat(_)                 \* concatenation of a sequence of sequences
Cat(ss) == IF ss = << >> THEN << >> ELSE Head(ss) \o Cat(Tail(ss))
Over(S, Op(_)) == LET s == SetToSeq(S) IN Cat([k \in 1..Len(s) |-> Op(s[k])])

\* expected request layout: on-air length of every write
RECURSIVE ReqLens(_, _, _)
ReqLens(c, off, first) ==
    IF first THEN (IF c.n = 0 THEN << HDR_EMPTY + TAG * c.enc >>
                   ELSE << HDR_FIRST + Min(c.n, c.p - HDR_FIRST) + TAG * c.enc >> \o ReqLens(c, Min(c.n, c.p - HDR_FIRST), FALSE))
    ELSE IF off >= c.n THEN << >>
    ELSE << HDR_CONT + Min(c.n - off, c.p - HDR_CONT) + TAG * c.enc >> \o ReqLens(c, off + Min(c.n - off, c.p - HDR_CONT), FALSE)
ReqRec(c) == [part |-> "req", p |-> c.p, enc |-> c.enc, n |-> c.n, ctr0 |-> c.ctr0, lens |-> ReqLens(c, 0, TRUE)]
RespRec(c) == [part |-> "resp", m |-> c.m, st |-> c.st, short |-> c.short, split |-> c.split, fault |-> c.fault,
               fpos |-> c.fpos, enc |-> c.enc, ctr0 |-> c.ctr0, exp |-> IF c.fault = "none" THEN "done" ELSE "rejected"]
CoapExp(its) == [i \in 1..Len(its) |->
                    LET it == its[i] IN
                    CASE it.oc = "ok"  -> <<"ok", 0, i, it.len>>
                      [] it.oc = "err" -> <<"err", it.s, 0, 0>>
                      [] it.oc = "tid" -> <<"tid", 256, 0, 0>>
                      [] it.oc = "ctl" -> <<"ctl", 257, 0, 0>>]
CoapRec(its) == [part |-> "coap", items |-> [i \in 1..Len(its) |-> <<its[i].oc, its[i].s, its[i].len>>], exp |-> CoapExp(its)]

ReqSeq ==
    LET A(p) == SetToSeq({ ReqRec(ReqCase(p, e, n, c)) : n \in ReqN, e \in {0, 1}, c \in Ctr0s } )
        B(p) == SetToSeq({ ReqRec(ReqCase(p, e, n, c)) : n \in Boundary(p), e \in {0, 1}, c \in Ctr0s } )
        Fix(s) == SelectSeq(s, LAMBDA r : r.enc = 1 \/ r.ctr0 = CHOOSE x \in Ctr0s : \A y \in Ctr0s : x <= y)
    IN Over(ReqP, LAMBDA p : Fix(A(p))) \o Over(RealP, LAMBDA p : Fix(B(p)))
RespSeq ==
    LET ES == { <<e, c>> : e \in {0, 1}, c \in Ctr0s }
        Norm(ec) == IF ec[1] = 1 THEN ec[2] ELSE 0
        A(m) == Over(Splits(m), LAMBDA sp : SetToSeq({ RespRec(RespCase(m, st, 0, sp, f, ec[1], Norm(ec))) : f \in Faults(sp), st \in RespSt, ec \in ES }))
        S0 == SetToSeq({ RespRec(RespCase(0, st, 1, <<0>>, f, ec[1], Norm(ec))) : f \in Faults(<<0>>), st \in RespSt, ec \in ES })
        B(q) == Over(RespBoundary(q), LAMBDA m : SetToSeq({ RespRec(RespCase(m, st, 0, SplitBy(m, q), f, ec[1], Norm(ec)))
                                                             : f \in FewFaults(SplitBy(m, q)), st \in RespSt, ec \in ES }))
    IN Over(RespM, A) \o S0 \o Over(RealQ, B)
CoapSeq(ns, V) == Over(ns, LAMBDA n : SetToSeq({ CoapRec(its) : its \in [1..n -> V] }))

\* repeated ids: per distinct characteristic the set of allowed dictionary entries (<<"none", 0, 0>> = no entry)
AllowedEntries(c, L) ==
    { IF c.api # "read" /\ Expected(c, i).k = "ok" THEN <<"none", 0, 0>>
      ELSE <<Expected(c, i).k, Expected(c, i).item, Expected(c, i).len>> : i \in Own(c, L) }
MapRec(c) == [part |-> "coapmap", items |-> [i \in 1..Len(c.items) |-> <<c.items[i].oc, c.items[i].s, c.items[i].len>>],
              ids |-> c.ids, api |-> c.api, allowed |-> [L \in 1..NLabels(c) |-> SetToSeq(AllowedEntries(c, L))]]
MapSeq(ns, Pat(_), V) ==
    Over(ns, LAMBDA n : Over(Pat(n), LAMBDA ids : SetToSeq({ MapRec(MapCase(its, ids, api)) : its \in [1..n -> V], api \in Apis })))

ExportCases ==
    /\ TLCGet("stats").generated >= 0
    /\ ndJsonSerialize(IOEnv.CASES_OUT, ReqSeq \o RespSeq \o CoapSeq(CoapNsA, VA) \o CoapSeq(CoapNsB, VB)
                                          \o MapSeq(1..MapN, RGS, VM) \o MapSeq(MapLong, OneRepeat, VL))
=============================================================================
