SPECIFICATION TSpec
INVARIANT BleFragmentSize
INVARIANT BleReassembly
INVARIANT BleResponse
INVARIANT RespConforms
INVARIANT CoapRequestShape
INVARIANT CoapAttribution
INVARIANT CoapConforms
INVARIANT CoapIdAttribution
INVARIANT CoapMapConforms
POSTCONDITION ExportVerdicts
CHECK_DEADLOCK FALSE
