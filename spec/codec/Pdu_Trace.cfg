SPECIFICATION TSpec
INVARIANT BleFragmentSize
INVARIANT BleReassembly
INVARIANT BleResponse
INVARIANT RespConforms
INVARIANT RespTerminates
INVARIANT CoapRequestShape
INVARIANT CoapAttribution
INVARIANT CoapConforms
CHECK_DEADLOCK FALSE
