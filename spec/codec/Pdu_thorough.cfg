SPECIFICATION Spec
CONSTANTS
  ReqP = {8, 9, 10, 11, 12, 13, 14, 15, 16, 17, 18, 19, 20, 21, 22, 23, 24, 25, 26, 27, 28, 29, 30, 31, 32, 33, 34, 35, 36, 37, 38, 39, 40, 41, 42, 43, 44, 45, 46, 47, 48, 49, 50, 51, 52, 53, 54, 55, 56, 57, 58, 59, 60, 61, 62, 63, 64}
  ReqN = {0, 1, 2, 3, 4, 5, 6, 7, 8, 9, 10, 11, 12, 13, 14, 15, 16, 17, 18, 19, 20, 21, 22, 23, 24, 25, 26, 27, 28, 29, 30, 31, 32, 33, 34, 35, 36, 37, 38, 39, 40, 41, 42, 43, 44, 45, 46, 47, 48, 49, 50, 51, 52, 53, 54, 55, 56, 57, 58, 59, 60, 61, 62, 63, 64, 65, 66, 67, 68, 69, 70, 71, 72, 73, 74, 75, 76, 77, 78, 79, 80, 81, 82, 83, 84, 85, 86, 87, 88, 89, 90, 91, 92, 93, 94, 95, 96, 97, 98, 99, 100, 101, 102, 103, 104, 105, 106, 107, 108, 109, 110, 111, 112, 113, 114, 115, 116, 117, 118, 119, 120, 121, 122, 123, 124, 125, 126, 127, 128, 129, 130, 131, 132, 133, 134, 135, 136, 137, 138, 139, 140, 141, 142, 143, 144, 145, 146, 147, 148, 149, 150, 151, 152, 153, 154, 155, 156, 157, 158, 159, 160, 161, 162, 163, 164, 165, 166, 167, 168, 169, 170, 171, 172, 173, 174, 175, 176, 177, 178, 179, 180, 181, 182, 183, 184, 185, 186, 187, 188, 189, 190, 191, 192, 193, 194, 195, 196, 197, 198, 199, 200}
  RealP = {20, 155, 244, 496, 512}
  RealMax = 5000
  Ctr0s = {0, 5}
  RespM = {0, 1, 2, 3, 4, 5, 6, 7, 8}
  RespSt = {0, 3, 6}
  RealQ = {20, 155, 244, 496, 512}
  CoapNsA = {1, 2, 3, 4}   OkLensA = {0, 3, 300}  ErrStA = {1, 2, 3, 4, 5, 6}  ErrLensA = {0}  FaultLensA = {0, 3, 300}
  CoapNsB = {5, 6}   OkLensB = {0, 300}     ErrStB = {6}                 ErrLensB = {0}     FaultLensB = {300}
  MapN = 4   OkLensM = {0, 3, 300}  ErrStM = {2, 6}  FaultLensM = {0, 3}
  MapLong = {5, 6}   OkLensL = {0, 3}  ErrStL = {6}
INVARIANT BleFragmentSize
INVARIANT BleReassembly
INVARIANT NoEmptyContinuation
INVARIANT BleResponse
INVARIANT CoapAttribution
INVARIANT CoapIdAttribution
POSTCONDITION ExportCases
CHECK_DEADLOCK FALSE
