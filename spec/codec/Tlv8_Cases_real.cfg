SPECIFICATION Spec
CONSTANTS FRAG = 255  SEP = 255  Types = {0, 6, 254}  Lens = {0, 1, 2, 254, 255, 256, 257, 509, 510, 511, 765, 766}  MaxItems = 2
INVARIANT RoundTrip
INVARIANT Canonical
INVARIANT WireLenExact
POSTCONDITION ExportCases
CHECK_DEADLOCK FALSE
