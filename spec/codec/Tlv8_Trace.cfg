SPECIFICATION TSpec
CONSTANTS FRAG = 255  SEP = 255  Types = {1}  Lens = {0}  MaxItems = 0
INVARIANT EncoderConforms
INVARIANT DecoderConforms
INVARIANT RoundTrip
INVARIANT Canonical
CHECK_DEADLOCK FALSE
