SPECIFICATION Spec
CONSTANTS FRAG = 255  SEP = 255  Types = {0, 6, 254}  Lens = {0, 1, 254, 255, 256, 510, 511, 766}  MaxItems = 3
INVARIANT RoundTrip
INVARIANT Canonical
INVARIANT WireLenExact
POSTCONDITION ExportCases
CHECK_DEADLOCK FALSE
