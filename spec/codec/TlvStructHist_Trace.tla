------------------------ MODULE TlvStructHist_Trace ------------------------
(* Code -> spec for histories of decode calls.  One record = the bytes of a conformant message
   (class c, wire image `wire`) and what happened to it on the real code:
      <<"D">>                 cls.decode(wire) was called; its result gets the next number
      <<"M", k, p, kind, j, w>>  a write to result k at node path p (see TlvStructHist.Writes); made by the
                              harness, or by the library itself (CoAP get_accessory_info storing read values)
      <<"O", k, node>>        what can be read through result k now (all wire fields, library state)
   The record is accepted iff every observation is what value semantics predicts: the specification's
   decode of the bytes plus the writes made through that very result (DecodeIsFunctionOfBytes). *)
EXTENDS TlvStructHist, SequencesExt

Recs == ndJsonDeserialize(IOEnv.TRACE_FILE)

VARIABLES tid, at, obs
tvars == <<tid, at, obs, ghost, msg>>

Wr(op) == [k |-> op[4], j |-> op[5], w |-> op[6]]
Apply(c, wirebytes, g, op) ==
    CASE op[1] = "D" -> Append(g, ToNode(c, DecStruct(c, wirebytes)))
      [] op[1] = "M" -> [g EXCEPT ![op[2]] = WriteNode(@, op[3], Wr(op))]
      [] op[1] = "O" -> g

TInit == /\ tid \in 1..Len(Recs)
         /\ msg = [c |-> Recs[tid].c, val |-> << >>, wire |-> Recs[tid].wire]
         /\ at = 1 /\ obs = << >> /\ ghost = << >>
         /\ heap = << >> /\ results = << >> /\ ndec = 0 /\ nmut = 0
         /\ cs = << >> /\ pc = "history" /\ i = 0 /\ wire = << >> /\ off = 0 /\ kw = << >>
Step == /\ at <= Len(Recs[tid].ops)
        /\ LET op == Recs[tid].ops[at] IN
             /\ ghost' = Apply(msg.c, msg.wire, ghost, op)
             /\ obs' = IF op[1] = "O" THEN << op[2], op[3] >> ELSE << >>
        /\ at' = at + 1
        /\ UNCHANGED <<tid, msg, heap, results, ndec, nmut, vars>>
TSpec == TInit /\ [][Step]_<<tvars, hvars, vars>>

\* what the real code let the caller read is the predicted value
ObservationConforms == obs # << >> => obs[2] = ghost[obs[1]]

\* every rejected record at once
RECURSIVE FirstBad(_, _, _)
FirstBad(r, k, g) ==
    IF k > Len(r.ops) THEN 0
    ELSE LET op == r.ops[k]  g2 == Apply(r.c, r.wire, g, op) IN
         IF op[1] = "O" /\ op[3] # g2[op[2]] THEN k ELSE FirstBad(r, k + 1, g2)
ExportVerdicts ==
    /\ TLCGet("stats").generated >= 0
    /\ ndJsonSerialize(IOEnv.VERDICTS_OUT,
          SelectSeq([k \in 1..Len(Recs) |-> [tid |-> k, bad |-> FirstBad(Recs[k], 1, << >>)]], LAMBDA v : v.bad # 0))
=============================================================================
