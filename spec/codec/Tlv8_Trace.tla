----------------------------- MODULE Tlv8_Trace -----------------------------
(* Code -> spec: records observed from the real TLV.encode_list / TLV.decode_bytes are
   validated against the pipeline of Tlv8.  One record = one item list chosen by the driver,
   the fragment layout (type, length) read off the bytes the real encoder produced (by an
   independent TLV reader), and the (type, length) list the real decoder returned for those
   bytes.  The record is accepted iff it is the behaviour of Spec started from those items. *)
EXTENDS Tlv8, Json, IOUtils

Recs == ndJsonDeserialize(IOEnv.TRACE_FILE)

VARIABLE tid
tvars == <<vars, tid>>

ToItems(s) == [k \in 1..Len(s) |-> Item(s[k][1], s[k][2])]

TInit == /\ tid \in 1..Len(Recs)
         /\ items = ToItems(Recs[tid].items)
         /\ pc = "enc" /\ i = 1 /\ wire = << >> /\ j = 1 /\ out = << >>
TNext == Next /\ UNCHANGED tid
TSpec == TInit /\ [][TNext]_tvars

ProjW(w) == [k \in 1..Len(w) |-> <<w[k].t, w[k].n>>]
ProjO(o) == [k \in 1..Len(o) |-> <<o[k].t, o[k].n>>]

\* the real encoder's layout is the specified one
EncoderConforms == pc \in {"dec", "done"} => ProjW(wire) = Recs[tid].frags
\* the real decoder's result is the specified one
DecoderConforms == pc = "done" => ProjO(out) = Recs[tid].dec
=============================================================================
