--------------------------- MODULE TlvStructHist ---------------------------
(* Decoding over a *history*: the property says that decoding returns exactly the field values
   that were encoded - for every decode call, whatever happened before.  The decoded messages are
   mutable objects (dataclasses); callers and the library itself write to them (the CoAP connection
   stores the values it reads in the decoded accessory database, consumers edit the struct returned
   by a struct-valued characteristic to build a write request).

   Intended behaviour (value semantics): every Decode(b) returns a message equal to the
   specification's decode of b, and a write through one result changes that result at that place
   only - not another result of the same bytes, not another occurrence of an identical sub-message
   inside the same result.  `ghost` carries exactly that.

   Implementation level: a heap of objects.  Decode builds the object graph of the decoded message;
   with Memo = FALSE every (sub-)message gets a new object (what the code does); with Memo = TRUE
   (a named deviation, never the code's accepted behaviour) objects are shared by (class, content) -
   decode memoised on the bytes.  DecodeIsFunctionOfBytes says that what can be read through every
   result handle is the ghost value: the heap refines value semantics.  TLC verifies it for
   Memo = FALSE and refutes it for Memo = TRUE (sensitivity of the property; TlvStructHist_small_memo.cfg).

   A message node is [f |-> << entry >>, x |-> option]: one entry per declared field - << >> unset,
   << bytes >> scalar / packed ids, << node >> nested message, << << node >> >> list - and x, the
   state the library keeps on the object outside the wire fields (raw value of a characteristic). *)
EXTENDS TlvStruct

CONSTANTS Memo, Msgs, MaxDec, MaxMut

\* ------------------------------------------------------------------ value semantics
RECURSIVE ToNode(_, _)
ToNode(c, val) ==
    [f |-> [fi \in 1..NF(c) |->
              IF val[fi] = << >> THEN << >>
              ELSE LET fd == Fields(c)[fi]  x == val[fi][1] IN
                   CASE fd.kind = "struct" -> << ToNode(fd.inner, x) >>
                     [] fd.kind = "seq"    -> << [k \in 1..Len(x) |-> ToNode(fd.inner, x[k])] >>
                     [] OTHER              -> << x >>],
     x |-> << >>]

\* a path leads from the root to a message node: steps <<fi>> (nested message in field fi) or <<fi, k>>
\* (item k of the list in field fi)
RECURSIVE NodeAt(_, _), ClassAt(_, _, _), Paths(_, _)
Child(n, st) == IF Len(st) = 1 THEN n.f[st[1]][1] ELSE n.f[st[1]][1][st[2]]
NodeAt(n, p) == IF p = << >> THEN n ELSE NodeAt(Child(n, Head(p)), Tail(p))
ClassAt(c, n, p) == IF p = << >> THEN c ELSE ClassAt(Fields(c)[Head(p)[1]].inner, Child(n, Head(p)), Tail(p))
Paths(c, n) ==
    { << >> }
    \cup UNION { IF n.f[fi] = << >> THEN {}
                 ELSE IF Fields(c)[fi].kind = "struct"
                      THEN { << <<fi>> >> \o q : q \in Paths(Fields(c)[fi].inner, n.f[fi][1]) }
                 ELSE IF Fields(c)[fi].kind = "seq"
                      THEN UNION { { << <<fi, k>> >> \o q : q \in Paths(Fields(c)[fi].inner, n.f[fi][1][k]) } : k \in 1..Len(n.f[fi][1]) }
                 ELSE {} : fi \in 1..NF(c) }

\* a write to one node: wr = [k, j, w]
\*   k = "x": library state := << w >>          k = "u": field j := unset
\*   k = "s": scalar field j := << w >>         k = "c": the list in field j is emptied in place
WriteHere(n, wr) ==
    CASE wr.k = "x" -> [n EXCEPT !.x = << wr.w >>]
      [] wr.k = "u" -> [n EXCEPT !.f[wr.j] = << >>]
      [] wr.k = "s" -> [n EXCEPT !.f[wr.j] = << wr.w >>]
      [] wr.k = "c" -> [n EXCEPT !.f[wr.j] = << << >> >>]
RECURSIVE WriteNode(_, _, _)
WriteNode(n, p, wr) ==
    IF p = << >> THEN WriteHere(n, wr)
    ELSE LET st == Head(p) IN
         IF Len(st) = 1 THEN [n EXCEPT !.f[st[1]] = << WriteNode(@[1], Tail(p), wr) >>]
         ELSE [n EXCEPT !.f[st[1]] = << [@[1] EXCEPT ![st[2]] = WriteNode(@, Tail(p), wr)] >>]

Writes(c, n) ==             \* the writes a caller can make to a node of class c
    { [k |-> "x", j |-> 0, w |-> <<7>>] }
    \cup { [k |-> "u", j |-> j, w |-> << >>] : j \in { fi \in 1..NF(c) : n.f[fi] # << >> } }
    \cup { [k |-> "s", j |-> j, w |-> <<9>>] : j \in { fi \in 1..NF(c) : Fields(c)[fi].kind \in {"int", "enum", "bytes", "str"} } }
    \cup { [k |-> "c", j |-> j, w |-> << >>] : j \in { fi \in 1..NF(c) : Fields(c)[fi].kind = "seq" /\ n.f[fi] # << >> } }

\* ------------------------------------------------------------------ the heap
\* object = [c, f, x]; entries of nested messages hold object ids.  H = [store, next, cache]
RECURSIVE Build(_, _, _), BuildFields(_, _, _, _, _), BuildItems(_, _, _, _, _)
Build(c, val, H) ==
    IF Memo /\ <<c, val>> \in DOMAIN H.cache THEN [H |-> H, id |-> H.cache[<<c, val>>]]
    ELSE LET r  == BuildFields(c, val, 1, H, << >>)
             id == r.H.next
         IN [H |-> [store |-> r.H.store @@ (id :> [c |-> c, f |-> r.ents, x |-> << >>]), next |-> id + 1,
                    cache |-> IF Memo THEN r.H.cache @@ (<<c, val>> :> id) ELSE r.H.cache],
             id |-> id]
BuildFields(c, val, fi, H, ents) ==
    IF fi > NF(c) THEN [H |-> H, ents |-> ents]
    ELSE LET fd == Fields(c)[fi] IN
         IF val[fi] = << >> THEN BuildFields(c, val, fi + 1, H, Append(ents, << >>))
         ELSE IF fd.kind = "struct" THEN LET r == Build(fd.inner, val[fi][1], H) IN BuildFields(c, val, fi + 1, r.H, Append(ents, << r.id >>))
         ELSE IF fd.kind = "seq" THEN LET r == BuildItems(fd.inner, val[fi][1], 1, H, << >>) IN BuildFields(c, val, fi + 1, r.H, Append(ents, << r.ids >>))
         ELSE BuildFields(c, val, fi + 1, H, Append(ents, << val[fi][1] >>))
BuildItems(c, xs, k, H, ids) ==
    IF k > Len(xs) THEN [H |-> H, ids |-> ids]
    ELSE LET r == Build(c, xs[k], H) IN BuildItems(c, xs, k + 1, r.H, Append(ids, r.id))

RECURSIVE Deref(_, _), ObjAt(_, _, _)
Deref(store, id) ==         \* what a caller reads through a handle
    LET o == store[id] IN
    [f |-> [fi \in 1..Len(o.f) |->
              IF o.f[fi] = << >> THEN << >>
              ELSE CASE Fields(o.c)[fi].kind = "struct" -> << Deref(store, o.f[fi][1]) >>
                     [] Fields(o.c)[fi].kind = "seq"    -> << [k \in 1..Len(o.f[fi][1]) |-> Deref(store, o.f[fi][1][k])] >>
                     [] OTHER                          -> o.f[fi]],
     x |-> o.x]
ObjAt(store, id, p) ==
    IF p = << >> THEN id
    ELSE LET st == Head(p)  e == store[id].f[st[1]][1] IN
         ObjAt(store, IF Len(st) = 1 THEN e ELSE e[st[2]], Tail(p))
HeapWrite(o, wr) ==
    CASE wr.k = "x" -> [o EXCEPT !.x = << wr.w >>]
      [] wr.k = "u" -> [o EXCEPT !.f[wr.j] = << >>]
      [] wr.k = "s" -> [o EXCEPT !.f[wr.j] = << wr.w >>]
      [] wr.k = "c" -> [o EXCEPT !.f[wr.j] = << << >> >>]

\* ------------------------------------------------------------------ messages of the bounded model (generic schemas)
LeafV(b) == << << <<1>> >>, << b >> >>                       \* Leaf(a = 1, b = b)
MsgVal(m) ==
    CASE m = "twins"  -> [c |-> 3, val |-> << << >>, << << LeafV(<<5>>), LeafV(<<5>>) >> >>, << LeafV(<<5>>) >>, << <<1>> >> >>]
      [] m = "mixed"  -> [c |-> 3, val |-> << << <<65>> >>, << << LeafV(<<5>>), LeafV(<<6>>) >> >>, << >>, << >> >>]
      [] m = "nested" -> [c |-> 4, val |-> << << << << << >>, << << LeafV(<<5>>) >> >>, << LeafV(<<5>>) >>, << <<0>> >> >>,
                                                   << << >>, << << LeafV(<<5>>) >> >>, << LeafV(<<5>>) >>, << <<0>> >> >> >> >>,
                                               << >>, << >>, << >>, << >> >>]

VARIABLES msg,       \* [c, val, wire]: the bytes being decoded (a conformant, library-made message)
          heap, results, ghost, ndec, nmut
hvars == <<msg, heap, results, ghost, ndec, nmut>>

HInit == /\ \E m \in Msgs : msg = [c |-> MsgVal(m).c, val |-> MsgVal(m).val, wire |-> EncStruct("lib", "decl", MsgVal(m).c, MsgVal(m).val)]
         /\ heap = [store |-> << >>, next |-> 1, cache |-> << >>]
         /\ results = << >> /\ ghost = << >> /\ ndec = 0 /\ nmut = 0
         /\ cs = << >> /\ pc = "history" /\ i = 0 /\ wire = << >> /\ off = 0 /\ kw = << >>     \* (pipeline variables unused)

DecodeCall ==            \* cls.decode(bytes): the specification's decoder decides the value, Build the objects
    /\ ndec < MaxDec
    /\ LET v == DecStruct(msg.c, msg.wire)
           r == Build(msg.c, v, heap)
       IN /\ heap' = r.H
          /\ results' = Append(results, r.id)
          /\ ghost' = Append(ghost, ToNode(msg.c, v))
    /\ ndec' = ndec + 1
    /\ UNCHANGED <<msg, nmut>>

Mutate ==                \* a caller (or the library) writes to a message it got from an earlier decode
    /\ nmut < MaxMut
    /\ \E k \in 1..Len(results) : \E p \in Paths(msg.c, ghost[k]) :
         \E wr \in Writes(ClassAt(msg.c, ghost[k], p), NodeAt(ghost[k], p)) :
            /\ heap' = [heap EXCEPT !.store[ObjAt(heap.store, results[k], p)] = HeapWrite(@, wr)]
            /\ ghost' = [ghost EXCEPT ![k] = WriteNode(@, p, wr)]
    /\ nmut' = nmut + 1
    /\ UNCHANGED <<msg, results, ndec>>

HNext == (DecodeCall \/ Mutate) /\ UNCHANGED vars
HSpec == HInit /\ [][HNext]_<<hvars, vars>>

\* every result reads as: the decoded value of the bytes + the writes made through that result
DecodeIsFunctionOfBytes == \A k \in 1..Len(results) : Deref(heap.store, results[k]) = ghost[k]
\* (a fresh result is exactly the specification's decode of the bytes)
FreshIsDecode == (Len(ghost) > 0 /\ nmut = 0) => ghost[Len(ghost)] = ToNode(msg.c, msg.val)
=============================================================================
