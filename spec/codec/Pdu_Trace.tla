----------------------------- MODULE Pdu_Trace -----------------------------
(* Code -> spec: executions of the real code are validated against Pdu.

   "req"  the driver called ble_request / _write_pdu with a body of n bytes and fragment size p; the
          record lists what an independent reader saw in every GATT write (bytes on the air, the AEAD
          counter under which it opened (999999 = it did not open under the accessory's counter),
          header kind, control byte, whether tid / opcode+iid were the requested ones, which body
          range the payload equals).  The specification's accessory (AccRecv) is run on these
          fragments: BleFragmentSize and BleReassembly decide.
   "resp" the scripted accessory fragmentation / fault is the input; the record holds what _read_pdu
          did (returned or raised, status, whether the body is the accessory's, number of reads, AEAD
          counter afterwards); accepted iff the specification's reader ends the same way.
   "coap" input = item outcomes + the transaction ids the real encode_all_pdus put into the request;
          the record holds the result vector (per item: kind, status, which item's body it is). *)
EXTENDS Pdu, Json, IOUtils

Recs == ndJsonDeserialize(IOEnv.TRACE_FILE)

VARIABLE tid
tvars == <<vars, tid>>

B(x) == x = 1
ToFrags(r) == [k \in 1..Len(r.frags) |->
                 LET f == r.frags[k] IN
                 [hdr |-> f[1], ctl |-> f[2], lo |-> f[3], len |-> f[4], declared |-> f[5], ctr |-> f[6],
                  tidok |-> B(f[7]), idok |-> B(f[8]), alen |-> f[9]]]
ToItems(r) == [k \in 1..Len(r.items) |-> [oc |-> r.items[k][1], s |-> r.items[k][2], len |-> r.items[k][3]]]

TInit ==
    /\ tid \in 1..Len(Recs)
    /\ LET r == Recs[tid] IN
       CASE r.part = "req" ->
              /\ cs = [part |-> "req", p |-> r.p, enc |-> r.enc, n |-> r.n, ctr0 |-> r.ctr0]
              /\ pc = "write" /\ frags = ToFrags(r) /\ eoff = r.n /\ kctr = r.ctr0 + r.enc * Len(r.frags) /\ air = << >>
              /\ acc = [NullAcc EXCEPT !.ctr = r.ctr0] /\ rd = NullRd /\ co = NullCo
         [] r.part = "resp" ->
              RespInit([part |-> "resp", m |-> r.m, st |-> r.st, short |-> r.short, split |-> r.split, fault |-> r.fault,
                        fpos |-> r.fpos, enc |-> r.enc, ctr0 |-> r.ctr0])
         [] r.part = "coap" ->
              /\ cs = [part |-> "coap", items |-> ToItems(r)]
              /\ pc = "decode" /\ frags = << >> /\ eoff = 0 /\ kctr = 0 /\ air = << >>
              /\ acc = NullAcc /\ rd = NullRd /\ co = [NullCo EXCEPT !.req = r.reqtids]
TNext == Next /\ UNCHANGED tid
TSpec == TInit /\ [][TNext]_tvars

\* the real reader ended as the specification's reader does
RespConforms ==
    (cs.part = "resp" /\ pc \in {"done", "rejected"}) =>
        LET r == Recs[tid] IN
        /\ r.out = pc
        /\ pc = "done" => r.status = rd.status /\ r.bodyok = 1
        /\ r.reads = rd.next - 1
        /\ r.kctr = kctr
\* the reader never hangs: the specification's reader always terminates on these inputs
RespTerminates == (cs.part = "resp" /\ pc = "more") => rd.next <= NFrags
\* the real batch decoder produced the specified result vector
CoapConforms ==
    (cs.part = "coap" /\ pc = "done") =>
        LET r == Recs[tid] IN
        /\ Len(r.res) = Len(co.res)
        \* (the numeric code of a per-item error is not prescribed: every failure kind is recorded as "fail")
        /\ \A i \in 1..Len(co.res) :
              r.res[i] = IF co.res[i].k = "ok" THEN <<"ok", 0, co.res[i].item, co.res[i].len>> ELSE <<"fail", 0, 0, 0>>
\* the request carried one item per requested characteristic
CoapRequestShape == cs.part = "coap" => Len(co.req) = NItems
=============================================================================
