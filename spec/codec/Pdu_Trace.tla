----------------------------- MODULE Pdu_Trace -----------------------------
(* Code -> spec: executions of the real code are validated against Pdu.

   "req"  the driver called ble_request with a body of n bytes on a characteristic whose negotiated
          size makes the fragment size p; the record lists what an independent reader saw in every
          GATT write (header kind, control byte, which body range the payload equals, declared
          length, the AEAD counter under which it opened (999999 = it did not open under the
          accessory's counter), whether tid / opcode+iid were the requested ones, bytes on the
          air).  The specification's accessory (AccRecv) is run on these fragments:
          BleFragmentSize and BleReassembly decide.
   "resp" the scripted accessory fragmentation / fault is the input; the record holds what the real
          reader did (returned or raised, status, whether the body is the accessory's, number of
          reads, AEAD counter afterwards); accepted iff the specification's reader ends the same way.
   "coap" input = item outcomes + the transaction ids the real encode_all_pdus put into the request;
          the record holds the result vector (per item: ok + which item's body / per-item error). *)
EXTENDS Pdu, Json, IOUtils, SequencesExt

Recs == ndJsonDeserialize(IOEnv.TRACE_FILE)

VARIABLE tid
tvars == <<vars, tid>>

B(x) == x = 1
ToFrags(r) == [k \in 1..Len(r.frags) |->
                 LET f == r.frags[k] IN
                 [hdr |-> f[1], ctl |-> f[2], lo |-> f[3], len |-> f[4], declared |-> f[5], ctr |-> f[6],
                  tidok |-> B(f[7]), idok |-> B(f[8]), alen |-> f[9]]]
ToItems(r) == [k \in 1..Len(r.items) |-> [oc |-> r.items[k][1], s |-> r.items[k][2], len |-> r.items[k][3]]]
CaseOf(r) ==
    CASE r.part = "req"  -> [part |-> "req", p |-> r.p, enc |-> r.enc, n |-> r.n, ctr0 |-> r.ctr0]
      [] r.part = "resp" -> [part |-> "resp", m |-> r.m, st |-> r.st, short |-> r.short, split |-> r.split, fault |-> r.fault,
                             fpos |-> r.fpos, enc |-> r.enc, ctr0 |-> r.ctr0]
      [] r.part = "coap" -> [part |-> "coap", items |-> ToItems(r), ids |-> << >>, api |-> "read"]
      [] r.part = "coapmap" -> [part |-> "coap", items |-> ToItems(r), ids |-> r.ids, api |-> r.api]

TInit ==
    /\ tid \in 1..Len(Recs)
    /\ LET r == Recs[tid] IN
       CASE r.part = "req" ->
              /\ cs = CaseOf(r)
              /\ pc = "write" /\ frags = ToFrags(r) /\ eoff = r.n /\ kctr = r.ctr0 + r.enc * Len(r.frags) /\ air = << >>
              /\ acc = [NullAcc EXCEPT !.ctr = r.ctr0] /\ rd = NullRd /\ co = NullCo
         [] r.part = "resp" -> RespInit(CaseOf(r))
         [] r.part = "coap" ->
              /\ cs = CaseOf(r)
              /\ pc = "decode" /\ frags = << >> /\ eoff = 0 /\ kctr = 0 /\ air = << >>
              /\ acc = NullAcc /\ rd = NullRd /\ co = [NullCo EXCEPT !.req = r.reqtids]
         [] r.part = "coapmap" -> CoapInit(CaseOf(r))
TNext == Next /\ UNCHANGED tid
TSpec == TInit /\ [][TNext]_tvars

\* the real reader ended as the specification's reader does
RespSame(r, p, k, d) == /\ r.out = p
                        /\ p = "done" => r.status = d.status /\ r.bodyok = 1
                        /\ r.reads = d.next - 1
                        /\ r.kctr = k
RespConforms == (cs.part = "resp" /\ pc \in {"done", "rejected"}) => RespSame(Recs[tid], pc, kctr, rd)
\* the real batch decoder produced the specified result vector
\* (the numeric code of a per-item error is not prescribed: every failure kind is recorded as "fail")
CoapSame(r, res) ==
    /\ Len(r.res) = Len(res)
    /\ \A i \in 1..Len(res) : r.res[i] = IF res[i].k = "ok" THEN <<"ok", 0, res[i].item, res[i].len>> ELSE <<"fail", 0, 0, 0>>
CoapConforms == (Recs[tid].part = "coap" /\ pc = "done") => CoapSame(Recs[tid], co.res)
\* the request carried one item per requested characteristic
CoapRequestShape == Recs[tid].part = "coap" => Len(co.req) = Len(cs.items)
\* "coapmap": a batch whose list names a characteristic more than once, through the connection API; the record holds
\* the returned dictionary per distinct characteristic: << >> no entry, <<"ok", item whose body it is, length>>,
\* <<"fail", 0, 0>>.  Accepted iff every characteristic has the result of one of its own items (IdAttributed).
RecEntry(c, L, e) ==
    IF e = << >> THEN EntryAllowed(c, L, << >>)
    ELSE \E i \in Own(c, L) :
            IF Expected(c, i).k = "ok" THEN c.api = "read" /\ e = <<"ok", i, Expected(c, i).len>> ELSE e = <<"fail", 0, 0>>
RecMapAccepted(c, m) == Len(m) = NLabels(c) /\ \A L \in 1..NLabels(c) : RecEntry(c, L, m[L])
CoapMapConforms == Recs[tid].part = "coapmap" => RecMapAccepted(cs, Recs[tid].map)

\* ---------------------------------------------------------------------- every rejected record at once
\* (the invariants stop at the first one).  Whole runs as functions of the same step operators.
RECURSIVE AccRun(_, _, _, _), RdRun(_, _), CoRun(_, _)
AccRun(c, fs, k, a) == IF k > Len(fs) THEN a ELSE AccRun(c, fs, k + 1, AccStep(c, a, fs[k]))
RdRun(c, r) == IF RdEnabled(c, r) THEN RdRun(c, RdStep(c, r)) ELSE r
CoRun(c, d) == IF d.pc = "decode" THEN CoRun(c, CoStep(c, d)) ELSE d

Accepted(r) ==
    LET c == CaseOf(r) IN
    CASE r.part = "req" ->
           LET fs == ToFrags(r) IN
           /\ \A k \in 1..Len(fs) : fs[k].alen <= c.p + TAG * c.enc
           /\ AccAccepts(c, AccRun(c, fs, 1, [NullAcc EXCEPT !.ctr = c.ctr0]))
      [] r.part = "resp" ->
           LET f == RdRun(c, [pc |-> "first", kctr |-> c.ctr0, rd |-> NullRd]) IN
           /\ f.pc \in {"done", "rejected"}
           /\ RespSame(r, f.pc, f.kctr, f.rd)
      [] r.part = "coapmap" -> RecMapAccepted(c, r.map)
      [] r.part = "coap" ->
           /\ Len(r.reqtids) = Len(c.items)
           /\ LET d == CoRun(c, [pc |-> "decode", co |-> [NullCo EXCEPT !.req = r.reqtids]]) IN
                d.pc = "done" /\ Attributed(c, d.co.res) /\ CoapSame(r, d.co.res)

ExportVerdicts ==
    /\ TLCGet("stats").generated >= 0
    /\ ndJsonSerialize(IOEnv.VERDICTS_OUT,
          SelectSeq([k \in 1..Len(Recs) |-> [tid |-> k, ok |-> Accepted(Recs[k])]], LAMBDA v : ~v.ok))
=============================================================================
