----------------------------- MODULE Tlv8_Cases -----------------------------
(* Spec -> code: export every item list of the bounded model with the wire layout the
   specification prescribes for it. *)
EXTENDS Tlv8, Json, IOUtils, SequencesExt

ExportCases ==
    /\ TLCGet("stats").generated >= 0
    /\ ndJsonSerialize(IOEnv.CASES_OUT,
          SetToSeq({ [items |-> [k \in 1..Len(l) |-> <<l[k].t, l[k].n>>],
                      wire  |-> LET w == Encode(l) IN [k \in 1..Len(w) |-> <<w[k].t, w[k].n, w[k].item, w[k].off>>]]
                     : l \in Inputs }))
=============================================================================
