SPECIFICATION Spec
CONSTANTS FRAG = 255
  Lens = {1, 254, 255, 256, 510, 511}
  Sweep = {250, 251, 252, 253, 254, 255, 256, 505, 506, 507, 508, 509, 510, 511}
  PairLens = {255, 256, 510}
  Depth = 4
  MaxIds = 6
CONSTANT SchemaSource = "file"
INVARIANT StructRoundTrip
INVARIANT Canonical
INVARIANT OnBoundary
POSTCONDITION ExportCases
CHECK_DEADLOCK FALSE
