SPECIFICATION HSpec
CONSTANTS FRAG = 3  Memo = TRUE  MaxDec = 3  MaxMut = 2
  Msgs = {"twins", "mixed", "nested"}
CONSTANT SchemaSource = "toy"
INVARIANT DecodeIsFunctionOfBytes
INVARIANT FreshIsDecode
CHECK_DEADLOCK FALSE
