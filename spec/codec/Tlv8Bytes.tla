----------------------------- MODULE Tlv8Bytes -----------------------------
(* Byte-level TLV8 decoder (TLV.decode_bytearray), one loop iteration per step, over literal
   byte strings.  Verdict classes: "ok" (items returned) or "parse" (TlvParseException).
   Anything else the real decoder does (IndexError, a value shorter than declared) is not a
   behaviour of this specification.

   Expected = {} means "no filter"; otherwise decoding stops (successfully) at the first type
   that is not expected - checked after the type byte is popped and before the length byte is
   read, exactly as the code does. *)
EXTENDS Naturals, Sequences, SequencesExt, FiniteSets, TLC, Json, IOUtils

CONSTANTS Alphabet, MaxLen, Expected

RECURSIVE StringsUpTo(_)
StringsUpTo(k) == IF k = 0 THEN { << >> }
                  ELSE StringsUpTo(k - 1) \cup
                       { Append(s, b) : s \in { x \in StringsUpTo(k - 1) : Len(x) = k - 1 }, b \in Alphabet }

VARIABLES inp, rest, acc, pc, used
vars == <<inp, rest, acc, pc, used>>

Init == /\ inp \in StringsUpTo(MaxLen)
        /\ rest = inp /\ acc = << >> /\ pc = "run" /\ used = 0

Merge(a, t, v) ==
    IF Len(a) > 0 /\ a[Len(a)][1] = t
    THEN [a EXCEPT ![Len(a)] = <<t, @[2] \o v>>]
    ELSE Append(a, <<t, v>>)

\* one iteration of the while loop
StepResult(r, a) ==
    IF r = << >> THEN [pc |-> "ok", rest |-> r, acc |-> a]
    ELSE LET t == r[1] IN
         IF Expected # {} /\ t \notin Expected THEN [pc |-> "ok", rest |-> r, acc |-> a]
         ELSE IF Len(r) < 2 THEN [pc |-> "parse", rest |-> r, acc |-> a]
         ELSE LET n == r[2] IN
              IF Len(r) - 2 < n THEN [pc |-> "parse", rest |-> r, acc |-> a]
              ELSE [pc |-> "run", rest |-> SubSeq(r, 3 + n, Len(r)),
                    acc |-> Merge(a, t, SubSeq(r, 3, 2 + n))]

Step == /\ pc = "run"
        /\ LET s == StepResult(rest, acc) IN
             /\ pc' = s.pc /\ rest' = s.rest /\ acc' = s.acc
             /\ used' = IF s.pc = "run" THEN used + (Len(rest) - Len(s.rest)) ELSE used
        /\ UNCHANGED inp

Next == Step
Spec == Init /\ [][Next]_vars

RECURSIVE Run(_, _)
Run(r, a) == LET s == StepResult(r, a) IN IF s.pc = "run" THEN Run(s.rest, s.acc) ELSE s
Verdict(s) == LET f == Run(s, << >>) IN
              IF f.pc = "ok" THEN [verdict |-> "ok", items |-> f.acc] ELSE [verdict |-> "parse", items |-> << >>]

\* ------------------------------------------------------------------ properties
\* bytes are neither lost nor invented: consumed + remaining = input
Conservation == used + Len(rest) = Len(inp)
\* every decoded value is as long as the sum of its declared fragment lengths
RECURSIVE ValBytes(_)
ValBytes(a) == IF a = << >> THEN 0 ELSE Len(Head(a)[2]) + ValBytes(Tail(a))
RECURSIVE NFrags(_, _)
NFrags(r, stop) == IF Len(r) = stop \/ r = << >> THEN 0 ELSE 1 + NFrags(SubSeq(r, 3 + r[2], Len(r)), stop)
NoShortValue == pc \in {"run", "ok"} => ValBytes(acc) + 2 * NFrags(inp, Len(rest)) = used
\* decoding always terminates in ok or parse (no third outcome)
Total == pc \in {"run", "ok", "parse"}
NoMergeAcrossTypes == \A k \in 1..(Len(acc) - 1) : acc[k][1] # acc[k + 1][1]

\* ------------------------------------------------------------------ case export for conformance
ExportCases ==
    /\ TLCGet("stats").generated >= 0
    /\ ndJsonSerialize(IOEnv.CASES_OUT,
          SetToSeq({ [inp |-> s, exp |-> Verdict(s)] : s \in StringsUpTo(MaxLen) }))
=============================================================================
