SPECIFICATION TSpec
CONSTANTS
  Callers = {1, 2, 3}
  Chars = {10, 11, 12}
  NInfo = 2
  Addrs = {"a1", "a2", "a3"}
  InitAddr = "a1"
  InitWanted = {}
  MaxCtx = 0
  MaxReq = 0
  MaxBg = 1000
  MaxEv = 1000
  CloseEnds = FALSE
  Deviations = {"coap-queued-call-on-ended-session", "coap-library-shutdown-escapes", "coap-reconnect-soon-on-ended-session", "coap-ended-session-not-marked", "coap-cancelled-pair-verify-leaks-context", "coap-caller-bypasses-connect-in-progress"}
  Obs = TRUE
CONSTRAINT TConstraint
POSTCONDITION Accepted
CHECK_DEADLOCK FALSE
