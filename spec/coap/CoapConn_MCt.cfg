SPECIFICATION Spec
CONSTANTS
  Callers = {1, 2}
  Chars = {10, 11}
  NInfo = 1
  Addrs = {"a1", "a2"}
  InitAddr = "a1"
  InitWanted = {}
  MaxCtx = 2
  MaxReq = 6
  MaxBg = 1
  MaxEv = 1
  CloseEnds = FALSE
  Deviations = {}
  Obs = FALSE
INVARIANT TypeOK
INVARIANT SingleConnect
INVARIANT WaiterHasPrimary
INVARIANT LockSound
INVARIANT NoLeak
INVARIANT AtMostOneContext
INVARIANT DeadIffShut
INVARIANT NoOrphanRequest
INVARIANT OpOnReadySession
INVARIANT Subscribed
INVARIANT ResourceIsCurrent
INVARIANT AfterCloseNoContext
INVARIANT OnlyLibraryErrors
INVARIANT BgNeverFails
PROPERTY DeadNeverUsed
PROPERTY OpStartsReady
PROPERTY FreshSessions
PROPERTY EventsInOrder
CHECK_DEADLOCK FALSE
