SPECIFICATION LiveSpec
CONSTANTS
  Callers = {1, 2}
  Chars = {10}
  NInfo = 1
  Addrs = {"a1", "a2"}
  InitAddr = "a1"
  InitWanted = {10}
  MaxCtx = 1
  MaxReq = 4
  MaxBg = 1
  MaxEv = 0
  CloseEnds = FALSE
  Deviations = {}
  Obs = FALSE
PROPERTY EveryCallReturns
CHECK_DEADLOCK FALSE
