SPECIFICATION TSpec
CONSTANTS
  Callers = {1, 2, 3}
  Chars = {10, 11, 12}
  NInfo = 2
  Addrs = {"a1", "a2", "a3"}
  InitAddr = "a1"
  InitWanted = {}
  MaxCtx = 0
  MaxReq = 0
  MaxBg = 1000
  MaxEv = 1000
  CloseEnds = FALSE
  Deviations = {}
  Obs = TRUE
CONSTRAINT TConstraint
INVARIANT SingleConnect
INVARIANT WaiterHasPrimary
INVARIANT NoLeak
INVARIANT AtMostOneContext
INVARIANT OpOnReadySession
INVARIANT Subscribed
INVARIANT AfterCloseNoContext
INVARIANT OnlyLibraryErrors
INVARIANT BgNeverFails
POSTCONDITION Accepted
CHECK_DEADLOCK FALSE
