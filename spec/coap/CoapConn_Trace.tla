---------------------------- MODULE CoapConn_Trace ----------------------------
(* Trace validation for CoapConn: executions of the real CoAPPairing / CoAPHomeKitConnection /
   EncryptionContext / EventResource recorded by harness/extcoap_driver.py at the aiocoap boundary
   (contexts created and shut down, every request with the session epoch and nonce counter the
   reference accessory finds by trial decryption) and at the public API (calls, results, listener
   deliveries) are accepted iff they are behaviours of CoapConn (Obs = TRUE).  Steps of the
   controller are inferred by TLC; what a step puts on the wire / returns must be the next recorded events.

   A batch file holds many traces (one JSON object per line: {"wanted0": [...], "events": [...]});
   Init picks one; the furthest position reached per trace is kept in a TLC register and the
   post-condition requires every trace to have been consumed completely.

   CoapConn_Trace.cfg validates against the intended behaviour (Deviations = {}); CoapConn_Trace_dev.cfg enables every
   named deviation of the released library: for an accepted trace the post-condition then prints <<"DEVS", i, S>> where
   S is the set of deviations (devUsed) of a smallest accepting run - the signatures under which the execution is a
   recorded finding.  A trace rejected even then shows a symptom that no listed deviation explains. *)
EXTENDS CoapConn, Json, IOUtils, TLCExt

Traces == ndJsonDeserialize(IOEnv.TRACE_FILE)

VARIABLES tid, l
tvars == <<vars, tid, l>>

Ev == Traces[tid].events
ToSet(seq) == {seq[i] : i \in 1..Len(seq)}
HasEv == l <= Len(Ev)
E == Ev[l]
Step1 == l' = l + 1 /\ UNCHANGED tid
IsEvent(k) == HasEv /\ E.ev = k /\ Step1

TInit ==
    /\ tid \in 1..Len(Traces)
    /\ l = 1
    /\ ctxs = << >> /\ sess = << >> /\ cur = 0 /\ fut = 0 /\ wanted = ToSet(Traces[tid].wanted0) /\ addr = InitAddr
    /\ descr = "none" /\ shutdownF = FALSE /\ callers = [c \in Callers |-> Idle] /\ nreq = 0 /\ bg = 0
    /\ closedClean = FALSE /\ out = << >>
    /\ hasInfo = FALSE /\ devUsed = {} /\ badRet = FALSE /\ bgFailed = FALSE

\* ---- what the last step emitted must be what was recorded next
MatchEm(o) ==
    /\ E.ev = o.ev
    /\ CASE o.ev = "ctx_new"  -> E.x = o.x
         [] o.ev = "ctx_shut" -> E.x = o.x /\ E.again = o.again
         [] o.ev = "req"      -> /\ E.x = o.x /\ E.r = o.r /\ E.c = o.c /\ E.kind = o.kind /\ E.addr = o.addr
                                 /\ E.e = o.e /\ E.n = o.n /\ E.op = o.op /\ ToSet(E.ids) = o.ids
         [] o.ev = "ret"      -> E.c = o.c /\ E.res = o.res
         [] o.ev = "bg"       -> E.ok = o.ok
         [] OTHER             -> FALSE
Consume ==
    /\ out # << >> /\ HasEv /\ MatchEm(Head(out)) /\ Step1
    /\ out' = Tail(out)
    /\ UNCHANGED <<ctxs, sess, cur, fut, wanted, addr, descr, shutdownF, callers, nreq, bg, closedClean, hvars>>

\* ---- stimuli and observations (only once the emissions of the previous step are accounted for)
ReqOwner(r) == {c \in Callers : callers[c].r = r /\ InFlight(c)}
TrCall   == IsEvent("call") /\ Call(E.c, E.api, ToSet(E.ids))
TrRsp    == IsEvent("rsp") /\ \E c \in ReqOwner(E.r) : Rsp(c, E.how)
TrTmo    == IsEvent("tmo") /\ \E c \in ReqOwner(E.r) : Timeout(c)
TrCancel == IsEvent("cancel") /\ Cancel(E.c)
TrDescr  == IsEvent("descr") /\ Descr(E.addr)
\* an accessory event: the context that got it must be the current session's; listeners are called iff the
\* specification says the event is the next one under the current event key; the accessory is answered 2.03 / 4.04
TrEvent  == /\ IsEvent("event")
            /\ Connected /\ E.e = cur
            /\ ToSet(E.delivered) = (IF EventOk(E.key, E.k) THEN {E.iid} ELSE {})
            /\ E.code = (IF EventOk(E.key, E.k) THEN "2.03" ELSE "4.04")
            /\ Event(E.key, E.k)
\* after a full settle the harness reports what is visible from outside
TrObs    == /\ IsEvent("obs")
            /\ Quiet
            /\ E.connected = Connected
            /\ ToSet(E.live) = LiveCtx
            /\ ToSet(E.wanted) = wanted
            /\ ToSet(E.busy) = {c \in Callers : callers[c].pc # "idle"}
            /\ UNCHANGED vars
\* the run ended after an honest tail: every call has returned
TrEnd    == /\ IsEvent("end")
            /\ Quiet /\ \A c \in Callers : callers[c].pc = "idle"
            /\ UNCHANGED vars
Silent   == Internal /\ UNCHANGED <<tid, l>>

TNext == \/ Consume
         \/ out = << >> /\ (TrCall \/ TrRsp \/ TrTmo \/ TrCancel \/ TrDescr \/ TrEvent \/ TrObs \/ TrEnd \/ Silent)
TSpec == TInit /\ [][TNext]_tvars

\* ---- acceptance bookkeeping (workers = 1)
\* register tid: furthest position; register NT + tid: the deviations used by an accepting run (a smallest such set)
NT == Len(Traces)
NoSet == {"-"}
Done == l = Len(Ev) + 1
Progress == /\ TLCSet(tid, IF TLCGet(tid) < l THEN l ELSE TLCGet(tid))
            /\ IF Done /\ (TLCGet(NT + tid) = NoSet \/ Cardinality(devUsed) < Cardinality(TLCGet(NT + tid)))
               THEN TLCSet(NT + tid, devUsed) ELSE TRUE
TConstraint == Progress
ASSUME \A i \in 1..Len(Traces) : TLCSet(i, 0) /\ TLCSet(Len(Traces) + i, NoSet)
Accepted ==
    /\ TLCGet("stats").generated >= 0
    /\ \A i \in 1..Len(Traces) :
          IF TLCGet(i) = Len(Traces[i].events) + 1
          THEN (IF TLCGet(NT + i) = {} THEN TRUE ELSE PrintT(<<"DEVS", i, TLCGet(NT + i)>>) /\ TRUE)
          ELSE PrintT(<<"REJECTED", i, TLCGet(i)>>)
\* debugging aid: a counterexample to this "invariant" is the longest matched prefix of a rejected trace
DbgL == CHOOSE n \in 0..100000 : ToString(n) = IOEnv.DBG_L
DebugNotReached == l < DbgL
=============================================================================
