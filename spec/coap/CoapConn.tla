------------------------------- MODULE CoapConn -------------------------------
(* Connection life-cycle of a CoAP pairing: aiohomekit/controller/coap/pairing.py (CoAPPairing:
   _ensure_connected and the connect-once protocol between concurrent callers, get/put/subscribe/
   unsubscribe/close/shutdown, description updates) and controller/coap/connection.py
   (CoAPHomeKitConnection.connect / do_pair_verify / get_accessory_info / reconnect_soon,
   EncryptionContext.post_bytes with its lock and its self-destruction, EventResource.render_put),
   together with the aiocoap contexts it creates, the accessory and the API callers.

   One action per run of a task between two suspension points (CallerResume, LockGrant, BgRun and
   the synchronous prefix of an API call in Call); the environment (responses, time-outs, caller
   cancellation, zeroconf address changes, accessory events) consists of independently enabled actions.
   Controller operations are functions S -> S over a record of the controller-owned variables so that a
   step composes them the way the code composes calls.

   Observable emissions of a step (contexts created / shut down, requests put on the wire with the
   session epoch and nonce counter the accessory finds, API results) are collected in `out` when
   Obs = TRUE (trace validation) and dropped when model checking.

   Sessions.  Every successful pair-verify creates a session epoch e (fresh keys on both sides, all
   counters zero).  sess[e].sent is the controller's request counter: the n-th request of a session is
   sealed with nonce n.  sess[e].dead says that the session's aiocoap context is gone (coap_ctx = None).

   Abstractions: the accessory answers a request it received honestly or not at all / with 4.04 /
   with bytes that do not decrypt; it applies a request when it receives it.  PDU-level error statuses,
   replayed responses and the resynchronisation heuristics of _decrypt_response are C06/C13/C17's.
   Cancellation is a stimulus for waiting callers, for the connecting caller during pair-verify, and for
   callers whose own request is queued or in flight (not for the connecting caller while it fetches the
   accessory database or re-subscribes, not for a subscribe() still queued on the session lock, and not for
   close()/shutdown()).

   With Deviations = {} the module describes the intended behaviour and TLC checks the design properties below.
   The released library departs from it in six ways, each modelled as a named deviation (the name is the signature of
   the recorded finding, proposed repair in proposed_fixes/EXTCOAP-n.patch); a deviation replaces the intended
   behaviour in exactly the situation it concerns and is entered in devUsed when its effect becomes observable:
     D_QUEUED   a request that waited for the lock of a session which ended meanwhile raises AttributeError (1)
     D_LIBSHUT  outstanding requests of a context that is shut down (aiocoap LibraryShutdown) escape as such (2)
     D_BGDEAD   reconnect_soon on a session that already shut itself down dies with AttributeError (3)
     D_NOTMARK  reconnect_soon shuts the context of a live session down but leaves coap_ctx set: the session is
                used again (request on a shut-down context, second shutdown) (3)
     D_PVLEAK   a caller cancelled during pair-verify leaves the new context open (4)
     D_BYPASS   is_connected is consulted before connection_future: a caller that arrives during a connect uses the
                half set-up session (AttributeError 'info' for put_characteristics on the first connect) (5)
   CloseEnds = FALSE (default reading): close()/shutdown() only unsubscribe; TRUE models proposed_fixes/EXTCOAP-6. *)
EXTENDS Naturals, FiniteSets, Sequences, TLC

CONSTANTS Callers,      \* identifiers of API callers (tasks)
          Chars,        \* characteristic instance ids
          NInfo,        \* encrypted requests of get_accessory_info (1 database read + 1 per service)
          Addrs,        \* advertised addresses
          InitAddr,     \* address in the pairing data
          InitWanted,   \* subscriptions present before the first connect
          MaxCtx,       \* bound on contexts ever created (0 = unbounded)
          MaxReq,       \* no new API call once this many requests were made (0 = unbounded)
          MaxBg,        \* bound on pending reconnect_soon tasks
          MaxEv,        \* bound on events delivered per session (model checking)
          CloseEnds,    \* TRUE: close()/shutdown() end the session (EXTCOAP-6); FALSE: they only unsubscribe (as released)
          Deviations,   \* which departures of the released library are modelled ({} = intended behaviour)
          Obs           \* TRUE: collect emissions (trace validation)

VARIABLES ctxs,         \* contexts ever created: [shut, res]  (res: EventResource registered)
          sess,         \* session epochs: [x, addr, sent, dead, reg, evc, info, lockq]
          cur,          \* connection.enc_ctx: 0 = None, else an index of sess
          fut,          \* pairing.connection_future: 0 = None, else the caller that runs the connect
          wanted,       \* pairing.subscriptions
          addr,         \* connection.address
          descr,        \* address of pairing.description ("none" before the first one)
          shutdownF,    \* pairing._shutdown
          callers,      \* per caller: where its coroutine is suspended
          nreq,         \* requests ever made (ids)
          bg,           \* reconnect_soon tasks created and not yet run
          closedClean,  \* history: the last API activity was a close()/shutdown() that returned with no other call active
          out,          \* emissions of the last step (Obs)
          hasInfo,      \* the connection object has an accessory database (`info`) from some session
          devUsed,      \* history: deviations whose effect became observable
          badRet,       \* history: some API call ended with an exception that is not a library exception
          bgFailed      \* history: a background reconnect_soon task died

hvars == <<hasInfo, devUsed, badRet, bgFailed>>
vars == <<ctxs, sess, cur, fut, wanted, addr, descr, shutdownF, callers, nreq, bg, closedClean, out, hvars>>

D_QUEUED  == "coap-queued-call-on-ended-session"
D_LIBSHUT == "coap-library-shutdown-escapes"
D_BGDEAD  == "coap-reconnect-soon-on-ended-session"
D_NOTMARK == "coap-ended-session-not-marked"
D_PVLEAK  == "coap-cancelled-pair-verify-leaks-context"
D_BYPASS  == "coap-caller-bypasses-connect-in-progress"
AllDeviations == {D_QUEUED, D_LIBSHUT, D_BGDEAD, D_NOTMARK, D_PVLEAK, D_BYPASS}
ASSUME Deviations \subseteq AllDeviations
E_REQUEST == "error:AttributeError:request"       \* 'NoneType' object has no attribute 'request'
E_INFO    == "error:AttributeError:info"          \* 'CoAPHomeKitConnection' object has no attribute 'info'
E_LIBSHUT == "error:LibraryShutdown"
ErrRes == {E_REQUEST, E_INFO, E_LIBSHUT}

\* ------------------------------------------------------------------ records
NewCtx == [shut |-> FALSE, res |-> FALSE]
NewSess(x, a) == [x |-> x, addr |-> a, sent |-> 0, dead |-> FALSE, reg |-> {}, evc |-> 0, info |-> FALSE, lockq |-> << >>]
\* pc: idle | wait (Condition.wait) | m1 | m3 (pair-verify request in flight) | info | resub | op (encrypted request)
\* q:  none | queued (on EncryptionContext.lock) | flight
\* w:  none, or why the coroutine is runnable: ok err neterr notfound garbage tmo shutdown go cancel
Idle == [api |-> "none", ids |-> {}, pc |-> "idle", w |-> "none", q |-> "none", r |-> 0, x |-> 0, e |-> 0, k |-> 0,
         a |-> "none", rop |-> "none", rids |-> {}]

ConnectPcs == {"m1", "m3", "info", "resub"}
CloseApis == {"close", "shutdown"}

St == [ctxs |-> ctxs, sess |-> sess, cur |-> cur, fut |-> fut, wanted |-> wanted, addr |-> addr, descr |-> descr,
       shutdownF |-> shutdownF, callers |-> callers, nreq |-> nreq, bg |-> bg, closedClean |-> closedClean, out |-> << >>,
       hasInfo |-> hasInfo, devUsed |-> devUsed, badRet |-> badRet, bgFailed |-> bgFailed]
Commit(S) == /\ ctxs' = S.ctxs /\ sess' = S.sess /\ cur' = S.cur /\ fut' = S.fut /\ wanted' = S.wanted /\ addr' = S.addr
             /\ descr' = S.descr /\ shutdownF' = S.shutdownF /\ callers' = S.callers /\ nreq' = S.nreq /\ bg' = S.bg
             /\ closedClean' = S.closedClean /\ out' = S.out
             /\ hasInfo' = S.hasInfo /\ devUsed' = S.devUsed /\ badRet' = S.badRet /\ bgFailed' = S.bgFailed

ConnectedS(S) == S.cur # 0 /\ ~S.sess[S.cur].dead          \* CoAPHomeKitConnection.is_connected
Connected == ConnectedS(St)
LiveCtxS(S) == {x \in 1..Len(S.ctxs) : ~S.ctxs[x].shut}
LiveCtx == LiveCtxS(St)

Emit(S, ev) == IF Obs THEN [S EXCEPT !.out = Append(@, ev)] ELSE S
Mark(S, d) == [S EXCEPT !.devUsed = @ \cup {d}]

\* ------------------------------------------------------------------ controller operations (S -> S)
\* the request of caller d is on the wire of context x
OnCtx(S, d, x) == \/ S.callers[d].pc \in {"m1", "m3"} /\ S.callers[d].x = x
                  \/ S.callers[d].q = "flight" /\ S.sess[S.callers[d].e].x = x
\* Context.shutdown(): aiocoap fails every outstanding request of the context (LibraryShutdown)
\* (a context is shut down a second time only through D_NOTMARK)
ShutCtx(S, x, c) ==
    LET again == S.ctxs[x].shut
        S1 == IF again THEN Mark(S, D_NOTMARK)
              ELSE [S EXCEPT !.ctxs[x].shut = TRUE,
                             !.callers = [d \in Callers |->
                                  IF d # c /\ OnCtx(S, d, x) /\ S.callers[d].w = "none"
                                  THEN [S.callers[d] EXCEPT !.w = "shutdown"] ELSE S.callers[d]]]
    IN Emit(S1, [ev |-> "ctx_shut", x |-> x, again |-> again])
\* the session ends: `if self.coap_ctx: await self.coap_ctx.shutdown(); self.coap_ctx = None`
KillSess(S, e, c) == IF S.sess[e].dead THEN S ELSE [ShutCtx(S, S.sess[e].x, c) EXCEPT !.sess[e].dead = TRUE]
\* connection.reconnect_soon(): end the session (if it is still alive) and forget it
Disconnect(S, c) == IF S.cur = 0 THEN S ELSE [KillSess(S, S.cur, c) EXCEPT !.cur = 0]

\* EncryptionContext.lock is a FIFO lock: head of lockq holds it (or has been handed it)
Release(S, e, c) == [S EXCEPT !.sess[e].lockq = SelectSeq(@, LAMBDA d : d # c)]

OthersIdle(S, c) == \A d \in Callers \ {c} : S.callers[d].pc = "idle"
\* the API call of c ends with result res
Ret(S, c, res) ==
    Emit([S EXCEPT !.callers[c] = Idle, !.badRet = @ \/ res \in ErrRes,
                   !.closedClean = S.callers[c].api \in CloseApis /\ OthersIdle(S, c)],
         [ev |-> "ret", c |-> c, res |-> res])
\* close(): whatever happens to the unsubscription, the session is ended before close() returns
RetApi(S, c, res) == IF CloseEnds /\ S.callers[c].api \in CloseApis THEN Ret(Disconnect(S, c), c, res) ELSE Ret(S, c, res)

\* `finally` of _ensure_connected: clear the flag, wake everybody who waits for this connect
PrimaryFinally(S, c) ==
    [S EXCEPT !.fut = 0,
              !.callers = [d \in Callers |-> IF d # c /\ S.callers[d].pc = "wait" /\ S.callers[d].w = "none"
                                             THEN [S.callers[d] EXCEPT !.w = "go"] ELSE S.callers[d]]]

\* the post of caller c raised `res` (lock already released)
PostFailed(S, c, res) ==
    CASE S.callers[c].pc = "info"  -> Ret(PrimaryFinally(S, c), c, "disconnected")     \* except BaseException: "failed to connect"
      [] S.callers[c].pc = "resub" -> Ret(PrimaryFinally(S, c), c, res)
      [] OTHER                     -> RetApi(S, c, res)
\* ... raised something that is not a library exception because of deviation d (observable unless connect() translates it)
PostCrashed(S, c, res, d) == PostFailed(IF S.callers[c].pc = "info" THEN S ELSE Mark(S, d), c, res)

\* the outstanding request of c on session e failed because its context was shut down (LibraryShutdown)
ShutdownSeen(S, c, e) ==
    IF D_LIBSHUT \in Deviations
    THEN PostCrashed(Release(S, e, c), c, E_LIBSHUT, D_LIBSHUT)                   \* not caught: the session object is left as it is
    ELSE PostFailed(Release(KillSess(S, e, c), e, c), c, "disconnected")

\* c holds the lock of session e: post_bytes up to the await of the response
IssueOn(S, c, e) ==
    LET P == S.callers[c] IN
    IF S.sess[e].dead
    THEN \* the session ended while c waited for the lock
         IF D_QUEUED \in Deviations THEN PostCrashed(Release(S, e, c), c, E_REQUEST, D_QUEUED)     \* None.request(...)
         ELSE PostFailed(Release(S, e, c), c, "disconnected")
    ELSE LET r == S.nreq + 1
             zombie == S.ctxs[S.sess[e].x].shut           \* only with D_NOTMARK: shut down by reconnect_soon, coap_ctx still set
             S1 == [S EXCEPT !.nreq = r, !.sess[e].sent = @ + 1,
                             \* the accessory applies the request when it arrives
                             !.sess[e].reg = IF zombie THEN @ ELSE IF P.rop = "sub" THEN @ \cup P.rids
                                             ELSE IF P.rop = "unsub" THEN @ \ P.rids ELSE @,
                             !.callers[c].q = "flight", !.callers[c].r = r, !.callers[c].w = "none"]
             S2 == Emit(S1, [ev |-> "req", x |-> S.sess[e].x, r |-> r, c |-> c, kind |-> "enc", addr |-> S.sess[e].addr,
                             e |-> e, n |-> S.sess[e].sent, op |-> P.rop, ids |-> P.rids])
         IN IF zombie THEN ShutdownSeen(Mark([S2 EXCEPT !.callers[c].q = "none"], D_NOTMARK), c, e)   \* fails at once
            ELSE S2

Post(S, c, e, pc, rop, rids) ==
    LET S1 == [S EXCEPT !.callers[c].pc = pc, !.callers[c].e = e, !.callers[c].rop = rop, !.callers[c].rids = rids,
                        !.callers[c].w = "none", !.callers[c].r = 0]
    IN IF S.sess[e].lockq = << >>
       THEN IssueOn([S1 EXCEPT !.sess[e].lockq = <<c>>], c, e)
       ELSE [S1 EXCEPT !.sess[e].lockq = Append(@, c), !.callers[c].q = "queued"]

\* _ensure_connected returned normally: the operation proper
OpStart(S, c) ==
    LET P == S.callers[c] IN
    CASE P.api = "get"   -> Post(S, c, S.cur, "op", "read", P.ids)
      [] P.api = "put"   -> IF S.hasInfo THEN Post(S, c, S.cur, "op", "write", P.ids)
                            ELSE Ret(S, c, E_INFO)          \* _write_characteristics_enter needs `info` (only via D_BYPASS)
      [] P.api = "sub"   -> LET new == P.ids \ S.wanted
                                S1 == [S EXCEPT !.wanted = @ \cup P.ids]
                            IN IF new = {} THEN Ret(S1, c, "ok") ELSE Post(S1, c, S.cur, "op", "sub", new)
      [] P.api = "unsub" -> Post([S EXCEPT !.wanted = @ \ P.ids], c, S.cur, "op", "unsub", P.ids)
      [] OTHER           -> \* close / shutdown: unsubscribe(what was subscribed when close() was called), then end the session
                            LET all == P.ids
                                S1 == [S EXCEPT !.wanted = @ \ all]
                            IN IF all = {} THEN RetApi(S1, c, "ok") ELSE Post(S1, c, S.cur, "op", "unsub", all)

\* the connect succeeded (database read, re-subscription done): `finally`, then the operation
PrimaryOk(S, c) == OpStart(PrimaryFinally(S, c), c)

InfoOp(k) == IF k = 1 THEN [op |-> "db", ids |-> {0}] ELSE [op |-> "read", ids |-> Chars]

\* connection.connect(): new context, pair-verify M1 on the wire
StartConnect(S, c) ==
    LET x == Len(S.ctxs) + 1
        r == S.nreq + 1
        S1 == [S EXCEPT !.ctxs = Append(@, NewCtx), !.nreq = r, !.fut = c,
                        !.callers[c].pc = "m1", !.callers[c].x = x, !.callers[c].r = r, !.callers[c].a = S.addr,
                        !.callers[c].w = "none"]
    IN Emit(Emit(S1, [ev |-> "ctx_new", x |-> x]),
            [ev |-> "req", x |-> x, r |-> r, c |-> c, kind |-> "m1", addr |-> S.addr, e |-> 0, n |-> 0, op |-> "", ids |-> {}])

\* first block of _ensure_connected
EnsureEnter(S, c) ==
    IF S.shutdownF THEN OpStart(S, c)
    ELSE IF D_BYPASS \in Deviations /\ ConnectedS(S) /\ S.fut # 0 THEN OpStart(Mark(S, D_BYPASS), c)
    ELSE IF S.fut = 0
         THEN IF ConnectedS(S) THEN OpStart(S, c) ELSE StartConnect(S, c)
         ELSE [S EXCEPT !.callers[c].pc = "wait", !.callers[c].w = "none"]   \* a connect is in progress: wait for it

\* pair-verify failed / was cancelled: the context is shut down, the caller gets a disconnection error
ConnectFailed(S, c) == Ret(PrimaryFinally(ShutCtx(S, S.callers[c].x, c), c), c, "disconnected")

\* ------------------------------------------------------------------ task steps
InFlight(c) == callers[c].pc \in {"m1", "m3"} \/ callers[c].q = "flight"

CallerResume(c) ==
    /\ callers[c].w # "none"
    /\ LET P == callers[c]
           w == P.w
           S == St
       IN Commit(
          CASE P.pc = "wait" ->
                 IF w = "cancel" THEN RetApi(S, c, "cancelled")
                 ELSE IF ConnectedS(S) THEN OpStart(S, c)
                 ELSE RetApi(S, c, "disconnected")                   \* "primary coroutine failed to connect"
            [] P.pc = "m1" /\ w = "ok" ->
                 LET r == S.nreq + 1 IN
                 Emit([S EXCEPT !.nreq = r, !.callers[c].pc = "m3", !.callers[c].r = r, !.callers[c].w = "none"],
                      [ev |-> "req", x |-> P.x, r |-> r, c |-> c, kind |-> "m3", addr |-> P.a, e |-> 0, n |-> 0, op |-> "", ids |-> {}])
            [] P.pc = "m3" /\ w = "ok" ->
                 \* session keys derived: new EncryptionContext (all counters 0), EventResource registered, database read
                 LET e == Len(S.sess) + 1
                     S1 == [S EXCEPT !.sess = Append(@, NewSess(P.x, S.addr)), !.cur = e, !.ctxs[P.x].res = TRUE,
                                     !.callers[c].k = 1, !.callers[c].q = "none"]
                 IN Post(S1, c, e, "info", InfoOp(1).op, InfoOp(1).ids)
            [] P.pc \in {"m1", "m3"} /\ w = "cancel" /\ D_PVLEAK \in Deviations ->
                 Ret(PrimaryFinally(Mark(S, D_PVLEAK), c), c, "disconnected")          \* `except Exception` misses CancelledError
            [] P.pc \in {"m1", "m3"} /\ w # "ok" -> ConnectFailed(S, c)
            [] P.q = "queued" ->                                        \* only `cancel` wakes a queued caller
                 PostFailed(Release(S, P.e, c), c, "cancelled")
            [] P.q = "flight" /\ w = "ok" ->
                 LET S1 == Release([S EXCEPT !.callers[c].q = "none", !.hasInfo = @ \/ (P.pc = "info" /\ P.k = 1)], P.e, c) IN
                 CASE P.pc = "info" ->
                        IF P.k < NInfo
                        THEN Post([S1 EXCEPT !.callers[c].k = P.k + 1], c, P.e, "info", InfoOp(P.k + 1).op, InfoOp(P.k + 1).ids)
                        ELSE LET S2 == [S1 EXCEPT !.sess[P.e].info = TRUE] IN
                             IF S2.wanted # {} THEN Post(S2, c, S2.cur, "resub", "sub", S2.wanted)
                             ELSE PrimaryOk(S2, c)
                   [] P.pc = "resub" -> PrimaryOk(S1, c)
                   [] OTHER -> RetApi(S1, c, "ok")
            [] P.q = "flight" /\ w \in {"tmo", "neterr"} ->
                 \* "Did not receive a reply; end of session."
                 PostFailed(Release(KillSess([S EXCEPT !.callers[c].q = "none"], P.e, c), P.e, c), c, "disconnected")
            [] P.q = "flight" /\ w = "shutdown" -> ShutdownSeen([S EXCEPT !.callers[c].q = "none"], c, P.e)
            [] P.q = "flight" /\ w \in {"notfound", "garbage"} ->
                 \* 4.04: "our session is gone"; undecryptable: "self-destructing"; both end in EncryptionError
                 PostFailed(Release(KillSess([S EXCEPT !.callers[c].q = "none"], P.e, c), P.e, c), c, "encryption")
            [] P.q = "flight" /\ w = "cancel" ->
                 PostFailed(Release([S EXCEPT !.callers[c].q = "none"], P.e, c), c, "cancelled")
            [] OTHER -> S)

\* the lock was handed to the next waiter
LockGrant(c) ==
    /\ callers[c].q = "queued" /\ callers[c].w = "none"
    /\ Head(sess[callers[c].e].lockq) = c
    /\ Commit(IssueOn(St, c, callers[c].e))

\* the task created by _async_endpoint_changed runs reconnect_soon
BgStep(S) ==
    IF S.cur = 0 THEN Emit(S, [ev |-> "bg", ok |-> TRUE])
    ELSE IF S.sess[S.cur].dead
         THEN IF D_BGDEAD \in Deviations
              THEN Emit(Mark([S EXCEPT !.bgFailed = TRUE], D_BGDEAD), [ev |-> "bg", ok |-> FALSE])     \* None.shutdown(): enc_ctx stays
              ELSE Emit([S EXCEPT !.cur = 0], [ev |-> "bg", ok |-> TRUE])
         ELSE IF D_NOTMARK \in Deviations
              THEN Emit([ShutCtx(S, S.sess[S.cur].x, 0) EXCEPT !.cur = 0], [ev |-> "bg", ok |-> TRUE])  \* coap_ctx of the old session stays set
              ELSE Emit(Disconnect(S, 0), [ev |-> "bg", ok |-> TRUE])
BgRun ==
    /\ bg > 0
    /\ Commit([BgStep(St) EXCEPT !.bg = bg - 1])

\* ------------------------------------------------------------------ environment
\* Input that reaches the event loop through its selector / timers (responses, time-outs, accessory events, zeroconf
\* updates) is processed when no task is runnable: asyncio polls for I/O only after the callbacks that were ready
\* have run.  API calls and cancellations come from other tasks and can land between any two steps.
Runnable(c) == \/ callers[c].w # "none"
               \/ callers[c].q = "queued" /\ Head(sess[callers[c].e].lockq) = c
Quiet == bg = 0 /\ \A c \in Callers : ~Runnable(c)
\* close() / shutdown() are assumed not to be called in the very loop iteration in which a response of a connect in
\* progress is delivered (the code would find connection.enc_ctx = None where it expects the session it just set up)
ConnectResponseUnprocessed == \E c \in Callers : callers[c].pc \in {"info", "resub"} /\ callers[c].q = "flight" /\ callers[c].w = "ok"
IdChoices(api) == IF api \in CloseApis THEN {{}}
                  ELSE IF Obs \/ api \in {"sub", "unsub"} THEN (SUBSET Chars) \ {{}}
                  ELSE {{CHOOSE i \in Chars : TRUE}}
Apis == {"get", "put", "sub", "unsub", "close", "shutdown"}

\* an API call: its synchronous prefix (up to the first suspension)
Call(c, api, ids) ==
    /\ callers[c].pc = "idle" /\ ~shutdownF /\ api \in Apis /\ ids \in IdChoices(api)
    /\ (CloseEnds /\ api \in CloseApis) => ~ConnectResponseUnprocessed
    /\ MaxReq = 0 \/ nreq < MaxReq
    /\ MaxCtx = 0 \/ Len(ctxs) < MaxCtx \/ Connected \/ fut # 0
    /\ LET S0 == [St EXCEPT !.callers[c] = [Idle EXCEPT !.api = api, !.pc = "call",
                                                        \* close(): list(self.subscriptions) is evaluated at the call
                                                        !.ids = IF api \in CloseApis THEN wanted ELSE ids],
                            !.closedClean = FALSE, !.shutdownF = (api = "shutdown")]
       IN Commit(IF api \in CloseApis /\ ~ConnectedS(S0) THEN Ret(S0, c, "ok")      \* close(): `if is_connected`
                 ELSE EnsureEnter(S0, c))

RspKinds(c) == IF callers[c].pc \in {"m1", "m3"} THEN {"ok", "err", "neterr"} ELSE {"ok", "notfound", "garbage", "neterr"}
CtxOf(c) == IF callers[c].pc \in {"m1", "m3"} THEN callers[c].x ELSE sess[callers[c].e].x
\* the accessory / the network answers the outstanding request of c
Rsp(c, how) ==
    /\ Quiet /\ InFlight(c) /\ callers[c].w = "none" /\ how \in RspKinds(c)
    /\ ~ctxs[CtxOf(c)].shut
    /\ callers' = [callers EXCEPT ![c].w = how]
    /\ out' = << >>
    /\ UNCHANGED <<ctxs, sess, cur, fut, wanted, addr, descr, shutdownF, nreq, bg, closedClean, hvars>>
\* the 8 s / 16 s budget of the request expires
Timeout(c) ==
    /\ Quiet /\ InFlight(c) /\ callers[c].w = "none"
    /\ callers' = [callers EXCEPT ![c].w = "tmo"]
    /\ out' = << >>
    /\ UNCHANGED <<ctxs, sess, cur, fut, wanted, addr, descr, shutdownF, nreq, bg, closedClean, hvars>>
Cancellable(c) ==
    /\ callers[c].api \notin CloseApis
    /\ \/ callers[c].pc = "wait" /\ callers[c].w # "cancel"
       \/ callers[c].pc \in {"m1", "m3"} /\ callers[c].w = "none"
       \/ callers[c].pc = "op" /\ callers[c].q = "flight" /\ callers[c].w = "none"
       \/ callers[c].pc = "op" /\ callers[c].q = "queued" /\ callers[c].w = "none" /\ callers[c].api # "sub"
Cancel(c) ==
    /\ Cancellable(c)
    /\ callers' = [callers EXCEPT ![c].w = "cancel"]
    /\ out' = << >>
    /\ UNCHANGED <<ctxs, sess, cur, fut, wanted, addr, descr, shutdownF, nreq, bg, closedClean, hvars>>
\* zeroconf: the pairing is told a description with address a
Descr(a) ==
    /\ Quiet /\ a \in Addrs /\ ~shutdownF
    /\ Obs \/ descr # a                                          \* (an unchanged description is a no-op)
    /\ IF descr = a THEN UNCHANGED <<addr, descr, bg>>
       ELSE /\ bg < MaxBg
            /\ descr' = a /\ addr' = a /\ bg' = bg + 1          \* _async_endpoint_changed
    /\ out' = << >>
    /\ UNCHANGED <<ctxs, sess, cur, fut, wanted, shutdownF, callers, nreq, closedClean, hvars>>
\* the accessory PUTs an event to the resource of the live context; key: under which key it is sealed
\* ("cur": event key of the session that context belongs to, "old": of an earlier session, "wrong"), k: nonce counter.
\* delivered to the listeners iff it opens under the current event key with the next counter
EventOk(key, k) == key = "cur" /\ k = sess[cur].evc
Event(key, k) ==
    /\ Quiet /\ Connected /\ ctxs[sess[cur].x].res
    /\ key \in {"cur", "old", "wrong"}
    /\ sess' = IF EventOk(key, k) THEN [sess EXCEPT ![cur].evc = @ + 1] ELSE sess
    /\ out' = << >>
    /\ UNCHANGED <<ctxs, cur, fut, wanted, addr, descr, shutdownF, callers, nreq, bg, closedClean, hvars>>

EventB(key, k) == Connected /\ sess[cur].evc < MaxEv /\ Event(key, k)        \* bounded for model checking

\* ------------------------------------------------------------------ specification
Init ==
    /\ ctxs = << >> /\ sess = << >> /\ cur = 0 /\ fut = 0 /\ wanted = InitWanted /\ addr = InitAddr /\ descr = "none"
    /\ shutdownF = FALSE /\ callers = [c \in Callers |-> Idle] /\ nreq = 0 /\ bg = 0 /\ closedClean = FALSE /\ out = << >>
    /\ hasInfo = FALSE /\ devUsed = {} /\ badRet = FALSE /\ bgFailed = FALSE

Internal == (\E c \in Callers : CallerResume(c) \/ LockGrant(c)) \/ BgRun
Env == \/ \E c \in Callers : \/ \E api \in Apis : \E ids \in IdChoices(api) : Call(c, api, ids)
                             \/ \E how \in {"ok", "err", "neterr", "notfound", "garbage"} : Rsp(c, how)
                             \/ Timeout(c) \/ Cancel(c)
       \/ \E a \in Addrs : Descr(a)
       \/ \E key \in {"cur", "old", "wrong"}, k \in 0..MaxEv : EventB(key, k)
Next == Internal \/ Env
Spec == Init /\ [][Next]_vars

\* ------------------------------------------------------------------ properties
TypeOK ==
    /\ cur \in 0..Len(sess) /\ fut \in Callers \cup {0} /\ wanted \subseteq Chars /\ bg \in 0..MaxBg
    /\ \A c \in Callers : /\ callers[c].pc \in {"idle", "wait", "m1", "m3", "info", "resub", "op"}
                          /\ callers[c].q \in {"none", "queued", "flight"}
                          /\ callers[c].q # "none" => callers[c].pc \in {"info", "resub", "op"}
                          /\ callers[c].pc \in {"info", "resub", "op"} => callers[c].q # "none"

Connecting == {c \in Callers : callers[c].pc \in ConnectPcs}
\* "let in one coroutine at a time": at most one connect attempt, run by the caller named in connection_future
SingleConnect == Cardinality(Connecting) <= 1 /\ (fut # 0 <=> Connecting = {fut})
\* nobody waits for a connect that nobody runs (nothing hangs, safety form)
WaiterHasPrimary == \A c \in Callers : (callers[c].pc = "wait" /\ callers[c].w = "none") => fut # 0
\* the lock queue of a session consists of exactly the callers posting on it, head in flight or just handed the lock
LockSound == \A e \in 1..Len(sess) :
    /\ \A i \in 1..Len(sess[e].lockq) : LET c == sess[e].lockq[i] IN
          /\ callers[c].e = e /\ callers[c].q # "none"
          /\ i > 1 => callers[c].q = "queued"
          /\ \A j \in 1..Len(sess[e].lockq) : sess[e].lockq[j] = c => j = i
    /\ \A c \in Callers : (callers[c].q # "none" /\ callers[c].e = e) => \E i \in 1..Len(sess[e].lockq) : sess[e].lockq[i] = c
\* every context that is still alive is the one of the current session or of the pair-verify in progress: none leaks
NoLeak == \A x \in LiveCtx : \/ cur # 0 /\ sess[cur].x = x
                             \/ fut # 0 /\ callers[fut].pc \in {"m1", "m3"} /\ callers[fut].x = x
AtMostOneContext == Cardinality(LiveCtx) <= 1
\* a session is dead exactly when its context was shut down
DeadIffShut == \A e \in 1..Len(sess) : sess[e].dead <=> ctxs[sess[e].x].shut
\* no request is outstanding on a context that was shut down without its caller having been told
NoOrphanRequest == \A c \in Callers : (InFlight(c) /\ callers[c].w = "none") => ~ctxs[CtxOf(c)].shut
\* requests of ordinary operations only go out on a session whose connect completed the database read
OpOnReadySession == \A c \in Callers : (callers[c].pc = "op" /\ callers[c].q = "flight" /\ callers[c].api \notin CloseApis)
                                           => sess[callers[c].e].info
\* ... and an operation is only started on such a session ("we need the info this provides to be able to read/write
\* characteristics"): a caller that arrives while the connect is still reading the database waits for it
OpStartsReady ==
    [][\A c \in Callers : (callers[c].pc # "op" /\ callers'[c].pc = "op" /\ callers'[c].api \notin CloseApis)
                              => sess'[callers'[c].e].info]_vars
\* after a (re)connect everything the callers subscribed to is registered at the accessory for the current session
SubPending == \E c \in Callers : callers[c].api = "sub" /\ callers[c].pc = "op" /\ callers[c].q = "queued"
Subscribed == (Connected /\ fut = 0 /\ ~SubPending) => wanted \subseteq sess[cur].reg
\* the events resource always decrypts with the session its context belongs to
ResourceIsCurrent == \A x \in LiveCtx : ctxs[x].res => (cur # 0 /\ sess[cur].x = x)
\* close() / shutdown() leave no context behind
AfterCloseNoContext == (CloseEnds /\ closedClean) => LiveCtx = {}

\* every API call ends with a result or a library exception, and the background task never dies
OnlyLibraryErrors == ~badRet
BgNeverFails == ~bgFailed
\* a session that ended is never used for another request, and the request counter of a session only counts up by one
DeadNeverUsed ==
    [][\A e \in 1..Len(sess) : /\ sess[e].dead => (sess'[e].dead /\ sess'[e].sent = sess[e].sent)
                               /\ ctxs[sess[e].x].shut => sess'[e].sent = sess[e].sent
                               /\ sess'[e].sent \in {sess[e].sent, sess[e].sent + 1}]_vars
\* a new session starts with all counters at zero (the step that creates it also seals the database request, with
\* nonce 0), and only a completed pair-verify creates one
FreshSessions ==
    [][Len(sess') > Len(sess) =>
         /\ Len(sess') = Len(sess) + 1
         /\ sess'[Len(sess')].sent <= 1 /\ sess'[Len(sess')].evc = 0 /\ sess'[Len(sess')].reg = {}
         /\ \E c \in Callers : callers[c].pc = "m3" /\ callers[c].w = "ok" /\ callers'[c].pc = "info"]_vars
\* listeners only ever see an event sealed under the current event key with the next counter
EventsInOrder ==
    [][\A e \in 1..Len(sess) : sess'[e].evc # sess[e].evc => (e = cur /\ ~sess[e].dead /\ sess'[e].evc = sess[e].evc + 1)]_vars

\* ---- liveness: every API call returns (fairness on the controller's steps; every request is answered or times out)
\* (strong fairness for the time-out: input is only processed at quiet moments, which recur but need not persist)
Fairness == /\ \A c \in Callers : WF_vars(CallerResume(c)) /\ WF_vars(LockGrant(c)) /\ SF_vars(Timeout(c))
            /\ WF_vars(BgRun)
LiveSpec == Spec /\ Fairness
EveryCallReturns == \A c \in Callers : (callers[c].pc # "idle") ~> (callers[c].pc = "idle")
=============================================================================
