SPECIFICATION Spec
CONSTANTS
  Callers = {1, 2, 3}
  Chars = {10, 11}
  NInfo = 2
  Addrs = {"a1", "a2", "a3"}
  InitAddr = "a1"
  InitWanted = {}
  MaxCtx = 4
  MaxReq = 30
  MaxBg = 2
  MaxEv = 3
  CloseEnds = FALSE
  Deviations = {}
  Obs = FALSE
INVARIANT TypeOK
INVARIANT SingleConnect
INVARIANT WaiterHasPrimary
INVARIANT LockSound
INVARIANT NoLeak
INVARIANT AtMostOneContext
INVARIANT DeadIffShut
INVARIANT NoOrphanRequest
INVARIANT OpOnReadySession
INVARIANT Subscribed
INVARIANT ResourceIsCurrent
INVARIANT AfterCloseNoContext
INVARIANT OnlyLibraryErrors
INVARIANT BgNeverFails
PROPERTY DeadNeverUsed
PROPERTY OpStartsReady
PROPERTY FreshSessions
PROPERTY EventsInOrder
CHECK_DEADLOCK FALSE
