SPECIFICATION Spec
CONSTANTS MaxN = 4  MaxJunk = 3
INVARIANT Faithful
INVARIANT NotifySubsetAccepted
INVARIANT RejectedReported
INVARIANT ReadTotal
CHECK_DEADLOCK FALSE
