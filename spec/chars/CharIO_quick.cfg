SPECIFICATION Spec
CONSTANTS MaxN = 3  MaxJunk = 2
INVARIANT Faithful
INVARIANT NotifySubsetAccepted
INVARIANT RejectedReported
INVARIANT ReadTotal
CHECK_DEADLOCK FALSE
