---------------------------- MODULE CharIO_Trace ----------------------------
(* Code -> spec: recorded histories of the real get_characteristics / put_characteristics /
   format_characteristic_list are validated against CharIO.  One record = one request as the caller
   wrote it (h: transport, operation, items, permissions) and a sequence of calls issued with the
   SAME caller-side collection object; each call has the accessory's reply (r) and the observation
   (o: what was returned or raised, what the listeners were told, whether the collection still has
   its content, which characteristics the accessory was asked for).

   Every call is judged by CallOK against the case built from the CALLER's items and that call's
   reply - the outcome may not depend on earlier calls.  The algorithm of the specification is run
   for every call as well, so its own outcome is checked against the same relation (Faithful) for
   exactly the cases the real code was run on. *)
EXTENDS CharIO, Json, IOUtils, SequencesExt

Recs == ndJsonDeserialize(IOEnv.TRACE_FILE)

VARIABLES tid, i
tvars == <<vars, tid, i>>

CaseAt(t, n) ==
    LET h == Recs[t].h  r == Recs[t].calls[n].r IN
    Case(h.tr, h.op, h.items, h.perms, r.reqKnown, r.http, r.hasG, r.g, r.entries)

TInit == /\ tid \in 1..Len(Recs)
         /\ i = 1
         /\ c = CaseAt(tid, 1)
         /\ Start
TStep == Next /\ UNCHANGED <<tid, i>>
TNextCall ==
    /\ pc = "done" /\ i < Len(Recs[tid].calls)
    /\ i' = i + 1
    /\ c' = CaseAt(tid, i + 1)
    /\ pc' = "start" /\ idx' = 1 /\ result' = [k \in U |-> NoRes]
    /\ pending' = {} /\ ncount' = [k \in U |-> 0] /\ exc' = FALSE
    /\ UNCHANGED tid
TNext == TStep \/ TNextCall
TSpec == TInit /\ [][TNext]_tvars

\* light form (quick tier): only the calls are stepped through; the algorithm is not re-run (it is checked on
\* every exported case by CharIO / CharIOHist, and re-run on the recorded cases in the thorough tier)
TNextCallLight ==
    /\ i < Len(Recs[tid].calls)
    /\ i' = i + 1
    /\ c' = CaseAt(tid, i + 1)
    /\ UNCHANGED <<pc, idx, result, pending, ncount, exc, tid>>
TSpecLight == TInit /\ [][TNextCallLight]_tvars

Accepted(t, n) == CallOK(CaseAt(t, n), Recs[t].calls[n].o)

\* what the real code returned / raised / told the listeners / did to the caller's collection in the
\* current call is a faithful report for the caller's request and this call's reply
Conforms == Accepted(tid, i)

\* second pass after a rejection: <<record, call>> of every rejected call, for the report
ExportRejected ==
    /\ TLCGet("stats").generated >= 0
    /\ ndJsonSerialize(IOEnv.REJECT_OUT,
          SetToSeq({ tn \in (1..Len(Recs)) \X (1..2) : tn[2] <= Len(Recs[tn[1]].calls) /\ ~Accepted(tn[1], tn[2]) }))
=============================================================================
