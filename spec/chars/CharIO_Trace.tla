---------------------------- MODULE CharIO_Trace ----------------------------
(* Code -> spec: observations of the real get_characteristics / put_characteristics /
   format_characteristic_list (what was returned or raised, what the listeners were told) for a
   case of CharIO are validated against the relation Holds (WriteOK / ReadOK).  The algorithm of
   the specification is run from the recorded case as well, so its own outcome is checked
   against the same relation (Faithful) for exactly the cases the real code was run on. *)
EXTENDS CharIO, Json, IOUtils, SequencesExt

Recs == ndJsonDeserialize(IOEnv.TRACE_FILE)

VARIABLE tid
tvars == <<vars, tid>>

TInit == /\ tid \in 1..Len(Recs)
         /\ c = Recs[tid].c
         /\ Start
TNext == Next /\ UNCHANGED tid
TSpec == TInit /\ [][TNext]_tvars

Obs(t) == Recs[t].o
Accepted(t) == Holds(Recs[t].c, Obs(t).exc, RangeOf(Obs(t).res), Obs(t).ncount, Obs(t).nbad)

\* what the real code returned / raised / told the listeners is a faithful report
Conforms == Accepted(tid)

\* second pass after a rejection: the numbers of all rejected records, for the report
ExportRejected ==
    /\ TLCGet("stats").generated >= 0
    /\ ndJsonSerialize(IOEnv.REJECT_OUT, SetToSeq({ t \in 1..Len(Recs) : ~Accepted(t) }))
=============================================================================
