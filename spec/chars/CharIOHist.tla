----------------------------- MODULE CharIOHist -----------------------------
(* Histories of calls that re-use the caller's request collection (CharIO, "history dimension").

   The caller writes a request (callerItems) once and issues call after call with the same
   collection object; the accessory answers each call with its own reply.  `coll` is the content
   of that object as the library finds it at the start of a call.  One call = one run of the
   CharIO algorithm on the case built from `coll` and the reply of that call.

   Properties:
     CollectionUnchanged   coll = callerItems in every state (no call consumes or edits it)
     HistoryIndependent    the outcome of every call is a faithful report for the request AS THE
                           CALLER WROTE IT and this call's reply - whatever the earlier calls were
   The bounded domain takes every case of the CharIO families with at most MaxHistN items as one
   call of a two-call history, the other call being one of a few probe replies (all succeed /
   request-wide error only / first item missing or rejected), in both orders. *)
EXTENDS CharIO

CONSTANT MaxHistN

VARIABLES callerItems, coll, replies, ncall
hvars == <<vars, callerItems, coll, replies, ncall>>

WithReply(its, k, r) == [k EXCEPT !.items = its, !.reqKnown = r.reqKnown, !.http = r.http, !.hasG = r.hasG,
                                  !.g = r.g, !.entries = r.entries]

\* probe replies for a request (same transport / operation / items / permissions as case k)
Probes(k) ==
    LET n == Len(k.items)
        its == k.items
    IN  IF k.tr = "ip" /\ k.op = "read"
        THEN { [k EXCEPT !.hasG = FALSE, !.g = 0, !.entries = [i \in 1..n |-> Entry("val", its[i], 0)]],
               [k EXCEPT !.hasG = TRUE, !.g = -70402, !.entries = << >>],
               [k EXCEPT !.hasG = TRUE, !.g = -70402, !.entries = [i \in 1..(n - 1) |-> Entry("val", its[i + 1], 0)]] }
        ELSE IF k.tr = "ip"
        THEN { [k EXCEPT !.http = "204", !.entries = << >>],
               [k EXCEPT !.http = "207", !.entries = << Entry("st", its[1], -70410) >>] }
        ELSE IF k.op = "read"
        THEN { [k EXCEPT !.entries = [i \in 1..n |-> Entry("val", its[i], 0)]],
               [k EXCEPT !.entries = [i \in 1..n |-> IF i = 1 THEN Entry("st", its[i], 6) ELSE Entry("val", its[i], 0)]] }
        ELSE { [k EXCEPT !.entries = [i \in 1..n |-> Entry("st", its[i], 0)]],
               [k EXCEPT !.entries = [i \in 1..n |-> Entry("st", its[i], IF i = n THEN 6 ELSE 0)]] }

HGroups(f) == { its \in Groups(f) : Len(its) <= MaxHistN }

HInit ==
    /\ \E f \in Families : \E its \in HGroups(f) : \E k \in CasesOf(f, its) : \E p \in Probes(k) :
          /\ callerItems = its
          /\ coll = its
          /\ \/ replies = <<k, p>>
             \/ replies = <<p, k>>
          /\ c = replies[1]
    /\ ncall = 1
    /\ Start

\* one step of the algorithm of the current call
HStep == Next /\ UNCHANGED <<callerItems, coll, replies, ncall>>

\* the call returns; the library leaves the caller's collection as it found it; the caller
\* issues the next call with the same object: the library reads the request from `coll`
HNextCall ==
    /\ pc = "done" /\ ncall < Len(replies)
    /\ ncall' = ncall + 1
    /\ coll' = coll
    /\ c' = WithReply(coll', replies[ncall + 1], replies[ncall + 1])
    /\ pc' = "start" /\ idx' = 1 /\ result' = [k \in U |-> NoRes]
    /\ pending' = {} /\ ncount' = [k \in U |-> 0] /\ exc' = FALSE
    /\ UNCHANGED <<callerItems, replies>>

HNext == HStep \/ HNextCall
HSpec == HInit /\ [][HNext]_hvars

CollectionUnchanged == coll = callerItems
HistoryIndependent ==
    pc = "done" => Holds(WithReply(callerItems, replies[ncall], replies[ncall]), exc, ResultSet, ncount, FALSE)
=============================================================================
