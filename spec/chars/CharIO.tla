------------------------------- MODULE CharIO -------------------------------
(* Reading and writing characteristics: what the caller and the listeners are told, as a
   function of what the accessory replied.  IP (aiohomekit/controller/ip/pairing.py:
   format_characteristic_list, IpPairing.get_characteristics / put_characteristics with
   protocol/statuscodes.to_status_code), CoAP (coap/connection.py read / write result mapping,
   coap/pairing.py put_characteristics) and BLE (ble/pairing.py put_characteristics).

   Characteristics are the indices 1..4 of a fixed universe (two accessory ids, and the same
   instance id under both, see the harness); a request is a sequence of distinct indices with a
   permission class each:
        "rw" paired read + write   "wo" write only   "tw" read + timed write   "ro" read only
   A reply is [http, hasG, g, entries]; an entry is [t, k, s]:
        t = "val"     entry for k carrying a value                       (reads)
            "val0"    entry for k carrying a value and "status": 0       (reads)
            "st"      entry for k carrying only the status s             (0 = success)
            "nondict" | "noaid" | "noiid"    malformed entries (k, s unused)
   On IP the entries are the JSON list in order (missing, duplicated and malformed entries
   occur); http is "204" (no body) or "207"; hasG / g is the request-wide "status" member.
   On CoAP and BLE there is exactly one entry per requested characteristic, in request order:
   the per-PDU outcome (s = the PDU status byte, 0 = success).

   Two layers, as everywhere in this project:
   * the algorithm of the code as a state machine (one action per loop iteration), and
   * the property as a relation between the case and an *observation* of the call
     (WriteOK / ReadOK); TLC checks that every outcome of the state machine is in the relation,
     and the same relation judges the observations recorded from the real code
     (CharIO_Trace).  The relation is deliberately weaker than the algorithm wherever the
     statement leaves a choice (see the comments at WClass and ReadOK). *)
EXTENDS Integers, Sequences, FiniteSets, TLC

Abs(x) == IF x < 0 THEN -x ELSE x
RangeOf(f) == { f[i] : i \in DOMAIN f }

U == 1..4                                   \* the universe of characteristics

\* ------------------------------------------------------------------ HAP status codes
Defined == { -70400 - n : n \in 1..12 }     \* -70401 .. -70412
UNKNOWN == -1
\* to_status_code: some accessories send the codes with a positive sign; undefined codes are UNKNOWN
Normalise(s) == IF s = 0 THEN 0 ELSE IF (0 - Abs(s)) \in Defined THEN 0 - Abs(s) ELSE UNKNOWN
CANT_WRITE_READ_ONLY == -70404

Readable(p) == p # "wo"
Writable(p) == p # "ro"

\* ------------------------------------------------------------------ cases
Entry(t, k, s) == [t |-> t, k |-> k, s |-> s]
IsItem(e) == e.t \in {"val", "val0", "st"}

Requested(c) == RangeOf(c.items)
PosOf(c, k) == CHOOSE i \in DOMAIN c.items : c.items[i] = k
PermOf(c, k) == c.perms[PosOf(c, k)]
EntriesFor(c, k) == { j \in DOMAIN c.entries : IsItem(c.entries[j]) /\ c.entries[j].k = k }
HasBody(c) == c.http # "204"

\* the reported status is the accessory's; on CoAP / BLE the library reports the PDU status byte
\* negated (or as an enum member), so only the magnitude is compared there
SignFree(c) == c.tr # "ip"
StatusMatch(c, reported, sent) == reported = sent \/ (SignFree(c) /\ reported = 0 - sent)
\* the description text must be the one of the normalised code (IP; anchor to_status_code)
DescChecked(c) == c.tr = "ip"

\* ------------------------------------------------------------------ the property: writes
(* What the accessory said about k:
     "acc"    accepted: not mentioned in a multi-status body / 204 / every status given is 0
     "rej"    rejected: at least one status given and none of them 0
     "mixed"  contradictory duplicates (0 and non-zero): the statement does not say which counts;
              either verdict is allowed, but nothing may be invented
     "unsent" BLE only: the call stopped at an earlier characteristic that was rejected or whose
              request raised (link lost); what was accepted before that point stays accepted and
              must still be announced to the listeners
   BLE: a characteristic without write permission is rejected by the library itself with
   CANT_WRITE_READ_ONLY and nothing is sent for it. *)
BleFirstFail(c) ==
    LET F == { i \in DOMAIN c.items : Writable(c.perms[i]) /\ c.entries[i].s # 0 }
    IN  IF F = {} THEN Len(c.items) + 1 ELSE CHOOSE i \in F : \A j \in F : i <= j

SentStatuses(c, k) ==
    IF c.tr = "ble"
    THEN LET i == PosOf(c, k) IN
         IF i > BleFirstFail(c) THEN {}
         ELSE IF ~Writable(c.perms[i]) THEN {CANT_WRITE_READ_ONLY}
         ELSE {c.entries[i].s}
    ELSE IF HasBody(c) THEN { c.entries[j].s : j \in EntriesFor(c, k) } ELSE {}

WClass(c, k) ==
    LET S == SentStatuses(c, k) IN
    IF c.tr = "ble" /\ PosOf(c, k) > BleFirstFail(c) THEN "unsent"
    ELSE IF S \subseteq {0} THEN "acc"
    ELSE IF 0 \notin S THEN "rej"
    ELSE "mixed"

(* An observation of a call:
     exc     the call raised
     R       set of [k, kind, s, d, v]: one per key of the returned dict; k = 0 for a key that is
             not in the universe; kind = "value" | "status" | "empty" | "other"; s the reported
             status; d the code whose description text was reported (UNKNOWN for the
             "Unknown error code" text, 0 for none); v the number of the reply entry whose value
             was returned (0: none of them)
     ncount  ncount[k] = how many times a listener was told the written value of k
     nbad    a listener was told anything else (wrong value, foreign key)                    *)
WriteOK(c, exc, R, ncount, nbad) ==
    /\ ~nbad
    /\ exc => \E k \in Requested(c) : WClass(c, k) \in {"rej", "mixed"}       \* "(or the call fails)"
    /\ \A r \in R : r.k \in Requested(c)
    /\ \A k \in U \ Requested(c) : ncount[k] = 0
    /\ \A k \in Requested(c) :
         LET cl == WClass(c, k)
             rd == Readable(PermOf(c, k))
             Rk == { r \in R : r.k = k }
         IN  /\ ncount[k] <= 1                                                 \* never twice
             /\ cl \in {"rej", "unsent"} => ncount[k] = 0                      \* never presented as written
             /\ ~rd => ncount[k] = 0
             /\ (cl = "acc" /\ rd) => ncount[k] = 1       \* exactly the accepted readable ones - also when the
                                                          \* call then fails on a later characteristic (BLE)
             /\ ~exc =>
                  /\ cl = "rej" => Rk # {}                                      \* reported ...
                  /\ \A r \in Rk :
                       /\ r.kind = "status"
                       /\ cl = "acc" => r.s = 0                                 \* no accepted one with non-zero status
                       /\ cl \in {"rej", "mixed"} =>
                            \E s \in SentStatuses(c, k) : StatusMatch(c, r.s, s)   \* ... with the accessory's status
                       /\ (DescChecked(c) /\ r.s # 0) => r.d = Normalise(r.s)

\* ------------------------------------------------------------------ the property: reads
(* For every requested k: if the reply has well-formed entries for k the result reports one of
   them (with duplicates any one - the code keeps the last); otherwise a non-zero request-wide
   status is reported for k (when the requested set is known); otherwise k is not in the result
   (the accessory said nothing about it: neither a value nor a status may be invented).
   Malformed entries never make the call fail. *)
Match(c, r, j) ==
    LET e == c.entries[j] IN
    CASE e.t \in {"val", "val0"} -> r.kind = "value" /\ r.v = j
      [] e.t = "st" /\ e.s # 0 -> /\ r.kind = "status" /\ StatusMatch(c, r.s, e.s)
                                  /\ DescChecked(c) => r.d = Normalise(e.s)
      [] OTHER -> r.kind = "empty" \/ (r.kind = "status" /\ r.s = 0)

ReadOK(c, exc, R, ncount, nbad) ==
    /\ ~exc /\ ~nbad
    /\ \A k \in U : ncount[k] = 0
    /\ \A r \in R : r.k \in Requested(c)
    /\ \A k \in Requested(c) :
         LET E == EntriesFor(c, k)
             Rk == { r \in R : r.k = k }
         IN  IF E # {}
             THEN Rk # {} /\ \A r \in Rk : \E j \in E : Match(c, r, j)
             ELSE IF c.hasG /\ c.g # 0 /\ c.reqKnown
             THEN Rk # {} /\ \A r \in Rk : /\ r.kind = "status" /\ r.s = c.g
                                           /\ DescChecked(c) => r.d = Normalise(c.g)
             ELSE Rk = {}

Holds(c, exc, R, ncount, nbad) ==
    IF c.op = "write" THEN WriteOK(c, exc, R, ncount, nbad) ELSE ReadOK(c, exc, R, ncount, nbad)

(* History dimension.  A caller keeps one collection of ids (a list, tuple, set, frozenset, dict
   view, ...) and hands the same object to call after call.  The outcome of every call depends only
   on the ids as the CALLER wrote them and on the accessory's reply to that call - whatever happened
   in earlier calls.  Two things an observation of a call therefore also carries:
     collSame      the caller's collection has the same content after the call as before it
     asked         the characteristics the accessory was asked for in this call (when the harness
                   saw exactly one request: askedChecked)
   A call that changes the collection is reported as what it is: the next call re-using it asks
   for other ids than the caller requested. *)
CollectionUntouched(collSame) == collSame
AskedAsRequested(c, asked, askedChecked) == askedChecked => RangeOf(asked) = Requested(c)
CallOK(c, o) ==
    /\ Holds(c, o.exc, RangeOf(o.res), o.ncount, o.nbad)
    /\ CollectionUntouched(o.collSame)
    /\ AskedAsRequested(c, o.asked, o.askedChecked)

\* ------------------------------------------------------------------ bounded domains
CONSTANTS MaxN,          \* request sizes 1..MaxN
          MaxJunk        \* length of the entry lists with duplicates / malformed entries

Seqs(n) == { s \in [1..n -> U] : \A i, j \in 1..n : i < j => s[i] < s[j] }        \* ascending, distinct
ItemSeqs(lo, hi) == UNION { Seqs(n) : n \in lo..hi }

Case(tr, op, its, pm, rk, http, hasG, g, es) ==
    [tr |-> tr, op |-> op, items |-> its, perms |-> pm, reqKnown |-> rk, http |-> http,
     hasG |-> hasG, g |-> g, entries |-> es]

\* per-item status choices for the full product: success, a defined code, a defined code sent with
\* a positive sign, undefined codes of both signs
WStat == {0, -70410, 70402, -70499, 7}
AllCodes == Defined \cup { 0 - s : s \in Defined } \cup {-70499, -70400, 70413, 7, 1, -2}

\* entries of a multi-status list from a per-item choice ("abs" = not mentioned)
RECURSIVE ListOf(_, _, _)
ListOf(its, ch, i) ==
    IF i > Len(its) THEN << >>
    ELSE (IF ch[i][1] = "abs" THEN << >> ELSE << Entry(ch[i][1], its[i], ch[i][2]) >>) \o ListOf(its, ch, i + 1)

WChoice == {<<"abs", 0>>} \cup { <<"st", s>> : s \in WStat }
RChoice == {<<"abs", 0>>, <<"val", 0>>, <<"val0", 0>>} \cup { <<"st", s>> : s \in WStat \ {0} }
GChoice == {<<FALSE, 0>>, <<TRUE, 0>>, <<TRUE, -70402>>, <<TRUE, 70410>>, <<TRUE, -70499>>}

\* entry lists with duplicates and malformed entries, for requests of at most two items
JunkAlphabet(its, op) ==
    { Entry("nondict", 0, 0), Entry("noaid", 0, 0), Entry("noiid", 0, 0) } \cup
    (IF op = "write" THEN { Entry("st", its[i], s) : i \in DOMAIN its, s \in {0, -70410, 70402} }
     ELSE { Entry(t, its[i], 0) : i \in DOMAIN its, t \in {"val", "val0"} } \cup
          { Entry("st", its[i], s) : i \in DOMAIN its, s \in {-70410, 70402} })
JunkLists(its, op) == UNION { [1..n -> JunkAlphabet(its, op)] : n \in 0..MaxJunk }

PermsIp(n) == [1..n -> {"rw", "wo"}]
PermsAll(n) == [1..n -> {"rw", "wo", "tw", "ro"}]

\* The families of cases.  A family is a set of groups (request item sequences) and, per group, a
\* set of cases; Init picks one case (the whole domain is never built as one set).
Families == {"ipwvec", "ipwcodes", "ipwjunk", "iprvec", "iprcodes", "iprjunk",
             "coapw", "coapr", "pducodes", "coaprcodes", "blew"}
Min2(a, b) == IF a <= b THEN a ELSE b
Groups(f) ==
    CASE f \in {"ipwvec", "iprvec", "coapw", "coapr"} -> ItemSeqs(1, MaxN)
      [] f \in {"ipwjunk", "iprjunk"} -> ItemSeqs(1, 2)
      [] f = "blew" -> ItemSeqs(1, MaxN)
      [] OTHER -> ItemSeqs(1, 1)
AllRw(its) == [i \in 1..Len(its) |-> "rw"]
PduStat == {0, 3, 6}        \* CoAP / BLE: 0 = success, 1..6 the defined PDU statuses
LINK_LOST == 255            \* BLE: not a status - the link drops while this request is in flight, the call raises
CasesOf(f, its) ==
    LET n == Len(its) k == its[1] IN
    CASE f = "ipwvec" ->     \* every vector of per-item statuses / absences, 204 and 207
           { Case("ip", "write", its, pm, TRUE, "204", FALSE, 0, << >>) : pm \in PermsIp(n) } \cup
           { Case("ip", "write", its, pm, TRUE, "207", FALSE, 0, ListOf(its, ch, 1))
               : pm \in PermsIp(n), ch \in [1..n -> WChoice] }
      [] f = "ipwcodes" ->   \* each defined code, its positive form, unknown codes; every permission class
           { Case("ip", "write", its, <<p>>, TRUE, "207", FALSE, 0, << Entry("st", k, s) >>)
               : p \in {"rw", "wo", "tw", "ro"}, s \in AllCodes }
      [] f = "ipwjunk" ->    \* missing, duplicated, non-dict and id-less entries
           { Case("ip", "write", its, pm, TRUE, "207", FALSE, 0, es)
               : pm \in PermsIp(n), es \in JunkLists(its, "write") }
      [] f = "iprvec" ->     \* values / statuses / absences, request-wide status, requested set known or not
           { Case("ip", "read", its, AllRw(its), rk, "207", gg[1], gg[2], ListOf(its, ch, 1))
               : ch \in [1..n -> RChoice], gg \in GChoice, rk \in BOOLEAN }
      [] f = "iprcodes" ->
           { Case("ip", "read", its, <<"rw">>, TRUE, "207", FALSE, 0, << Entry("st", k, s) >>) : s \in AllCodes \ {0} } \cup
           { Case("ip", "read", its, <<"rw">>, TRUE, "207", TRUE, s, << >>) : s \in AllCodes \ {0} }
      [] f = "iprjunk" ->
           { Case("ip", "read", its, AllRw(its), TRUE, "207", gg[1], gg[2], es)
               : es \in JunkLists(its, "read"), gg \in {<<FALSE, 0>>, <<TRUE, -70402>>} }
      [] f = "coapw" ->
           { Case("coap", "write", its, pm, TRUE, "pdu", FALSE, 0, [i \in 1..n |-> Entry("st", its[i], st[i])])
               : pm \in PermsIp(n), st \in [1..n -> PduStat] }
      [] f = "coapr" ->
           { Case("coap", "read", its, AllRw(its), TRUE, "pdu", FALSE, 0,
                  [i \in 1..n |-> IF st[i] = 0 THEN Entry("val", its[i], 0) ELSE Entry("st", its[i], st[i])])
               : st \in [1..n -> PduStat] }
      [] f = "pducodes" ->
           { Case(tr, "write", its, <<p>>, TRUE, "pdu", FALSE, 0, << Entry("st", k, s) >>)
               : tr \in {"coap", "ble"}, p \in {"rw", "wo"}, s \in 0..6 }
      [] f = "coaprcodes" ->
           { Case("coap", "read", its, <<"rw">>, TRUE, "pdu", FALSE, 0, << Entry("st", k, s) >>) : s \in 1..6 }
      [] OTHER ->            \* "blew"
           { Case("ble", "write", its, pm, TRUE, "pdu", FALSE, 0, [i \in 1..n |-> Entry("st", its[i], st[i])])
               : pm \in PermsAll(n), st \in [1..n -> {0, 6, LINK_LOST}] }

VARIABLES c, pc, idx, result, pending, ncount, exc
vars == <<c, pc, idx, result, pending, ncount, exc>>

NoRes == [has |-> FALSE, kind |-> "empty", s |-> 0, d |-> 0, v |-> 0]
Res(kind, s, d, v) == [has |-> TRUE, kind |-> kind, s |-> s, d |-> d, v |-> v]

Start == /\ pc = "start" /\ idx = 1 /\ result = [k \in U |-> NoRes]
         /\ pending = {} /\ ncount = [k \in U |-> 0] /\ exc = FALSE
Init == /\ \E f \in Families : \E its \in Groups(f) : c \in CasesOf(f, its)
        /\ Start

\* ------------------------------------------------------------------ the algorithms
\* ---- IP put_characteristics
IpWPrepare ==           \* listener_update := the readable ones; send; 204 = empty response
    /\ pc = "start" /\ c.tr = "ip" /\ c.op = "write"
    /\ pending' = { k \in Requested(c) : Readable(PermOf(c, k)) }
    /\ pc' = IF HasBody(c) THEN "loop" ELSE "notify"
    /\ UNCHANGED <<c, idx, result, ncount, exc>>

IpWEntry ==             \* one entry of response["characteristics"]
    /\ pc = "loop" /\ c.tr = "ip" /\ c.op = "write" /\ idx <= Len(c.entries)
    /\ LET e == c.entries[idx] IN
         IF ~IsItem(e)
         THEN UNCHANGED <<result, pending>>                        \* malformed: skipped
         ELSE /\ result' = [result EXCEPT ![e.k] = Res("status", e.s, Normalise(e.s), 0)]
              /\ pending' = IF e.s # 0 THEN pending \ {e.k} ELSE pending
    /\ idx' = idx + 1
    /\ UNCHANGED <<c, pc, ncount, exc>>

IpWLoopEnd ==
    /\ pc = "loop" /\ c.tr = "ip" /\ c.op = "write" /\ idx > Len(c.entries)
    /\ pc' = "notify" /\ UNCHANGED <<c, idx, result, pending, ncount, exc>>

Notify ==               \* one listener call with everything still pending
    /\ pc = "notify"
    /\ ncount' = [k \in U |-> IF k \in pending THEN ncount[k] + 1 ELSE ncount[k]]
    /\ pc' = "done" /\ UNCHANGED <<c, idx, result, pending, exc>>

\* ---- IP get_characteristics / format_characteristic_list
IpRGlobal ==            \* a non-zero request-wide status is the default for every requested one
    /\ pc = "start" /\ c.tr = "ip" /\ c.op = "read"
    /\ result' = IF c.hasG /\ c.g # 0 /\ c.reqKnown
                 THEN [k \in U |-> IF k \in Requested(c) THEN Res("status", c.g, Normalise(c.g), 0) ELSE NoRes]
                 ELSE result
    /\ pc' = "loop" /\ UNCHANGED <<c, idx, pending, ncount, exc>>

IpREntry ==
    /\ pc = "loop" /\ c.tr = "ip" /\ c.op = "read" /\ idx <= Len(c.entries)
    /\ LET e == c.entries[idx] IN
         IF ~IsItem(e) THEN UNCHANGED result
         ELSE result' = [result EXCEPT ![e.k] =
                            CASE e.t \in {"val", "val0"} -> Res("value", 0, 0, idx)
                              [] e.s # 0 -> Res("status", e.s, Normalise(e.s), 0)
                              [] OTHER -> Res("empty", 0, 0, 0)]
    /\ idx' = idx + 1 /\ UNCHANGED <<c, pc, pending, ncount, exc>>

IpRLoopEnd ==
    /\ pc = "loop" /\ c.tr = "ip" /\ c.op = "read" /\ idx > Len(c.entries)
    /\ pc' = "done" /\ UNCHANGED <<c, idx, result, pending, ncount, exc>>

\* ---- CoAP: positional PDU results
CoapEntry ==
    /\ pc = "start" /\ c.tr = "coap" /\ idx <= Len(c.entries)
    /\ LET e == c.entries[idx] IN
         result' = IF e.t = "val" THEN [result EXCEPT ![e.k] = Res("value", 0, 0, idx)]
                   ELSE IF e.s # 0 THEN [result EXCEPT ![e.k] = Res("status", 0 - e.s, 0, 0)]
                   ELSE result                                           \* write: only failures are returned
    /\ idx' = idx + 1 /\ UNCHANGED <<c, pc, pending, ncount, exc>>

CoapEnd ==              \* write: notify those without a result that are readable
    /\ pc = "start" /\ c.tr = "coap" /\ idx > Len(c.entries)
    /\ pending' = IF c.op = "write"
                  THEN { k \in Requested(c) : ~result[k].has /\ Readable(PermOf(c, k)) } ELSE {}
    /\ pc' = IF c.op = "write" THEN "notify" ELSE "done"
    /\ UNCHANGED <<c, idx, result, ncount, exc>>

\* ---- BLE put_characteristics: one characteristic after the other
BleItem ==
    /\ pc = "start" /\ c.tr = "ble" /\ idx <= Len(c.items)
    /\ LET k == c.items[idx]
           p == c.perms[idx]
       IN  IF ~Writable(p)
           THEN /\ result' = [result EXCEPT ![k] = Res("status", CANT_WRITE_READ_ONLY, CANT_WRITE_READ_ONLY, 0)]
                /\ idx' = idx + 1 /\ UNCHANGED <<pc, ncount, exc>>
           ELSE IF c.entries[idx].s # 0
           THEN /\ exc' = TRUE /\ pc' = "done" /\ UNCHANGED <<result, idx, ncount>>     \* PDUStatusError
           ELSE /\ ncount' = IF Readable(p) THEN [ncount EXCEPT ![k] = @ + 1] ELSE ncount
                /\ idx' = idx + 1 /\ UNCHANGED <<result, pc, exc>>
    /\ UNCHANGED <<c, pending>>

BleEnd ==
    /\ pc = "start" /\ c.tr = "ble" /\ idx > Len(c.items)
    /\ pc' = "done" /\ UNCHANGED <<c, idx, result, pending, ncount, exc>>

Next == IpWPrepare \/ IpWEntry \/ IpWLoopEnd \/ Notify \/ IpRGlobal \/ IpREntry \/ IpRLoopEnd
        \/ CoapEntry \/ CoapEnd \/ BleItem \/ BleEnd
Spec == Init /\ [][Next]_vars

\* ------------------------------------------------------------------ properties (C13)
ResultSet == { [k |-> k, kind |-> result[k].kind, s |-> result[k].s, d |-> result[k].d, v |-> result[k].v]
               : k \in { x \in U : result[x].has } }

\* every outcome of the algorithm is a faithful report
Faithful == pc = "done" => Holds(c, exc, ResultSet, ncount, FALSE)

\* sanity of the relation itself
NotifySubsetAccepted ==
    (pc = "done" /\ c.op = "write") =>
        \A k \in U : ncount[k] > 0 => (k \in Requested(c) /\ WClass(c, k) \in {"acc", "mixed"} /\ Readable(PermOf(c, k)))
RejectedReported ==
    (pc = "done" /\ c.op = "write" /\ ~exc) =>
        \A k \in Requested(c) : WClass(c, k) = "rej" => (result[k].has /\ result[k].s # 0)
ReadTotal ==        \* a read reports every requested characteristic the accessory said anything about
    (pc = "done" /\ c.op = "read") =>
        \A k \in Requested(c) : (EntriesFor(c, k) # {} \/ (c.hasG /\ c.g # 0 /\ c.reqKnown)) => result[k].has
=============================================================================
