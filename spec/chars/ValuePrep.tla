------------------------------ MODULE ValuePrep ------------------------------
(* Preparing a caller-supplied value for a numeric / boolean characteristic
   (aiohomekit/model/characteristics/characteristic.py: check_convert_value, reached through
   Service.build_update).

   Arithmetic is integer fixed point: every quantity of one case (declared minimum, maximum,
   step, the input) is an integer number of *units*; S units make 1.  (S = 1 for whole
   numbers, 10 / 100 for one / two decimals.)  The rule is homogeneous, so nothing but the
   "is an integer" clauses depends on S.  All quantities stay within +-5*10^8 so TLC's 32 bit
   integers cannot overflow; larger magnitudes are reached by the conformance harness through
   the translation / scaling lemmas below (ShiftLemma, ScaleLemma), which TLC checks here.

   A case is a record
     [fmt, S, hasLo, lo, hasHi, hi, hasSt, st, kind, v]
   kind = "num"        v is the input in units
          "garbage"    an input that cannot be converted ("abc", "", None, "1e", ...)
          "nonfinite"  nan / inf: the property does not say whether this "can be converted";
                       the only demand is that no exception other than the format error escapes
          "true" / "false"  (fmt = "bool") one of the accepted truth tokens
          "othernum"   (fmt = "bool") a number other than 0 / 1 (2, -1, 255, 2^64-1, 2.0, "2", ...) and
                       the float / string spellings 1.0, 0.0, "1.0": the statement does not say whether
                       these can be converted; the result is 0 or 1 or the format error, never
                       another value or exception

   The pipeline  Convert -> ClampMin -> ClampMax -> StepRound -> Finalise  has one action per
   step of the code.  The design is exact arithmetic; the six significant digits the code keeps
   for fractional values are a *permission* of the property and live in the conformance
   relation Accept (tolerance Tol), not in the pipeline.

   Readings chosen where the statement leaves a choice (the weaker one each time):
   * "ties go upward" is demanded where the clamped input is at or above the grid origin (the
     only situation that exists when a minimum is declared).  Below the origin (no minimum
     declared, negative input) the code rounds half away from zero; the specification allows
     either neighbour there.
   * integer format without a declared step: the result is an integer nearest to the clamped
     input; on a tie either neighbour (there is no declared grid).
   * a value of the characteristic's format = a Python int for integer formats, a float for
     float, 0/1 for bool; the width of uint8..uint64 is not enforced by this code path and not
     demanded. *)
EXTENDS Integers, FiniteSets, TLC

IntFormats == {"uint8", "uint16", "uint32", "uint64", "int"}
NumFormats == IntFormats \cup {"float"}

Abs(x) == IF x < 0 THEN -x ELSE x
Max2(a, b) == IF a >= b THEN a ELSE b
Min2(a, b) == IF a <= b THEN a ELSE b
CeilDiv(a, b) == -((-a) \div b)            \* b > 0

Val(n) == [kind |-> "value", v |-> n]
FmtErr == [kind |-> "FormatError", v |-> 0]
Unspecified == [kind |-> "unspecified", v |-> 0]

\* ------------------------------------------------------------------ the rule, as pure operators
StepActive(c) == c.hasSt /\ c.st # 0       \* `if char.minStep:` - an absent or zero step is no step
Off(c) == IF c.hasLo THEN c.lo ELSE 0      \* the grid is counted from the declared minimum
ClampLo(c, x) == IF c.hasLo /\ x < c.lo THEN c.lo ELSE x
ClampHi(c, x) == IF c.hasHi /\ x > c.hi THEN c.hi ELSE x
Clamped(c) == ClampHi(c, ClampLo(c, c.v))

\* grid points nearest to x (grid = off + k*st); exact tie: upward at or above the origin
NearestOnGrid(off, st, x) ==
    LET a == x - off
        q == a \div st                      \* floor
        r == a % st                         \* 0 <= r < st
        dn == off + q * st
        up == dn + st
    IN  IF 2 * r < st THEN {dn}
        ELSE IF 2 * r > st THEN {up}
        ELSE IF a >= 0 THEN {up} ELSE {dn, up}

\* integers (multiples of S) nearest to x; a tie may go either way
NearestInt(S, x) ==
    LET r == x % S
        dn == x - r
    IN  IF r = 0 THEN {x}
        ELSE IF 2 * r < S THEN {dn}
        ELSE IF 2 * r > S THEN {dn + S}
        ELSE {dn, dn + S}

AfterStep(c) == IF StepActive(c) THEN NearestOnGrid(Off(c), c.st, Clamped(c)) ELSE {Clamped(c)}

AllowedNum(c) == IF c.fmt \in IntFormats
                 THEN UNION { NearestInt(c.S, y) : y \in AfterStep(c) }
                 ELSE AfterStep(c)

\* every outcome the property allows for case c (exact arithmetic)
Allowed(c) ==
    IF c.fmt = "bool"
    THEN (CASE c.kind = "true" -> {Val(1)} [] c.kind = "false" -> {Val(0)}
            [] c.kind = "othernum" -> {Val(0), Val(1), FmtErr} [] OTHER -> {FmtErr})
    ELSE CASE c.kind = "num" -> { Val(y) : y \in AllowedNum(c) }
           [] c.kind = "nonfinite" -> {FmtErr, Unspecified}
           [] OTHER -> {FmtErr}

\* ------------------------------------------------------------------ conformance relation
\* Exact class of the statement: integer format and integer-valued input -> no tolerance at any
\* magnitude.  Without a declared step the code does not enter the six-digit context at all.
Exact(c) == c.fmt \in IntFormats /\ c.v % c.S = 0
\* Otherwise: six significant digits.  The code rounds (v - off), the quotient, the product and
\* the sum to 6 digits (half a unit in the 6th digit each, relative error <= 0.5*10^-5 each), so
\* every error is below 2*10^-5 * M with M = |off| + |clamped - off| + st; twice that is granted.
\* Consequences used below (all quantities of a case are whole units, S a power of ten):
\*  * M < 25000 units: the roundings cannot move the quotient across a half (a non-tie is at least
\*    half a unit away from one, the slack is below 10^-5 * M <= a quarter unit) and an exact tie
\*    stays one, so the *choice* of grid point is exact, ties-up included; what remains is noise far
\*    below a unit in a float result (the binary expansion of a declared 0.1, e.g. -5.6e-18 for 0),
\*    which is measured in thousandths of a unit;
\*  * M >= 25000 units: the choice and the value are granted floor(M / 25000) >= 1 units.
Magnitude(c) == Abs(Off(c)) + Abs(Clamped(c) - Off(c)) + c.st
Tolerant(c) == StepActive(c) /\ ~Exact(c)
Coarse(c) == Tolerant(c) /\ Magnitude(c) >= 25000
Tol(c) == IF Coarse(c) THEN Magnitude(c) \div 25000 ELSE 0           \* units
TolMilli(c) == IF Tolerant(c) /\ c.fmt = "float" /\ ~Coarse(c)        \* thousandths of a unit
               THEN (Magnitude(c) \div 25) + 1 ELSE 0

(* An observation o of the real code:
     [kind |-> "value" | "nonfinite" | "FormatError" | "other",
      lo, hi   |-> floor / ceiling of the returned number in units (lo = hi iff it is a whole
                   number of units),
      lo3, hi3 |-> the same in thousandths of a unit,
      typ |-> "int" | "float" | "bool" | "other"]      (numbers clipped to +-1.9*10^9)      *)
TypeOk(c, o) == IF c.fmt \in IntFormats THEN o.typ = "int" /\ o.lo = o.hi /\ o.lo % c.S = 0
                ELSE IF c.fmt = "float" THEN o.typ = "float"
                ELSE o.typ = "int" /\ o.lo = o.hi /\ o.lo \in {0, 1}

AcceptNum(c, o) ==
    IF Coarse(c)
    THEN \* some grid point g with |g - clamped| <= st/2 + tol and |o - g| <= tol
         LET tol == Tol(c)
             x == Clamped(c)
             L == Max2(x - (c.st \div 2) - tol, o.hi - tol)
             H == Min2(x + (c.st \div 2) + tol, o.lo + tol)
             g == Off(c) + CeilDiv(L - Off(c), c.st) * c.st      \* lowest grid point >= L
         IN  g <= H
    ELSE IF TolMilli(c) > 0
    THEN \E g \in AllowedNum(c) : /\ Abs(o.lo3 - 1000 * g) <= TolMilli(c)
                                  /\ Abs(o.hi3 - 1000 * g) <= TolMilli(c)
    ELSE o.lo = o.hi /\ o.lo \in AllowedNum(c)

Accept(c, o) ==
    /\ o.kind # "other"                                  \* never any other exception
    /\ IF c.fmt = "bool"
       THEN (CASE c.kind = "true" -> o.kind = "value" /\ TypeOk(c, o) /\ o.lo = 1
               [] c.kind = "false" -> o.kind = "value" /\ TypeOk(c, o) /\ o.lo = 0
               [] c.kind = "othernum" -> o.kind = "FormatError" \/ (o.kind = "value" /\ TypeOk(c, o))
               [] OTHER -> o.kind = "FormatError")
       ELSE CASE c.kind = "num" -> o.kind = "value" /\ TypeOk(c, o) /\ AcceptNum(c, o)
              [] c.kind = "nonfinite" -> TRUE
              [] OTHER -> o.kind = "FormatError"

\* ------------------------------------------------------------------ bounded domains
CONSTANT Profile            \* "tiny": every small tuple; "real": real magnitudes around the grid

Case(f, S, l, h, s, k, v) ==
    [fmt |-> f, S |-> S, hasLo |-> l[1], lo |-> l[2], hasHi |-> h[1], hi |-> h[2],
     hasSt |-> s[1], st |-> s[2], kind |-> k, v |-> v]

None == <<FALSE, 0>>
Some(x) == <<TRUE, x>>

\* the quantifier's well-formedness: min <= max, step >= 0, integer formats have integer
\* minimum / maximum / step
WellFormed(c) ==
    /\ (c.hasLo /\ c.hasHi) => c.lo <= c.hi
    /\ c.st >= 0
    /\ c.fmt \in IntFormats => (c.lo % c.S = 0 /\ c.hi % c.S = 0 /\ c.st % c.S = 0)

BoolCases == { Case("bool", 1, None, None, None, k, 0) : k \in {"true", "false", "othernum", "garbage"} }
BadCases(fmts) == { Case(f, 1, l, h, s, k, 0) :
                      f \in fmts, l \in {None, Some(0)}, h \in {None, Some(100)}, s \in {None, Some(1)},
                      k \in {"garbage", "nonfinite"} }

\* ---- tiny: every tuple over a small range, two scales
TinyOpt(R) == {None} \cup { Some(x) : x \in R }
TinyShape ==
    { k \in { Case(f, S, l, h, s, "num", 0) :
                f \in {"uint8", "float"}, S \in {1, 2},
                l \in TinyOpt(-3..4), h \in TinyOpt(-2..6), s \in TinyOpt(0..4) }
      : WellFormed(k) }

\* ---- real: declared ranges / steps of real magnitude, inputs at, next to and half-way between
\*      grid points, around the bounds, and at magnitudes 10^5 .. 5*10^8
LIM == 500000000
RealLo(S) == {None, Some(0), Some(-50 * S), Some(10 * S), Some(-(LIM \div S) * S)}
RealHi(S) == {None, Some(100 * S), Some(255 * S), Some(65535 * S), Some(1000000 * S), Some((LIM \div S) * S)}
RealStInt(S) == {None, Some(0), Some(S), Some(2 * S), Some(5 * S), Some(10 * S), Some(7 * S)}
RealStFrac(S) == IF S = 10 THEN {Some(1), Some(5), Some(25)}           \* 0.1 0.5 2.5
                 ELSE IF S = 100 THEN {Some(1), Some(10), Some(50)}     \* 0.01 0.1 0.5
                 ELSE {}
RealInputs(c) ==
    LET off == Off(c)
        st == IF StepActive(c) THEN c.st ELSE c.S
        bases == { off + k * st : k \in {0, 1, 2, 13} } \cup (IF c.hasHi THEN {c.hi, c.hi - st} ELSE {})
        deltas == {0, 1, -1, st \div 2, (st \div 2) + 1, (st \div 2) - 1, st - 1, -(st \div 2)}
        around == { b + d : b \in bases, d \in deltas }
        edges == (IF c.hasLo THEN {c.lo - 1, c.lo - 1000 * c.S} ELSE {}) \cup
                 (IF c.hasHi THEN {c.hi + 1, c.hi + st, c.hi + 1000000} ELSE {})
        mags == {99999, 100000, 123456, 999999, 1000000, 1234565, 1234567, 12345678, 123456789,
                 499999999, -1, -c.S, -1234567, -123456789}
    IN  { x \in around \cup edges \cup mags : Abs(x) <= LIM }
RealShapeFS(f, S) ==
    { k \in { Case(f, S, l, h, s, "num", 0) :
                l \in RealLo(S), h \in RealHi(S),
                s \in RealStInt(S) \cup (IF f = "float" THEN RealStFrac(S) ELSE {}) }
      : WellFormed(k) }
RealShape == UNION { RealShapeFS(fs[1], fs[2]) :
                       fs \in { x \in NumFormats \X {1, 10, 100} : x[1] \in IntFormats => x[2] \in {1, 10} } }
\* ---- quick: the real domain restricted to four formats and fewer shapes
QuickShape == { k \in RealShape : k.fmt \in {"uint8", "uint64", "float"} /\ k.S \in {1, 10}
                                  /\ (k.hasHi => k.hi \div k.S \in {100, 65535, LIM \div k.S}) }

\* A domain is a set of shapes (cases with v = 0) and, per shape, a set of inputs.  (It is never
\* built as one set of cases: TLC's UNION is quadratic.)
Fixed == BoolCases \cup BadCases(IF Profile = "real" THEN NumFormats ELSE {"uint8", "float"})
Shapes == Fixed \cup (CASE Profile = "tiny" -> TinyShape [] Profile = "quick" -> QuickShape
                        [] Profile = "real" -> RealShape [] OTHER -> {})
InputsOf(k) == IF k.kind # "num" THEN {0} ELSE IF Profile = "tiny" THEN -7..10 ELSE RealInputs(k)

\* ------------------------------------------------------------------ pipeline state machine
VARIABLES c, pc, val, res
vars == <<c, pc, val, res>>

Init == /\ \E k \in Shapes : \E x \in InputsOf(k) : c = [k EXCEPT !.v = x]
        /\ pc = "convert" /\ val = 0 /\ res = Unspecified

BoolMap ==          \* strtobool(str(val)) -> 1 / 0, anything else is a format error
    /\ pc = "convert" /\ c.fmt = "bool"
    /\ res' \in Allowed(c)
    /\ pc' = "done" /\ UNCHANGED <<c, val>>

ConvertFail ==      \* Decimal(val) impossible -> the library's format error
    /\ pc = "convert" /\ c.fmt # "bool" /\ c.kind \in {"garbage", "nonfinite"}
    /\ res' = FmtErr /\ pc' = "done" /\ UNCHANGED <<c, val>>

ConvertNonFinite == \* nan / inf may also be carried through (result unspecified)
    /\ pc = "convert" /\ c.fmt # "bool" /\ c.kind = "nonfinite"
    /\ res' = Unspecified /\ pc' = "done" /\ UNCHANGED <<c, val>>

Convert ==
    /\ pc = "convert" /\ c.fmt # "bool" /\ c.kind = "num"
    /\ val' = c.v /\ pc' = "clampmin" /\ UNCHANGED <<c, res>>

ClampMin ==
    /\ pc = "clampmin"
    /\ val' = ClampLo(c, val) /\ pc' = "clampmax" /\ UNCHANGED <<c, res>>

ClampMax ==
    /\ pc = "clampmax"
    /\ val' = ClampHi(c, val) /\ pc' = "step" /\ UNCHANGED <<c, res>>

StepRound ==        \* offset + round_half_up((val - offset) / step) * step
    /\ pc = "step" /\ StepActive(c)
    /\ val' \in NearestOnGrid(Off(c), c.st, val)
    /\ pc' = "final" /\ UNCHANGED <<c, res>>

StepSkip ==
    /\ pc = "step" /\ ~StepActive(c)
    /\ pc' = "final" /\ UNCHANGED <<c, val, res>>

FinaliseInt ==      \* int(val.to_integral_value())
    /\ pc = "final" /\ c.fmt \in IntFormats
    /\ \E y \in NearestInt(c.S, val) : res' = Val(y)
    /\ pc' = "done" /\ UNCHANGED <<c, val>>

FinaliseFloat ==    \* float(val)
    /\ pc = "final" /\ c.fmt = "float"
    /\ res' = Val(val)
    /\ pc' = "done" /\ UNCHANGED <<c, val>>

Next == BoolMap \/ ConvertFail \/ ConvertNonFinite \/ Convert \/ ClampMin \/ ClampMax
        \/ StepRound \/ StepSkip \/ FinaliseInt \/ FinaliseFloat
Spec == Init /\ [][Next]_vars

\* ------------------------------------------------------------------ properties (C14)
Done == pc = "done"
NumDone == Done /\ c.kind = "num" /\ c.fmt # "bool"
X == Clamped(c)

\* the result lies on the declared step grid counted from the declared minimum
OnGrid == (NumDone /\ StepActive(c)) => (res.v - Off(c)) % c.st = 0

\* no grid point (integer, when no step is declared for an integer format) is strictly closer
\* to the clamped input; without a grid a float is the clamped input itself
Nearest ==
    NumDone =>
        IF StepActive(c)
        THEN \A g \in {res.v - c.st, res.v + c.st} : Abs(X - res.v) <= Abs(X - g)
        ELSE IF c.fmt \in IntFormats
        THEN \A g \in {res.v - c.S, res.v + c.S} : Abs(X - res.v) <= Abs(X - g)
        ELSE res.v = X

\* an exact tie at or above the grid origin goes upward
TiesUp == (NumDone /\ StepActive(c) /\ X >= Off(c) /\ 2 * Abs(X - res.v) = c.st) => res.v > X

\* within the range whenever the bounds are on the grid
HiOnGrid == IF StepActive(c) THEN (c.hi - Off(c)) % c.st = 0 ELSE (c.fmt \in IntFormats => c.hi % c.S = 0)
InRangeIfBoundsOnGrid ==
    NumDone => /\ c.hasLo => res.v >= c.lo
               /\ (c.hasHi /\ HiOnGrid) => res.v <= c.hi

IntegerFormatsInteger == (NumDone /\ c.fmt \in IntFormats) => res.v % c.S = 0
BoolIs01 == (Done /\ c.fmt = "bool" /\ res.kind = "value") => res.v \in {0, 1}

\* unconvertible input <=> the library's format error (nan / inf: either)
ErrorIffUnconvertible ==
    Done => /\ (c.kind = "garbage") => res = FmtErr
            /\ (c.kind \in {"num", "true", "false"}) => res.kind = "value"
            /\ res.kind \in {"value", "FormatError", "unspecified"}

\* the pipeline and the functional form of the rule agree (Allowed is what the harness exports)
PipelineInAllowed == Done => res \in Allowed(c)
\* exact arithmetic is accepted by the conformance relation with and without tolerance
ExactIsAccepted ==
    Done => LET o == [kind |-> IF res.kind = "unspecified" THEN "nonfinite" ELSE res.kind,
                      lo |-> res.v, hi |-> res.v,
                      lo3 |-> IF Abs(res.v) < 1000000 THEN 1000 * res.v ELSE 0,
                      hi3 |-> IF Abs(res.v) < 1000000 THEN 1000 * res.v ELSE 0,
                      typ |-> IF c.fmt = "float" THEN "float" ELSE "int"]
            IN Accept(c, o)

\* ---- lemmas that let the harness reach magnitudes beyond TLC's integers (exact class only):
\* translating minimum, maximum and input by b translates the result when the grid is counted from
\* a declared minimum or there is no grid (not otherwise: TLC refutes it for a grid anchored at 0,
\* where a tie below the origin may go either way), and scaling everything by u scales the result.
Shift(k, b) == [k EXCEPT !.lo = IF k.hasLo THEN @ + b ELSE @, !.hi = IF k.hasHi THEN @ + b ELSE @, !.v = @ + b]
Scale(k, u) == [k EXCEPT !.lo = @ * u, !.hi = @ * u, !.st = @ * u, !.v = @ * u]
Lemmable == c.kind = "num" /\ Exact(c) /\ Abs(c.v) <= 100000 /\ Abs(c.lo) <= 100000 /\ Abs(c.hi) <= 100000
ShiftLemma ==
    (pc = "convert" /\ Lemmable) =>
        \A b \in {-7, -1, 1, 3, 64, 1000} :
            (c.hasLo \/ ~StepActive(c)) =>
                AllowedNum(Shift(c, b * c.S)) = { y + b * c.S : y \in AllowedNum(c) }
ScaleLemma ==
    (pc = "convert" /\ Lemmable) =>
        \A u \in {2, 3, 10, 1024} :
            AllowedNum(Scale(c, u)) = { y * u : y \in AllowedNum(c) }
=============================================================================
