--------------------------- MODULE ValuePrep_Cases ---------------------------
(* Spec -> code: export every case of the bounded domain with the outcomes the specification
   allows for it (exact arithmetic), its tolerance class and tolerance.  One line per shape
   (format, scale, minimum, maximum, step, kind) carrying the list of inputs. *)
EXTENDS ValuePrep, Json, IOUtils, SequencesExt

CaseLine(k) ==
    [shape |-> k,
     inputs |-> SetToSeq({ LET kx == [k EXCEPT !.v = x] IN
                           [v |-> x,
                            exact |-> (k.kind = "num" /\ k.fmt # "bool" /\ Exact(kx)),
                            tol |-> IF k.kind = "num" /\ k.fmt # "bool" THEN Tol(kx) ELSE 0,
                            tolm |-> IF k.kind = "num" /\ k.fmt # "bool" THEN TolMilli(kx) ELSE 0,
                            allowed |-> SetToSeq(Allowed(kx))] : x \in InputsOf(k) })]

ExportCases ==
    /\ TLCGet("stats").generated >= 0
    /\ ndJsonSerialize(IOEnv.CASES_OUT, SetToSeq({ CaseLine(k) : k \in Shapes }))
=============================================================================
