SPECIFICATION TSpec
CONSTANTS Profile = "trace"
INVARIANT Conforms
INVARIANT PipelineInAllowed
INVARIANT OnGrid
INVARIANT Nearest
INVARIANT TiesUp
INVARIANT IntegerFormatsInteger
CHECK_DEADLOCK FALSE
