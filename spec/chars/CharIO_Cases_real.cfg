SPECIFICATION Spec
CONSTANTS MaxN = 4  MaxJunk = 3
INVARIANT Faithful
INVARIANT NotifySubsetAccepted
INVARIANT RejectedReported
INVARIANT ReadTotal
POSTCONDITION ExportCases
CHECK_DEADLOCK FALSE
