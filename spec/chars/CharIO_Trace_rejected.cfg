SPECIFICATION TSpec
CONSTANTS MaxN = 4  MaxJunk = 3
INVARIANT Faithful
POSTCONDITION ExportRejected
CHECK_DEADLOCK FALSE
