SPECIFICATION Spec
CONSTANTS Profile = "real"
INVARIANT OnGrid
INVARIANT Nearest
INVARIANT TiesUp
INVARIANT InRangeIfBoundsOnGrid
INVARIANT IntegerFormatsInteger
INVARIANT BoolIs01
INVARIANT ErrorIffUnconvertible
INVARIANT PipelineInAllowed
INVARIANT ExactIsAccepted
INVARIANT ShiftLemma
INVARIANT ScaleLemma
POSTCONDITION ExportCases
CHECK_DEADLOCK FALSE
