SPECIFICATION Spec
CONSTANTS Profile = "quick"
INVARIANT OnGrid
INVARIANT Nearest
INVARIANT TiesUp
INVARIANT InRangeIfBoundsOnGrid
INVARIANT IntegerFormatsInteger
INVARIANT BoolIs01
INVARIANT ErrorIffUnconvertible
INVARIANT PipelineInAllowed
INVARIANT ExactIsAccepted
INVARIANT ShiftLemma
INVARIANT ScaleLemma
CHECK_DEADLOCK FALSE
