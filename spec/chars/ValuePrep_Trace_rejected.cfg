SPECIFICATION TSpec
CONSTANTS Profile = "trace"
INVARIANT PipelineInAllowed
POSTCONDITION ExportRejected
CHECK_DEADLOCK FALSE
