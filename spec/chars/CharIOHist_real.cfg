SPECIFICATION HSpec
CONSTANTS MaxN = 4  MaxJunk = 3  MaxHistN = 2
INVARIANT CollectionUnchanged
INVARIANT HistoryIndependent
CHECK_DEADLOCK FALSE
