--------------------------- MODULE ValuePrep_Trace ---------------------------
(* Code -> spec: records observed from the real check_convert_value / Service.build_update are
   validated against ValuePrep.  One record = the case handed to the real code (in units) and
   what it returned or raised.  The pipeline of the specification is run from the recorded case;
   the record is accepted iff the observation is in the conformance relation Accept. *)
EXTENDS ValuePrep, Json, IOUtils, Sequences, SequencesExt

Recs == ndJsonDeserialize(IOEnv.TRACE_FILE)

VARIABLE tid
tvars == <<vars, tid>>

TInit == /\ tid \in 1..Len(Recs)
         /\ c = Recs[tid].c
         /\ pc = "convert" /\ val = 0 /\ res = Unspecified
TNext == Next /\ UNCHANGED tid
TSpec == TInit /\ [][TNext]_tvars

\* what the real code returned / raised is allowed by the specification
Conforms == Accept(c, Recs[tid].o)

\* second pass after a rejection: the numbers of all rejected records, for the report
ExportRejected ==
    /\ TLCGet("stats").generated >= 0
    /\ ndJsonSerialize(IOEnv.REJECT_OUT, SetToSeq({ t \in 1..Len(Recs) : ~Accept(Recs[t].c, Recs[t].o) }))
=============================================================================
