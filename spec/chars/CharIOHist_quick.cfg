SPECIFICATION HSpec
CONSTANTS MaxN = 3  MaxJunk = 2  MaxHistN = 2
INVARIANT CollectionUnchanged
INVARIANT HistoryIndependent
CHECK_DEADLOCK FALSE
