SPECIFICATION TSpec
CONSTANTS MaxN = 4  MaxJunk = 3
INVARIANT Conforms
INVARIANT Faithful
CHECK_DEADLOCK FALSE
