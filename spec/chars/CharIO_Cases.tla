---------------------------- MODULE CharIO_Cases ----------------------------
(* Spec -> code: export every case of the bounded domain, one line per (family, request). *)
EXTENDS CharIO, Json, IOUtils, SequencesExt

Lines == UNION { { [fam |-> f, items |-> its, cases |-> SetToSeq(CasesOf(f, its))] : its \in Groups(f) } : f \in Families }

ExportCases ==
    /\ TLCGet("stats").generated >= 0
    /\ ndJsonSerialize(IOEnv.CASES_OUT, SetToSeq(Lines))
=============================================================================
