SPECIFICATION TSpecLight
CONSTANTS MaxN = 4  MaxJunk = 3
INVARIANT Conforms
CHECK_DEADLOCK FALSE
