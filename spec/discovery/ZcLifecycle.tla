----------------------------- MODULE ZcLifecycle -----------------------------
(* What happens to the discovery, the loaded pairing and the accessory cache of ONE device id as its
   mDNS record comes, changes and goes (extension EXTZC; strengthens C19 and C20).

   Code modelled (one action per run of a callback / coroutine between two suspension points, the loop
   being run until nothing is ready - the points at which the harness looks):
     zeroconf.py      ZeroconfController._handle_service  (browser callback: Added / Updated / Removed,
                      the 0.5 s resolve-later timer), _async_resolve_later, _async_handle_service,
                      _async_handle_loaded_service_info; ZeroconfPairing._async_description_update
                      (endpoint change detection)
     abstract.py      AbstractPairing._async_description_update (c# increase -> _process_config_changed
                      task; s# change -> _process_disconnected_events; no-op after shutdown),
                      _load_accessories_from_cache, _update_accessories_state_cache,
                      _callback_and_save_config_changed
     ip/pairing.py    _process_config_changed, list_accessories_and_characteristics (cache write-through),
                      _async_description_update -> reconnect_soon
     ip/connection.py the connection takes its hosts / port from the pairing's description when it
                      connects; requests are strictly FIFO on one connection (semaphore), a request queued
                      for a connection that is gone fails
     controller.py    load_pairing, remove_pairing (pairing dropped from the controllers first, request to
                      the accessory, shutdown, cache entry deleted last)
     characteristic_cache.py  get_map / async_create_or_update_map / async_delete_map

   The accessory is reachable (a lost connection is re-established at once); what it does with a request it
   has received - answer, answer with an error, answer garbage, close the connection, or sit on it - is the
   environment's choice (Answer).  Unreachability / back-off / request time-outs are the subject of the
   IpConn and IpReq modules (C08, C10, C11).

   Values: an advertised record is [a, p, c, s] (address set, port, c#, s#); endpoint (0, 0) is the one in
   the pairing data.  Database versions are small integers; under `honest` the accessory's c# *is* its
   database version (HAP: c# must change whenever the database changes) and records carry the c# the
   accessory has when it announces.  Without `honest` the advertised c# is arbitrary (decrease, wrap,
   unrelated to the database), and only the properties that do not depend on an honest c# are claimed.

   `out` is the set of externally visible effects of the last step (what the harness observes while the
   loop settles), as triples <<kind, x, y>>:
     "dpoll"    _process_disconnected_events was called        "endp"   _async_endpoint_changed was called
     "tcp",a,p  connection attempt to address set a, port p    "req",n  request reached the accessory (1 GET
     "notify",c config-changed listeners called with c                   /accessories, 2 POST /pairings)
     "ret_list",ok / "ret_rm",ok   the application's call returned (1) or raised (0)
     "resolve"  a slow resolution (_async_handle_service) was started

   Configurations: ZcLifecycle_MCh (honest c#), _MCn (arbitrary c#), _MC2 (re-pairing), _MC (thorough),
   _cov (vacuity guard), _neg (tree before fix EXTZC-1, must be refuted), _sim (-simulate, SimSpec),
   ZcLifecycle_Trace (trace validation).  The module describes the REPAIRED code: NormalisedRemove = TRUE
   (proposed_fixes/EXTZC-1) and description updates ignored after shutdown (Handle; proposed_fixes/EXTZC-2). *)
EXTENDS Integers, Sequences, FiniteSets, TLC

CONSTANTS Addrs, Ports, CfgNums, StateNums,   \* domains of the advertised record
          DbVers,            \* database versions of the accessory
          InitCaches,        \* initial cache entries for the id, 0 = none, 10 * config_num + database version
          MaxLoads,          \* how often a pairing may be loaded for the id (2 = re-pair after removal)
          MaxQ,              \* bound on requests queued on the connection
          MaxResolving,      \* bound on concurrent slow resolutions
          IdCases,           \* case of AccessoryPairingID in the pairing data: subset of {"lower", "upper"}
          HonestModes,       \* subset of BOOLEAN
          AnswerKinds,       \* subset of {"ok", "err", "garbage", "close"}
          Restores,          \* restore_accessories_state calls considered: 10 * config_num + database version
          DecSpawn,          \* subset of BOOLEAN: may a c# BELOW the held one start a re-read ({FALSE}: this code)
          NormalisedRemove   \* TRUE: remove_pairing drops the pairing under the normalised (lower-case) id
                             \* the transport controller filed it under (repaired); FALSE: under pairing.id

VARIABLES known,     \* the browser knows the service name (PTR seen, not removed)
          zc,        \* complete record in the zeroconf cache: <<>> or <<r>>
          timer,     \* a resolve-later timer is pending for the name
          resolving, \* number of _async_handle_service tasks waiting for the network
          disc,      \* controller.discoveries[id].description: <<>> or <<r>>
          gen,       \* number of pairings loaded so far (the current one is the last)
          idcase,
          inCtl,     \* the current pairing object is in the controllers' `pairings` (receives updates)
          alias,     \* its alias is in the controllers' `aliases`
          shut,      \* pairing._shutdown
          up,        \* a connection exists / is wanted (connector started)
          pdesc,     \* pairing.description
          pcfg,      \* pairing.config_num (-1: no accessories state)
          pacc,      \* database version of pairing.accessories (0: none)
          cache,     \* cache entry for the id: <<>> or <<[c |-> config_num, a |-> database version]>>
          q,         \* requests on the connection, FIFO; the head has reached the accessory
          rm,        \* Controller.remove_pairing: "no" | "pending" | "done"
          accv,      \* the accessory's current database version
          honest,
          stale,     \* a config-change task failed and no description has been processed since
          out
vars == <<known, zc, timer, resolving, disc, gen, idcase, inCtl, alias, shut, up, pdesc, pcfg, pacc, cache, q,
          rm, accv, honest, stale, out>>
zvars == <<known, zc, timer, resolving>>
pvars == <<gen, idcase, inCtl, alias, shut, up, pdesc, pcfg, pacc, cache, q, rm, stale>>

None == <<>>
Some(x) == <<x>>
Recs == [a : Addrs, p : Ports, c : CfgNums, s : StateNums]
O(k, x, y) == <<k, x, y>>
If(c, S) == IF c THEN S ELSE {}

Has(qq, kind) == \E i \in 1..Len(qq) : qq[i].k = kind
\* the request the accessory is looking at after a step (1: GET /accessories, 2: POST /pairings)
ReqOut(qq) == If(qq # <<>>, {O("req", IF qq[1].k = "rm" THEN 2 ELSE 1, 0)})
EndpointOf(d) == IF d = None THEN <<0, 0>> ELSE <<d[1].a, d[1].p>>
TcpOut(d) == {O("tcp", EndpointOf(d)[1], EndpointOf(d)[2])}
\* callers whose request is dropped with the connection
ListFail(qq) == If(Has(qq, "list"), {O("ret_list", 0, 0)})

\* ------------------------------------------------------------------ the pairing's description update
\* pairing._async_description_update(r) on a pairing that is not shut down, holding description d, config
\* number cfg, queue qq, connection wanted u; spawn: a config-change task is started
\* A c# above the one the pairing holds starts a config-change task; an equal one does not.  A LOWER one
\* (decrease, wrap at 65535, accessory reset) does not in this code; the module leaves that case open.
Spawns(r, cfg) == IF r.c > cfg THEN {TRUE} ELSE IF r.c < cfg THEN DecSpawn ELSE {FALSE}
Upd(r, d, cfg, qq, u, spawn) ==
    LET poll  == ~spawn /\ (d = None \/ r.s # d[1].s)
        endp  == d = None \/ d[1].a # r.a \/ d[1].p # r.p
    IN [pdesc |-> Some(r),
        q     |-> IF spawn THEN Append(qq, [k |-> "cfg", c |-> r.c]) ELSE qq,
        out   |-> If(poll, {O("dpoll", 0, 0)}) \cup If(endp, {O("endp", 0, 0)})
                  \cup If(~u, TcpOut(Some(r))) \cup If(spawn /\ qq = <<>>, {O("req", 1, 0)})]

\* _async_handle_loaded_service_info for a complete record
Handle(r) ==
    /\ disc' = Some(r)
    /\ IF gen > 0 /\ inCtl /\ ~shut
       THEN \E sp \in Spawns(r, pcfg) :
            LET u == Upd(r, pdesc, pcfg, q, up, sp)
            IN /\ pdesc' = u.pdesc /\ q' = u.q /\ out' = u.out /\ up' = TRUE /\ stale' = FALSE
               /\ UNCHANGED <<gen, idcase, inCtl, alias, shut, pcfg, pacc, cache, rm>>
       ELSE out' = {} /\ UNCHANGED pvars
    /\ UNCHANGED <<accv, honest>>

\* ------------------------------------------------------------------ mDNS side
\* browser callback Added / Updated with the complete record in the cache
Announce(r) ==
    /\ honest => r.c = accv
    /\ zc' = Some(r) /\ known' = TRUE /\ timer' = TRUE
    /\ out' = {}
    /\ UNCHANGED <<resolving, disc, pvars, accv, honest>>
\* browser callback Added when only the PTR is known yet
AnnouncePtr ==
    /\ ~known
    /\ known' = TRUE /\ timer' = TRUE
    /\ out' = {}
    /\ UNCHANGED <<zc, resolving, disc, pvars, accv, honest>>
\* browser callback Removed (goodbye / expiry): the pending timer is cancelled
Remove ==
    /\ known
    /\ known' = FALSE /\ zc' = None /\ timer' = FALSE
    /\ out' = {}
    /\ UNCHANGED <<resolving, disc, pvars, accv, honest>>
\* _async_resolve_later
TimerFire ==
    /\ timer
    /\ timer' = FALSE
    /\ IF zc # None
       THEN Handle(zc[1]) /\ UNCHANGED resolving
       ELSE /\ resolving < MaxResolving
            /\ resolving' = resolving + 1 /\ out' = {O("resolve", 0, 0)}
            /\ UNCHANGED <<disc, pvars, accv, honest>>
    /\ UNCHANGED <<known, zc>>
\* _async_handle_service after its request returned: whatever is complete by then is processed
ResolveDone ==
    /\ resolving > 0
    /\ resolving' = resolving - 1
    /\ IF zc # None THEN Handle(zc[1]) ELSE out' = {} /\ UNCHANGED <<disc, pvars, accv, honest>>
    /\ UNCHANGED <<known, zc, timer>>

\* ------------------------------------------------------------------ pairing side
\* Controller.load_pairing: the pairing reads the cache; a known discovery is applied at once
Load ==
    /\ gen < MaxLoads /\ (gen = 0 \/ rm = "done")
    /\ gen' = gen + 1 /\ rm' = "no" /\ inCtl' = TRUE /\ alias' = TRUE /\ shut' = FALSE /\ stale' = FALSE
    /\ LET cfg0 == IF cache = None THEN -1 ELSE cache[1].c
           acc0 == IF cache = None THEN 0 ELSE cache[1].a
       IN /\ pcfg' = cfg0 /\ pacc' = acc0
          /\ IF disc # None
             THEN \E sp \in Spawns(disc[1], cfg0) :
                  LET u == Upd(disc[1], None, cfg0, <<>>, FALSE, sp)
                  IN pdesc' = u.pdesc /\ q' = u.q /\ out' = u.out /\ up' = TRUE
             ELSE pdesc' = None /\ q' = <<>> /\ out' = {} /\ up' = FALSE
   
    /\ UNCHANGED <<zvars, disc, idcase, cache, accv, honest>>

\* the application calls pairing.list_accessories_and_characteristics()
UserList ==
    /\ gen > 0 /\ Len(q) < MaxQ
   
    /\ IF shut
       THEN out' = {O("ret_list", 0, 0)} /\ UNCHANGED <<q, up>>
       ELSE /\ q' = Append(q, [k |-> "list", c |-> 0]) /\ up' = TRUE
            /\ out' = If(~up, TcpOut(pdesc)) \cup If(q = <<>>, {O("req", 1, 0)})
    /\ UNCHANGED <<zvars, disc, gen, idcase, inCtl, alias, shut, pdesc, pcfg, pacc, cache, rm, stale, accv, honest>>

\* the application calls pairing.restore_accessories_state(accessories, config_num, ...) with a map it kept
\* itself (Home Assistant does at start-up): adopted and written through.  (Restoring something older than
\* the description already seen is not considered: nothing would trigger the re-read; nor restoring while a
\* config-change task is in flight: the task would overwrite the restored number with its own.)
UserRestore(c, v) ==
    /\ gen > 0 /\ ~shut /\ rm = "no" /\ ~Has(q, "cfg")
    /\ v <= accv /\ (honest => c = v)
    /\ IF pdesc = None THEN TRUE ELSE c >= pdesc[1].c
    /\ pcfg' = c /\ pacc' = v /\ cache' = Some([c |-> c, a |-> v])
    /\ out' = {}
    /\ UNCHANGED <<zvars, disc, gen, idcase, inCtl, alias, shut, up, pdesc, q, rm, stale, accv, honest>>

\* Controller.remove_pairing(alias) up to its first suspension
UserRemove ==
    /\ gen > 0 /\ alias /\ Len(q) < MaxQ
    /\ alias' = FALSE
    /\ inCtl' = IF idcase = "upper" /\ ~NormalisedRemove THEN inCtl ELSE FALSE
   
    /\ IF shut
       THEN \* nothing can be sent any more: the call fails, the cache entry is deleted all the same
            /\ cache' = None /\ rm' = "done" /\ out' = {O("ret_rm", 0, 0)} /\ UNCHANGED <<q, up>>
       ELSE /\ q' = Append(q, [k |-> "rm", c |-> 0]) /\ rm' = "pending" /\ up' = TRUE
            /\ out' = If(~up, TcpOut(pdesc)) \cup If(q = <<>>, {O("req", 2, 0)})
            /\ UNCHANGED cache
    /\ UNCHANGED <<zvars, disc, gen, idcase, shut, pdesc, pcfg, pacc, stale, accv, honest>>

\* pairing.shutdown() by the application: every request on the connection fails; a remove_pairing that
\* was waiting for its answer runs its clean-up
UserShutdown ==
    /\ gen > 0 /\ ~shut
    /\ shut' = TRUE /\ up' = FALSE /\ q' = <<>>
    /\ out' = ListFail(q) \cup If(Has(q, "rm"), {O("ret_rm", 0, 0)})
    /\ cache' = IF Has(q, "rm") THEN None ELSE cache
    /\ rm' = IF Has(q, "rm") THEN "done" ELSE rm
    /\ stale' = (stale \/ Has(q, "cfg"))
   
    /\ UNCHANGED <<zvars, disc, gen, idcase, inCtl, alias, pdesc, pcfg, pacc, accv, honest>>

\* end of Controller.remove_pairing: shutdown, the other requests (rest) fail, the cache entry is deleted.
\* res: 1 = returned normally, 0 = raised; tcp: the lost connection's connector got as far as a TCP connect
\* before the shutdown cancelled it
RmFinish(rest, res, tcp) ==
    /\ shut' = TRUE /\ up' = FALSE /\ q' = <<>> /\ cache' = None /\ rm' = "done"
    /\ out' = {O("ret_rm", res, 0)} \cup ListFail(rest) \cup If(tcp, TcpOut(pdesc))
    /\ stale' = (stale \/ Has(rest, "cfg"))
    /\ UNCHANGED <<gen, idcase, inCtl, alias, pdesc, pcfg, pacc>>

\* the accessory deals with the request it is looking at
Answer(kind) ==
    /\ q # <<>>
   
    /\ LET h == q[1]
           rest == Tail(q)
       IN CASE kind = "ok" /\ h.k = "cfg" ->
                 \* accessories re-read, config number set to the one that triggered the task, listeners
                 \* notified with it, cache written through
                 /\ pacc' = accv /\ pcfg' = h.c /\ cache' = Some([c |-> h.c, a |-> accv]) /\ q' = rest
                 /\ out' = {O("notify", h.c, 0)} \cup ReqOut(rest)
                 /\ UNCHANGED <<gen, idcase, inCtl, alias, shut, up, pdesc, rm, stale>>
            [] kind = "ok" /\ h.k = "list" ->
                 /\ pacc' = accv /\ cache' = Some([c |-> pcfg, a |-> accv]) /\ q' = rest
                 /\ out' = {O("ret_list", 1, 0)} \cup ReqOut(rest)
                 /\ UNCHANGED <<gen, idcase, inCtl, alias, shut, up, pdesc, pcfg, rm, stale>>
            [] kind = "ok" /\ h.k = "rm" -> RmFinish(rest, 1, FALSE)
            [] kind \in {"err", "garbage"} /\ h.k = "cfg" ->
                 /\ q' = rest /\ stale' = TRUE /\ out' = ReqOut(rest)
                 /\ UNCHANGED <<gen, idcase, inCtl, alias, shut, up, pdesc, pcfg, pacc, cache, rm>>
            [] kind \in {"err", "garbage"} /\ h.k = "list" ->
                 /\ q' = rest /\ out' = {O("ret_list", 0, 0)} \cup ReqOut(rest)
                 /\ UNCHANGED <<gen, idcase, inCtl, alias, shut, up, pdesc, pcfg, pacc, cache, rm, stale>>
            [] kind \in {"err", "garbage"} /\ h.k = "rm" ->
                 \* whether the call reports the failure is not claimed here (C04); the clean-up is
                 \E res \in {0, 1} : RmFinish(rest, res, FALSE)
            [] kind = "close" /\ Has(q, "rm") ->
                 \E tcp \in BOOLEAN : RmFinish(q, 0, tcp)          \* the head fails like the rest
            [] kind = "close" /\ ~Has(q, "rm") ->
                 \* every request queued for the lost connection fails; the connector reconnects at once,
                 \* to the endpoint of the current description
                 /\ q' = <<>> /\ stale' = (stale \/ Has(q, "cfg"))
                 /\ out' = ListFail(q) \cup TcpOut(pdesc)
                 /\ UNCHANGED <<gen, idcase, inCtl, alias, shut, up, pdesc, pcfg, pacc, cache, rm>>
    /\ UNCHANGED <<zvars, disc, accv, honest>>

\* the accessory's database changes (an honest accessory bumps its c# with it)
DbChange(v) ==
    /\ v # accv
    /\ honest => v = accv + 1
    /\ accv' = v /\ out' = {}
    /\ UNCHANGED <<zvars, disc, pvars, honest>>

\* ------------------------------------------------------------------ behaviours
Init == /\ known = FALSE /\ zc = None /\ timer = FALSE /\ resolving = 0 /\ disc = None
        /\ gen = 0 /\ idcase \in IdCases /\ inCtl = FALSE /\ alias = FALSE /\ shut = FALSE /\ up = FALSE
        /\ pdesc = None /\ pcfg = -1 /\ pacc = 0 /\ q = <<>> /\ rm = "no" /\ stale = FALSE
        /\ honest \in HonestModes
        /\ \E x \in InitCaches : cache = IF x = 0 THEN None ELSE Some([c |-> x \div 10, a |-> x % 10])
        /\ accv \in DbVers
        /\ cache # None => cache[1].a <= accv                 \* what was cached was once the database
        /\ (honest /\ cache # None) => cache[1].c = cache[1].a
        /\ out = {}

Next == \/ \E r \in Recs : Announce(r)
        \/ AnnouncePtr \/ Remove \/ TimerFire \/ ResolveDone
        \/ Load \/ UserList \/ UserRemove \/ UserShutdown
        \/ \E x \in Restores : UserRestore(x \div 10, x % 10)
        \/ \E k \in AnswerKinds : Answer(k)
        \/ \E v \in DbVers : DbChange(v)
Spec == Init /\ [][Next]_vars
\* for -simulate: one random record per step instead of one successor per record (otherwise announcements
\* crowd out every other step)
SimAnnounce == \E r \in {RandomElement({x \in Recs : honest => x.c = accv})} : Announce(r)
SimDb == \E v \in {RandomElement(DbVers)} : DbChange(v)
SimNext == \/ SimAnnounce
           \/ AnnouncePtr \/ Remove \/ TimerFire \/ ResolveDone
           \/ Load \/ UserList \/ UserRemove \/ UserShutdown
           \/ \E x \in Restores : UserRestore(x \div 10, x % 10)
           \/ \E k \in AnswerKinds : Answer(k)
           \/ SimDb
SimSpec == Init /\ [][SimNext]_vars

QBound == Len(q) <= MaxQ

\* ------------------------------------------------------------------ properties
TypeOK == /\ zc \in {None} \cup {Some(r) : r \in Recs} /\ disc \in {None} \cup {Some(r) : r \in Recs}
          /\ pdesc \in {None} \cup {Some(r) : r \in Recs}
          /\ pcfg \in {-1} \cup CfgNums /\ pacc \in {0} \cup DbVers
          /\ rm \in {"no", "pending", "done"} /\ resolving \in 0..MaxResolving
          /\ \A i \in 1..Len(q) : q[i].k \in {"cfg", "list", "rm"}
          /\ (rm = "pending") = Has(q, "rm")
          /\ (q # <<>>) => (up /\ ~shut /\ gen > 0)

\* P1  a pairing that receives updates holds exactly the latest processed record of its id
DescriptionIsLatest == (gen > 0 /\ inCtl /\ ~shut) => pdesc = disc
\* P2  a timer is pending only for a name that is announced (a removed service is never resolved by a
\*     stale timer) ...
TimerOnlyForAnnounced == timer => known
\*     ... and whatever is processed is the record that is in the zeroconf cache at that moment
ProcessesCurrentRecord == [][disc' # disc => (zc # None /\ disc' = zc)]_vars
\* P3  write-through: the cache entry is exactly what the pairing holds, and a pairing that holds
\*     accessories has a cache entry, as long as it was not removed
WriteThrough == /\ (gen > 0 /\ cache # None) => cache = Some([c |-> pcfg, a |-> pacc])
                /\ (gen > 0 /\ pacc # 0 /\ rm # "done") => cache # None
\* P4  when nothing is in flight the pairing has caught up with the advertised configuration number
\*     (unless the accessory failed the re-read and nothing was heard from it since)
CaughtUp == (honest /\ gen > 0 /\ ~shut /\ ~stale /\ pdesc # None /\ ~Has(q, "cfg")) => pcfg >= pdesc[1].c
\* P5  honest accessory: data filed under configuration number c is at least as new as c - in the
\*     pairing and in the cache - so a pairing that has caught up with the accessory's current c# holds
\*     its current database
LabelNeverNewerThanData == honest => /\ (gen > 0 /\ pacc # 0) => pacc >= pcfg
                                     /\ cache # None => cache[1].a >= cache[1].c
SeenLatestHoldsLatest == (honest /\ gen > 0 /\ ~shut /\ ~stale /\ pdesc # None /\ ~Has(q, "cfg") /\ pdesc[1].c = accv)
                            => (pacc = accv /\ cache = Some([c |-> accv, a |-> accv]))
\* P6  listeners hear about a configuration change with the number the pairing now holds
NotifiedWithNewNumber == \A o \in out : o[1] = "notify" => o[2] = pcfg
\* P7  after shutdown nothing happens to the pairing any more: no request, no connection attempt, no
\*     notification, no cache write (the entry may only be deleted by remove_pairing)
NoWorkAfterShutdown ==
    [][(shut /\ gen' = gen) =>
          /\ pdesc' = pdesc /\ pcfg' = pcfg /\ pacc' = pacc /\ q' = <<>> /\ shut' /\ ~up'
          /\ cache' \in {cache, None}
          /\ \A o \in out' : o[1] \in {"ret_list", "ret_rm", "resolve"}]_vars
\* P8  remove_pairing, however it ends, leaves no trace of the pairing: not in the controllers (so it gets
\*     no more updates), no alias, no cache entry, nothing in flight, shut down
RemovedMeansGone == rm = "done" => (~inCtl /\ ~alias /\ cache = None /\ q = <<>> /\ shut)
\*     ... and from its first step on the pairing no longer receives updates (the code's comment: "so that it
\*     stops getting updates that might trigger a disconnected event poll")
NoUpdatesWhileRemoving == rm # "no" => ~inCtl
\* P9  every connection attempt goes to the endpoint of the description the pairing holds at that moment
ConnectsToLatest == \A o \in out : o[1] = "tcp" => <<o[2], o[3]>> = EndpointOf(pdesc)
\* P10 no step lets an exception escape a zeroconf callback (browser callback, resolve-later timer, record
\*     processing).  No action of this module produces the effect "raised"; an execution in which the harness
\*     saw one is therefore rejected by trace validation.
CallbackNeverRaises == \A o \in out : o[1] # "raised"
=============================================================================
