SPECIFICATION Spec
CONSTANTS
  Addrs = {1, 2}
  Ports = {1}
  CfgNums = {1, 2}
  StateNums = {1, 2}
  DbVers = {1, 2}
  InitCaches = {0, 21}
  MaxLoads = 1
  MaxQ = 2
  MaxResolving = 1
  IdCases = {"upper"}
  HonestModes = {FALSE}
  AnswerKinds = {"ok", "err", "close"}
  Restores = {12, 21}
  DecSpawn = {TRUE, FALSE}
  NormalisedRemove = TRUE
CONSTRAINT QBound
INVARIANT TypeOK
INVARIANT DescriptionIsLatest
INVARIANT TimerOnlyForAnnounced
INVARIANT WriteThrough
INVARIANT CaughtUp
INVARIANT LabelNeverNewerThanData
INVARIANT SeenLatestHoldsLatest
INVARIANT NotifiedWithNewNumber
INVARIANT RemovedMeansGone
INVARIANT NoUpdatesWhileRemoving
INVARIANT ConnectsToLatest
INVARIANT CallbackNeverRaises
PROPERTY ProcessesCurrentRecord
PROPERTY NoWorkAfterShutdown
CHECK_DEADLOCK FALSE
