SPECIFICATION Spec
CONSTANTS
  Waiters = {"w1"}
  Aggs = {"g"}
  Ids = {"x"}
  Transports = {"m", "c", "b"}
  BleTransports = {"b"}
  Timeouts = {1}
  PModes = {"cached"}
  Timed = FALSE
  Register = TRUE
  DoneGuard = TRUE
  CacheGuard = TRUE
INVARIANT TypeOK
INVARIANT NoLostWakeup
INVARIANT AlreadyKnownReturnsAtOnce
INVARIANT TimeoutGivesNotFound
INVARIANT ResultsJustified
INVARIANT CallbackNeverRaises
INVARIANT OtherWaitersUndisturbed
INVARIANT AggFirstSuccessWins
INVARIANT AggNoSubtaskLeft
CHECK_DEADLOCK FALSE
