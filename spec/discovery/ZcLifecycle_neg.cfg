SPECIFICATION Spec
CONSTANTS
  Addrs = {1}
  Ports = {1}
  CfgNums = {1, 2}
  StateNums = {1}
  DbVers = {1, 2}
  InitCaches = {0}
  MaxLoads = 1
  MaxQ = 2
  MaxResolving = 1
  IdCases = {"lower", "upper"}
  HonestModes = {TRUE}
  AnswerKinds = {"ok"}
  Restores = {}
  DecSpawn = {TRUE, FALSE}
  NormalisedRemove = FALSE
CONSTRAINT QBound
INVARIANT TypeOK
INVARIANT DescriptionIsLatest
INVARIANT TimerOnlyForAnnounced
INVARIANT WriteThrough
INVARIANT CaughtUp
INVARIANT LabelNeverNewerThanData
INVARIANT SeenLatestHoldsLatest
INVARIANT NotifiedWithNewNumber
INVARIANT RemovedMeansGone
INVARIANT NoUpdatesWhileRemoving
INVARIANT ConnectsToLatest
INVARIANT CallbackNeverRaises
PROPERTY ProcessesCurrentRecord
PROPERTY NoWorkAfterShutdown
CHECK_DEADLOCK FALSE
