SPECIFICATION Spec
CONSTANTS
  Waiters = {"w1", "w2", "w3", "w4"}
  Aggs = {"g1"}
  Ids = {"x", "y"}
  Transports = {"ip", "coap", "ble"}
  BleTransports = {"ble"}
  Timeouts = {250, 1000, 5000}
  PModes = {"none", "cached", "nocache", "cached-after", "nocache-after", "cached-shut", "nocache-shut", "cached-after-shut", "nocache-after-shut"}
  Timed = FALSE
  Register = TRUE
  DoneGuard = TRUE
  CacheGuard = TRUE
CHECK_DEADLOCK FALSE
