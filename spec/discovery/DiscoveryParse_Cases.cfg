SPECIFICATION Spec
CONSTANTS
  MaxAddrs = 2
  NumDev = 2
POSTCONDITION ExportCases
CHECK_DEADLOCK FALSE
