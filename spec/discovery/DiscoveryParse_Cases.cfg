SPECIFICATION Spec
CONSTANTS
  MaxAddrs = 2
  NumDev = 2
  Varieties = {0, 1, 2, 3, 4, 5, 6, 7, 8, 9}
POSTCONDITION ExportCases
CHECK_DEADLOCK FALSE
