SPECIFICATION TSpec
CONSTANTS
  Waiters = {"w1", "w2", "w3", "w4", "w5", "w6"}
  Aggs = {"g1", "g2"}
  Ids = {"x", "y"}
  Transports = {"ip", "coap", "ble"}
  BleTransports = {"ble"}
  Timeouts = {}
  PModes = {}
  Timed = TRUE
  Register = TRUE
  DoneGuard = TRUE
  CacheGuard = TRUE
INVARIANT NoLostWakeup
INVARIANT AlreadyKnownReturnsAtOnce
INVARIANT TimeoutGivesNotFound
INVARIANT ResultsJustified
INVARIANT CallbackNeverRaises
INVARIANT OtherWaitersUndisturbed
INVARIANT AggFirstSuccessWins
INVARIANT AggNoSubtaskLeft
INVARIANT DebugNotReached
CHECK_DEADLOCK FALSE
