------------------------------ MODULE Discovery ------------------------------
(* Device waiters of aiohomekit's controllers:
     ZeroconfController.async_find / _async_handle_loaded_service_info / _async_on_timeout   (zeroconf.py)
     BleController.async_find / _device_detected                                   (controller/ble/controller.py)
     Controller.async_find  (one sub-task per transport, first success wins)       (controller/controller.py)

   One action per critical section of the asyncio code: the call up to its first suspension
   (Start), the browser / scanner callback (Adv), the timer callback (TimerFire), a cancel request
   (Cancel - the request and the task's clean-up are two steps), the task's wake-up (Resume), the
   aggregate task's wake-ups (AggStep, AggDrain; AggCancel is the cancel request on the aggregate call,
   AggCancelRun the step in which its `finally` block cancels the remaining sub-tasks).

   Both finders keep, per device id, a list of futures (`reg`); an advertisement fulfils the futures
   of its id and empties the list.  Flavours differ in details that matter for the interleavings:
   "mdns": the timer sets an exception on the future; finished futures stay in the list until the
           next advertisement pops it;
   "ble":  asyncio.timeout cancels the task, which cancels the future; the task removes its future
           from the list when it resumes.

   The specification describes the repaired code.  Register / DoneGuard / CacheGuard = FALSE give the
   behaviour of the tree before the fixes (proposed_fixes/C19-1, C19-2); TLC then refutes NoLostWakeup /
   CallbackNeverRaises, which is how the check shows that the properties are not vacuous.  (A third
   way the unrepaired scanner callback raised - an authentic encrypted notification for an iid that is
   not in the cached database, C19-3 - has no counterpart in this model: in trace validation any
   advertisement logged with raised = TRUE is refuted by CallbackNeverRaises.) *)
EXTENDS Naturals, FiniteSets, TLC

CONSTANTS Waiters,      \* ids of async_find calls made directly on a transport controller
          Aggs,         \* ids of Controller.async_find calls (aggregate)
          Ids,          \* device ids
          Transports,   \* transport controllers
          BleTransports,\* subset of Transports with the "ble" flavour
          Timeouts,     \* time-out values (ticks)
          PModes,       \* pairing situations considered for an id: subset of PSituations
          Timed,        \* TRUE: a timer fires exactly at its deadline (trace validation)
          Register,     \* the BLE finder registers its future in the list          (fix C19-1)
          DoneGuard,    \* only pending futures are fulfilled                       (part of C19-1; mDNS has it)
          CacheGuard    \* state-number caching tolerates a pairing without cached state (fix C19-2)

VARIABLES now,
          disc,         \* [Transports -> SUBSET Ids]             controller.discoveries
          reg,          \* [Transports -> [Ids -> SUBSET AllW]]    futures in the per-id list
          pm,           \* [Ids -> PSituations]                   pairing situation of the id
          wt,           \* [AllW -> waiter record]
          ag,           \* [Aggs -> aggregate record]
          raised        \* an advertisement made the browser / scanner callback raise
vars == <<now, disc, reg, pm, wt, ag, raised>>

\* waiter ids are pairs of strings: <<w, "top">> for a direct call w, <<g, tr>> for the sub-task of
\* aggregate g on transport tr
TopW == {<<w, "top">> : w \in Waiters}
AllW == TopW \cup (Aggs \X Transports)
Flavour(tr) == IF tr \in BleTransports THEN "ble" ELSE "mdns"
\* Pairing situations of an id (the property: "whether or not a pairing for its id is loaded"):
\*   none                 no pairing loaded
\*   cached / nocache     a pairing is loaded and the characteristic cache has / has not accessory state for it
\*   ...-after            the pairing was loaded only after the transport had processed a first advertisement
\*                        (default: loaded before any advertisement - it then has no description yet)
\*   ...-shut             pairing.shutdown() was called while the pairing stays loaded in the controller
\* In the repaired code none of them changes what the callback does for waiters and discoveries; the
\* situations without cached state are the ones in which the unrepaired state-number caching raised.
NoCacheSituations == {"nocache", "nocache-after", "nocache-shut", "nocache-after-shut"}
PSituations == {"none", "cached", "cached-after", "cached-shut", "cached-after-shut"} \cup NoCacheSituations
NoCacheState(m) == m \in NoCacheSituations

\* pc:   idle -> await (suspended on the future) -> ready (wake-up scheduled) -> done ; idle -> ready when already known
\* fut:  none | pending | result | expired (timed out) | cancelled
\* creq: a CancelledError will be thrown into the task at its wake-up
\* prom: ghost - what the property promises this call: "found" | "notfound" | "none"
Idle == [pc |-> "idle", id |-> "-", tr |-> "-", fut |-> "none", creq |-> FALSE, dl |-> 0, res |-> "none",
         prom |-> "none", seen |-> FALSE]
AIdle == [pc |-> "idle", id |-> "-", res |-> "none", creq |-> FALSE]

\* ------------------------------------------------------------------ operations on (wt, reg)
\* async_find up to its first suspension
DoStart(S, w, tr, id, tmo) ==
    IF id \in disc[tr]
    THEN [S EXCEPT !.wt[w] = [Idle EXCEPT !.pc = "ready", !.id = id, !.tr = tr, !.fut = "result", !.prom = "found"]]
    ELSE [S EXCEPT !.wt[w] = [Idle EXCEPT !.pc = "await", !.id = id, !.tr = tr, !.fut = "pending", !.dl = now + tmo],
                   !.reg[tr][id] = IF Register \/ Flavour(tr) = "mdns" THEN @ \cup {w} ELSE @]
\* task.cancel()
DoCancel(S, w) ==
    IF S.wt[w].pc = "await"
    THEN [S EXCEPT !.wt[w].fut = "cancelled", !.wt[w].pc = "ready", !.wt[w].creq = TRUE, !.wt[w].prom = "none"]
    ELSE IF S.wt[w].pc = "ready"
    THEN [S EXCEPT !.wt[w].creq = TRUE, !.wt[w].prom = "none"]
    ELSE S
St == [wt |-> wt, reg |-> reg]
Commit(S) == wt' = S.wt /\ reg' = S.reg

\* ------------------------------------------------------------------ callers
Start(w, tr, id, tmo) ==
    /\ w \in TopW /\ wt[w].pc = "idle"
    /\ Commit(DoStart(St, w, tr, id, tmo))
    /\ UNCHANGED <<now, disc, pm, ag, raised>>

Cancel(w) ==
    /\ w \in TopW /\ wt[w].pc \in {"await", "ready"}
    /\ Commit(DoCancel(St, w))
    /\ UNCHANGED <<now, disc, pm, ag, raised>>

\* the task runs again and the call ends
Resume(w) ==
    /\ wt[w].pc = "ready"
    /\ LET r == IF wt[w].creq THEN "cancelled"
                ELSE CASE wt[w].fut = "result" -> "found"
                       [] wt[w].fut = "expired" -> "notfound"
                       [] OTHER -> "cancelled"
       IN wt' = [wt EXCEPT ![w].pc = "done", ![w].res = r]
    /\ reg' = IF Flavour(wt[w].tr) = "ble" THEN [reg EXCEPT ![wt[w].tr][wt[w].id] = @ \ {w}] ELSE reg
    /\ UNCHANGED <<now, disc, pm, ag, raised>>

\* the time-out of a call that is still waiting
TimerFire(w) ==
    /\ wt[w].pc = "await" /\ wt[w].fut = "pending"
    /\ Timed => now = wt[w].dl
    /\ wt' = [wt EXCEPT ![w].fut = "expired", ![w].pc = "ready", ![w].prom = "notfound"]
    /\ UNCHANGED <<now, disc, reg, pm, ag, raised>>

\* ------------------------------------------------------------------ advertisements
\* a record / advertisement for `id` is processed by transport tr's callback
Adv(tr, id, valid) ==
    /\ ~raised
    /\ IF ~valid THEN UNCHANGED <<disc, reg, wt, raised>>                       \* malformed: ignored
       ELSE IF Flavour(tr) = "ble" /\ NoCacheState(pm[id]) /\ ~CacheGuard
       THEN raised' = TRUE /\ UNCHANGED <<disc, reg, wt>>                       \* AttributeError before the futures
       ELSE LET ws == reg[tr][id]
            IN IF ~(DoneGuard \/ Flavour(tr) = "mdns") /\ \E w \in ws : wt[w].fut # "pending"
               THEN raised' = TRUE /\ UNCHANGED <<disc, reg, wt>>               \* InvalidStateError from set_result
               ELSE /\ disc' = [disc EXCEPT ![tr] = @ \cup {id}]
                    /\ wt' = [w \in AllW |-> IF w \in ws /\ wt[w].fut = "pending"
                                             THEN [wt[w] EXCEPT !.fut = "result", !.pc = "ready", !.prom = "found"]
                                             ELSE wt[w]]
                    /\ reg' = [reg EXCEPT ![tr][id] = {}]
                    /\ UNCHANGED raised
    /\ UNCHANGED <<now, pm, ag>>

\* ------------------------------------------------------------------ aggregate controller
Kids(g) == {<<g, tr>> : tr \in Transports}
RECURSIVE StartAll(_, _, _, _, _)
StartAll(S, g, trs, id, tmo) ==
    IF trs = {} THEN S
    ELSE LET tr == CHOOSE t \in trs : TRUE
         IN StartAll(DoStart(S, <<g, tr>>, tr, id, tmo), g, trs \ {tr}, id, tmo)
RECURSIVE CancelAll(_, _)
CancelAll(S, ws) ==
    IF ws = {} THEN S
    ELSE LET w == CHOOSE x \in ws : TRUE IN CancelAll(DoCancel(S, w), ws \ {w})

AggStart(g, id, tmo) ==
    /\ ag[g].pc = "idle"
    /\ Commit(StartAll(St, g, Transports, id, tmo))
    /\ ag' = [ag EXCEPT ![g] = [AIdle EXCEPT !.pc = "wait", !.id = id]]
    /\ UNCHANGED <<now, disc, pm, raised>>
\* asyncio.wait(FIRST_COMPLETED) returned: look at the finished sub-tasks
AggStep(g) ==
    /\ ag[g].pc = "wait"
    /\ LET D == {c \in Kids(g) : wt[c].pc = "done" /\ ~wt[c].seen}
       IN /\ D # {}
          /\ IF \E c \in D : wt[c].res = "found"
             THEN /\ Commit(CancelAll(St, {c \in Kids(g) : wt[c].pc # "done"}))
                  /\ ag' = [ag EXCEPT ![g].pc = "drain", ![g].res = "found"]
             ELSE /\ wt' = [w \in AllW |-> IF w \in D THEN [wt[w] EXCEPT !.seen = TRUE] ELSE wt[w]]
                  /\ reg' = reg
                  /\ ag' = IF \A c \in Kids(g) : c \in D \/ wt[c].seen
                           THEN [ag EXCEPT ![g].pc = "done", ![g].res = "notfound"] ELSE ag
    /\ UNCHANGED <<now, disc, pm, raised>>
\* the cancelled sub-tasks have been awaited.  After a cancellation of the aggregate call itself the
\* `finally` block awaits sub-tasks the call had not looked at yet; one that ended with not-found
\* re-raises there and replaces the cancellation (the code's behaviour; the property leaves the
\* outcome of a cancelled call open).  Simplification: the call is modelled as ending when all its
\* sub-tasks have ended (the code can end one loop iteration earlier, at the same instant).
AggDrain(g) ==
    /\ ag[g].pc \in {"drain", "cdrain"}
    /\ \A c \in Kids(g) : wt[c].pc = "done"
    /\ ag' = [ag EXCEPT ![g].pc = "done",
                        ![g].res = IF ag[g].pc = "drain" THEN "found"
                                   ELSE IF \E c \in Kids(g) : ~wt[c].seen /\ wt[c].res = "notfound"
                                        THEN "notfound" ELSE "cancelled"]
    /\ UNCHANGED <<now, disc, reg, pm, wt, raised>>
\* cancel request on the aggregate call: its wake-up (with CancelledError) is scheduled ...
AggCancel(g) ==
    /\ ag[g].pc = "wait"
    /\ ag' = [ag EXCEPT ![g].pc = "cwake", ![g].creq = TRUE]
    /\ UNCHANGED <<now, disc, reg, pm, wt, raised>>
\* ... and when it runs, the `finally` block cancels the sub-tasks that are still running
AggCancelRun(g) ==
    /\ ag[g].pc = "cwake"
    /\ Commit(CancelAll(St, {c \in Kids(g) : wt[c].pc # "done"}))
    /\ ag' = [ag EXCEPT ![g].pc = "cdrain"]
    /\ UNCHANGED <<now, disc, pm, raised>>

\* ------------------------------------------------------------------ behaviours
Init == /\ now = 0
        /\ disc = [tr \in Transports |-> {}]
        /\ reg = [tr \in Transports |-> [i \in Ids |-> {}]]
        /\ pm \in [Ids -> PModes]
        /\ wt = [w \in AllW |-> Idle]
        /\ ag = [g \in Aggs |-> AIdle]
        /\ raised = FALSE
Next == \/ \E w \in TopW, tr \in Transports, id \in Ids, tmo \in Timeouts : Start(w, tr, id, tmo)
        \/ \E w \in TopW : Cancel(w)
        \/ \E w \in AllW : Resume(w) \/ TimerFire(w)
        \/ \E tr \in Transports, id \in Ids, v \in BOOLEAN : Adv(tr, id, v)
        \/ \E g \in Aggs, id \in Ids, tmo \in Timeouts : AggStart(g, id, tmo)
        \/ \E g \in Aggs : AggStep(g) \/ AggDrain(g) \/ AggCancel(g) \/ AggCancelRun(g)
Spec == Init /\ [][Next]_vars

\* ------------------------------------------------------------------ properties (C19, waiter part)
\* a valid advertisement processed while the call was registered and its timer had not fired: the call
\* is (about to be) completed with the discovery - it is never left waiting, never ends otherwise
NoLostWakeup == \A w \in AllW : wt[w].prom = "found" =>
                    /\ wt[w].pc \in {"ready", "done"}
                    /\ wt[w].pc = "ready" => wt[w].fut = "result"
                    /\ wt[w].pc = "done" => wt[w].res = "found"
\* a device that is already known is returned without waiting (Start leaves the call ready with the result)
AlreadyKnownReturnsAtOnce == \A w \in AllW : wt[w].pc = "await" => wt[w].id \notin disc[wt[w].tr]
\* the time-out ends the call with not-found (in timed mode: the timer fires at the deadline exactly)
TimeoutGivesNotFound == \A w \in AllW : wt[w].prom = "notfound" =>
                            /\ wt[w].pc \in {"ready", "done"}
                            /\ wt[w].pc = "done" => wt[w].res = "notfound"
                            /\ Timed => now >= wt[w].dl
\* a call ends with not-found only because of its time-out, and with a discovery only because of one
ResultsJustified == \A w \in AllW : wt[w].pc = "done" =>
                        /\ wt[w].res = "found" => wt[w].fut = "result"
                        /\ wt[w].res = "notfound" => wt[w].fut = "expired"
\* no advertisement, in any state (also: waiter cancelled / timed out but not yet cleaned up; no
\* pairing / pairing with / without cached state), makes the callback raise
CallbackNeverRaises == ~raised
\* a call that is still waiting is still in the list of its id: advertisements for other ids, other
\* calls ending, cancelling or timing out never drop it
OtherWaitersUndisturbed == \A w \in AllW : wt[w].pc = "await" => /\ wt[w].fut = "pending"
                                                                 /\ w \in reg[wt[w].tr][wt[w].id]
\* aggregate: the first success wins, not-found only when every transport timed out, and no sub-task
\* is left behind
AggFirstSuccessWins == \A g \in Aggs : ag[g].pc = "done" =>
                          /\ ag[g].res = "found" => \E c \in Kids(g) : wt[c].res = "found"
                          /\ (ag[g].res = "notfound" /\ ~ag[g].creq) => \A c \in Kids(g) : wt[c].res = "notfound"
                          /\ ag[g].res = "notfound" => \E c \in Kids(g) : wt[c].res = "notfound"
                          /\ (~ag[g].creq /\ \E c \in Kids(g) : wt[c].res = "found") => ag[g].res = "found"
AggNoSubtaskLeft == \A g \in Aggs : ag[g].pc = "done" => \A c \in Kids(g) : wt[c].pc = "done"
\* the list only holds futures of calls for that id on that transport
TypeOK == /\ \A i \in Ids : pm[i] \in PSituations
          /\ \A tr \in Transports, i \in Ids : \A w \in reg[tr][i] : wt[w].tr = tr /\ wt[w].id = i
          /\ \A w \in AllW : wt[w].pc \in {"idle", "await", "ready", "done"}
=============================================================================
