SPECIFICATION SimSpec
CONSTANTS
  Addrs = {1, 2, 3}
  Ports = {1, 2}
  CfgNums = {1, 2, 3, 4}
  StateNums = {1, 2, 3}
  DbVers = {1, 2, 3, 4}
  InitCaches = {0, 11, 21, 12, 22}
  MaxLoads = 2
  MaxQ = 4
  MaxResolving = 2
  IdCases = {"lower", "upper"}
  HonestModes = {TRUE, FALSE}
  AnswerKinds = {"ok", "err", "garbage", "close"}
  Restores = {11, 22, 33, 21, 12, 32}
  DecSpawn = {FALSE}
  NormalisedRemove = TRUE
CONSTRAINT QBound
CHECK_DEADLOCK FALSE
