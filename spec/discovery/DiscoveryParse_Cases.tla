------------------------ MODULE DiscoveryParse_Cases ------------------------
(* Spec -> code: all abstract records of the bounded class space with the expected outcome. *)
EXTENDS DiscoveryParse, Json, IOUtils, SequencesExt, TLC

CONSTANTS MaxAddrs, NumDev,     \* address lists up to this length; at most NumDev numeric fields deviate from "valid"
          Varieties            \* address varieties (field av) used for dual-stack address lists

VARIABLE done
Init == done = FALSE
Next == done' = TRUE
Spec == Init /\ [][Next]_done

NomVal == [c |-> 2, s |-> 3, sf |-> 1, ff |-> 2, ci |-> 5]
Nominal == [f \in NumFields |-> 0]
NumAssign == {n \in [NumFields -> {ABSENT, BAD, 0}] : Cardinality({f \in NumFields : n[f] # 0}) <= NumDev}
\* one field given as a bare key (no value) or with the empty value
NumAssignNV == {[Nominal EXCEPT ![f] = v] : f \in NumFields, v \in {NOVAL, EMPTY}}
Extras == {"md-noval", "md-empty", "pv-noval", "pv-empty", "uk-noval", "uk-empty", "uk-value"}
\* shapes of the TXT record: <<id spelling, numeric fields, extra oddity>>
Shapes == {<<idc, n, "none">> : idc \in {"absent", "lower", "upper"}, n \in NumAssign}
          \cup {<<idc, n, "none">> : idc \in {"lower", "upper"}, n \in NumAssignNV}
          \cup {<<idc, Nominal, "none">> : idc \in {"noval", "empty"}}
          \cup {<<idc, Nominal, x>> : idc \in {"lower", "upper"}, x \in Extras}
AddrLists == UNION {[1..k -> AddrClasses] : k \in 0..MaxAddrs}
\* every spelling variety where both families are usable (that is where "IPv4 first" decides), one otherwise
Dual(al) == "v4" \in Range(al) /\ "v6" \in Range(al)
ListAv == {p \in AddrLists \X Varieties : p[2] = 0 \/ Dual(p[1])}
Val(n, f) == IF n[f] = 0 THEN NomVal[f] ELSE n[f]
Mdns == {[kind |-> "mdns", idc |-> sh[1], kc |-> kc, addrs |-> p[1], av |-> p[2], xk |-> sh[3],
          c |-> Val(sh[2], "c"), s |-> Val(sh[2], "s"), sf |-> Val(sh[2], "sf"), ff |-> Val(sh[2], "ff"), ci |-> Val(sh[2], "ci")] :
            kc \in {"lower", "upper"}, p \in ListAv, sh \in Shapes}
Ble == {[kind |-> "ble", len |-> l, company |-> co, type |-> ty, sf |-> sf, ci |-> ci, s |-> s, c |-> c] :
          l \in 0..23, co \in {"apple", "other"}, ty \in {"hap", "enc", "other"}, sf \in {0, 1}, ci \in {5, 300},
          s \in {1, 65535}, c \in {1, 255}}
Cases == {[r |-> r, exp |-> Expect(r)] : r \in Mdns \cup Ble}

\* sanity of the specification itself: an outcome exists for every record, and a faithful observation of a
\* well-formed record passes ObsOK
Total == \A x \in Cases : x.exp \in {"ignored", "discovery", "either"}
ExportCases ==
    /\ TLCGet("stats").generated >= 0
    /\ Total
    /\ ndJsonSerialize(IOEnv.CASES_OUT, SetToSeq(Cases))
=============================================================================
