------------------------ MODULE DiscoveryParse_Cases ------------------------
(* Spec -> code: all abstract records of the bounded class space with the expected outcome. *)
EXTENDS DiscoveryParse, Json, IOUtils, SequencesExt, TLC

CONSTANTS MaxAddrs, NumDev,     \* address lists up to this length; at most NumDev numeric fields deviate from "valid"
          Varieties            \* address varieties (field av) used for dual-stack address lists

VARIABLE done
Init == done = FALSE
Next == done' = TRUE
Spec == Init /\ [][Next]_done

NomVal == [c |-> 2, s |-> 3, sf |-> 1, ff |-> 2, ci |-> 5]
NumAssign == {n \in [NumFields -> {ABSENT, BAD, 0}] : Cardinality({f \in NumFields : n[f] # 0}) <= NumDev}
AddrLists == UNION {[1..k -> AddrClasses] : k \in 0..MaxAddrs}
\* every spelling variety where both families are usable (that is where "IPv4 first" decides), one otherwise
Dual(al) == "v4" \in Range(al) /\ "v6" \in Range(al)
ListAv == {p \in AddrLists \X Varieties : p[2] = 0 \/ Dual(p[1])}
Mdns == {[kind |-> "mdns", idc |-> idc, kc |-> kc, addrs |-> p[1], av |-> p[2],
          c |-> IF n["c"] = 0 THEN NomVal.c ELSE n["c"], s |-> IF n["s"] = 0 THEN NomVal.s ELSE n["s"],
          sf |-> IF n["sf"] = 0 THEN NomVal.sf ELSE n["sf"], ff |-> IF n["ff"] = 0 THEN NomVal.ff ELSE n["ff"],
          ci |-> IF n["ci"] = 0 THEN NomVal.ci ELSE n["ci"]] :
            idc \in {"absent", "lower", "upper"}, kc \in {"lower", "upper"}, p \in ListAv, n \in NumAssign}
Ble == {[kind |-> "ble", len |-> l, company |-> co, type |-> ty, sf |-> sf, ci |-> ci, s |-> s, c |-> c] :
          l \in 0..23, co \in {"apple", "other"}, ty \in {"hap", "enc", "other"}, sf \in {0, 1}, ci \in {5, 300},
          s \in {1, 65535}, c \in {1, 255}}
Cases == {[r |-> r, exp |-> Expect(r)] : r \in Mdns \cup Ble}

\* sanity of the specification itself: an outcome exists for every record, and a faithful observation of a
\* well-formed record passes ObsOK
Total == \A x \in Cases : x.exp \in {"ignored", "discovery", "either"}
ExportCases ==
    /\ TLCGet("stats").generated >= 0
    /\ Total
    /\ ndJsonSerialize(IOEnv.CASES_OUT, SetToSeq(Cases))
=============================================================================
