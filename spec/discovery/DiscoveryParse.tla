--------------------------- MODULE DiscoveryParse ---------------------------
(* Advertisement parsing (C19, parsing part): HomeKitService.from_service_info (zeroconf.py) and
   HomeKitAdvertisement.from_manufacturer_data (controller/ble/manufacturer_data.py) on abstract
   records.  Pure operators: the expected outcome of an abstract record, and the comparison of what
   the real parser produced with it.  Used by DiscoveryParse_Cases (spec -> code) and by
   Discovery_Trace (code -> spec; also tells the waiter model whether an advertisement is valid).

   mDNS record:  [kind |-> "mdns", idc, kc, c, s, sf, ff, ci, addrs]
       idc    "absent" | "lower" | "upper" | "noval" | "empty"
              spelling of the id value (upper = upper/mixed case hex); noval = the TXT entry is the bare key `id`
              without `=value` (zeroconf hands it to the library as None), empty = the entry `id=`
       kc     "lower" | "upper"                 spelling of the TXT keys
       c, s, sf, ff, ci   ABSENT | BAD (not a number) | EMPTY (entry `key=`, the empty string) |
              NOVAL (bare key without `=value`, None) | ODD (number-like: sign, blanks, ...) | n >= 0
       xk     (optional) one more TXT oddity that has no bearing on the outcome: "md-noval", "md-empty",
              "pv-noval", "pv-empty", "uk-noval", "uk-empty", "uk-value" (uk = a key HomeKit does not define)
   A bare key is "present without a value": the property leaves open whether that counts as absent (the
   default is used) or as malformed (the record is ignored) - except for the id, without which there is no
   device; an empty value is not a number, hence malformed; an empty id is no usable id: whether such a record
   is ignored or kept under the empty id is not pinned here, it must merely not raise.
       addrs  sequence over {"v4","v6","ll4","ll6","un4","un6"}  (usable / link-local / unspecified), in the
              order the records were advertised
       av     address variety 0..9: which concrete texts stand for "v4" / "v6" in this record - IPv4 texts
              whose first digit is 1..9 (10.0.k.5, 192.168.k.2, 203.0.113.k, 8.8.4.k, 99.1.2.k, 34.., 45..,
              56.., 67.., 78..) paired with IPv6 global / ULA texts starting with 2 or f (2001:db8::, 2a00:1450::,
              fd12:3456::, fc00::, 2600:1f18::).  The expected outcome does not depend on it: "IPv4 first" is
              about the address family, not about how an address is spelled.
   BLE blob:     [kind |-> "ble", len, company, type, sf, ci, s, c]
       len    number of bytes of manufacturer data kept (a full advertisement has 19; 15 without
              the setup hash; more than 19 = trailing bytes)
       company "apple" | "other"        type  "hap" (0x06) | "enc" (0x11) | "other"
   Outcome: "ignored" | "discovery" | "either" (the property does not say). *)
EXTENDS Integers, Sequences, FiniteSets

ABSENT == -1
BAD == -2
ODD == -3
NOVAL == -4
EMPTY == -5
NumFields == {"c", "s", "sf", "ff", "ci"}
AddrClasses == {"v4", "v6", "ll4", "ll6", "un4", "un6"}
ValidAddr(a) == a \in {"v4", "v6"}
BLE_MIN == 15                      \* type, STL, SF, 6 id bytes, ACID(2), GSN(2), CN, CV

Range(seq) == {seq[i] : i \in DOMAIN seq}
Count(seq, a) == Cardinality({i \in DOMAIN seq : seq[i] = a})

Expect(r) ==
    IF r.kind = "mdns"
    THEN IF r.idc \in {"absent", "noval"} \/ (\E f \in NumFields : r[f] \in {BAD, EMPTY})
            \/ ~(\E a \in Range(r.addrs) : ValidAddr(a))
         THEN "ignored"
         ELSE IF r.idc = "empty" \/ (\E f \in NumFields : r[f] \in {ODD, NOVAL}) THEN "either" ELSE "discovery"
    ELSE IF r.company # "apple" \/ r.type # "hap" \/ r.len < BLE_MIN THEN "ignored" ELSE "discovery"

\* is the advertisement valid for the waiter model?  (a set: "either" leaves both open)
Validity(r) == CASE Expect(r) = "discovery" -> {TRUE} [] Expect(r) = "ignored" -> {FALSE} [] OTHER -> {TRUE, FALSE}

\* o = what the real code showed: [k |-> "ignored"] or a record [k |-> "disc", id ("lower" if the discovery is stored and reported
\* under the lower-case id), addrs (classes of description.addresses, in order), first (class of
\* description.address), c, s, sf, ff, ci (reported numbers)]
NumOK(r, o, f) == r[f] >= 0 => o[f] = r[f]
ObsOK(r, o) ==
    /\ Expect(r) = "ignored" => o.k = "ignored"
    /\ Expect(r) = "discovery" => o.k = "disc"
    /\ o.k = "disc" =>
         /\ (r.kind = "mdns" /\ r.idc = "empty") \/ o.id = "lower"      \* ids are normalised to lower case
         /\ \A f \in (IF r.kind = "mdns" THEN NumFields ELSE {"c", "s", "sf", "ci"}) : NumOK(r, o, f)
         /\ r.kind = "mdns" =>
              /\ \A a \in Range(o.addrs) : ValidAddr(a)                \* link-local / unspecified skipped
              /\ \A a \in {"v4", "v6"} : Count(o.addrs, a) = Count(r.addrs, a)
              /\ \A i, j \in DOMAIN o.addrs : (o.addrs[i] = "v6" /\ o.addrs[j] = "v4") => j < i    \* IPv4 first
              /\ o.first = o.addrs[1]
=============================================================================
