SPECIFICATION Spec
CONSTANTS
  Addrs = {1, 2}
  Ports = {1}
  CfgNums = {1, 2, 3}
  StateNums = {1, 2}
  DbVers = {1, 2, 3}
  InitCaches = {0, 11}
  MaxLoads = 1
  MaxQ = 2
  MaxResolving = 1
  IdCases = {"upper"}
  HonestModes = {TRUE}
  AnswerKinds = {"ok", "err", "close"}
  Restores = {11, 22}
  DecSpawn = {FALSE}
  NormalisedRemove = TRUE
CONSTRAINT QBound
INVARIANT TypeOK
INVARIANT DescriptionIsLatest
INVARIANT TimerOnlyForAnnounced
INVARIANT WriteThrough
INVARIANT CaughtUp
INVARIANT LabelNeverNewerThanData
INVARIANT SeenLatestHoldsLatest
INVARIANT NotifiedWithNewNumber
INVARIANT RemovedMeansGone
INVARIANT NoUpdatesWhileRemoving
INVARIANT ConnectsToLatest
INVARIANT CallbackNeverRaises
PROPERTY ProcessesCurrentRecord
PROPERTY NoWorkAfterShutdown
CHECK_DEADLOCK FALSE
