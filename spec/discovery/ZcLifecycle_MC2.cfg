SPECIFICATION Spec
CONSTANTS
  Addrs = {1}
  Ports = {1, 2}
  CfgNums = {1, 2}
  StateNums = {1}
  DbVers = {1, 2}
  InitCaches = {0, 11}
  MaxLoads = 2
  MaxQ = 2
  MaxResolving = 1
  IdCases = {"upper"}
  HonestModes = {TRUE, FALSE}
  AnswerKinds = {"ok", "garbage", "close"}
  Restores = {}
  DecSpawn = {TRUE, FALSE}
  NormalisedRemove = TRUE
CONSTRAINT QBound
INVARIANT TypeOK
INVARIANT DescriptionIsLatest
INVARIANT TimerOnlyForAnnounced
INVARIANT WriteThrough
INVARIANT CaughtUp
INVARIANT LabelNeverNewerThanData
INVARIANT SeenLatestHoldsLatest
INVARIANT NotifiedWithNewNumber
INVARIANT RemovedMeansGone
INVARIANT NoUpdatesWhileRemoving
INVARIANT ConnectsToLatest
INVARIANT CallbackNeverRaises
PROPERTY ProcessesCurrentRecord
PROPERTY NoWorkAfterShutdown
CHECK_DEADLOCK FALSE
