-------------------------- MODULE ZcLifecycle_Trace --------------------------
(* Code -> spec.  Executions of the real IpController / Controller / IpPairing / SecureHomeKitConnection /
   characteristic cache over the in-process accessory (harness/extzc_driver.py) are accepted iff they are
   behaviours of ZcLifecycle.  The driver applies one stimulus, lets the loop run until nothing is ready,
   and logs ONE event: the stimulus with its parameters, `out` - everything that became visible while the
   loop settled (connection attempts with the hosts / port used, requests reaching the accessory,
   config-changed notifications, _process_disconnected_events / _async_endpoint_changed hook calls, slow
   resolutions started, API calls returning, an exception escaping a zeroconf callback) - and `obs` - what is
   visible from outside afterwards (controller.discoveries, controllers' pairings / aliases, the pairing's
   description / config_num / accessories version, the cache entry, the request the accessory holds).
   Stimulus "other" concerns a second device (own service name and id): nothing of this device may change.

   Each event is consumed in two steps: the specification takes the step named by the stimulus (phase
   "check" then holds what the specification expects), then `out` and `obs` are compared.  A trace that is
   not consumed completely is REJECTED (see harness/tracecheck.py).

   One JSON object per line: {"idcase", "honest", "cache0", "accv0", "events": [...]}. *)
EXTENDS ZcLifecycle, Json, IOUtils, TLCExt

Traces == ndJsonDeserialize(IOEnv.TRACE_FILE)

VARIABLES tid, l, phase
tvars == <<vars, tid, l, phase>>

T == Traces[tid]
Ev == T.events
HasEv == l <= Len(Ev)
E == Ev[l]
ToSet(seq) == {seq[i] : i \in 1..Len(seq)}

TInit == /\ tid \in 1..Len(Traces)
         /\ l = 1 /\ phase = "stim"
         /\ known = FALSE /\ zc = None /\ timer = FALSE /\ resolving = 0 /\ disc = None
         /\ gen = 0 /\ idcase = T.idcase /\ inCtl = FALSE /\ alias = FALSE /\ shut = FALSE /\ up = FALSE
         /\ pdesc = None /\ pcfg = -1 /\ pacc = 0 /\ q = <<>> /\ rm = "no" /\ stale = FALSE
         /\ honest = T.honest
         /\ cache = IF T.cache0 = 0 THEN None ELSE Some([c |-> T.cache0 \div 10, a |-> T.cache0 % 10])
         /\ accv = T.accv0
         /\ out = {}

Rec(r) == [a |-> r.a, p |-> r.p, c |-> r.c, s |-> r.s]
Noop == out' = {} /\ UNCHANGED <<zvars, disc, pvars, accv, honest>>

Stim == /\ phase = "stim" /\ HasEv
        /\ CASE E.ev = "announce" -> Announce(Rec(E.r))
             [] E.ev = "ptr"      -> AnnouncePtr
             [] E.ev = "remove"   -> Remove
             [] E.ev = "tick"     -> IF timer THEN TimerFire ELSE Noop      \* >= the debounce delay passes
             [] E.ev = "resolved" -> ResolveDone
             [] E.ev = "load"     -> Load
             [] E.ev = "list"     -> UserList
             [] E.ev = "rmv"      -> UserRemove
             [] E.ev = "shutdown" -> UserShutdown
             [] E.ev = "answer"   -> Answer(E.kind)
             [] E.ev = "db"       -> DbChange(E.v)
             [] E.ev = "restore"  -> UserRestore(E.c, E.v)
             [] E.ev = "other"    -> Noop        \* a record of ANOTHER device is announced / removed / processed
             [] E.ev = "end"      -> /\ q = <<>> /\ ~timer /\ resolving = 0      \* nothing is left in flight
                                     /\ Noop
        /\ phase' = "check" /\ UNCHANGED <<tid, l>>

Held == IF q = <<>> THEN 0 ELSE IF q[1].k = "rm" THEN 2 ELSE 1
ObsOK(o) == /\ o.disc = disc /\ o.inctl = inCtl /\ o.alias = alias
            /\ o.pdesc = pdesc /\ o.pcfg = pcfg /\ o.pacc = pacc
            /\ o.cache = cache /\ o.held = Held
Check == /\ phase = "check"
         \* nothing happened twice (except that several queued list calls may fail together)
         /\ \A i, j \in 1..Len(E.out) : (i # j /\ E.out[i] = E.out[j]) => E.out[i][1] = "ret_list"
         /\ ToSet(E.out) = out
         /\ ObsOK(E.obs)
         /\ phase' = "stim" /\ l' = l + 1 /\ UNCHANGED <<vars, tid>>

TNext == Stim \/ Check
TSpec == TInit /\ [][TNext]_tvars

Progress == TLCSet(tid, IF TLCGet(tid) < l THEN l ELSE TLCGet(tid))
TConstraint == Progress
ASSUME \A i \in 1..Len(Traces) : TLCSet(i, 0)
Accepted ==
    /\ TLCGet("stats").generated >= 0
    /\ \A i \in 1..Len(Traces) :
          IF TLCGet(i) = Len(Traces[i].events) + 1 THEN TRUE
          ELSE PrintT(<<"REJECTED", i, TLCGet(i)>>)
DbgL == CHOOSE n \in 0..100000 : ToString(n) = IOEnv.DBG_L
DebugNotReached == l < DbgL
\* the state in which the specification has taken the step of event DbgL (what it expects to be observed)
DebugExpected == ~(l = DbgL /\ phase = "check")
=============================================================================
