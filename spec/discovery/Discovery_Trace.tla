---------------------------- MODULE Discovery_Trace ----------------------------
(* Code -> spec: schedules run against the real IpController / CoAPController / BleController /
   Controller on a virtual-time loop.  Logged (t = virtual time in ms when the wrapper fired):
     start / astart   a caller starts async_find (direct on transport tr / aggregate)
     cancel / acancel the caller's task is cancelled (request only; the clean-up is the task's next step)
     ret / aret       the call ended: "found" (with the discovery of the id asked for; desc = "seen" iff its
                      description is one the transport produced from a logged advertisement for that id, whose
                      address / numbers were compared with DiscoveryParse at that event), "notfound", "cancelled"
     adv              the transport's browser / scanner callback processed an advertisement: its abstract
                      class (DiscoveryParse), what the parser produced, whether the callback raised
     end              the driver let all time-outs pass
   Not logged, inferred by TLC: timer callbacks (exactly at their deadline), wake-ups of the aggregate's
   sub-tasks, the aggregate's own steps.  Time advances only when nothing can run, so a call that the
   specification completes (valid advertisement, time-out) must be logged as returned at that very
   instant: "as soon as" and "at the time-out".

   One JSON object per line: {"pm": {id: mode}, "events": [...]}. *)
EXTENDS Discovery, DiscoveryParse, Json, IOUtils, TLCExt

Traces == ndJsonDeserialize(IOEnv.TRACE_FILE)

VARIABLES tid, l, rep            \* rep: aggregate calls whose result has been reported
tvars == <<vars, tid, l, rep>>

Ev == Traces[tid].events
HasEv == l <= Len(Ev)
E == Ev[l]
IsEvent(k) == HasEv /\ E.ev = k /\ E.t = now /\ l' = l + 1 /\ UNCHANGED tid
Top(w) == <<w, "top">>

TInit == /\ tid \in 1..Len(Traces)
         /\ l = 1 /\ rep = {}
         /\ now = 0
         /\ disc = [tr \in Transports |-> {}]
         /\ reg = [tr \in Transports |-> [i \in Ids |-> {}]]
         /\ pm = [i \in Ids |-> Traces[tid].pm[i]]
         /\ wt = [w \in AllW |-> Idle]
         /\ ag = [g \in Aggs |-> AIdle]
         /\ raised = FALSE

TrStart == IsEvent("start") /\ Start(Top(E.w), E.tr, E.id, E.tmo) /\ UNCHANGED rep
TrCancel == IsEvent("cancel") /\ Cancel(Top(E.w)) /\ UNCHANGED rep
TrRet == /\ IsEvent("ret")
         /\ Resume(Top(E.w))
         /\ wt'[Top(E.w)].res = E.res
         /\ E.res = "found" => E.desc = "seen"        \* ... with a description produced from an advertisement for it
         /\ UNCHANGED rep
TrAdv == /\ IsEvent("adv")
         /\ IF E.raised
            THEN raised' = TRUE /\ UNCHANGED <<now, disc, reg, pm, wt, ag>>    \* refuted by CallbackNeverRaises
            ELSE /\ ObsOK(E.cls, E.obs)                                       \* parsing part
                 /\ \E v \in Validity(E.cls) : Adv(E.tr, E.id, v)
         /\ UNCHANGED rep
TrAStart == IsEvent("astart") /\ AggStart(E.g, E.id, E.tmo) /\ UNCHANGED rep
TrACancel == IsEvent("acancel") /\ AggCancel(E.g) /\ UNCHANGED rep
TrARet == /\ IsEvent("aret")
          /\ ag[E.g].pc = "done" /\ E.g \notin rep
          /\ ag[E.g].res = E.res
          /\ E.res = "found" => E.desc = "seen"
          /\ rep' = rep \cup {E.g}
          /\ UNCHANGED vars
\* nothing is left to run at this instant
Quiescent == /\ \A w \in AllW : wt[w].pc # "ready"
             /\ \A w \in AllW : (wt[w].pc = "await" /\ wt[w].fut = "pending") => wt[w].dl > now
             /\ \A g \in Aggs : /\ ag[g].pc \notin {"drain", "cdrain", "cwake"}
                                /\ ag[g].pc = "done" => g \in rep
                                /\ ag[g].pc = "wait" => ~(\E c \in Kids(g) : wt[c].pc = "done" /\ ~wt[c].seen)
TrEnd == /\ IsEvent("end")
         /\ Quiescent
         /\ \A w \in AllW : wt[w].pc \in {"idle", "done"}             \* no call hangs
         /\ \A g \in Aggs : ag[g].pc \in {"idle", "done"}
         /\ UNCHANGED <<vars, rep>>
Silent == /\ \/ \E w \in AllW : TimerFire(w)
             \/ \E g \in Aggs, tr \in Transports : Resume(<<g, tr>>)
             \/ \E g \in Aggs : AggStep(g) \/ AggDrain(g) \/ AggCancelRun(g)
          /\ UNCHANGED <<tid, l, rep>>
Deadlines == {wt[w].dl : w \in {x \in AllW : wt[x].pc = "await" /\ wt[x].fut = "pending"}}
Advance == /\ HasEv /\ E.t > now /\ Quiescent
           /\ LET cand == {d \in Deadlines : d <= E.t} \cup {E.t}
              IN now' = CHOOSE x \in cand : \A y \in cand : x <= y
           /\ UNCHANGED <<disc, reg, pm, wt, ag, raised, tid, l, rep>>

TNext == TrStart \/ TrCancel \/ TrRet \/ TrAdv \/ TrAStart \/ TrACancel \/ TrARet \/ TrEnd \/ Silent \/ Advance
TSpec == TInit /\ [][TNext]_tvars

\* batch form: a step into a state that breaks a property cannot be taken (the trace is then REJECTED at
\* that event); the harness re-runs a rejected trace alone with the INVARIANT lines to name the property
AllInv == /\ NoLostWakeup /\ AlreadyKnownReturnsAtOnce /\ TimeoutGivesNotFound /\ ResultsJustified
          /\ CallbackNeverRaises /\ OtherWaitersUndisturbed /\ AggFirstSuccessWins /\ AggNoSubtaskLeft
TSpecChecked == TInit /\ [][TNext /\ AllInv']_tvars

Progress == TLCSet(tid, IF TLCGet(tid) < l THEN l ELSE TLCGet(tid))
TConstraint == Progress
ASSUME \A i \in 1..Len(Traces) : TLCSet(i, 0)
Accepted ==
    /\ TLCGet("stats").generated >= 0
    /\ \A i \in 1..Len(Traces) :
          IF TLCGet(i) = Len(Traces[i].events) + 1 THEN TRUE
          ELSE PrintT(<<"REJECTED", i, TLCGet(i)>>)
DbgL == CHOOSE n \in 0..100000 : ToString(n) = IOEnv.DBG_L
DebugNotReached == l < DbgL
=============================================================================
