SPECIFICATION TSpec
CONSTANTS
  Addrs = {1, 2, 3}
  Ports = {1, 2}
  CfgNums = {1, 2, 3, 4, 5, 6}
  StateNums = {1, 2, 3}
  DbVers = {1, 2, 3, 4, 5, 6}
  InitCaches = {0}
  MaxLoads = 3
  MaxQ = 12
  MaxResolving = 8
  IdCases = {"lower", "upper"}
  HonestModes = {TRUE, FALSE}
  AnswerKinds = {"ok", "err", "garbage", "close"}
  Restores = {}
  DecSpawn = {TRUE, FALSE}
  NormalisedRemove = FALSE
CONSTRAINT TConstraint
INVARIANT DescriptionIsLatest
INVARIANT TimerOnlyForAnnounced
INVARIANT WriteThrough
INVARIANT CaughtUp
INVARIANT LabelNeverNewerThanData
INVARIANT SeenLatestHoldsLatest
INVARIANT NotifiedWithNewNumber
INVARIANT ConnectsToLatest
INVARIANT CallbackNeverRaises
POSTCONDITION Accepted
CHECK_DEADLOCK FALSE
