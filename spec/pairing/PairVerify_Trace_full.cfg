SPECIFICATION TSpec
CONSTANTS WithResume = FALSE
INVARIANT NoFalseAccept
INVARIANT NoProofAfterForgery
INVARIANT HonestCompletes
INVARIANT Known
INVARIANT AuthOnlyAuthentic
INVARIANT FailureYieldsNoKeys
CHECK_DEADLOCK FALSE
