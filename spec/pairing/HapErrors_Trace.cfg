SPECIFICATION TSpec
CONSTANTS StateVals = {256}  ErrorVals = {256}
INVARIANT Conforms
INVARIANT NeverSuccess
CHECK_DEADLOCK FALSE
