SPECIFICATION Spec
CONSTANTS StateVals = {0, 2, 4, 6, 255, 256, 258, 259}  ErrorVals = {0, 1, 2, 3, 4, 5, 6, 7, 8, 255, 256, 257}
INVARIANT TypeOK
INVARIANT ErrorNeverSuccess
INVARIANT WrongStateNeverSuccess
INVARIANT OutcomeAllowed
INVARIANT SuccessOnlyClean
POSTCONDITION ExportCases
CHECK_DEADLOCK FALSE
