-------------------------- MODULE PairVerify_Trace --------------------------
(* Code -> spec: one record per execution of the real code - the description of the reply M2 the
   scripted accessory gave (concretised to bytes with real keys by the reference accessory; a
   symbolic Corrupt(site) stands for the concrete bit or byte that was altered), the M4 it gave,
   and what was observed: whether the attempt ended with keys, and whether the controller sent its
   proof M3.  The state machine of PairVerify is run from the recorded reply; the record is accepted
   iff the observation is what the specification says about that reply. *)
EXTENDS PairVerify, Json, IOUtils

Recs == ndJsonDeserialize(IOEnv.TRACE_FILE)

VARIABLE tid
tvars == <<vars, tid>>

RecReply(x) == [st |-> x.st, err |-> x.err, pub |-> x.pub, enc |-> x.enc, key |-> x.key, nonce |-> x.nonce, id |-> x.id,
                sigp |-> x.sigp, signer |-> x.signer, tr |-> x.tr, tag |-> x.tag, corrupt |-> x.corrupt,
                layout |-> x.layout, cut |-> x.cut, method |-> x.method, sid |-> x.sid]

TInit == /\ tid \in 1..Len(Recs)
         /\ Recs[tid].resume = WithResume
         /\ reply = RecReply(Recs[tid].r)
         /\ m4 = "none"
         /\ cpc = "M1sent" /\ d = [t \in Types |-> None] /\ failed = "none" /\ resumed = FALSE
         /\ shared = None /\ ckeys = None /\ m3 = None /\ apc = "idle" /\ akeys = None
\* the recorded M4 is the one delivered
TNext == /\ Next
         /\ cpc = "M3sent" /\ apc # "idle" => m4' = Recs[tid].m4
         /\ UNCHANGED tid
TSpec == TInit /\ [][TNext]_tvars

Ended == cpc \in {"Done", "Failed"}
\* keys only when the specification accepts
NoFalseAccept == (Ended /\ Recs[tid].observed = "ok") => cpc = "Done"
\* the controller sends its proof only after a reply the specification accepts as authentic
NoProofAfterForgery == (Ended /\ Recs[tid].m3sent) => m3 # None
\* the honest exchange completes
HonestCompletes == (Ended /\ cpc = "Done" /\ reply \in {Honest, HonestResume}) => Recs[tid].observed = "ok"
\* the recorded reply is one the model knows
Known == InSpace(reply)
=============================================================================
