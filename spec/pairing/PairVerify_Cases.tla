-------------------------- MODULE PairVerify_Cases --------------------------
(* Spec -> code: reply descriptions of the model with the verdict the specification computes (accept /
   reject, the stage that rejects, whether the controller gets as far as sending M3).  RATE = 1 exports the
   whole space; RATE = n exports every near miss (at most two choices away from the honest reply) and a
   seeded 1/n sample of the rest. *)
EXTENDS PairVerify, Json, IOUtils, SequencesExt

Rate == atoi(IOEnv.RATE)
Seed == atoi(IOEnv.SEED)

\* the complete M2 of the recorded earlier exchange sent again (always exported: it is also replayed from a real
\* earlier exchange of the same process)
IsRecorded(r) == /\ r.pub = "eA0" /\ r.enc = "sub" /\ r.key = "I0_A0" /\ r.nonce = "PV-Msg02" /\ r.id = "AccId" /\ r.sigp
                 /\ r.signer = "accLT" /\ r.tr = "old" /\ r.corrupt = "none" /\ r.layout = "canon" /\ r.cut = 0
                 /\ r.method = "absent" /\ r.sid = "absent"

M4For(r) == IF M2Result(r) = <<"m3">> THEN M4Space ELSE {"ok"}

Case(r, m) ==
    LET v == Verdict(r, m)
        w == Wire(r) IN
    [r |-> r, m4 |-> m, resume |-> WithResume, verdict |-> v.v, stage |-> v.stage, m3 |-> v.m3,
     derivable |-> Derivable(r), honest |-> r \in {Honest, HonestResume}, dist |-> Dist(r), recorded |-> IsRecorded(r),
     wire |-> [k \in 1..Len(w) |-> <<w[k].t, w[k].role>>], partial |-> CutPartial(r)]

HeadSeq == SetToSeq(Heads)
PubSeq  == SetToSeq(PubSpace)
EncSeq  == SetToSeq(EncSpace)
ModSeq  == SetToSeq(ModSpace)
MethSeq == SetToSeq(MethSpace)
SidSeq  == SetToSeq(SidSpace)
Picked(hi, pi, ei, mi, ti, si) == Rate = 1 \/ (hi * 131 + pi * 37 + ei * 7 + mi * 3 + ti * 5 + si + Seed) % Rate = 0

\* one file per (head, presented key): the sets stay small
Part(hi, pi) ==
    { c \in { <<Mk(HeadSeq[hi], PubSeq[pi], EncSeq[ei], ModSeq[mi], MethSeq[ti], SidSeq[si]), Picked(hi, pi, ei, mi, ti, si)>> :
               ei \in DOMAIN EncSeq, mi \in DOMAIN ModSeq, ti \in DOMAIN MethSeq, si \in DOMAIN SidSeq } :
      Valid(c[1]) /\ (c[2] \/ Dist(c[1]) <= 2 \/ IsRecorded(c[1])) }
ExportCases ==
    /\ TLCGet("stats").generated >= 0
    /\ ndJsonSerialize(IOEnv.CASES_OUT \o ".errvals", SetToSeq(UNION { { Case(r, m) : m \in M4For(r) } : r \in ErrorSpace }))
    /\ ndJsonSerialize(IOEnv.CASES_OUT \o ".statelen", SetToSeq(UNION { { Case(r, m) : m \in M4For(r) } : r \in StateLenSpace }))
    /\ \A hi \in DOMAIN HeadSeq : \A pi \in DOMAIN PubSeq :
          ndJsonSerialize(IOEnv.CASES_OUT \o "." \o ToString(hi) \o "-" \o ToString(pi),
                          SetToSeq(UNION { { Case(c[1], m) : m \in M4For(c[1]) } : c \in Part(hi, pi) }))
=============================================================================
