SPECIFICATION TSpec
INVARIANT NoFalsePairing
INVARIANT NoM3AfterBadM2
INVARIANT NoM5AfterBadProof
INVARIANT HonestPairs
INVARIANT Known
INVARIANT OnlyExactProof
INVARIANT SetupOnlyAuthenticated
INVARIANT FailureReturnsNothing
CHECK_DEADLOCK FALSE
