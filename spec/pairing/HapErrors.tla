----------------------------- MODULE HapErrors -----------------------------
(* C04 - an accessory error or an out-of-sequence reply never completes as success.

   What is modelled (aiohomekit/protocol/__init__.py handle_state_step + error_handler, the
   "expected types" filter of the IP and CoAP transports, the reply checks of
   IpPairing.add_pairing/remove_pairing and BlePairing.add_pairing/remove_pairing):

     the accessory's reply to one protocol step is a TLV item list  State? [RetryDelay] Error? <step fields> [RetryDelay]
     (a RetryDelay item accompanies back-off errors; it may come before or after the Error item)
     -> Deliver     the transport hands the items to the state machine; IP and CoAP decode with the
                    list of expected types the generator yielded and stop at the first other type
                    (the list contains State, Error, RetryDelay and the step's fields),
                    BLE (and the bare generator) pass everything on
     -> CheckState  a State item that is present must carry the expected step number (a missing
                    State item is tolerated: some accessories omit it)
     -> CheckError  an Error item ends the step with the exception class documented for its code,
                    *whether or not a State item was present*
     -> CheckFields the step's own required fields (for a resume answer: Method, SessionID and a valid tag end
                    the exchange with keys; if one is missing the reply is treated as a full M2, which it is not)

   The property is the relation Allowed(step, reply): the set of outcome classes the statement of
   C04 permits for a reply.  ErrorNeverSuccess / WrongStateNeverSuccess say that the algorithm
   above always ends inside it; the conformance harness runs every (step, transport, reply) cell
   on the real code and TLC (HapErrors_Trace) decides whether what the code did is allowed.

   Values: State / Error item values are integers 0..255; ABSENT (256) = item missing, EMPTY (257) = item
   present with a zero-length value. *)
EXTENDS Integers, Sequences, FiniteSets, TLC

CONSTANTS StateVals,    \* State item values explored (ABSENT included)
          ErrorVals     \* Error item values explored (ABSENT / EMPTY included)

ABSENT == 256
EMPTY  == 257
\* State items that are present but are not a one-byte step number: zero length / the expected step number
\* followed by a trailing byte.  Neither is "the expected step number"; only a *missing* State item is tolerated.
STATE_EMPTY    == 258
STATE_TRAILING == 259

\* PV_M2R: pair-verify M2 when the controller holds a previous session (BLE) and asked to resume it: the reply
\* is a resume answer (Method=Resume, new SessionID, auth tag in the EncryptedData item) that ends the exchange
\* with keys - unless it carries an error or a wrong step number, which must be looked at first
ProtoSteps == {"PS_M2", "PS_M4", "PS_M6", "PV_M2", "PV_M2R", "PV_M4"}
IpMgmt     == {"IP_Add", "IP_Remove"}
BleMgmt    == {"BLE_Add", "BLE_Remove"}
MgmtSteps  == IpMgmt \cup BleMgmt
Steps      == ProtoSteps \cup MgmtSteps

Expected(s) == IF s \in {"PS_M4", "PV_M4"} THEN 4 ELSE IF s = "PS_M6" THEN 6 ELSE 2

\* fields a step needs on its success path / may carry in addition (MFi blob at pair-setup M4)
Needed(s) == CASE s = "PS_M2" -> {"pk", "salt"}
               [] s = "PS_M4" -> {"proof"}
               [] s = "PS_M6" -> {"enc"}
               [] s = "PV_M2" -> {"pk", "enc"}
               [] s = "PV_M2R" -> {"method", "sid", "tag"}
               [] OTHER       -> {}
Optional(s) == IF s = "PS_M4" THEN {"enc"} ELSE {}
Fields(s)   == Needed(s) \cup Optional(s)
FieldOrder  == <<"method", "sid", "pk", "salt", "proof", "enc", "tag">>

\* the types the generator announces for the reply (step?_expectations in the code)
ExpectedTypes(s) == {"state", "error", "retry"} \cup Fields(s)

Transports(s) == IF s = "PV_M2R" THEN {"gen", "ble"}          \* only the BLE transport resumes sessions
                 ELSE IF s \in ProtoSteps THEN {"gen", "ip", "coap", "ble"}
                 ELSE IF s \in IpMgmt THEN {"ip"} ELSE {"ble"}
\* post_tlv / CoAP decode with the expected list only for the pairing state machines
Filters(s, t) == s \in ProtoSteps /\ t \in {"ip", "coap"}

\* retry: position of a RetryDelay item - "none", "last" (after everything) or "first" (between State and Error;
\* only explored for replies that carry an Error item)
Reply(s) == { r \in [state : StateVals, error : ErrorVals, others : SUBSET Fields(s), retry : {"none", "last", "first"}] :
              /\ r.retry = "first" => r.error # ABSENT
              /\ r.state \in {STATE_EMPTY, STATE_TRAILING} => r.retry = "none" }

Wire(r) == (IF r.state # ABSENT THEN <<"state">> ELSE << >>)
           \o (IF r.retry = "first" THEN <<"retry">> ELSE << >>)
           \o (IF r.error # ABSENT THEN <<"error">> ELSE << >>)
           \o SelectSeq(FieldOrder, LAMBDA f : f \in r.others)
           \o (IF r.retry = "last" THEN <<"retry">> ELSE << >>)

\* ------------------------------------------------------------------ outcome classes
Mapped(e) == CASE e = 2 -> "Authentication"
               [] e = 3 -> "Backoff"
               [] e = 4 -> "MaxPeers"
               [] e = 5 -> "MaxTries"
               [] e = 6 -> "Unavailable"
               [] e = 7 -> "Busy"
               [] OTHER -> "Invalid"

\* a library error: the documented classes, UnknownError, or any other aiohomekit exception
LibErrors     == {"Authentication", "Backoff", "MaxPeers", "MaxTries", "Unavailable", "Busy", "Invalid",
                  "Unknown", "OtherLib"}
Unconstrained == LibErrors \cup {"ok", "NonLib"}

HasError(r)  == r.error # ABSENT
BadState(s, r) == r.state \notin {ABSENT, Expected(s)}
ForCode(e)   == IF e = EMPTY THEN LibErrors ELSE {Mapped(e)}     \* an empty Error item carries no code

\* THE PROPERTY: outcome classes C04 permits
Allowed(s, r) ==
    IF s \in MgmtSteps
    THEN IF HasError(r) \/ BadState(s, r) THEN LibErrors ELSE Unconstrained
    ELSE CASE HasError(r) /\ ~BadState(s, r) -> ForCode(r.error)
           [] ~HasError(r) /\ BadState(s, r) -> {"Invalid"}
           [] HasError(r) /\ BadState(s, r)  -> {"Invalid"} \cup ForCode(r.error)
           [] OTHER                          -> Unconstrained

\* ------------------------------------------------------------------ the algorithm
VARIABLES step, tr, reply, pc, seen, outcome
vars == <<step, tr, reply, pc, seen, outcome>>

Init == /\ step \in Steps
        /\ tr \in Transports(step)
        /\ reply \in Reply(step)
        /\ pc = "wire" /\ seen = {} /\ outcome = "none"

RECURSIVE Prefix(_, _, _)
Prefix(w, k, ok) == IF k > Len(w) \/ w[k] \notin ok THEN {} ELSE {w[k]} \cup Prefix(w, k + 1, ok)
ToSet(w) == {w[k] : k \in 1..Len(w)}

Deliver ==
    /\ pc = "wire"
    /\ seen' = IF Filters(step, tr) THEN Prefix(Wire(reply), 1, ExpectedTypes(step)) ELSE ToSet(Wire(reply))
    /\ pc' = "state"
    /\ UNCHANGED <<step, tr, reply, outcome>>

CheckState ==
    /\ pc = "state"
    /\ IF "state" \in seen /\ reply.state # Expected(step)
       THEN outcome' = "Invalid" /\ pc' = "done"
       ELSE outcome' = outcome /\ pc' = "error"
    /\ UNCHANGED <<step, tr, reply, seen>>

ErrClass(s, e) == IF s \in ProtoSteps \cup {"IP_Add"} THEN Mapped(e)
                  ELSE IF e = 2 THEN "Authentication" ELSE "Unknown"

CheckError ==
    /\ pc = "error"
    /\ IF "error" \in seen
       THEN outcome' = ErrClass(step, reply.error) /\ pc' = "done"
       ELSE outcome' = outcome /\ pc' = "fields"
    /\ UNCHANGED <<step, tr, reply, seen>>

CheckFields ==
    /\ pc = "fields"
    /\ outcome' = IF Needed(step) \subseteq seen THEN "ok" ELSE "Invalid"
    /\ pc' = "done"
    /\ UNCHANGED <<step, tr, reply, seen>>

Next == Deliver \/ CheckState \/ CheckError \/ CheckFields
Spec == Init /\ [][Next]_vars

\* ------------------------------------------------------------------ properties
TypeOK == outcome \in Unconstrained \cup {"none"}
ErrorNeverSuccess ==
    (pc = "done" /\ HasError(reply)) => (outcome # "ok" /\ outcome \in Allowed(step, reply))
WrongStateNeverSuccess ==
    (pc = "done" /\ BadState(step, reply)) => (outcome # "ok" /\ outcome \in Allowed(step, reply))
OutcomeAllowed == pc = "done" => outcome \in Allowed(step, reply)
\* success is only ever allowed for a reply with neither an error nor a wrong step number
SuccessOnlyClean == "ok" \in Allowed(step, reply) => (~HasError(reply) /\ ~BadState(step, reply))
=============================================================================
