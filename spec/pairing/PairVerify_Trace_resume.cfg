SPECIFICATION TSpec
CONSTANTS WithResume = TRUE
INVARIANT NoFalseAccept
INVARIANT NoProofAfterForgery
INVARIANT HonestCompletes
INVARIANT Known
INVARIANT AuthOnlyAuthentic
INVARIANT FailureYieldsNoKeys
CHECK_DEADLOCK FALSE
