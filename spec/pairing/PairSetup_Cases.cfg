SPECIFICATION Spec
INVARIANT SetupOnlyAuthenticated
INVARIANT RecordConsistent
INVARIANT M5Accepted
INVARIANT FailureReturnsNothing
INVARIANT NoPairingAfterError
INVARIANT NoCodeNoPairing
INVARIANT OnlyExactProof
INVARIANT HonestCompletes
INVARIANT VerdictMatches
POSTCONDITION ExportCases
CHECK_DEADLOCK FALSE
