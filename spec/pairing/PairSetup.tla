------------------------------ MODULE PairSetup ------------------------------
(* C03 - pair-setup returns pairing data only after a fully authenticated exchange.

   Symbolic model of aiohomekit/protocol/__init__.py perform_pair_setup_part1 / perform_pair_setup_part2,
   same style as PairVerify.  SRP is abstracted: a party that knows setup code c and sees salt s and
   server key B computes the session key K(c, s, B); the accessory's proof is ProofA(K); two parties
   hold the same K iff they used the same code and saw the same (uncorrupted) salt and key.

   Atoms: code "good" (the one the user typed; the honest accessory is provisioned with it), "other"
   (an accessory / attacker that does not know the code); accLT / otherLT long-term signing keys an
   accessory may present, iosLT the key pair the controller generates; AccId / OtherId identifiers.

   The environment picks M2, then (if the controller gets that far) M4, then M6, each from a product
   space described by a record; the controller's verification is one action per check of the code. *)
EXTENDS Naturals, Sequences, FiniteSets, TLC

\* ------------------------------------------------------------------ terms
Kdf(s, salt, info) == <<"kdf", s, salt, info>>
Sig(k, m)     == <<"sig", k, m>>
Aead(k, n, p) == <<"aead", k, n, p>>
Corrupt(t)    == <<"corrupt", t>>
Cat(a, b)     == <<"cat", a, b>>
None          == <<"none">>
Id(x)         == <<"id", x>>
LtPub(k)      == <<"ltpk", k>>                    \* public half of long-term key k
St(x)         == <<"st", x>>
Err(x)        == <<"err", x>>
Salt(x)       == <<"salt", x>>
SrpB(x)       == <<"B", x>>
K(code, s, b) == <<"K", code, s, b>>              \* SRP session key
ProofA(k)     == <<"proofA", k>>
Blob(x)       == <<"blob", x>>
WrongLen(kind, t) == <<"wronglen", kind, t>>     \* a value of the wrong length: empty / last byte missing / one byte appended / twice

EncKey(k) == Kdf(k, "Pair-Setup-Encrypt-Salt", "Pair-Setup-Encrypt-Info")
AccX(k)   == Kdf(k, "Pair-Setup-Accessory-Sign-Salt", "Pair-Setup-Accessory-Sign-Info")
CtrlX(k)  == Kdf(k, "Pair-Setup-Controller-Sign-Salt", "Pair-Setup-Controller-Sign-Info")
Open(k, n, c) == IF c[1] = "aead" THEN (IF c[2] = k /\ c[3] = n THEN <<"ok", c[4]>> ELSE <<"fail">>) ELSE <<"fail">>

KHonest == K("good", Salt("s"), SrpB("b"))       \* what the honest accessory computes
KOther  == K("other", Salt("s"), SrpB("b"))      \* what a party with another code computes
M5Term(k) == Aead(EncKey(k), "PS-Msg05",
                  [id |-> Id("iosId"), pk |-> LtPub("iosLT"), sig |-> Sig("iosLT", <<CtrlX(k), Id("iosId"), LtPub("iosLT")>>)])

\* ------------------------------------------------------------------ reply spaces
Heads == {<<"ok", "none">>, <<"wrong", "none">>, <<"ok", "err">>}
LenKinds == {"len0", "short", "long", "double"}   \* length 0, len-1 (last byte dropped), len+1 (byte appended), 2 x len
FieldCh == {"absent", "ok", "corrupt"} \cup LenKinds
StateLen == {"empty", "trailing"}                 \* State item of length 0 / the right step number followed by another byte
\* cut: 0 none; otherwise keep (cut-1) \div 2 whole items of the canonical wire and, if cut is even, part of the next
M2Default == [st |-> "ok", err |-> "none", salt |-> "ok", pk |-> "ok", cut |-> 0]
M2Base  == { [M2Default EXCEPT !.st = h[1], !.err = h[2], !.salt = s, !.pk = p] : h \in Heads, s \in FieldCh, p \in FieldCh }
M2Space == M2Base \cup { [M2Default EXCEPT !.cut = c] : c \in 1..6 } \cup { [M2Default EXCEPT !.st = x] : x \in StateLen }

\* suffixN: only the last N bytes of the right proof (front truncation); empty: a Proof item of length 0;
\* padded: the right proof with a zero byte in front - the same number, written with one more byte: the one
\* variant that is not the exact proof for which the specification leaves the verdict open
\* prefix63 / extended / double: last byte dropped / a byte appended / the proof twice
ProofCh == {"absent", "right", "otherCode", "corrupt", "suffix1", "suffix8", "suffix32", "suffix63", "empty", "padded",
            "prefix63", "extended", "double"}
M4Default == [st |-> "ok", err |-> "none", proof |-> "right", mfi |-> FALSE, cut |-> 0]
M4Space == { [M4Default EXCEPT !.st = h[1], !.err = h[2], !.proof = p, !.mfi = f] : h \in Heads, p \in ProofCh, f \in BOOLEAN }
           \cup { [M4Default EXCEPT !.cut = c] : c \in 1..4 } \cup { [M4Default EXCEPT !.st = x] : x \in StateLen }

KeyCh    == {"right", "otherK", "ctrlSign", "junk"}
NonceCh  == {"PS-Msg06", "PS-Msg05"}
IdCh     == {"absent", "AccId"}
PkCh     == {"absent", "accLT", "otherLT"}
SignerCh == {"presented", "another"}
InfoCh   == {"right", "otherId", "otherKey", "ctrlSalt", "otherK", "permuted"}
M6Default == [st |-> "ok", err |-> "none", enc |-> "sub", key |-> "right", nonce |-> "PS-Msg06", id |-> "AccId", pk |-> "accLT",
              sigp |-> TRUE, signer |-> "presented", info |-> "right", corrupt |-> "none", alter |-> "flip", cut |-> 0]
SigSpace == {[sigp |-> FALSE, signer |-> "presented", info |-> "right"]} \cup [sigp : {TRUE}, signer : SignerCh, info : InfoCh]
EncSpace ==
    { [enc |-> "absent", key |-> "right", nonce |-> "PS-Msg06", id |-> "AccId", pk |-> "accLT", sigp |-> TRUE, signer |-> "presented", info |-> "right"],
      [enc |-> "reflect", key |-> "right", nonce |-> "PS-Msg06", id |-> "AccId", pk |-> "accLT", sigp |-> TRUE, signer |-> "presented", info |-> "right"] }
    \cup { [enc |-> "sub", key |-> k, nonce |-> n, id |-> i, pk |-> p, sigp |-> s.sigp, signer |-> s.signer, info |-> s.info]
           : k \in KeyCh, n \in NonceCh, i \in IdCh, p \in PkCh, s \in SigSpace }
M6Mods == {[corrupt |-> "none", cut |-> 0]}
          \cup { [corrupt |-> c, cut |-> 0] : c \in {"enc", "id", "pk", "sig"} }
          \cup { [corrupt |-> "none", cut |-> c] : c \in 1..4 }
Mk6(h, e, m) == [st |-> h[1], err |-> h[2], enc |-> e.enc, key |-> e.key, nonce |-> e.nonce, id |-> e.id, pk |-> e.pk,
                 sigp |-> e.sigp, signer |-> e.signer, info |-> e.info, corrupt |-> m.corrupt, alter |-> "flip", cut |-> m.cut]
\* further M6 variants, built on the honest M6 (sealed honestly under the exchange key): one field of the sub-TLV (or
\* the sealed blob) with a wrong length, for either presented key; a State item of the wrong length
Extra6 == { [M6Default EXCEPT !.corrupt = c, !.alter = a, !.pk = p] : c \in {"enc", "id", "pk", "sig"}, a \in LenKinds, p \in {"accLT", "otherLT"} }
          \cup { [M6Default EXCEPT !.st = x] : x \in StateLen }
Valid6(r) ==
    /\ CASE r.corrupt = "none" -> TRUE
         [] r.corrupt = "enc"  -> r.enc # "absent"
         [] r.corrupt = "id"   -> r.enc = "sub" /\ r.id # "absent"
         [] r.corrupt = "pk"   -> r.enc = "sub" /\ r.pk # "absent"
         [] r.corrupt = "sig"  -> r.enc = "sub" /\ r.sigp
    /\ r.cut # 0 => (r.cut - 1) \div 2 < (IF r.enc = "absent" THEN 1 ELSE 2) + (IF r.err = "err" THEN 1 ELSE 0)
InM6Space(r) ==
  \/ r \in Extra6
  \/
    /\ r.alter = "flip"
    /\ <<r.st, r.err>> \in Heads
    /\ [enc |-> r.enc, key |-> r.key, nonce |-> r.nonce, id |-> r.id, pk |-> r.pk, sigp |-> r.sigp, signer |-> r.signer,
        info |-> r.info] \in EncSpace
    /\ [corrupt |-> r.corrupt, cut |-> r.cut] \in M6Mods
    /\ Valid6(r)

H2 == M2Default
H4 == M4Default
H6 == M6Default

\* ------------------------------------------------------------------ descriptions -> wires
Item(t, v) == [t |-> t, v |-> v]
Hdr(r, n) == <<Item("state", St(CASE r.st = "ok" -> n [] r.st = "wrong" -> "M1" [] r.st = "empty" -> "zero-length" [] OTHER -> "trailing"))>> \o (IF r.err = "err" THEN <<Item("error", Err("unavailable"))>> ELSE << >>)
CutItems(r)   == (r.cut - 1) \div 2
CutPartial(r) == r.cut # 0 /\ r.cut % 2 = 0
CutTo(r, w)   == IF r.cut = 0 THEN w ELSE SubSeq(w, 1, IF CutItems(r) < Len(w) THEN CutItems(r) ELSE Len(w))

FieldTerm(ch, t) == IF ch = "ok" THEN t ELSE IF ch = "corrupt" THEN Corrupt(t) ELSE WrongLen(ch, t)
Altered(r, t)    == IF r.alter = "flip" THEN Corrupt(t) ELSE WrongLen(r.alter, t)
Canon2(r) == Hdr(r, "M2")
             \o (IF r.pk # "absent" THEN <<Item("pk", FieldTerm(r.pk, SrpB("b")))>> ELSE << >>)
             \o (IF r.salt # "absent" THEN <<Item("salt", FieldTerm(r.salt, Salt("s")))>> ELSE << >>)
Wire2(r) == CutTo(r, Canon2(r))

Padded(t)   == <<"padded", t>>
Suffix(t, n) == <<"suffix", t, n>>
ProofTerm(r) == CASE r.proof = "right" -> ProofA(KHonest) [] r.proof = "otherCode" -> ProofA(KOther)
                  [] r.proof = "padded" -> Padded(ProofA(KHonest))
                  [] r.proof = "empty" -> <<"emptyvalue">>
                  [] r.proof = "suffix1" -> Suffix(ProofA(KHonest), 1) [] r.proof = "suffix8" -> Suffix(ProofA(KHonest), 8)
                  [] r.proof = "suffix32" -> Suffix(ProofA(KHonest), 32) [] r.proof = "suffix63" -> Suffix(ProofA(KHonest), 63)
                  [] r.proof \in {"prefix63", "extended", "double"} -> WrongLen(r.proof, ProofA(KHonest))
                  [] OTHER -> Corrupt(ProofA(KHonest))
Canon4(r) == Hdr(r, "M4")
             \o (IF r.proof # "absent" THEN <<Item("proof", ProofTerm(r))>> ELSE << >>)
             \o (IF r.mfi THEN <<Item("enc", Blob("mfi"))>> ELSE << >>)
Wire4(r) == CutTo(r, Canon4(r))

Other(k)     == IF k = "accLT" THEN "otherLT" ELSE "accLT"
Presented(r) == IF r.pk = "absent" THEN "accLT" ELSE r.pk
KeyTerm6(k) == CASE k = "right" -> EncKey(KHonest) [] k = "otherK" -> EncKey(KOther) [] k = "ctrlSign" -> CtrlX(KHonest)
                 [] OTHER -> <<"junk">>
IdTerm6(r) == IF r.id = "absent" THEN None ELSE IF r.corrupt = "id" THEN Altered(r, Id("AccId")) ELSE Id("AccId")
PkTerm6(r) == IF r.pk = "absent" THEN None ELSE IF r.corrupt = "pk" THEN Altered(r, LtPub(r.pk)) ELSE LtPub(r.pk)
Info6(r) ==
    LET p == Presented(r) IN
    CASE r.info = "right"    -> <<AccX(KHonest), Id("AccId"), LtPub(p)>>
      [] r.info = "otherId"  -> <<AccX(KHonest), Id("OtherId"), LtPub(p)>>
      [] r.info = "otherKey" -> <<AccX(KHonest), Id("AccId"), LtPub(Other(p))>>
      [] r.info = "ctrlSalt" -> <<CtrlX(KHonest), Id("AccId"), LtPub(p)>>
      [] r.info = "otherK"   -> <<AccX(KOther), Id("AccId"), LtPub(p)>>
      [] r.info = "permuted" -> <<AccX(KHonest), LtPub(p), Id("AccId")>>
SigTerm6(r) ==
    LET signer == IF r.signer = "presented" THEN Presented(r) ELSE Other(Presented(r))
        s == Sig(signer, Info6(r)) IN
    IF ~r.sigp THEN None ELSE IF r.corrupt = "sig" THEN Altered(r, s) ELSE s
EncTerm6(r) ==
    LET base == IF r.enc = "reflect" THEN M5Term(KHonest)
                ELSE Aead(KeyTerm6(r.key), r.nonce, [id |-> IdTerm6(r), pk |-> PkTerm6(r), sig |-> SigTerm6(r)])
    IN IF r.corrupt = "enc" THEN Altered(r, base) ELSE base
Canon6(r) == Hdr(r, "M6") \o (IF r.enc # "absent" THEN <<Item("enc", EncTerm6(r))>> ELSE << >>)
Wire6(r) == CutTo(r, Canon6(r))

Types == {"state", "error", "pk", "salt", "proof", "enc"}
RECURSIVE Fold(_, _, _)
Fold(w, k, acc) ==
    IF k > Len(w) THEN acc
    ELSE IF k > 1 /\ w[k - 1].t = w[k].t
         THEN Fold(w, k + 1, [acc EXCEPT ![w[k].t] = Cat(@, w[k].v)])
         ELSE Fold(w, k + 1, [acc EXCEPT ![w[k].t] = w[k].v])
Dict(w) == Fold(w, 1, [t \in Types |-> None])
Has(dd, t) == dd[t] # None

\* ------------------------------------------------------------------ the controller's checks (pure)
ChkState(dd, n) == Has(dd, "state") => dd["state"] = St(n)
ChkError(dd)    == ~Has(dd, "error")
Kc(d2)          == K("good", d2["salt"], d2["pk"])           \* the controller's SRP session key
Sub6(d6, k)     == Open(EncKey(k), "PS-Msg06", d6["enc"])
IsLtPub(v)      == v[1] = "ltpk"

\* <<"fail", stage>> | <<"pass">>
R2(r) == LET dd == Dict(Wire2(r)) IN
         IF CutPartial(r) THEN <<"fail", "parse2">>
         ELSE IF ~ChkState(dd, "M2") THEN <<"fail", "state2">>
         ELSE IF ~ChkError(dd) THEN <<"fail", "error2">>
         ELSE IF ~(Has(dd, "pk") /\ Has(dd, "salt")) THEN <<"fail", "present2">>
         ELSE <<"pass">>
R4(r, k) == LET dd == Dict(Wire4(r)) IN
         IF CutPartial(r) THEN <<"fail", "parse4">>
         ELSE IF ~ChkState(dd, "M4") THEN <<"fail", "state4">>
         ELSE IF ~ChkError(dd) THEN <<"fail", "error4">>
         ELSE IF ~Has(dd, "proof") THEN <<"fail", "present4">>
         ELSE IF dd["proof"] = Padded(ProofA(k)) THEN <<"either">>
         ELSE IF dd["proof"] # ProofA(k) THEN <<"fail", "proof">>
         ELSE <<"pass">>
R6(r, k) == LET dd == Dict(Wire6(r))
                o == Sub6(dd, k) IN
         IF CutPartial(r) THEN <<"fail", "parse6">>
         ELSE IF ~ChkState(dd, "M6") THEN <<"fail", "state6">>
         ELSE IF ~ChkError(dd) THEN <<"fail", "error6">>
         ELSE IF ~Has(dd, "enc") THEN <<"fail", "present6">>
         ELSE IF o[1] # "ok" THEN <<"fail", "aead">>
         ELSE IF o[2].sig = None \/ o[2].id = None \/ o[2].pk = None THEN <<"fail", "inner">>
         ELSE IF ~IsLtPub(o[2].pk) THEN <<"fail", "ltpk">>
         ELSE IF o[2].sig # Sig(o[2].pk[2], <<AccX(k), o[2].id, o[2].pk>>) THEN <<"fail", "sig">>
         ELSE <<"pass">>
Verdict(m2, m4, m6) ==
    LET k == Kc(Dict(Wire2(m2))) IN
    IF R2(m2)[1] = "fail" THEN [v |-> "fail", stage |-> R2(m2)[2], m3 |-> FALSE, m5 |-> FALSE]
    \* value-equal re-encoding of the right proof: accepting and rejecting are both allowed (m5 = "may be sent")
    ELSE IF R4(m4, k)[1] = "either" THEN [v |-> IF R6(m6, k)[1] = "fail" THEN "fail" ELSE "either",
                                          stage |-> "proof-encoding", m3 |-> TRUE, m5 |-> TRUE]
    ELSE IF R4(m4, k)[1] = "fail" THEN [v |-> "fail", stage |-> R4(m4, k)[2], m3 |-> TRUE, m5 |-> FALSE]
    ELSE IF R6(m6, k)[1] = "fail" THEN [v |-> "fail", stage |-> R6(m6, k)[2], m3 |-> TRUE, m5 |-> TRUE]
    ELSE [v |-> "ok", stage |-> "done", m3 |-> TRUE, m5 |-> TRUE]

\* ------------------------------------------------------------------ state machine
VARIABLES pc, m2, m4, m6, d, kc, m5, apc, record, failed
vars == <<pc, m2, m4, m6, d, kc, m5, apc, record, failed>>

NoDict == [t \in Types |-> None]
Init == /\ m2 \in M2Space
        /\ m4 = H4 /\ m6 = H6
        /\ pc = "M1sent" /\ d = NoDict /\ kc = None /\ m5 = None /\ apc = "idle" /\ record = None /\ failed = "none"

Fail(stage) == pc' = "Failed" /\ failed' = stage /\ UNCHANGED <<m2, m4, m6, d, kc, m5, apc, record>>
Goto(next)  == pc' = next /\ UNCHANGED <<m2, m4, m6, d, kc, m5, apc, record, failed>>
Receive(r, w, next, stage) ==
    IF CutPartial(r) THEN Fail(stage)
    ELSE pc' = next /\ d' = Dict(w) /\ UNCHANGED <<m2, m4, m6, kc, m5, apc, record, failed>>

ReceiveM2     == pc = "M1sent" /\ Receive(m2, Wire2(m2), "state2", "parse2")
CheckM2State  == pc = "state2" /\ IF ChkState(d, "M2") THEN Goto("error2") ELSE Fail("state2")
CheckM2Error  == pc = "error2" /\ IF ChkError(d) THEN Goto("present2") ELSE Fail("error2")
CheckM2Fields == pc = "present2" /\ IF Has(d, "pk") /\ Has(d, "salt") THEN Goto("srp") ELSE Fail("present2")
\* part 2: SRP with the typed code and the received salt / key; M3 is sent; the accessory answers
SendM3(r4) ==
    /\ pc = "srp"
    /\ kc' = Kc(d)
    /\ m4' = r4
    /\ pc' = "M3sent"
    /\ UNCHANGED <<m2, m6, d, m5, apc, record, failed>>
ReceiveM4     == pc = "M3sent" /\ Receive(m4, Wire4(m4), "state4", "parse4")
CheckM4State  == pc = "state4" /\ IF ChkState(d, "M4") THEN Goto("error4") ELSE Fail("state4")
CheckM4Error  == pc = "error4" /\ IF ChkError(d) THEN Goto("present4") ELSE Fail("error4")
CheckM4Fields == pc = "present4" /\ IF Has(d, "proof") THEN Goto("proof") ELSE Fail("present4")
CheckProof    == pc = "proof" /\ d["proof"] # Padded(ProofA(kc)) /\ IF d["proof"] = ProofA(kc) THEN Goto("sendM5") ELSE Fail("proof")
\* the right proof written with a leading zero byte: the specification allows either outcome
CheckProofPadded(accept) ==
    pc = "proof" /\ d["proof"] = Padded(ProofA(kc)) /\ IF accept THEN Goto("sendM5") ELSE Fail("proof")
SendM5(r6) ==
    /\ pc = "sendM5"
    /\ m5' = M5Term(kc)
    /\ m6' = r6
    /\ pc' = "M5sent"
    /\ UNCHANGED <<m2, m4, d, kc, apc, record, failed>>
\* the conformant accessory (code "good", its own salt and key) checks the controller's exchange message
AccessoryM5 ==
    /\ pc = "M5sent" /\ apc = "idle"
    /\ LET o == Open(EncKey(KHonest), "PS-Msg05", m5) IN
       apc' = IF o[1] = "ok" /\ IsLtPub(o[2].pk) /\ o[2].sig = Sig(o[2].pk[2], <<CtrlX(KHonest), o[2].id, o[2].pk>>)
              THEN "accepted" ELSE "rejected"
    /\ UNCHANGED <<pc, m2, m4, m6, d, kc, m5, record, failed>>
ReceiveM6     == pc = "M5sent" /\ apc # "idle" /\ Receive(m6, Wire6(m6), "state6", "parse6")
CheckM6State  == pc = "state6" /\ IF ChkState(d, "M6") THEN Goto("error6") ELSE Fail("state6")
CheckM6Error  == pc = "error6" /\ IF ChkError(d) THEN Goto("present6") ELSE Fail("error6")
CheckM6Fields == pc = "present6" /\ IF Has(d, "enc") THEN Goto("aead") ELSE Fail("present6")
OpenM6        == pc = "aead" /\ IF Sub6(d, kc)[1] = "ok" THEN Goto("inner") ELSE Fail("aead")
CheckInner ==
    /\ pc = "inner"
    /\ LET s == Sub6(d, kc)[2] IN
       IF s.sig = None \/ s.id = None \/ s.pk = None THEN Fail("inner")
       ELSE IF ~IsLtPub(s.pk) THEN Fail("ltpk") ELSE Goto("sig")
CheckSig ==
    /\ pc = "sig"
    /\ LET s == Sub6(d, kc)[2] IN
       IF s.sig = Sig(s.pk[2], <<AccX(kc), s.id, s.pk>>)
       THEN /\ pc' = "Done"
            /\ record' = [acc_id |-> s.id, acc_ltpk |-> s.pk, ios_id |-> Id("iosId"), ios_ltsk |-> "iosLT", ios_ltpk |-> LtPub("iosLT")]
            /\ UNCHANGED <<m2, m4, m6, d, kc, m5, apc, failed>>
       ELSE Fail("sig")

\* everything but the two steps at which the environment picks the next reply
CtrlNext == \/ ReceiveM2 \/ CheckM2State \/ CheckM2Error \/ CheckM2Fields
            \/ ReceiveM4 \/ CheckM4State \/ CheckM4Error \/ CheckM4Fields \/ CheckProof \/ AccessoryM5
            \/ ReceiveM6 \/ CheckM6State \/ CheckM6Error \/ CheckM6Fields \/ OpenM6 \/ CheckInner \/ CheckSig
EnvM4 == pc = "srp" /\ \E r4 \in M4Space : SendM3(r4)
EnvM6 == pc = "sendM5" /\ \/ \E h \in Heads, e \in EncSpace, m \in M6Mods : Valid6(Mk6(h, e, m)) /\ SendM5(Mk6(h, e, m))
                          \/ \E r \in Extra6 : SendM5(r)
Padded4 == \E a \in BOOLEAN : CheckProofPadded(a)
Next == CtrlNext \/ Padded4 \/ EnvM4 \/ EnvM6
Spec == Init /\ [][Next]_vars

\* ------------------------------------------------------------------ properties
Returned == pc = "Done"
\* pairing data only if: the accessory proved knowledge of the code (its proof is the one for the key both sides share,
\* which requires salt and server key to have arrived intact), M6 opens under the exchange key with the M6 nonce and is
\* signed by the long-term key it presents over (accessory signing key material, presented id, presented key)
SetupOnlyAuthenticated ==
    Returned =>
        /\ kc = KHonest
        /\ m4.proof \in {"right", "padded"} /\ m4.st = "ok" /\ m4.err = "none"
        /\ LET o == Open(EncKey(KHonest), "PS-Msg06", d["enc"]) IN
           /\ o[1] = "ok"
           /\ IsLtPub(o[2].pk)
           /\ o[2].sig = Sig(o[2].pk[2], <<AccX(KHonest), o[2].id, o[2].pk>>)
RecordConsistent ==
    Returned =>
        LET s == Open(EncKey(KHonest), "PS-Msg06", d["enc"])[2] IN
        /\ record.acc_id = s.id /\ record.acc_ltpk = s.pk
        /\ record.ios_ltpk = LtPub(record.ios_ltsk)
        \* what the accessory stored from M5 is what the controller returns
        /\ Open(EncKey(KHonest), "PS-Msg05", m5)[2].id = record.ios_id
        /\ Open(EncKey(KHonest), "PS-Msg05", m5)[2].pk = record.ios_ltpk
M5Accepted == (m5 # None /\ apc # "idle" /\ kc = KHonest) => apc = "accepted"
FailureReturnsNothing == ~Returned => record = None
NoPairingAfterError == Returned => (m2.err = "none" /\ m4.err = "none" /\ m6.err = "none" /\ m2.st = "ok" /\ m4.st = "ok" /\ m6.st = "ok")
\* a peer that does not know the setup code never gets paired, whatever it sends
NoCodeNoPairing == Returned => (m4.proof \in {"right", "padded"} /\ m2.salt = "ok" /\ m2.pk = "ok")
\* anything but the exact proof (or its zero-padded spelling) ends the exchange before M5
OnlyExactProof == (m5 # None) => m4.proof \in {"right", "padded"}
HonestCompletes == (pc \in {"Done", "Failed"} /\ m2 = H2 /\ m4 \in {H4, [H4 EXCEPT !.mfi = TRUE]} /\ m6 = H6) => Returned

VerdictMatches ==
    (pc \in {"Done", "Failed"} /\ Verdict(m2, m4, m6).stage # "proof-encoding") =>
        LET v == Verdict(m2, m4, m6) IN
        /\ Returned = (v.v = "ok")
        /\ pc = "Failed" => failed = v.stage
        /\ (kc # None) = v.m3
        /\ (m5 # None) = v.m5
=============================================================================
