-------------------------- MODULE HapErrors_Trace --------------------------
(* Code -> spec: one record per execution of the real code - the step, the transport, the reply
   the scripted accessory gave (State / Error values as integers, other fields, position of a
   RetryDelay item) and the outcome class observed (exception class by isinstance, or "ok").  The
   record is accepted iff the observed class is one the specification allows for that reply;
   ModelAgrees additionally compares with the class the modelled algorithm ends in. *)
EXTENDS HapErrors, Json, IOUtils

Recs == ndJsonDeserialize(IOEnv.TRACE_FILE)

VARIABLE tid
tvars == <<vars, tid>>

ToSetS(q) == {q[k] : k \in 1..Len(q)}
RecReply(r) == [state |-> r.state, error |-> r.error, others |-> ToSetS(r.others), retry |-> r.retry]

TInit == /\ tid \in 1..Len(Recs)
         /\ step = Recs[tid].step /\ tr = Recs[tid].tr
         /\ reply = RecReply(Recs[tid])
         /\ pc = "wire" /\ seen = {} /\ outcome = "none"
TNext == Next /\ UNCHANGED tid
TSpec == TInit /\ [][TNext]_tvars

Class(o) == IF o \in LibErrors \cup {"ok"} THEN o ELSE "NonLib"

\* the observed outcome is one the property allows
Conforms == Class(Recs[tid].observed) \in Allowed(step, reply)
\* an error / a wrong step number was never reported as success
NeverSuccess == (HasError(reply) \/ BadState(step, reply)) => Recs[tid].observed # "ok"
=============================================================================
