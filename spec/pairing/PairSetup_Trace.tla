--------------------------- MODULE PairSetup_Trace ---------------------------
(* Code -> spec: one record per execution of the real code - the descriptions of the replies M2, M4, M6 the scripted
   accessory gave (concretised with the independent SRP server and real keys), and what was observed: pairing data
   returned or not, whether the controller sent M3 and M5.  The state machine is run from the recorded replies. *)
EXTENDS PairSetup, Json, IOUtils

Recs == ndJsonDeserialize(IOEnv.TRACE_FILE)

VARIABLE tid
tvars == <<vars, tid>>

Rec2(x) == [st |-> x.st, err |-> x.err, salt |-> x.salt, pk |-> x.pk, cut |-> x.cut]
Rec4(x) == [st |-> x.st, err |-> x.err, proof |-> x.proof, mfi |-> x.mfi, cut |-> x.cut]
Rec6(x) == [st |-> x.st, err |-> x.err, enc |-> x.enc, key |-> x.key, nonce |-> x.nonce, id |-> x.id, pk |-> x.pk,
            sigp |-> x.sigp, signer |-> x.signer, info |-> x.info, corrupt |-> x.corrupt, alter |-> x.alter, cut |-> x.cut]

TInit == /\ tid \in 1..Len(Recs)
         /\ m2 = Rec2(Recs[tid].m2)
         /\ m4 = H4 /\ m6 = H6
         /\ pc = "M1sent" /\ d = NoDict /\ kc = None /\ m5 = None /\ apc = "idle" /\ record = None /\ failed = "none"
\* the recorded M4 / M6 are the ones delivered
TNext == /\ \/ CtrlNext
            \/ CheckProofPadded(Recs[tid].m5sent)      \* open verdict: the branch the code took
            \/ SendM3(Rec4(Recs[tid].m4))
            \/ SendM5(Rec6(Recs[tid].m6))
         /\ UNCHANGED tid
TSpec == TInit /\ [][TNext]_tvars

Ended == pc \in {"Done", "Failed"}
NoFalsePairing     == (Ended /\ Recs[tid].observed = "ok") => Returned
NoM3AfterBadM2     == (Ended /\ Recs[tid].m3sent) => kc # None
NoM5AfterBadProof  == (Ended /\ Recs[tid].m5sent) => m5 # None
HonestPairs        == (Ended /\ Returned /\ m2 = H2 /\ m4 \in {H4, [H4 EXCEPT !.mfi = TRUE]} /\ m6 = H6) => Recs[tid].observed = "ok"
Known == m2 \in M2Space /\ m4 \in M4Space /\ InM6Space(m6)
=============================================================================
