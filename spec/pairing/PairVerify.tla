----------------------------- MODULE PairVerify -----------------------------
(* C01 - pair-verify yields session keys only for the authentic paired accessory.

   Symbolic (Dolev-Yao style) model of aiohomekit/protocol/__init__.py get_session_keys / resume_m3.
   Cryptography is ideal: messages are terms, a signature verifies only against the term it was
   made over, an AEAD opens only under the key and nonce it was sealed with, a corrupted term
   matches nothing.

   Principals and atoms
     accLT     long-term signing key whose public half is stored in the pairing record
     otherLT   any other signing key (attacker, another accessory)
     iosLT     the controller's long-term key
     AccId / OtherId   stored accessory identifier / any other
     eI        controller's ephemeral X25519 key of this exchange (fresh)
     eA        honest accessory's ephemeral key of this exchange
     eZ        an ephemeral key chosen by the attacker (or by a non-conformant accessory)
     eI0, eA0  ephemerals of an earlier honest exchange that was recorded
     S0 / Sx   shared secret of the previous session (resumption) / any other secret

   The environment picks the accessory's reply M2 from a product space described by a record `r`
   (which key is presented, under which key and nonce the sub-TLV is sealed, which identifier, who
   signed which transcript, which single field is corrupted, item layout on the wire, truncation,
   resumption fields) - honest, attacker-derivable and non-conformant replies alike.  Build(r) turns
   the description into the wire (a sequence of typed items holding terms); the controller's
   verification is written step by step, one action per check of the code, on the item dictionary
   the TLV decoder produces (adjacent items of one type are merged, a later item replaces an
   earlier one of the same type).  M4 is chosen from {ok, wrong step, error}. *)
EXTENDS Naturals, Sequences, FiniteSets, TLC

CONSTANTS WithResume      \* TRUE: the controller holds a resumable session (BLE) and sends the resume form of M1

\* ------------------------------------------------------------------ terms
Pub(e)        == <<"pub", e>>
DH(x, y)      == <<"dh", {x, y}>>                 \* commutative
Kdf(s, salt, info) == <<"kdf", s, salt, info>>
Sig(k, m)     == <<"sig", k, m>>
Aead(k, n, p) == <<"aead", k, n, p>>
Corrupt(t)    == <<"corrupt", t>>                 \* any single-bit / single-byte alteration
BadLen(w)     == <<"badlen", w>>                  \* a key of 31 / 33 bytes
Cat(a, b)     == <<"cat", a, b>>                  \* two adjacent items of one type merged by the decoder
None          == <<"none">>
Id(x)         == <<"id", x>>
Sid(x)        == <<"sid", x>>
Empty         == <<"empty">>
St(x)         == <<"st", x>>
Err(x)        == <<"err", x>>
Meth(x)       == <<"meth", x>>
Secret(x)     == <<"secret", x>>                  \* S0: shared secret of the previous session, Sx: any other

EncKey(s)   == Kdf(s, "Pair-Verify-Encrypt-Salt", "Pair-Verify-Encrypt-Info")
Open(k, n, c) == IF c[1] = "aead" THEN (IF c[2] = k /\ c[3] = n THEN <<"ok", c[4]>> ELSE <<"fail">>) ELSE <<"fail">>
SessionKeys(s) == [read  |-> Kdf(s, "Control-Salt", "Control-Read-Encryption-Key"),
                   write |-> Kdf(s, "Control-Salt", "Control-Write-Encryption-Key"),
                   event |-> Kdf(s, "Event-Salt", "Event-Read-Encryption-Key")]
ResumeSalt(pubv, sidv) == <<"salt", pubv, sidv>>
ResumeRespKey(s, pubv, sidv) == Kdf(s, ResumeSalt(pubv, sidv), "Pair-Resume-Response-Info")
ResumeReqKey(s, pubv, sidv)  == Kdf(s, ResumeSalt(pubv, sidv), "Pair-Resume-Request-Info")
ResumeSecret(s, pubv, sidv)  == Kdf(s, ResumeSalt(pubv, sidv), "Pair-Resume-Shared-Secret-Info")

\* ------------------------------------------------------------------ the reply space
Heads    == {<<"ok", "none">>, <<"wrong", "none">>, <<"ok", "auth">>}    \* (step number, error item)
\* values an Error item can carry: "auth" = 0x02 (what a conformant accessory answers to a proof it rejects), the other
\* codes of the HAP table (e01 .. e07), codes outside the table (e00, e08, e80, eff), the remaining single-bit
\* alterations of 0x02 (0x03, 0x00, 0x06 are e03, e00, e06; e0a, e12, e22, e42, e82), a zero-length value, a two-byte
\* value.  Whatever the value: a reply that carries an Error item ends the attempt with an error and without keys.
ErrVals  == {"auth", "e01", "e03", "e04", "e05", "e06", "e07", "e00", "e08", "e80", "eff",
             "e0a", "e12", "e22", "e42", "e82", "elen0", "e2b"}
PubCh    == {"absent", "eA", "eZ", "eA0", "short", "long"}
KeyCh    == {"I_A", "I_Z", "I0_A0", "junk"}          \* DH(eI,eA) / DH(eI,eZ) / DH(eI0,eA0) / unrelated
NonceCh  == {"PV-Msg02", "PV-Msg03"}
IdCh     == {"absent", "AccId", "OtherId"}
SignerCh == {"accLT", "otherLT"}
TrCh     == {"correct", "permuted", "otherId", "otherPK", "old", "mitm"}
LayoutCh == {"canon", "rev", "dupPubAdj", "forgedPubFirst", "forgedPubLast", "junkEncFirst"}
MethodCh == {"absent", "resume", "other"}
SidCh    == {"absent", "new"}
TagCh    == {"right", "wrongSecret", "oldPub", "otherSid", "reflect", "wrongNonce", "nonEmpty"}

Transcript(tr) ==
    CASE tr = "correct"  -> <<Pub("eA"), Id("AccId"), Pub("eI")>>
      [] tr = "permuted" -> <<Pub("eI"), Id("AccId"), Pub("eA")>>
      [] tr = "otherId"  -> <<Pub("eA"), Id("OtherId"), Pub("eI")>>
      [] tr = "otherPK"  -> <<Pub("eZ"), Id("AccId"), Pub("eI")>>
      [] tr = "old"      -> <<Pub("eA0"), Id("AccId"), Pub("eI0")>>      \* signed in the recorded exchange
      [] tr = "mitm"     -> <<Pub("eA"), Id("AccId"), Pub("eZ")>>        \* signed for an M1 the attacker sent

SigDefault == [sigp |-> FALSE, signer |-> "accLT", tr |-> "correct"]
SigSpace   == {SigDefault} \cup [sigp : {TRUE}, signer : SignerCh, tr : TrCh]
\* what sits in the EncryptedData slot: nothing, a sealed M2 sub-TLV, or a resumption tag
EncDefault == [enc |-> "absent", key |-> "I_A", nonce |-> "PV-Msg02", id |-> "AccId", sigp |-> FALSE,
               signer |-> "accLT", tr |-> "correct", tag |-> "right"]
EncSub == { [EncDefault EXCEPT !.enc = "sub", !.key = k, !.nonce = n, !.id = i, !.sigp = s.sigp, !.signer = s.signer, !.tr = s.tr]
            : k \in KeyCh, n \in NonceCh, i \in IdCh, s \in SigSpace }
EncTag == { [EncDefault EXCEPT !.enc = "tag", !.tag = t] : t \in TagCh }
HonestSub == [EncDefault EXCEPT !.enc = "sub", !.sigp = TRUE]
ForgedSub == [EncDefault EXCEPT !.enc = "sub", !.key = "I_Z", !.sigp = TRUE, !.signer = "otherLT", !.tr = "otherPK"]

ModDefault == [corrupt |-> "none", layout |-> "canon", cut |-> 0]
Mods == {ModDefault}
        \cup { [ModDefault EXCEPT !.corrupt = c] : c \in {"pub", "enc", "id", "sig"} }
        \cup { [ModDefault EXCEPT !.layout = l] : l \in LayoutCh \ {"canon"} }
        \cup { [ModDefault EXCEPT !.cut = c] : c \in 1..8 }
ResumeMods == {ModDefault} \cup { [ModDefault EXCEPT !.corrupt = c] : c \in {"enc", "sid"} }

Mk(h, p, e, m, meth, sid) ==
    [st |-> h[1], err |-> h[2], pub |-> p, enc |-> e.enc, key |-> e.key, nonce |-> e.nonce, id |-> e.id,
     sigp |-> e.sigp, signer |-> e.signer, tr |-> e.tr, tag |-> e.tag,
     corrupt |-> m.corrupt, layout |-> m.layout, cut |-> m.cut, method |-> meth, sid |-> sid]

\* ------------------------------------------------------------------ description -> wire
\* role: "own" = the field the description talks about, "forged" / "junk" = an extra item put on the wire
Item(t, v) == [t |-> t, v |-> v, role |-> "own"]
Extra(t, v, role) == [t |-> t, v |-> v, role |-> role]

PubTerm(r) ==
    \* a corrupted key is still 32 bytes: the key of an owner nobody knows
    IF r.corrupt = "pub" THEN Pub("unknown")
    ELSE CASE r.pub = "eA" -> Pub("eA") [] r.pub = "eZ" -> Pub("eZ") [] r.pub = "eA0" -> Pub("eA0")
           [] OTHER -> BadLen(r.pub)
KeyTerm(k) ==
    CASE k = "I_A"   -> EncKey(DH("eI", "eA"))
      [] k = "I_Z"   -> EncKey(DH("eI", "eZ"))
      [] k = "I0_A0" -> EncKey(DH("eI0", "eA0"))
      [] OTHER       -> <<"junk">>
IdTerm(r)  == IF r.id = "absent" THEN None ELSE IF r.corrupt = "id" THEN Corrupt(Id(r.id)) ELSE Id(r.id)
SigTerm(r) == IF ~r.sigp THEN None
              ELSE IF r.corrupt = "sig" THEN Corrupt(Sig(r.signer, Transcript(r.tr))) ELSE Sig(r.signer, Transcript(r.tr))
SidTerm(r) == IF r.corrupt = "sid" THEN Corrupt(Sid("new")) ELSE Sid("new")
TagTerm(r) ==
    CASE r.tag = "right"       -> Aead(ResumeRespKey(Secret("S0"), Pub("eI"), Sid("new")), "PR-Msg02", Empty)
      [] r.tag = "wrongSecret" -> Aead(ResumeRespKey(Secret("Sx"), Pub("eI"), Sid("new")), "PR-Msg02", Empty)
      [] r.tag = "oldPub"      -> Aead(ResumeRespKey(Secret("S0"), Pub("eI0"), Sid("new")), "PR-Msg02", Empty)
      [] r.tag = "otherSid"    -> Aead(ResumeRespKey(Secret("S0"), Pub("eI"), Sid("other")), "PR-Msg02", Empty)
      [] r.tag = "reflect"     -> Aead(ResumeReqKey(Secret("S0"), Pub("eI"), Sid("old")), "PR-Msg01", Empty)
      [] r.tag = "wrongNonce"  -> Aead(ResumeRespKey(Secret("S0"), Pub("eI"), Sid("new")), "PR-Msg01", Empty)
      [] r.tag = "nonEmpty"    -> Aead(ResumeRespKey(Secret("S0"), Pub("eI"), Sid("new")), "PR-Msg02", <<"data">>)
EncTerm(r) ==
    LET base == IF r.enc = "sub" THEN Aead(KeyTerm(r.key), r.nonce, [id |-> IdTerm(r), sig |-> SigTerm(r)])
                ELSE TagTerm(r)
    IN IF r.corrupt = "enc" THEN Corrupt(base) ELSE base

\* canonical order: State, Error, Method, SessionID, PublicKey, EncryptedData
Canon(r) ==
    \* "empty": a State item of length 0; "trailing": the right step number followed by another byte - neither is the
    \* one-byte step number M2 (only a State item that is *missing* is tolerated, see C04)
    <<Item("state", St(CASE r.st = "ok" -> "M2" [] r.st = "wrong" -> "M4" [] r.st = "empty" -> "zero-length" [] OTHER -> "M2+trailing"))>>
    \o (IF r.err # "none" THEN <<Item("error", Err(r.err))>> ELSE << >>)
    \o (IF r.method # "absent" THEN <<Item("method", Meth(r.method))>> ELSE << >>)
    \o (IF r.sid # "absent" THEN <<Item("sid", SidTerm(r))>> ELSE << >>)
    \o (IF r.pub # "absent" THEN <<Item("pub", PubTerm(r))>> ELSE << >>)
    \o (IF r.enc # "absent" THEN <<Item("enc", EncTerm(r))>> ELSE << >>)

Reverse(s) == [k \in 1..Len(s) |-> s[Len(s) + 1 - k]]
JunkEnc    == Extra("enc", Aead(<<"junk">>, "PV-Msg02", [id |-> None, sig |-> None]), "junk")
ForgedPub  == Extra("pub", Pub("eZ"), "forged")
Layout(r) ==
    LET c == Canon(r)
        pubs == SelectSeq(c, LAMBDA it : it.t = "pub")
        front == SelectSeq(c, LAMBDA it : it.t \in {"state", "error"})
        rest  == SelectSeq(c, LAMBDA it : it.t \notin {"state", "error"})
    IN CASE r.layout = "canon"          -> c
         [] r.layout = "rev"            -> Reverse(c)
         [] r.layout = "dupPubAdj"      -> front \o pubs \o rest                          \* PublicKey item twice in a row
         [] r.layout = "forgedPubFirst" -> <<ForgedPub>> \o c                             \* attacker's key, then the reply
         [] r.layout = "forgedPubLast"  -> c \o <<ForgedPub>>                             \* the reply, then attacker's key
         [] r.layout = "junkEncFirst"   -> <<JunkEnc>> \o c

\* truncation of the canonical wire: cut = 0 none; otherwise keep k = (cut-1) \div 2 whole items and,
\* when cut is even, the first bytes of the next item (which no TLV decoder can parse)
CutItems(r)   == (r.cut - 1) \div 2
CutPartial(r) == r.cut # 0 /\ r.cut % 2 = 0
Wire(r) == IF r.cut = 0 THEN Layout(r) ELSE SubSeq(Canon(r), 1, CutItems(r))
ValidCut(r) == r.cut = 0 \/ CutItems(r) < Len(Canon(r))           \* a strict prefix

SitePresent(r) ==
    CASE r.corrupt = "none" -> TRUE
      [] r.corrupt = "pub"  -> r.pub \in {"eA", "eZ", "eA0"}
      [] r.corrupt = "enc"  -> r.enc # "absent"
      [] r.corrupt = "id"   -> r.enc = "sub" /\ r.id # "absent"
      [] r.corrupt = "sig"  -> r.enc = "sub" /\ r.sigp
      [] r.corrupt = "sid"  -> r.sid # "absent"
LayoutApplies(r) ==
    CASE r.layout = "dupPubAdj" -> r.pub # "absent"
      [] OTHER -> TRUE

\* The reply space is a product of small component sets; it is never built as one set (Init and the
\* case export range over the components).
Valid(r) == SitePresent(r) /\ LayoutApplies(r) /\ ValidCut(r)
PubSpace  == IF WithResume THEN {"absent", "eA", "eZ"} ELSE PubCh
EncSpace  == IF WithResume THEN {EncDefault, HonestSub, ForgedSub} \cup EncTag ELSE {EncDefault} \cup EncSub
ModSpace  == IF WithResume THEN ResumeMods ELSE Mods
MethSpace == IF WithResume THEN MethodCh ELSE {"absent"}
SidSpace  == IF WithResume THEN SidCh ELSE {"absent"}
Honest ==    Mk(<<"ok", "none">>, "eA", HonestSub, ModDefault, "absent", "absent")
HonestResume == Mk(<<"ok", "none">>, "absent", [EncDefault EXCEPT !.enc = "tag"], ModDefault, "resume", "new")
\* the accessory answers M1 with an error: the Error item (any value) on its own or added to the honest reply
BareError == Mk(<<"ok", "auth">>, "absent", EncDefault, ModDefault, "absent", "absent")
ErrorSpace == { [Honest EXCEPT !.err = e] : e \in ErrVals } \cup { [BareError EXCEPT !.err = e] : e \in ErrVals }
\* otherwise honest replies whose State item has the wrong length
StateLenSpace == { [Honest EXCEPT !.st = x] : x \in {"empty", "trailing"} }
                 \cup (IF WithResume THEN { [HonestResume EXCEPT !.st = x] : x \in {"empty", "trailing"} } ELSE {})

\* membership test, field by field (cheap: used on recorded replies)
InSpace(r) ==
  \/ r \in StateLenSpace \/ r \in ErrorSpace
  \/
    /\ <<r.st, r.err>> \in Heads /\ r.pub \in PubSpace /\ r.method \in MethSpace /\ r.sid \in SidSpace
    /\ [enc |-> r.enc, key |-> r.key, nonce |-> r.nonce, id |-> r.id, sigp |-> r.sigp, signer |-> r.signer, tr |-> r.tr,
        tag |-> r.tag] \in EncSpace
    /\ [corrupt |-> r.corrupt, layout |-> r.layout, cut |-> r.cut] \in ModSpace
    /\ Valid(r)
\* empty / trailing: State item of length 0 / M4 + another byte; an error value: State M4 and an Error item with it
M4Space == {"ok", "wrong", "empty", "trailing"} \cup ErrVals


\* number of choices in which a description differs from the honest reply (near misses are exported in every tier)
B2N(b) == IF b THEN 1 ELSE 0
Dist(r) ==
    LET h == IF WithResume /\ r.method # "absent" THEN HonestResume ELSE Honest IN
    B2N(r.st # h.st) + B2N(r.err # h.err) + B2N(r.pub # h.pub) + B2N(r.enc # h.enc) + B2N(r.key # h.key)
    + B2N(r.nonce # h.nonce) + B2N(r.id # h.id) + B2N(r.sigp # h.sigp) + B2N(r.signer # h.signer) + B2N(r.tr # h.tr)
    + B2N(r.tag # h.tag) + B2N(r.corrupt # h.corrupt) + B2N(r.layout # h.layout) + B2N(r.cut # h.cut)
    + B2N(r.method # h.method) + B2N(r.sid # h.sid)

\* ------------------------------------------------------------------ the TLV decoder's dictionary
Types == {"state", "error", "method", "sid", "pub", "enc"}
RECURSIVE Fold(_, _, _)
Fold(w, k, acc) ==
    IF k > Len(w) THEN acc
    ELSE IF k > 1 /\ w[k - 1].t = w[k].t
         THEN Fold(w, k + 1, [acc EXCEPT ![w[k].t] = Cat(@, w[k].v)])
         ELSE Fold(w, k + 1, [acc EXCEPT ![w[k].t] = w[k].v])
Dict(w) == Fold(w, 1, [t \in Types |-> None])
Has(d, t) == d[t] # None

\* ------------------------------------------------------------------ the controller's checks (pure)
IsKey(v) == v[1] = "pub"
CtrlEncKey(d) == EncKey(DH("eI", d["pub"][2]))
Opened(d)     == Open(CtrlEncKey(d), "PV-Msg02", d["enc"])
Sub(d)        == Opened(d)[2]

ChkParse(r)   == ~CutPartial(r)
ChkState(d)   == Has(d, "state") => d["state"] = St("M2")
ChkError(d)   == ~Has(d, "error")
ResumeOK(d)   == /\ WithResume
                 /\ Has(d, "method") /\ d["method"] = Meth("resume")
                 /\ Has(d, "sid") /\ Has(d, "enc")
                 /\ Open(ResumeRespKey(Secret("S0"), Pub("eI"), d["sid"]), "PR-Msg02", d["enc"]) = <<"ok", Empty>>
ChkPresent(d) == Has(d, "pub") /\ Has(d, "enc")
ChkLength(d)  == IsKey(d["pub"])
ChkAead(d)    == Opened(d)[1] = "ok"
ChkInner(d)   == Sub(d).id # None /\ Sub(d).sig # None
ChkIdent(d)   == Sub(d).id = Id("AccId")
ChkSig(d)     == Sub(d).sig = Sig("accLT", <<d["pub"], Id("AccId"), Pub("eI")>>)

StagesM2 == <<"parse", "state", "error", "resume", "present", "length", "aead", "inner", "ident", "sig">>
\* result of the M2 processing: <<"fail", stage>> | <<"resumed">> | <<"m3">>
M2Result(r) ==
    LET d == Dict(Wire(r)) IN
    IF ~ChkParse(r)        THEN <<"fail", "parse">>
    ELSE IF ~ChkState(d)   THEN <<"fail", "state">>
    ELSE IF ~ChkError(d)   THEN <<"fail", "error">>
    ELSE IF ResumeOK(d)    THEN <<"resumed">>
    ELSE IF ~ChkPresent(d) THEN <<"fail", "present">>
    ELSE IF ~ChkLength(d)  THEN <<"fail", "length">>
    ELSE IF ~ChkAead(d)    THEN <<"fail", "aead">>
    ELSE IF ~ChkInner(d)   THEN <<"fail", "inner">>
    ELSE IF ~ChkIdent(d)   THEN <<"fail", "ident">>
    ELSE IF ~ChkSig(d)     THEN <<"fail", "sig">>
    ELSE <<"m3">>
Verdict(r, m4) ==
    LET m2 == M2Result(r) IN
    IF m2[1] = "fail" THEN [v |-> "fail", stage |-> m2[2], m3 |-> FALSE]
    ELSE IF m2[1] = "resumed" THEN [v |-> "ok", stage |-> "resumed", m3 |-> FALSE]
    ELSE IF m4 \in {"wrong", "empty", "trailing"} THEN [v |-> "fail", stage |-> "state4", m3 |-> TRUE]
    ELSE IF m4 \in ErrVals THEN [v |-> "fail", stage |-> "error4", m3 |-> TRUE]
    ELSE [v |-> "ok", stage |-> "full", m3 |-> TRUE]

\* ------------------------------------------------------------------ state machine
VARIABLES cpc,        \* controller: "M1sent", the stage being checked, "M3sent", "state4", "error4", "Done", "Failed"
          reply,      \* description of M2
          d,          \* item dictionary the decoder produced
          failed,     \* stage at which the attempt failed ("none")
          resumed,    \* session was resumed
          shared,     \* the controller's shared secret (None until derived)
          ckeys,      \* keys handed to the caller (None unless Done)
          m3,         \* the controller's proof
          m4,         \* the accessory's last message
          apc,        \* honest accessory: "idle", "accepted", "rejected"
          akeys
vars == <<cpc, reply, d, failed, resumed, shared, ckeys, m3, m4, apc, akeys>>

Init == /\ \/ \E h \in Heads, p \in PubSpace, e \in EncSpace, m \in ModSpace, meth \in MethSpace, sid \in SidSpace :
                 reply = Mk(h, p, e, m, meth, sid) /\ Valid(reply)
           \/ reply \in StateLenSpace
           \/ reply \in ErrorSpace
        /\ m4 = "none"
        /\ cpc = "M1sent" /\ d = [t \in Types |-> None] /\ failed = "none" /\ resumed = FALSE
        /\ shared = None /\ ckeys = None /\ m3 = None /\ apc = "idle" /\ akeys = None

Fail(stage) == /\ cpc' = "Failed" /\ failed' = stage
               /\ UNCHANGED <<reply, d, resumed, shared, ckeys, m3, m4, apc, akeys>>
Goto(next)  == /\ cpc' = next
               /\ UNCHANGED <<reply, d, failed, resumed, shared, ckeys, m3, m4, apc, akeys>>

ReceiveM2 ==            \* transport + TLV decoder
    /\ cpc = "M1sent"
    /\ IF ChkParse(reply)
       THEN /\ d' = Dict(Wire(reply)) /\ cpc' = "state"
            /\ UNCHANGED <<reply, failed, resumed, shared, ckeys, m3, m4, apc, akeys>>
       ELSE Fail("parse") /\ d' = d
CheckState   == cpc = "state"   /\ IF ChkState(d) THEN Goto("error") ELSE Fail("state")
CheckError   == cpc = "error"   /\ IF ChkError(d) THEN Goto("resume") ELSE Fail("error")
TryResume ==
    /\ cpc = "resume"
    /\ IF ResumeOK(d)
       THEN /\ cpc' = "Done" /\ resumed' = TRUE
            /\ shared' = ResumeSecret(Secret("S0"), Pub("eI"), d["sid"])
            /\ ckeys' = SessionKeys(ResumeSecret(Secret("S0"), Pub("eI"), d["sid"]))
            \* the conformant accessory that sealed this tag derives the same secret from what it received
            /\ apc' = "accepted" /\ akeys' = SessionKeys(ResumeSecret(Secret("S0"), Pub("eI"), Sid("new")))
            /\ UNCHANGED <<reply, d, failed, m3, m4>>
       ELSE Goto("present")
CheckPresent == cpc = "present" /\ IF ChkPresent(d) THEN Goto("length") ELSE Fail("present")
DeriveKey ==
    /\ cpc = "length"
    /\ IF ChkLength(d)
       THEN /\ shared' = DH("eI", d["pub"][2]) /\ cpc' = "aead"
            /\ UNCHANGED <<reply, d, failed, resumed, ckeys, m3, m4, apc, akeys>>
       ELSE Fail("length")
OpenAead     == cpc = "aead"    /\ IF ChkAead(d) THEN Goto("inner") ELSE Fail("aead")
CheckInner   == cpc = "inner"   /\ IF ChkInner(d) THEN Goto("ident") ELSE Fail("inner")
CheckIdent   == cpc = "ident"   /\ IF ChkIdent(d) THEN Goto("sig") ELSE Fail("ident")
CheckSig     == cpc = "sig"     /\ IF ChkSig(d) THEN Goto("sendM3") ELSE Fail("sig")
SendM3 ==
    /\ cpc = "sendM3"
    /\ m3' = Aead(EncKey(shared), "PV-Msg03",
                  [id |-> Id("iosId"), sig |-> Sig("iosLT", <<Pub("eI"), Id("iosId"), d["pub"]>>)])
    /\ cpc' = "M3sent"
    /\ UNCHANGED <<reply, d, failed, resumed, shared, ckeys, m4, apc, akeys>>
\* the conformant accessory (holder of eA) verifies the controller's proof
AccessoryM3 ==
    /\ cpc = "M3sent" /\ apc = "idle"
    /\ LET o == Open(EncKey(DH("eA", "eI")), "PV-Msg03", m3) IN
       IF o[1] = "ok" /\ o[2].id = Id("iosId") /\ o[2].sig = Sig("iosLT", <<Pub("eI"), Id("iosId"), Pub("eA")>>)
       THEN apc' = "accepted" /\ akeys' = SessionKeys(DH("eA", "eI"))
       ELSE apc' = "rejected" /\ akeys' = akeys
    /\ UNCHANGED <<cpc, reply, d, failed, resumed, shared, ckeys, m3, m4>>
ReceiveM4 ==            \* the reply to M3: honest, wrong step number, or an error
    /\ cpc = "M3sent" /\ apc # "idle"
    /\ m4' \in M4Space
    /\ cpc' = "state4"
    /\ UNCHANGED <<reply, d, failed, resumed, shared, ckeys, m3, apc, akeys>>
CheckM4State == cpc = "state4" /\ IF m4 \notin {"wrong", "empty", "trailing"} THEN Goto("error4") ELSE Fail("state4")
CheckM4Error ==
    /\ cpc = "error4"
    /\ IF m4 \notin ErrVals
       THEN /\ cpc' = "Done" /\ ckeys' = SessionKeys(shared)
            /\ UNCHANGED <<reply, d, failed, resumed, shared, m3, m4, apc, akeys>>
       ELSE Fail("error4")

Next == \/ ReceiveM2 \/ CheckState \/ CheckError \/ TryResume \/ CheckPresent \/ DeriveKey \/ OpenAead
        \/ CheckInner \/ CheckIdent \/ CheckSig \/ SendM3 \/ AccessoryM3 \/ ReceiveM4 \/ CheckM4State \/ CheckM4Error
Spec == Init /\ [][Next]_vars

\* ------------------------------------------------------------------ properties
\* the values the controller used (after the decoder's merging / replacing) are the authentic ones:
\* the presented key is some 32-byte key X, the sub-TLV was sealed under the key of (eI, X) with the M2
\* nonce and carries the stored identifier and a signature by the stored long-term key over (X, AccId, eI)
Authentic(dd) ==
    /\ IsKey(dd["pub"])
    /\ dd["enc"] = Aead(EncKey(DH("eI", dd["pub"][2])), "PV-Msg02",
                        [id |-> Id("AccId"), sig |-> Sig("accLT", <<dd["pub"], Id("AccId"), Pub("eI")>>)])
ResumeAuthentic(dd) ==
    dd["enc"] = Aead(ResumeRespKey(Secret("S0"), Pub("eI"), dd["sid"]), "PR-Msg02", Empty)

AuthOnlyAuthentic   == (cpc = "Done" /\ ~resumed) => Authentic(d)
ResumeOnlyWithSecret == (cpc = "Done" /\ resumed) => (WithResume /\ ResumeAuthentic(d))
FailureYieldsNoKeys == (cpc # "Done") => ckeys = None
NoSuccessAfterError == (cpc = "Done") => (~Has(d, "error") /\ (resumed \/ m4 = "ok"))

\* what a Dolev-Yao attacker (knows otherLT, eZ, everything sent in clear, the sealed blobs of this and of
\* the recorded exchange, the one signature the accessory makes for an M1 the attacker sends) can put
\* together *other than* relaying the honest reply unchanged
AttackerSig(r) == ~r.sigp \/ r.signer = "otherLT" \/ r.tr = "mitm"
Derivable(r) ==
    /\ r.enc = "sub" => \/ (r.key \in {"I_Z", "junk"} /\ AttackerSig(r))                         \* built by the attacker
                        \/ (r.key = "I0_A0" /\ r.nonce = "PV-Msg02" /\ r.id = "AccId" /\ r.sigp   \* recorded blob
                            /\ r.signer = "accLT" /\ r.tr = "old" /\ r.corrupt \notin {"id", "sig"})
                        \/ (r.key = "I_A" /\ r.nonce = "PV-Msg02" /\ r.id = "AccId" /\ r.sigp     \* blob in flight
                            /\ r.signer = "accLT" /\ r.tr = "correct" /\ r.corrupt \notin {"id", "sig"})
    /\ r.enc = "tag" => r.tag \in {"wrongSecret", "oldPub", "reflect"}
CarriesHonest(r) == /\ r.pub = "eA" /\ r.enc = "sub" /\ r.key = "I_A" /\ r.nonce = "PV-Msg02" /\ r.id = "AccId"
                    /\ r.sigp /\ r.signer = "accLT" /\ r.tr = "correct" /\ r.corrupt \notin {"pub", "enc", "id", "sig"}
NoForgeryAccepted == (cpc = "Done" /\ Derivable(reply)) => (~resumed /\ CarriesHonest(reply))

\* honest run: the conformant accessory accepts the controller's proof and both ends hold the same keys
KeysAgree ==
    (cpc = "Done" /\ reply \in {Honest, HonestResume}) => (apc = "accepted" /\ ckeys = akeys)
\* whenever the controller ends with keys after a full exchange with the holder of eA, that accessory accepted M3
ProofAccepted ==
    (cpc = "Done" /\ ~resumed /\ d["pub"] = Pub("eA")) => (apc = "accepted" /\ ckeys = akeys)

\* the pure verdict function used for the case export is the state machine
VerdictMatches ==
    cpc \in {"Done", "Failed"} =>
        LET v == Verdict(reply, m4) IN
        /\ (cpc = "Done") = (v.v = "ok")
        /\ cpc = "Failed" => failed = v.stage
        /\ cpc = "Done" => v.stage = (IF resumed THEN "resumed" ELSE "full")
        /\ (m3 # None) = v.m3
=============================================================================
