--------------------------- MODULE PairSetup_Cases ---------------------------
(* Spec -> code: reply sequences (M2, M4, M6) with the verdict of the specification.  Three families: every M2
   (M4, M6 honest - they are only delivered if the controller gets that far), every M4 after each M2 that passes
   the M2 checks, every M6 after honest M2 and M4.  RATE = 1: everything; RATE = n: near misses of the M6 family
   (at most two choices away from the honest M6) plus a seeded 1/n sample of it; the small families always whole. *)
EXTENDS PairSetup, Json, IOUtils, SequencesExt

Rate == atoi(IOEnv.RATE)
Seed == atoi(IOEnv.SEED)

B2N(b) == IF b THEN 1 ELSE 0
Dist6(r) == B2N(r.st # H6.st) + B2N(r.err # H6.err) + B2N(r.enc # H6.enc) + B2N(r.key # H6.key) + B2N(r.nonce # H6.nonce)
            + B2N(r.id # H6.id) + B2N(r.pk # H6.pk) + B2N(r.sigp # H6.sigp) + B2N(r.signer # H6.signer) + B2N(r.info # H6.info)
            + B2N(r.corrupt # H6.corrupt) + B2N(r.alter # H6.alter) + B2N(r.cut # H6.cut)

WireNames(w) == [k \in 1..Len(w) |-> w[k].t]
Case(fam, a, b, c, dist) ==
    LET v == Verdict(a, b, c) IN
    [family |-> fam, m2 |-> a, m4 |-> b, m6 |-> c, verdict |-> v.v, stage |-> v.stage, m3 |-> v.m3, m5 |-> v.m5, dist |-> dist,
     honest |-> (a = H2 /\ b \in {H4, [H4 EXCEPT !.mfi = TRUE]} /\ c = H6),
     wire2 |-> WireNames(Wire2(a)), wire4 |-> WireNames(Wire4(b)), wire6 |-> WireNames(Wire6(c)),
     partial |-> <<CutPartial(a), CutPartial(b), CutPartial(c)>>]

HeadSeq == SetToSeq(Heads)
EncSeq  == SetToSeq(EncSpace)
ModSeq  == SetToSeq(M6Mods)
Picked(hi, ei, mi) == Rate = 1 \/ (hi * 131 + ei * 7 + mi * 3 + Seed) % Rate = 0
Part6(hi) == { c \in { <<Mk6(HeadSeq[hi], EncSeq[ei], ModSeq[mi]), Picked(hi, ei, mi)>> : ei \in DOMAIN EncSeq, mi \in DOMAIN ModSeq } :
               Valid6(c[1]) /\ (c[2] \/ Dist6(c[1]) <= 2) }

ExportCases ==
    /\ TLCGet("stats").generated >= 0
    /\ ndJsonSerialize(IOEnv.CASES_OUT \o ".m2", SetToSeq({ Case("m2", a, H4, H6, 0) : a \in M2Space }))
    /\ ndJsonSerialize(IOEnv.CASES_OUT \o ".m4",
                       \* every M4 after the honest M2; the honest M4 (the accessory's own proof) after every M2 that passes M2
                       SetToSeq({ Case("m4", H2, b, H6, 0) : b \in M4Space }
                                \cup { Case("m4", a, H4, H6, 0) : a \in { x \in M2Space : R2(x)[1] = "pass" } }))
    /\ ndJsonSerialize(IOEnv.CASES_OUT \o ".m6-extra", SetToSeq({ Case("m6", H2, H4, r, Dist6(r)) : r \in Extra6 }))
    /\ \A hi \in DOMAIN HeadSeq :
          ndJsonSerialize(IOEnv.CASES_OUT \o ".m6-" \o ToString(hi),
                          SetToSeq({ Case("m6", H2, H4, c[1], Dist6(c[1])) : c \in Part6(hi) }))
=============================================================================
