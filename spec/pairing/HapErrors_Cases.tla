-------------------------- MODULE HapErrors_Cases --------------------------
(* Spec -> code: every (step, transport, reply) cell with the outcome classes the specification
   allows and the class the modelled algorithm ends in. *)
EXTENDS HapErrors, Json, IOUtils, SequencesExt

ModelOutcome(s, t, r) ==
    LET sn == IF Filters(s, t) THEN Prefix(Wire(r), 1, ExpectedTypes(s)) ELSE ToSet(Wire(r))
    IN  IF "state" \in sn /\ r.state # Expected(s) THEN "Invalid"
        ELSE IF "error" \in sn THEN ErrClass(s, r.error)
        ELSE IF Needed(s) \subseteq sn THEN "ok" ELSE "Invalid"

Cell(s, t, r) == [step |-> s, tr |-> t, state |-> r.state, error |-> r.error,
                  others |-> SetToSeq(r.others), retry |-> r.retry, wire |-> Wire(r),
                  allowed |-> SetToSeq(Allowed(s, r)), model |-> ModelOutcome(s, t, r)]

ExportCases ==
    /\ TLCGet("stats").generated >= 0
    /\ ndJsonSerialize(IOEnv.CASES_OUT,
          SetToSeq({ Cell(c[1], c[2], c[3]) :
                     c \in UNION { UNION { { <<s, t, r>> : r \in Reply(s) } : t \in Transports(s) } : s \in Steps } }))
=============================================================================
