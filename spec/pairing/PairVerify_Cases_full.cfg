SPECIFICATION Spec
CONSTANTS WithResume = FALSE
INVARIANT AuthOnlyAuthentic
INVARIANT ResumeOnlyWithSecret
INVARIANT FailureYieldsNoKeys
INVARIANT NoSuccessAfterError
INVARIANT NoForgeryAccepted
INVARIANT KeysAgree
INVARIANT ProofAccepted
INVARIANT VerdictMatches
POSTCONDITION ExportCases
CHECK_DEADLOCK FALSE
