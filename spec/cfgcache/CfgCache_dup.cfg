SPECIFICATION Spec
CONSTANTS
  Flavour = "ip"
  MaxV = 2
  InitVers = {1}
  InitCaches = {11}
  MaxGen = 1
  MaxTasks = 2
  Listeners = {1}
  OneShot = {}
  Regs = {"cfg"}
  ReplyKinds = {"ok"}
  UserOps = {}
  MonotoneDesc = TRUE
  Deviations = {}
INVARIANT DupFetchPossible
CHECK_DEADLOCK FALSE
