SPECIFICATION SimSpec
CONSTANTS
  Flavour = "coap"
  MaxV = 4
  InitVers = {1, 2}
  InitCaches = {0, 0, 11, 1, 12, 22}
  MaxGen = 3
  MaxTasks = 4
  Listeners = {1, 2, 3, 4}
  OneShot = {3, 4}
  Regs = {"cfg", "avail", "ev"}
  ReplyKinds = {"ok", "garbage"}
  UserOps = {"list", "pop0", "pop1", "restore"}
  MonotoneDesc = FALSE
  Deviations = {}
CHECK_DEADLOCK FALSE
