------------------------------- MODULE BleCfg -------------------------------
(* The BLE flavour of EXTCFG: how BlePairing keeps its accessory database, configuration number and cache entry
   coherent.  The algorithm differs from IP / CoAP (module CfgCache): every operation first runs
   _populate_accessories_and_characteristics, which compares the HELD number with the one of the latest
   advertisement (any difference, not only an increase) and re-reads the GATT database if they differ; the number
   passed to _process_config_changed is ignored.

   Code modelled: controller/ble/pairing.py  _async_description_update (+ AbstractPairing's: c# above the held one ->
   _process_config_changed task; _update_cached_state_num: a changed s# is written through), operation_lock (one
   operation at a time, FIFO), _process_config_changed / async_populate_accessories_state /
   list_accessories_and_characteristics -> _populate_accessories_and_characteristics (config_changed, the GATT
   database fetch, the label, _update_accessories_state_cache, _callback_and_save_config_changed), __init__
   (description rebuilt from the cache when a state number was cached); controller/abstract.py as in CfgCache.
   The Bluetooth side (connection, pair-verify, the many requests of the GATT database fetch, reading values,
   re-subscribing) is the subject of C07 / EXTBLE; here the fetch is ONE suspension: the accessory shows its
   database as of some moment during the fetch (FetchReply), the fetch returns later (FetchDone); nothing fails.

   The accessory is honest (c# = database version, never decreasing; the one-byte wrap is not considered);
   advertisements carry a c# it has had, in any order.  s# values are only there because the code writes a changed
   s# through to the cache.

   `out` as in CfgCache: <<kind, x, y, n>> with "cfgtask",c / "cfgend",c,ok / "fetch" (GATT database fetch started) /
   "notify",1,c / "nview",1,View / "ret_list",ok / "ret_pop",ok / "saved" / "dpoll" (_process_disconnected_events).

   Deviation "late_label" = the tree as it is: the database just fetched is labelled with description.config_num read
   AFTER the fetch.  An advertisement with a newer number that arrives while the fetch is under way makes the pairing
   file the OLD database under the NEW number - in memory and in the cache -, and since held == advertised from
   then on nothing re-reads it until the number changes again.  The module with Deviations = {} describes the
   repaired code (proposed_fixes/EXTCFG-2: the label is read before the fetch). *)
EXTENDS Integers, Sequences, FiniteSets, TLC

CONSTANTS MaxV, InitVers,
          InitCaches,    \* 0 = none, 10 * config_num + version
          StateNums,     \* s# values of advertisements
          MaxGen, MaxOps,
          UserOps,       \* subset of {"list", "pop0", "pop1"}
          MonotoneDesc,  \* TRUE: advertisements arrive in order
          Deviations     \* subset of {"late_label"}

VARIABLES accv, gen,
          pdesc, ds,     \* c# and s# of pairing.description (0: none)
          pcfg, pacc,    \* pairing.config_num (-1: none), database version of pairing.accessories (0: none)
          psn,           \* state_num kept in the accessories state (0: None)
          cache,         \* <<>> or <<[c, a, s]>>
          ops,           \* operations on the operation lock, FIFO; the head is running (suspended in the fetch):
                         \* [k, f (force_update), c (the number a "cfg" task was started for; only reported back),
                         \* ph ("new" | "fetch"), cc (config_changed), at (c# advertised when the fetch began),
                         \* r (0 | database the accessory showed)]
          out
vars == <<accv, gen, pdesc, ds, pcfg, pacc, psn, cache, ops, out>>

None == <<>>
Some(x) == <<x>>
If(c, S) == IF c THEN S ELSE {}
View(c, a) == 10 * (c + 1) + a
Op(k, f, c) == [k |-> k, f |-> f, c |-> c, ph |-> "new", cc |-> FALSE, at |-> 0, r |-> 0]
\* one more occurrence of effect <<k, x, y>>
Add(S, k, x, y) == IF \E o \in S : o[1] = k /\ o[2] = x /\ o[3] = y
                   THEN {IF o[1] = k /\ o[2] = x /\ o[3] = y THEN <<k, x, y, o[4] + 1>> ELSE o : o \in S}
                   ELSE S \cup {<<k, x, y, 1>>}
\* the operation h ends with result ok (c: the number its task was started for)
End(S, h, ok) == CASE h.k = "list" -> Add(S, "ret_list", ok, 0)
                   [] h.k = "pop"  -> Add(S, "ret_pop", ok, 0)
                   [] OTHER        -> Add(S, "cfgend", h.c, ok)

\* the operations at the head of the lock queue run, one after the other, until one suspends in the GATT database
\* fetch; pd, pc, pa: advertised number, held number, held database at that moment
RECURSIVE Run(_, _, _, _, _)
Run(os, o, pd, pc, pa) ==
    IF os = <<>> \/ os[1].ph = "fetch" THEN [ops |-> os, out |-> o]
    ELSE LET h  == os[1]
             cc == pd # 0 /\ pc # pd
         IN IF pa = 0 \/ cc
            THEN [ops |-> <<[h EXCEPT !.ph = "fetch", !.cc = cc, !.at = pd]>> \o Tail(os),
                  out |-> Add(o, "fetch", 0, 0)]
            ELSE \* nothing to re-read; force_update re-reads the values and writes the (unchanged) entry
                 Run(Tail(os), End(IF h.f THEN Add(o, "saved", 0, 0) ELSE o, h, 1), pd, pc, pa)

DbChange ==
    /\ accv < MaxV
    /\ accv' = accv + 1 /\ out' = {}
    /\ UNCHANGED <<gen, pdesc, ds, pcfg, pacc, psn, cache, ops>>

\* pairing._async_description_update(advertisement with c# c, s# s)
Desc(c, s) ==
    /\ c \in 1..accv
    /\ MonotoneDesc => (c >= pdesc /\ c >= pcfg)      \* never below a number shown before (in this run or an earlier one)
    /\ LET spawn == c > pcfg
           poll  == ~spawn /\ (pdesc = 0 \/ s # ds)
           wr    == pacc # 0 /\ psn # s
           os    == IF spawn THEN Append(ops, Op("cfg", FALSE, c)) ELSE ops
           r     == Run(os, If(spawn, {<<"cfgtask", c, 0, 1>>}) \cup If(poll, {<<"dpoll", 0, 0, 1>>}) \cup If(wr, {<<"saved", 0, 0, 1>>}),
                        c, pcfg, pacc)
       IN /\ spawn => Len(ops) < MaxOps
          /\ pdesc' = c /\ ds' = s
          /\ psn' = IF pacc # 0 THEN s ELSE psn
          /\ cache' = IF wr THEN Some([c |-> pcfg, a |-> pacc, s |-> s]) ELSE cache
          /\ ops' = r.ops /\ out' = r.out
    /\ UNCHANGED <<accv, gen, pcfg, pacc>>

\* the application's calls (a pairing that is used has been advertised: _ensure_connected finds the device first)
UserCall(k, f) ==
    /\ pdesc # 0 /\ Len(ops) < MaxOps
    /\ LET r == Run(Append(ops, Op(k, f, 0)), {}, pdesc, pcfg, pacc) IN ops' = r.ops /\ out' = r.out
    /\ UNCHANGED <<accv, gen, pdesc, ds, pcfg, pacc, psn, cache>>
UserList == "list" \in UserOps /\ UserCall("list", FALSE)
UserPop(f) == (IF f THEN "pop1" ELSE "pop0") \in UserOps /\ UserCall("pop", f)

\* the accessory shows the database it has now to the fetch that is under way
FetchReply ==
    /\ ops # <<>> /\ ops[1].ph = "fetch" /\ ops[1].r = 0
    /\ ops' = [ops EXCEPT ![1].r = accv] /\ out' = {}
    /\ UNCHANGED <<accv, gen, pdesc, ds, pcfg, pacc, psn, cache>>

\* the fetch returns.  The number the database is filed under: the one advertised when the fetch began or, in the
\* tree, the one advertised now
FetchDone ==
    /\ ops # <<>> /\ ops[1].ph = "fetch" /\ ops[1].r # 0
    /\ LET h     == ops[1]
           label == IF "late_label" \in Deviations THEN pdesc ELSE h.at
           o1    == Add({}, "saved", 0, 0)
           o2    == IF h.cc THEN Add(Add(o1, "notify", 1, label), "nview", 1, View(label, h.r)) ELSE o1
           r     == Run(Tail(ops), End(o2, h, 1), pdesc, label, h.r)
       IN /\ pacc' = h.r /\ pcfg' = label /\ psn' = 0
          /\ cache' = Some([c |-> label, a |-> h.r, s |-> 0])
          /\ ops' = r.ops /\ out' = r.out
    /\ UNCHANGED <<accv, gen, pdesc, ds>>

\* a new pairing object over what the cache kept; a cached state number makes it rebuild a description
Restart ==
    /\ gen < MaxGen
    /\ gen' = gen + 1 /\ ops' = <<>> /\ out' = {}
    /\ pcfg' = IF cache = None THEN -1 ELSE cache[1].c
    /\ pacc' = IF cache = None THEN 0 ELSE cache[1].a
    /\ psn' = IF cache = None THEN 0 ELSE cache[1].s
    /\ pdesc' = IF cache # None /\ cache[1].s # 0 THEN cache[1].c ELSE 0
    /\ ds' = IF cache = None THEN 0 ELSE cache[1].s
    /\ UNCHANGED <<accv, cache>>

Init == /\ accv \in InitVers /\ gen = 1 /\ pdesc = 0 /\ ds = 0 /\ psn = 0 /\ ops = <<>> /\ out = {}
        /\ \E x \in InitCaches : cache = IF x = 0 THEN None ELSE Some([c |-> x \div 10, a |-> x % 10, s |-> 0])
        /\ cache # None => (cache[1].a <= accv /\ cache[1].c <= cache[1].a /\ cache[1].c >= 1)
        /\ pcfg = IF cache = None THEN -1 ELSE cache[1].c
        /\ pacc = IF cache = None THEN 0 ELSE cache[1].a

Next == \/ DbChange \/ FetchReply \/ FetchDone \/ Restart \/ UserList
        \/ \E c \in 1..MaxV, s \in StateNums : Desc(c, s)
        \/ \E f \in BOOLEAN : UserPop(f)
Spec == Init /\ [][Next]_vars

SimDesc == \E c \in {RandomElement(1..accv)}, s \in {RandomElement(StateNums)} : Desc(c, s)
SimDescCur == \E s \in {RandomElement(StateNums)} : Desc(accv, s)
SimPop == \E f \in {RandomElement(BOOLEAN)} : UserPop(f)
SimNext == DbChange \/ FetchReply \/ FetchDone \/ Restart \/ UserList \/ SimDesc \/ SimDescCur \/ SimPop
SimSpec == Init /\ [][SimNext]_vars

\* ------------------------------------------------------------------ properties
TypeOK == /\ accv \in 1..MaxV /\ gen \in 1..MaxGen /\ pdesc \in 0..MaxV /\ ds \in {0} \cup StateNums
          /\ pcfg \in {-1} \cup 1..MaxV /\ pacc \in 0..MaxV /\ psn \in {0} \cup StateNums
          /\ Len(ops) <= MaxOps
          /\ \A i \in 1..Len(ops) : (ops[i].ph = "fetch") = (i = 1)         \* settled: the head is in its fetch
          /\ pdesc <= accv /\ pcfg <= accv /\ pacc <= accv
\* P1  no stale database is ever kept under a newer number, in the pairing or in the cache
LabelNeverNewerThanData == /\ pacc # 0 => pacc >= pcfg
                           /\ cache # None => cache[1].a >= cache[1].c
\* P2  write-through
WriteThrough == cache = IF pacc = 0 THEN None ELSE Some([c |-> pcfg, a |-> pacc, s |-> psn])
\* P3  when no operation is left the pairing has caught up with the number it was shown (advertisements in order;
\*     otherwise the next operation catches up) ...
CaughtUp == (MonotoneDesc /\ ops = <<>> /\ pdesc # 0) => pcfg >= pdesc
\*     ... and whenever it holds the accessory's final number it holds the final database, in memory and in the cache
SeenFinalHoldsFinal == /\ (ops = <<>> /\ pcfg = accv) => (pacc = accv /\ cache # None /\ cache[1].a = accv /\ cache[1].c = accv)
                       /\ (MonotoneDesc /\ ops = <<>> /\ pdesc = accv) => pcfg = accv
\* P4  listeners are told the number the pairing now holds and see the new state
NotifyCurrent == \A o \in out : /\ o[1] = "notify" => (o[3] = pcfg /\ o[4] = 1)
                                /\ o[1] = "nview" => (o[3] = View(pcfg, pacc) /\ o[4] = 1)
\* P5  the database is never rolled back; a description at or below the held number starts no task
NoDataRollback == [][gen' = gen => pacc' >= pacc]_vars
OnlyHigherSpawns == [][(\E o \in out' : o[1] = "cfgtask") => pdesc' > pcfg]_vars
\* P6  a restart restores exactly what was saved last and fetches nothing
RestartRestores == [][gen' # gen => (cache' = cache /\ WriteThrough' /\ out' = {} /\ ops' = <<>>)]_vars
=============================================================================
