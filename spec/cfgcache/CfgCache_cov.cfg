SPECIFICATION Spec
CONSTANTS
  Flavour = "ip"
  MaxV = 2
  InitVers = {1}
  InitCaches = {0, 11}
  MaxGen = 2
  MaxTasks = 2
  Listeners = {3}
  OneShot = {3}
  Regs = {"cfg", "avail"}
  ReplyKinds = {"ok", "garbage"}
  UserOps = {"list", "pop0", "pop1", "restore"}
  MonotoneDesc = FALSE
  Deviations = {}
INVARIANT TypeOK
INVARIANT LabelNeverNewerThanData
INVARIANT WriteThrough
INVARIANT CaughtUp
INVARIANT SeenFinalHoldsFinal
INVARIANT NotifyCurrent
INVARIANT OneShotOnce
PROPERTY NotifyExactlyRegistered
PROPERTY FailsCleanly
PROPERTY ConnectedCallProceeds
PROPERTY OnlyHigherSpawns
PROPERTY NoDataRollback
PROPERTY NoLabelRollback
PROPERTY RestartRestores
PROPERTY OnlyRegisteredCalled
CHECK_DEADLOCK FALSE
