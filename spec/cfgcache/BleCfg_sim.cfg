SPECIFICATION SimSpec
CONSTANTS
  MaxV = 4
  InitVers = {1, 2}
  InitCaches = {0, 11, 12, 22}
  StateNums = {1, 2}
  MaxGen = 3
  MaxOps = 4
  UserOps = {"list", "pop0", "pop1"}
  MonotoneDesc = FALSE
  Deviations = {}
CHECK_DEADLOCK FALSE
