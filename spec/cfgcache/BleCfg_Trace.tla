----------------------------- MODULE BleCfg_Trace -----------------------------
(* Code -> spec for the BLE flavour.  Executions of the real BlePairing (created by BleController.load_pairing, fed by
   BleController._device_detected with advertisement bytes; the Bluetooth side below the configuration logic replaced
   by a subclass whose GATT database fetch is one suspension the driver resolves: harness/cfgcache_driver.py,
   BleWorld) are accepted iff they are behaviours of BleCfg.  One event per stimulus: the stimulus, `out` (what
   became visible while the loop settled, with multiplicities), `saves` (the cache entry after each write of the
   step) and `obs` (description, config_num, database version, cached state number, cache entry as a restart would
   read it, operations holding / waiting for the operation lock, the fetch under way).  Conventions as in
   CfgCache_Trace / harness/tracecheck.py. *)
EXTENDS BleCfg, Json, IOUtils, TLCExt

Traces == ndJsonDeserialize(IOEnv.TRACE_FILE)

VARIABLES tid, l, phase, pre
tvars == <<vars, tid, l, phase, pre>>

T == Traces[tid]
Ev == T.events
HasEv == l <= Len(Ev)
E == Ev[l]
ToSet(seq) == {seq[i] : i \in 1..Len(seq)}

TInit == /\ tid \in 1..Len(Traces)
         /\ l = 1 /\ phase = "stim" /\ pre = -1
         /\ accv = T.accv0 /\ gen = 1 /\ pdesc = 0 /\ ds = 0 /\ psn = 0 /\ ops = <<>> /\ out = {}
         /\ cache = IF T.cache0 = 0 THEN None ELSE Some([c |-> T.cache0 \div 10, a |-> T.cache0 % 10, s |-> 0])
         /\ pcfg = IF cache = None THEN -1 ELSE cache[1].c
         /\ pacc = IF cache = None THEN 0 ELSE cache[1].a

Noop == out' = {} /\ UNCHANGED <<accv, gen, pdesc, ds, pcfg, pacc, psn, cache, ops>>

Stim == /\ phase = "stim" /\ HasEv
        /\ CASE E.ev = "db"      -> DbChange
             [] E.ev = "desc"    -> Desc(E.c, E.s)
             [] E.ev = "freply"  -> FetchReply
             [] E.ev = "fdone"   -> FetchDone
             [] E.ev = "list"    -> UserList
             [] E.ev = "pop"     -> UserPop(E.force)
             [] E.ev = "restart" -> Restart
             [] E.ev = "end"     -> ops = <<>> /\ Noop
        /\ phase' = "check" /\ pre' = pcfg /\ UNCHANGED <<tid, l>>

ObsOK(o) == /\ o.gen = gen /\ o.pdesc = pdesc /\ o.ds = ds /\ o.pcfg = pcfg /\ o.pacc = pacc /\ o.psn = psn
            /\ o.cache = cache
            /\ o.nops = Len(ops) /\ o.fetching = (IF ops # <<>> THEN 1 ELSE 0)
            /\ o.replied = (IF ops # <<>> /\ ops[1].r # 0 THEN 1 ELSE 0)
SavesOK(s) == /\ (s # <<>>) = (\E o \in out : o[1] = "saved")
              /\ \A i \in 1..Len(s) : s[i].a = pacc /\ s[i].c \in {pre, pcfg}
              /\ s # <<>> => (cache # None /\ s[Len(s)].c = cache[1].c /\ s[Len(s)].a = cache[1].a)
\* how often the (unchanged) entry is rewritten in a step is not pinned
Sans(S) == {o \in S : o[1] # "saved"}
Check == /\ phase = "check"
         /\ \A i, j \in 1..Len(E.out) : i # j => E.out[i] # E.out[j]
         /\ Sans(ToSet(E.out)) = Sans(out)
         /\ (\E o \in ToSet(E.out) : o[1] = "saved") = (\E o \in out : o[1] = "saved")
         /\ SavesOK(E.saves)
         /\ ObsOK(E.obs)
         /\ phase' = "stim" /\ l' = l + 1 /\ UNCHANGED <<vars, tid, pre>>

TNext == Stim \/ Check
TSpec == TInit /\ [][TNext]_tvars

Progress == TLCSet(tid, IF TLCGet(tid) < l THEN l ELSE TLCGet(tid))
TConstraint == Progress
ASSUME \A i \in 1..Len(Traces) : TLCSet(i, 0)
Accepted ==
    /\ TLCGet("stats").generated >= 0
    /\ \A i \in 1..Len(Traces) :
          IF TLCGet(i) = Len(Traces[i].events) + 1 THEN TRUE
          ELSE PrintT(<<"REJECTED", i, TLCGet(i)>>)
DbgL == CHOOSE n \in 0..100000 : ToString(n) = IOEnv.DBG_L
DebugNotReached == l < DbgL
DebugExpected == ~(l = DbgL /\ phase = "check")
=============================================================================
