SPECIFICATION Spec
CONSTANTS
  Flavour = "ip"
  MaxV = 4
  InitVers = {1, 2}
  InitCaches = {0, 11, 1, 12, 22}
  MaxGen = 2
  MaxTasks = 4
  Listeners = {1}
  OneShot = {}
  Regs = {"cfg"}
  ReplyKinds = {"ok", "garbage"}
  UserOps = {"list", "pop0", "pop1", "restore"}
  MonotoneDesc = FALSE
  Deviations = {}
INVARIANT TypeOK
INVARIANT LabelNeverNewerThanData
INVARIANT WriteThrough
INVARIANT CaughtUp
INVARIANT SeenFinalHoldsFinal
INVARIANT NotifyCurrent
INVARIANT OneShotOnce
PROPERTY NotifyExactlyRegistered
PROPERTY FailsCleanly
PROPERTY ConnectedCallProceeds
PROPERTY OnlyHigherSpawns
PROPERTY NoDataRollback
PROPERTY NoLabelRollback
PROPERTY RestartRestores
PROPERTY OnlyRegisteredCalled
CHECK_DEADLOCK FALSE
