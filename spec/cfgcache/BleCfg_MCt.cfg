SPECIFICATION Spec
CONSTANTS
  MaxV = 4
  InitVers = {1, 2}
  InitCaches = {0, 11, 12, 22}
  StateNums = {1, 2}
  MaxGen = 3
  MaxOps = 4
  UserOps = {"list", "pop0", "pop1"}
  MonotoneDesc = FALSE
  Deviations = {}
INVARIANT TypeOK
INVARIANT LabelNeverNewerThanData
INVARIANT WriteThrough
INVARIANT CaughtUp
INVARIANT SeenFinalHoldsFinal
INVARIANT NotifyCurrent
PROPERTY NoDataRollback
PROPERTY OnlyHigherSpawns
PROPERTY RestartRestores
CHECK_DEADLOCK FALSE
