SPECIFICATION Spec
CONSTANTS
  Flavour = "ip"
  MaxV = 2
  InitVers = {1}
  InitCaches = {0}
  MaxGen = 1
  MaxTasks = 1
  Listeners = {1, 3}
  OneShot = {3}
  Regs = {"cfg"}
  ReplyKinds = {"ok"}
  UserOps = {}
  MonotoneDesc = TRUE
  Deviations = {"live_iter"}
INVARIANT TypeOK
INVARIANT LabelNeverNewerThanData
INVARIANT WriteThrough
INVARIANT CaughtUp
INVARIANT SeenFinalHoldsFinal
INVARIANT NotifyCurrent
INVARIANT OneShotOnce
PROPERTY NotifyExactlyRegistered
PROPERTY FailsCleanly
PROPERTY ConnectedCallProceeds
PROPERTY OnlyHigherSpawns
PROPERTY NoDataRollback
PROPERTY NoLabelRollback
PROPERTY RestartRestores
PROPERTY OnlyRegisteredCalled
CHECK_DEADLOCK FALSE
