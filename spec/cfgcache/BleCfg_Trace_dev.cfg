SPECIFICATION TSpec
CONSTANTS
  MaxV = 6
  InitVers = {1}
  InitCaches = {0}
  StateNums = {1, 2, 3}
  MaxGen = 4
  MaxOps = 16
  UserOps = {"list", "pop0", "pop1"}
  MonotoneDesc = FALSE
  Deviations = {"late_label"}
CONSTRAINT TConstraint
INVARIANT NotifyCurrent
POSTCONDITION Accepted
CHECK_DEADLOCK FALSE
