SPECIFICATION Spec
CONSTANTS
  MaxV = 3
  InitVers = {1}
  InitCaches = {11}
  StateNums = {1}
  MaxGen = 1
  MaxOps = 2
  UserOps = {}
  MonotoneDesc = FALSE
  Deviations = {"late_label"}
INVARIANT TypeOK
INVARIANT LabelNeverNewerThanData
INVARIANT WriteThrough
INVARIANT CaughtUp
INVARIANT SeenFinalHoldsFinal
INVARIANT NotifyCurrent
PROPERTY NoDataRollback
PROPERTY OnlyHigherSpawns
PROPERTY RestartRestores
CHECK_DEADLOCK FALSE
