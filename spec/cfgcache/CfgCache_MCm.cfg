SPECIFICATION Spec
CONSTANTS
  Flavour = "ip"
  MaxV = 3
  InitVers = {1}
  InitCaches = {0, 11, 1}
  MaxGen = 1
  MaxTasks = 3
  Listeners = {1}
  OneShot = {}
  Regs = {"cfg"}
  ReplyKinds = {"ok", "garbage"}
  UserOps = {"list", "pop0", "pop1", "restore"}
  MonotoneDesc = TRUE
  Deviations = {}
INVARIANT TypeOK
INVARIANT LabelNeverNewerThanData
INVARIANT WriteThrough
INVARIANT CaughtUp
INVARIANT SeenFinalHoldsFinal
INVARIANT NotifyCurrent
INVARIANT OneShotOnce
PROPERTY NotifyExactlyRegistered
PROPERTY FailsCleanly
PROPERTY ConnectedCallProceeds
PROPERTY OnlyHigherSpawns
PROPERTY NoDataRollback
PROPERTY NoLabelRollback
PROPERTY RestartRestores
PROPERTY OnlyRegisteredCalled
CHECK_DEADLOCK FALSE
