SPECIFICATION TSpec
CONSTANTS
  Flavour = "coap"
  MaxV = 6
  InitVers = {1}
  InitCaches = {0}
  MaxGen = 4
  MaxTasks = 16
  Listeners = {1, 2, 3, 4}
  OneShot = {3, 4}
  Regs = {"cfg", "avail", "ev"}
  ReplyKinds = {"ok", "garbage"}
  UserOps = {"list", "pop0", "pop1", "restore"}
  MonotoneDesc = FALSE
  Deviations = {}
CONSTRAINT TConstraint
INVARIANT LabelNeverNewerThanData
INVARIANT SeenFinalHoldsFinal
INVARIANT NotifyCurrent
INVARIANT OneShotOnce
POSTCONDITION Accepted
CHECK_DEADLOCK FALSE
