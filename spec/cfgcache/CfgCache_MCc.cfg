SPECIFICATION Spec
CONSTANTS
  Flavour = "coap"
  MaxV = 2
  InitVers = {1}
  InitCaches = {0, 11}
  MaxGen = 1
  MaxTasks = 2
  Listeners = {1, 3}
  OneShot = {3}
  Regs = {"cfg", "avail", "ev"}
  ReplyKinds = {"ok"}
  UserOps = {"list"}
  MonotoneDesc = FALSE
  Deviations = {}
INVARIANT TypeOK
INVARIANT LabelNeverNewerThanData
INVARIANT WriteThrough
INVARIANT CaughtUp
INVARIANT SeenFinalHoldsFinal
INVARIANT NotifyCurrent
INVARIANT OneShotOnce
PROPERTY NotifyExactlyRegistered
PROPERTY FailsCleanly
PROPERTY ConnectedCallProceeds
PROPERTY OnlyHigherSpawns
PROPERTY NoDataRollback
PROPERTY NoLabelRollback
PROPERTY RestartRestores
PROPERTY OnlyRegisteredCalled
CHECK_DEADLOCK FALSE
