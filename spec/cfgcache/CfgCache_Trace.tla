---------------------------- MODULE CfgCache_Trace ----------------------------
(* Code -> spec.  Executions of the real IpPairing (IpPairing / ZeroconfPairing / AbstractPairing unchanged, created by
   IpController.load_pairing over a real memory or file characteristic cache; only the transport is a stand-in moved
   by the driver, harness/cfgcache_driver.py) are accepted iff they are behaviours of CfgCache.  The driver applies
   one stimulus, lets the loop run until nothing is ready, and logs ONE event: the stimulus with its parameters,
   `out` - everything that became visible while the loop settled, with multiplicities (config-change tasks started /
   ended, requests handed to the connection, reconnect_soon, every listener call with its argument and the
   (config_num, database) the listener saw on the pairing at that moment, API calls returning / raising, cache
   written) -, `saves` - what a restart would have read from the cache after each write of the step - and `obs` -
   what is visible afterwards (connection, description, config_num, database version, cache entry as a restart
   would read it, calls waiting / requests outstanding, the listeners in the three registries).

   Each event is consumed in two steps: the specification takes the step named by the stimulus (phase "check" then
   holds what the specification expects), then `out`, `saves` and `obs` are compared.  A trace that is not consumed
   completely is REJECTED (see harness/tracecheck.py).

   One JSON object per line: {"cache0", "accv0", "events": [...]}. *)
EXTENDS CfgCache, Json, IOUtils, TLCExt

Traces == ndJsonDeserialize(IOEnv.TRACE_FILE)

VARIABLES tid, l, phase, pre
tvars == <<vars, tid, l, phase, pre>>

T == Traces[tid]
Ev == T.events
HasEv == l <= Len(Ev)
E == Ev[l]
ToSet(seq) == {seq[i] : i \in 1..Len(seq)}

TInit == /\ tid \in 1..Len(Traces)
         /\ l = 1 /\ phase = "stim" /\ pre = -1
         /\ accv = T.accv0 /\ gen = 1 /\ up = FALSE /\ pdesc = 0 /\ w = <<>> /\ q = <<>> /\ stale = FALSE
         /\ lst = [r \in AllRegs |-> {}]
         /\ cache = IF T.cache0 = 0 THEN None ELSE Some([c |-> T.cache0 \div 10, a |-> T.cache0 % 10])
         /\ pcfg = IF cache = None THEN -1 ELSE cache[1].c
         /\ pacc = IF cache = None THEN 0 ELSE cache[1].a
         /\ out = {}

Noop == out' = {} /\ UNCHANGED <<accv, gen, up, pdesc, pcfg, pacc, cache, w, q, lst, stale>>

Stim == /\ phase = "stim" /\ HasEv
        /\ CASE E.ev = "db"       -> DbChange
             [] E.ev = "desc"     -> Desc(E.c)
             [] E.ev = "linkup"   -> LinkUp
             [] E.ev = "linkdown" -> LinkDown
             [] E.ev = "tick"     -> IF w # <<>> THEN Tick ELSE Noop       \* > 10 s pass
             [] E.ev = "reply"    -> Reply(E.kind)
             [] E.ev = "deliver"  -> Deliver
             [] E.ev = "list"     -> UserList
             [] E.ev = "pop"      -> UserPop(E.force)
             [] E.ev = "restore"  -> UserRestore(E.v)
             [] E.ev = "reg"      -> Register(E.reg, E.i)
             [] E.ev = "unreg"    -> Unregister(E.reg, E.i)
             [] E.ev = "restart"  -> Restart
             [] E.ev = "end"      -> /\ w = <<>> /\ q = <<>>               \* nothing is left in flight
                                     /\ Noop
        /\ phase' = "check" /\ pre' = pcfg /\ UNCHANGED <<tid, l>>

ObsOK(o) == /\ o.gen = gen /\ o.up = up /\ o.pdesc = pdesc /\ o.pcfg = pcfg /\ o.pacc = pacc
            /\ o.cache = cache
            /\ o.nw = Len(w) /\ o.nq = Len(q) /\ o.replied = (IF q # <<>> /\ q[1].r # 0 THEN 1 ELSE 0)
            /\ \A r \in AllRegs : ToSet(o.lst[r]) = lst[r] /\ Len(o.lst[r]) = Cardinality(lst[r])
\* every write of the step left a coherent entry - the database the pairing ends up with, under the number it held
\* before or holds now -, the last one what the specification has; a step without "saved" wrote nothing
SavesOK(s) == /\ (s # <<>>) = (O("saved", 0, 0, 1) \in out)
              /\ \A i \in 1..Len(s) : s[i].a = pacc /\ s[i].c \in {pre, pcfg} \cup (IF pre = -1 THEN {0} ELSE {})
              /\ s # <<>> => Some([c |-> s[Len(s)].c, a |-> s[Len(s)].a]) = cache
Check == /\ phase = "check"
         /\ \A i, j \in 1..Len(E.out) : i # j => E.out[i] # E.out[j]
         /\ ToSet(E.out) = out
         /\ SavesOK(E.saves)
         /\ ObsOK(E.obs)
         /\ phase' = "stim" /\ l' = l + 1 /\ UNCHANGED <<vars, tid, pre>>

TNext == Stim \/ Check
TSpec == TInit /\ [][TNext]_tvars

Progress == TLCSet(tid, IF TLCGet(tid) < l THEN l ELSE TLCGet(tid))
TConstraint == Progress
ASSUME \A i \in 1..Len(Traces) : TLCSet(i, 0)
Accepted ==
    /\ TLCGet("stats").generated >= 0
    /\ \A i \in 1..Len(Traces) :
          IF TLCGet(i) = Len(Traces[i].events) + 1 THEN TRUE
          ELSE PrintT(<<"REJECTED", i, TLCGet(i)>>)
DbgL == CHOOSE n \in 0..100000 : ToString(n) = IOEnv.DBG_L
DebugNotReached == l < DbgL
\* the state in which the specification has taken the step of event DbgL (what it expects to be observed)
DebugExpected == ~(l = DbgL /\ phase = "check")
=============================================================================
